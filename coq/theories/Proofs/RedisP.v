(* Lemmas about the sequential model of the Redis peer store
   (Model/RedisStore.v): key names, commands, refinement of the specification
   (C01), expiry (C05) and the exported totals (C17). *)
From Chihaya Require Import Model.History.
From Coq Require Import ZifyBool ZifyNat.
Open Scope Z_scope.

(* ================================================================== A. key names *)

Lemma hex_digit_inj a b : 0 <= a < 16 → 0 <= b < 16 → hex_digit a = hex_digit b → a = b.
Proof. unfold hex_digit. intros Ha Hb. destruct (a <? 10) eqn:Ea, (b <? 10) eqn:Eb; lia. Qed.

Lemma hex_byte_inj x y :
  0 <= x < 256 → 0 <= y < 256 →
  hex_digit (x / 16) = hex_digit (y / 16) → hex_digit (x mod 16) = hex_digit (y mod 16) → x = y.
Proof.
  intros Hx Hy H1 H2.
  apply hex_digit_inj in H1; [|Z.div_mod_to_equations; lia..].
  apply hex_digit_inj in H2; [|Z.div_mod_to_equations; lia..].
  Z.div_mod_to_equations; lia.
Qed.

Lemma hex_cons x b : hex (x :: b) = hex_digit (x / 16) :: hex_digit (x mod 16) :: hex b.
Proof. reflexivity. Qed.

Lemma hex_length b : length (hex b) = (2 * length b)%nat.
Proof. induction b as [|x b IH]; [done|]. rewrite hex_cons. cbn [length]. lia. Qed.

Lemma wf_bytes_cons x l : wf_bytes (x :: l) = true ↔ 0 <= x < 256 ∧ wf_bytes l = true.
Proof. unfold wf_bytes. cbn [forallb]. rewrite andb_true_iff, is_byte_iff. done. Qed.

(* injective on well-formed byte strings (the lengths are forced to agree) *)
Lemma hex_inj b b' : wf_bytes b = true → wf_bytes b' = true → hex b = hex b' → b = b'.
Proof.
  revert b'. induction b as [|x b IH]; intros [|y b'] Hb Hb' He; try done.
  rewrite !hex_cons in He. injection He as H1 H2 H3.
  apply wf_bytes_cons in Hb as [Hx Hb]. apply wf_bytes_cons in Hb' as [Hy Hb'].
  f_equal; [by apply hex_byte_inj | by apply IH].
Qed.

Lemma hex_inj_len b b' :
  length b = length b' → wf_bytes b = true → wf_bytes b' = true → hex b = hex b' → b = b'.
Proof. intros _. apply hex_inj. Qed.

Lemma k_group_eq v6 : k_group v6 = [73; 80; 118; if v6 then 54 else 52].
Proof. by destruct v6. Qed.

Lemma k_swarm_eq v6 s ih :
  k_swarm v6 s ih = 73 :: 80 :: 118 :: (if v6 then 54 else 52) :: 95 :: (if s then 83 else 76) :: 95 :: hex ih.
Proof. by destruct v6, s. Qed.

Lemma k_swarm_inj v6 s ih v6' s' ih' :
  ih_wf ih → ih_wf ih' → k_swarm v6 s ih = k_swarm v6' s' ih' → v6 = v6' ∧ s = s' ∧ ih = ih'.
Proof.
  intros [_ Hw] [_ Hw']. rewrite !k_swarm_eq. intros [= H1 H2 H3].
  split_and!.
  - by destruct v6, v6'.
  - by destruct s, s'.
  - by apply hex_inj.
Qed.

Lemma k_swarm_ne_group v6 s ih v6' : k_swarm v6 s ih ≠ k_group v6'.
Proof. rewrite k_swarm_eq, k_group_eq. discriminate. Qed.

Lemma k_group_inj v6 v6' : k_group v6 = k_group v6' → v6 = v6'.
Proof. by destruct v6, v6'. Qed.

Lemma key_is_seeder_swarm v6 s ih : key_is_seeder (k_swarm v6 s ih) = s.
Proof. rewrite k_swarm_eq. by destruct s. Qed.

(* the six counter keys are pairwise distinct *)
Lemma k_scount_inj v6 v6' : k_scount v6 = k_scount v6' → v6 = v6'.
Proof. by destruct v6, v6'. Qed.
Lemma k_lcount_inj v6 v6' : k_lcount v6 = k_lcount v6' → v6 = v6'.
Proof. by destruct v6, v6'. Qed.
Lemma k_ihcount_inj v6 v6' : k_ihcount v6 = k_ihcount v6' → v6 = v6'.
Proof. by destruct v6, v6'. Qed.
Lemma k_scount_ne_lcount v6 v6' : k_scount v6 ≠ k_lcount v6'.
Proof. by destruct v6, v6'. Qed.
Lemma k_scount_ne_ihcount v6 v6' : k_scount v6 ≠ k_ihcount v6'.
Proof. by destruct v6, v6'. Qed.
Lemma k_lcount_ne_ihcount v6 v6' : k_lcount v6 ≠ k_ihcount v6'.
Proof. by destruct v6, v6'. Qed.

(* ================================================================== B. commands *)

(* normal form of every hash write: store [h] under [k], dropping the key when
   [h] has no field *)
Definition r_put (k : list Z) (h : gmap (list Z) Z) (st : rstate) : rstate :=
  {| hs := if decide (h = ∅) then delete k (hs st) else <[k := h]> (hs st); cs := cs st |}.

Definition no_empty_hash (st : rstate) : Prop := ∀ k h, hs st !! k = Some h → h ≠ ∅.

Lemma r_hash_put k h st : r_hash k (r_put k h st) = h.
Proof.
  unfold r_hash, r_put. cbn. destruct (decide (h = ∅)) as [->|Hne].
  - by rewrite lookup_delete.
  - by rewrite lookup_insert.
Qed.

Lemma r_hash_put_ne k k' h st : k ≠ k' → r_hash k' (r_put k h st) = r_hash k' st.
Proof.
  intros Hne. unfold r_hash, r_put. cbn. destruct (decide (h = ∅)).
  - by rewrite lookup_delete_ne.
  - by rewrite lookup_insert_ne.
Qed.

Lemma cs_put k h st : cs (r_put k h st) = cs st.
Proof. done. Qed.

Lemma r_get_put c k h st : r_get c (r_put k h st) = r_get c st.
Proof. done. Qed.

Lemma no_empty_put k h st : no_empty_hash st → no_empty_hash (r_put k h st).
Proof.
  intros Hst k' h'. unfold r_put. cbn. destruct (decide (h = ∅)) as [->|Hne].
  - rewrite lookup_delete_Some. intros [_ Hl]. by eapply Hst.
  - rewrite lookup_insert_Some. intros [[_ <-]|[_ Hl]]; [done|by eapply Hst].
Qed.

Lemma hs_put_Some k h st k' :
  is_Some (hs (r_put k h st) !! k') → k' = k ∨ is_Some (hs st !! k').
Proof.
  unfold r_put. cbn. intros Hs. destruct (decide (k' = k)) as [->|Hne]; [by left|right].
  destruct (decide (h = ∅)).
  - by rewrite lookup_delete_ne in Hs.
  - by rewrite lookup_insert_ne in Hs.
Qed.

Lemma r_put_put k h1 h2 st : r_put k h2 (r_put k h1 st) = r_put k h2 st.
Proof.
  unfold r_put. cbn. f_equal.
  destruct (decide (h2 = ∅)), (decide (h1 = ∅)).
  - by rewrite delete_idemp.
  - by rewrite delete_insert_delete.
  - by rewrite insert_delete_insert.
  - by rewrite insert_insert.
Qed.

Lemma r_put_id k st : no_empty_hash st → r_put k (r_hash k st) st = st.
Proof.
  intros Hst. destruct st as [m c]. unfold r_put, r_hash. cbn. f_equal.
  destruct (m !! k) as [h|] eqn:Hk; cbn.
  - rewrite decide_False by (by eapply (Hst k h)). by rewrite insert_id.
  - rewrite decide_True by done. by rewrite delete_notin.
Qed.

Lemma r_hash_empty_None k st : no_empty_hash st → r_hash k st = ∅ ↔ hs st !! k = None.
Proof.
  intros Hst. unfold r_hash. destruct (hs st !! k) as [h|] eqn:Hk; cbn; [|done].
  split; [|done]. intros ->. by destruct (Hst k ∅).
Qed.

(* HSET *)
Lemma r_hset_eq k f v st :
  r_hset k f v st = (r_put k (<[f := v]> (r_hash k st)) st, if r_hash k st !! f then 0 else 1).
Proof.
  unfold r_hset, r_put. rewrite decide_False; [done|]. apply insert_non_empty.
Qed.

Lemma r_hset_lookup k f v st : r_hash k (r_hset k f v st).1 !! f = Some v.
Proof. rewrite r_hset_eq. cbn [fst]. by rewrite r_hash_put, lookup_insert. Qed.

Lemma r_hset_lookup_ne k f f' v st : f ≠ f' → r_hash k (r_hset k f v st).1 !! f' = r_hash k st !! f'.
Proof. intros. rewrite r_hset_eq. cbn [fst]. by rewrite r_hash_put, lookup_insert_ne. Qed.

Lemma r_hset_frame k k' f v st : k ≠ k' → r_hash k' (r_hset k f v st).1 = r_hash k' st.
Proof. intros. rewrite r_hset_eq. cbn [fst]. by rewrite r_hash_put_ne. Qed.

Lemma r_hset_reply k f v st :
  (r_hset k f v st).2 = if r_hash k st !! f then 0 else 1.
Proof. by rewrite r_hset_eq. Qed.

Lemma r_hset_no_empty k f v st : no_empty_hash st → no_empty_hash (r_hset k f v st).1.
Proof. intros. rewrite r_hset_eq. by apply no_empty_put. Qed.

(* HDEL *)
Lemma r_hdel_None k f st : r_hash k st !! f = None → r_hdel k f st = (st, 0).
Proof. unfold r_hdel. by intros ->. Qed.

Lemma r_hdel_Some k f st :
  is_Some (r_hash k st !! f) → r_hdel k f st = (r_put k (delete f (r_hash k st)) st, 1).
Proof.
  intros [v Hv]. unfold r_hdel, r_put. rewrite Hv. do 2 f_equal.
  destruct (decide (delete f (r_hash k st) = ∅)) as [He|He].
  - by rewrite He, map_size_empty.
  - apply map_size_non_empty_iff in He.
    destruct (size (delete f (r_hash k st))); [done|]. done.
Qed.

Lemma r_hdel_lookup k f st : r_hash k (r_hdel k f st).1 !! f = None.
Proof.
  destruct (r_hash k st !! f) as [v|] eqn:Hf.
  - rewrite r_hdel_Some by done. cbn [fst]. by rewrite r_hash_put, lookup_delete.
  - by rewrite r_hdel_None.
Qed.

Lemma r_hdel_hash k f st : r_hash k (r_hdel k f st).1 = delete f (r_hash k st).
Proof.
  destruct (r_hash k st !! f) as [v|] eqn:Hf.
  - rewrite r_hdel_Some by done. cbn [fst]. by rewrite r_hash_put.
  - rewrite r_hdel_None by done. by rewrite delete_notin.
Qed.

Lemma r_hdel_frame k k' f st : k ≠ k' → r_hash k' (r_hdel k f st).1 = r_hash k' st.
Proof.
  intros. destruct (r_hash k st !! f) as [v|] eqn:Hf.
  - rewrite r_hdel_Some by done. cbn [fst]. by rewrite r_hash_put_ne.
  - by rewrite r_hdel_None.
Qed.

Lemma r_hdel_reply k f st : (r_hdel k f st).2 = if r_hash k st !! f then 1 else 0.
Proof.
  destruct (r_hash k st !! f) as [v|] eqn:Hf.
  - by rewrite r_hdel_Some.
  - by rewrite r_hdel_None.
Qed.

Lemma r_hdel_no_empty k f st : no_empty_hash st → no_empty_hash (r_hdel k f st).1.
Proof.
  intros. destruct (r_hash k st !! f) as [v|] eqn:Hf.
  - rewrite r_hdel_Some by done. by apply no_empty_put.
  - by rewrite r_hdel_None.
Qed.

Lemma r_hlen_0 k st : r_hlen k st =? 0 = bool_decide (r_hash k st = ∅).
Proof.
  unfold r_hlen. case_bool_decide as He.
  - rewrite He, map_size_empty. done.
  - apply map_size_non_empty_iff in He. lia.
Qed.

Lemma no_empty_init : no_empty_hash redis_init.
Proof. intros k h. unfold redis_init. cbn. by rewrite lookup_empty. Qed.

(* counters *)
Lemma r_hash_incrby k c d st : r_hash k (r_incrby c d st) = r_hash k st.
Proof. done. Qed.
Lemma r_get_incrby c d st : r_get c (r_incrby c d st) = r_get c st + d.
Proof. unfold r_get, r_incrby. cbn. by rewrite lookup_insert. Qed.
Lemma r_get_incrby_ne c c' d st : c ≠ c' → r_get c' (r_incrby c d st) = r_get c' st.
Proof. intros. unfold r_get, r_incrby. cbn. by rewrite lookup_insert_ne. Qed.
Lemma no_empty_incrby c d st : no_empty_hash st → no_empty_hash (r_incrby c d st).
Proof. done. Qed.

(* ================================================================== swarm maps: one-role updates and weighted sums *)

Definition role (s : bool) (sw : swarm) : gmap (list Z) Z := if s then seeders sw else leechers sw.
Definition set_role (s : bool) (g : gmap (list Z) Z) (sw : swarm) : swarm :=
  if s then {| seeders := g; leechers := leechers sw |} else {| seeders := seeders sw; leechers := g |}.

Lemma swarm_eta sw : {| seeders := seeders sw; leechers := leechers sw |} = sw.
Proof. by destruct sw. Qed.
Lemma swarm_eq sw1 sw2 : seeders sw1 = seeders sw2 → leechers sw1 = leechers sw2 → sw1 = sw2.
Proof. destruct sw1, sw2. cbn. by intros -> ->. Qed.
Lemma swarm_eq_role sw1 sw2 : (∀ s, role s sw1 = role s sw2) → sw1 = sw2.
Proof. intros Hr. apply swarm_eq; [apply (Hr true)|apply (Hr false)]. Qed.

Lemma swarm_empty_true sw : swarm_empty sw = true ↔ sw = empty_swarm.
Proof.
  unfold swarm_empty. rewrite andb_true_iff, !Nat.eqb_eq, !map_size_empty_iff.
  split; [intros [Hs Hl]; by apply swarm_eq|by intros ->].
Qed.
Lemma swarm_empty_role sw : swarm_empty sw = true ↔ ∀ s, role s sw = ∅.
Proof.
  rewrite swarm_empty_true. split; [by intros -> []|].
  intros Hr. apply swarm_eq_role. intros s. rewrite Hr. by destruct s.
Qed.

Lemma role_set_role s s' g sw : role s' (set_role s g sw) = if decide (s' = s) then g else role s' sw.
Proof. by destruct s, s'. Qed.
Lemma role_empty s : role s empty_swarm = ∅.
Proof. by destruct s. Qed.

Lemma fresh_empty T : fresh T ∅ = ∅.
Proof. apply map_filter_empty. Qed.

Section SwarmMapP.
  Context {K : Type} `{Countable K}.
  Implicit Types (m : gmap K swarm) (k : K).

  Definition no_empty_swarm m : Prop := ∀ k sw, m !! k = Some sw → swarm_empty sw = false.

  (* replace one role of one swarm *)
  Definition sp_upd k (s : bool) (g : gmap (list Z) Z) m : gmap K swarm :=
    sm_set k (set_role s g (sm_get k m)) m.

  Lemma sm_get_Some k m sw : m !! k = Some sw → sm_get k m = sw.
  Proof. unfold sm_get. by intros ->. Qed.
  Lemma sm_get_None k m : m !! k = None → sm_get k m = empty_swarm.
  Proof. unfold sm_get. by intros ->. Qed.

  Lemma sm_get_sm_set k sw m : sm_get k (sm_set k sw m) = sw.
  Proof.
    unfold sm_get, sm_set. destruct (swarm_empty sw) eqn:He.
    - rewrite lookup_delete. cbn. symmetry. by apply swarm_empty_true.
    - by rewrite lookup_insert.
  Qed.
  Lemma sm_get_sm_set_ne k k' sw m : k ≠ k' → sm_get k' (sm_set k sw m) = sm_get k' m.
  Proof.
    intros Hne. unfold sm_get, sm_set. destruct (swarm_empty sw).
    - by rewrite lookup_delete_ne.
    - by rewrite lookup_insert_ne.
  Qed.
  Lemma sm_set_lookup_ne k k' sw m : k ≠ k' → sm_set k sw m !! k' = m !! k'.
  Proof.
    intros Hne. unfold sm_set. destruct (swarm_empty sw).
    - by rewrite lookup_delete_ne.
    - by rewrite lookup_insert_ne.
  Qed.
  Lemma sm_set_lookup k sw m : sm_set k sw m !! k = if swarm_empty sw then None else Some sw.
  Proof.
    unfold sm_set. destruct (swarm_empty sw).
    - by rewrite lookup_delete.
    - by rewrite lookup_insert.
  Qed.
  Lemma sm_set_set k sw1 sw2 m : sm_set k sw2 (sm_set k sw1 m) = sm_set k sw2 m.
  Proof.
    unfold sm_set. destruct (swarm_empty sw2), (swarm_empty sw1).
    - by rewrite delete_idemp.
    - by rewrite delete_insert_delete.
    - by rewrite insert_delete_insert.
    - by rewrite insert_insert.
  Qed.
  Lemma no_empty_sm_set k sw m : no_empty_swarm m → no_empty_swarm (sm_set k sw m).
  Proof.
    intros Hm k' sw'. destruct (decide (k = k')) as [<-|Hne].
    - rewrite sm_set_lookup. destruct (swarm_empty sw) eqn:He; [done|]. by intros [= <-].
    - rewrite sm_set_lookup_ne by done. apply Hm.
  Qed.

  Lemma role_sm_get_sp_upd k s g m k' s' :
    role s' (sm_get k' (sp_upd k s g m)) = if decide (k' = k ∧ s' = s) then g else role s' (sm_get k' m).
  Proof.
    unfold sp_upd. destruct (decide (k = k')) as [<-|Hne].
    - rewrite sm_get_sm_set, role_set_role.
      destruct (decide (s' = s)) as [->|Hs].
      + by rewrite decide_True.
      + rewrite decide_False; [done|]. by intros [_ ?].
    - rewrite sm_get_sm_set_ne by done. rewrite decide_False; [done|]. by intros [-> _].
  Qed.

  (* two maps without empty swarms that agree through sm_get are equal *)
  Lemma spec_ext m1 m2 :
    no_empty_swarm m1 → no_empty_swarm m2 → (∀ k, sm_get k m1 = sm_get k m2) → m1 = m2.
  Proof.
    intros H1 H2 Hg. apply map_eq. intros k. specialize (Hg k). unfold sm_get in Hg.
    destruct (m1 !! k) as [a|] eqn:E1, (m2 !! k) as [b|] eqn:E2; cbn in Hg; subst; try done.
    - apply H1 in E1. done.
    - apply H2 in E2. done.
  Qed.

  Lemma sw_expire_empty T : sw_expire T empty_swarm = empty_swarm.
  Proof. unfold sw_expire. cbn. by rewrite fresh_empty. Qed.

  Lemma sm_get_gc T k m : sm_get k (sm_gc T m) = sw_expire T (sm_get k m).
  Proof.
    unfold sm_get, sm_gc. rewrite lookup_omap. destruct (m !! k) as [sw|]; cbn.
    - destruct (swarm_empty (sw_expire T sw)) eqn:He; cbn; [|done].
      symmetry. by apply swarm_empty_true.
    - by rewrite sw_expire_empty.
  Qed.
  Lemma no_empty_gc T m : no_empty_swarm (sm_gc T m).
  Proof.
    intros k sw. unfold sm_gc. rewrite lookup_omap_Some. intros (sw0 & Hs & _).
    destruct (swarm_empty (sw_expire T sw0)) eqn:He; [done|]. by injection Hs as <-.
  Qed.
  Lemma sm_gc_lookup_None T k m : m !! k = None → sm_gc T m !! k = None.
  Proof. intros Hk. unfold sm_gc. by rewrite lookup_omap, Hk. Qed.

  (* ---- weighted sums over a swarm map *)
  Definition msum (w : K → swarm → Z) m : Z := map_fold (λ k sw acc, acc + w k sw) 0 m.

  Lemma msum_empty w : msum w ∅ = 0.
  Proof. apply map_fold_empty. Qed.
  Lemma msum_insert_None w k sw m : m !! k = None → msum w (<[k := sw]> m) = msum w m + w k sw.
  Proof.
    intros Hk. unfold msum. rewrite map_fold_insert_L; [done| |done].
    intros. lia.
  Qed.
  Lemma msum_delete w k m : msum w (delete k m) = msum w m - from_option (w k) 0 (m !! k).
  Proof.
    destruct (m !! k) as [old|] eqn:Hk; cbn.
    - rewrite <-(insert_delete m k old) at 2 by done.
      rewrite msum_insert_None by apply lookup_delete. lia.
    - rewrite delete_notin by done. lia.
  Qed.
  Lemma msum_insert w k sw m :
    msum w (<[k := sw]> m) = msum w m - from_option (w k) 0 (m !! k) + w k sw.
  Proof.
    rewrite <-insert_delete_insert. rewrite msum_insert_None by apply lookup_delete.
    by rewrite msum_delete.
  Qed.
  Lemma msum_sm_set w k sw m :
    w k empty_swarm = 0 →
    msum w (sm_set k sw m) = msum w m - w k (sm_get k m) + w k sw.
  Proof.
    intros Hw. unfold sm_set, sm_get. destruct (swarm_empty sw) eqn:He.
    - apply swarm_empty_true in He as ->. rewrite msum_delete.
      destruct (m !! k); cbn; lia.
    - rewrite msum_insert. destruct (m !! k); cbn; lia.
  Qed.
  Lemma msum_plus w1 w2 m : msum (λ k sw, w1 k sw + w2 k sw) m = msum w1 m + msum w2 m.
  Proof.
    induction m as [|k sw m Hk IH] using map_ind.
    - by rewrite !msum_empty.
    - rewrite !msum_insert_None by done. lia.
  Qed.
  Lemma msum_ext w1 w2 m : (∀ k sw, w1 k sw = w2 k sw) → msum w1 m = msum w2 m.
  Proof.
    intros Hw. induction m as [|k sw m Hk IH] using map_ind.
    - by rewrite !msum_empty.
    - rewrite !msum_insert_None by done. rewrite Hw. lia.
  Qed.
  Lemma msum_nonneg w m : (∀ k sw, 0 <= w k sw) → 0 <= msum w m.
  Proof.
    intros Hw. induction m as [|k sw m Hk IH] using map_ind.
    - by rewrite !msum_empty.
    - rewrite !msum_insert_None by done. specialize (Hw k sw). lia.
  Qed.

  Lemma sm_total_seeders_msum m : sm_total_seeders m = msum (λ _ sw, Z.of_nat (size (role true sw))) m.
  Proof. done. Qed.
  Lemma sm_total_leechers_msum m : sm_total_leechers m = msum (λ _ sw, Z.of_nat (size (role false sw))) m.
  Proof. done. Qed.
End SwarmMapP.

(* the specification's operations are one-role updates *)
Section SpecOps.
  Context {K : Type} `{Countable K}.
  Implicit Types (m : gmap K swarm) (k : K).

  Lemma swarm_nonempty_role s sw : role s sw ≠ ∅ → swarm_empty sw = false.
  Proof.
    intros Hne. destruct (swarm_empty sw) eqn:He; [|done].
    destruct Hne. by apply (proj1 (swarm_empty_role sw) He).
  Qed.

  Lemma sp_upd_nonempty k s g m : g ≠ ∅ → sp_upd k s g m = <[k := set_role s g (sm_get k m)]> m.
  Proof.
    intros Hg. unfold sp_upd, sm_set. rewrite (swarm_nonempty_role s); [done|].
    by rewrite role_set_role, decide_True.
  Qed.

  Lemma sm_put_seeder_upd k pk t m :
    (sm_put_seeder k pk t m).1 = sp_upd k true (<[pk := t]> (role true (sm_get k m))) m.
  Proof. rewrite sp_upd_nonempty by apply insert_non_empty. done. Qed.
  Lemma sm_put_leecher_upd k pk t m :
    (sm_put_leecher k pk t m).1 = sp_upd k false (<[pk := t]> (role false (sm_get k m))) m.
  Proof. rewrite sp_upd_nonempty by apply insert_non_empty. done. Qed.

  Lemma sm_del_seeder_upd k pk m :
    sm_del_seeder k pk m =
    if role true (sm_get k m) !! pk then Some (sp_upd k true (delete pk (role true (sm_get k m))) m) else None.
  Proof.
    unfold sm_del_seeder, sp_upd, sm_get. destruct (m !! k) as [sw|]; cbn; [|by rewrite lookup_empty].
    by destruct (seeders sw !! pk).
  Qed.
  Lemma sm_del_leecher_upd k pk m :
    sm_del_leecher k pk m =
    if role false (sm_get k m) !! pk then Some (sp_upd k false (delete pk (role false (sm_get k m))) m) else None.
  Proof.
    unfold sm_del_leecher, sp_upd, sm_get. destruct (m !! k) as [sw|]; cbn; [|by rewrite lookup_empty].
    by destruct (leechers sw !! pk).
  Qed.

  Lemma sm_graduate_upd k pk t m :
    (sm_graduate k pk t m).1.1 =
    sp_upd k true (<[pk := t]> (role true (sm_get k m)))
      (sp_upd k false (delete pk (role false (sm_get k m))) m).
  Proof.
    rewrite (sp_upd_nonempty k true) by apply insert_non_empty.
    unfold sp_upd at 1. rewrite sm_get_sm_set.
    unfold sp_upd, sm_set. cbn.
    destruct (swarm_empty _).
    - by rewrite insert_delete_insert.
    - by rewrite insert_insert.
  Qed.
End SpecOps.

(* ================================================================== C. the invariant *)

Definition k_cnt (v6 s : bool) : list Z := if s then k_scount v6 else k_lcount v6.
Definition fam_w (v6 s : bool) (k : list Z * bool) (sw : swarm) : Z :=
  if decide (k.2 = v6) then Z.of_nat (size (role s sw)) else 0.
Definition reg_size (G : gmap (list Z) Z) : Z :=
  Z.of_nat (size (filter (λ kv, key_is_seeder kv.1 = true) G)).
Definition reg_count (v6 : bool) (st : rstate) : Z := reg_size (r_hash (k_group v6) st).
(* number of registered seeder keys, both families *)
Definition red_registered (st : rstate) : Z := reg_count false st + reg_count true st.

Record red_inv (st : rstate) (sp : spec) : Prop := {
  ri_hash : ∀ ih v6 s, ih_wf ih → r_hash (k_swarm v6 s ih) st = role s (sm_get (ih, v6) sp);
  ri_spec_ne : no_empty_swarm sp;
  ri_spec_wf : ∀ ih v6, is_Some (sp !! (ih, v6)) → ih_wf ih;
  ri_ne : no_empty_hash st;
  ri_reg : ∀ ih v6 s, ih_wf ih → r_hash (k_swarm v6 s ih) st ≠ ∅ →
           is_Some (r_hash (k_group v6) st !! k_swarm v6 s ih);
  ri_grp : ∀ v6 k, is_Some (r_hash (k_group v6) st !! k) → ∃ s ih, ih_wf ih ∧ k = k_swarm v6 s ih;
  ri_keys : ∀ k, r_hash k st ≠ ∅ →
            (∃ v6, k = k_group v6) ∨ (∃ v6 s ih, ih_wf ih ∧ k = k_swarm v6 s ih);
  ri_cnt : ∀ v6 s, r_get (k_cnt v6 s) st = msum (fam_w v6 s) sp;
  ri_ic : ∀ v6, r_get (k_ihcount v6) st = reg_count v6 st
}.

Lemma k_cnt_inj v6 s v6' s' : k_cnt v6 s = k_cnt v6' s' → v6 = v6' ∧ s = s'.
Proof. by destruct v6, s, v6', s'. Qed.
Lemma k_cnt_ne_ihcount v6 s v6' : k_cnt v6 s ≠ k_ihcount v6'.
Proof. by destruct v6, s, v6'. Qed.

(* what one store-level step does to the keyspace when it replaces one role
   hash (family v6, role s, infohash ih) by g *)
Record role_step (st st' : rstate) (ih : list Z) (v6 s : bool) (g : gmap (list Z) Z) : Prop := {
  rs_ne : no_empty_hash st';
  rs_hash : r_hash (k_swarm v6 s ih) st' = g;
  rs_frame : ∀ k, k ≠ k_swarm v6 s ih → k ≠ k_group v6 → r_hash k st' = r_hash k st;
  rs_grp : ∀ k, k ≠ k_swarm v6 s ih → r_hash (k_group v6) st' !! k = r_hash (k_group v6) st !! k;
  rs_reg : g ≠ ∅ → is_Some (r_hash (k_group v6) st' !! k_swarm v6 s ih);
  rs_cnt : r_get (k_cnt v6 s) st' =
           r_get (k_cnt v6 s) st + Z.of_nat (size g) - Z.of_nat (size (r_hash (k_swarm v6 s ih) st));
  rs_ic : r_get (k_ihcount v6) st' = reg_count v6 st';
  rs_cs_frame : ∀ c, c ≠ k_cnt v6 s → c ≠ k_ihcount v6 → r_get c st' = r_get c st
}.

Lemma fam_w_empty v6 s k : fam_w v6 s k empty_swarm = 0.
Proof. unfold fam_w. rewrite role_empty, map_size_empty. by case_decide. Qed.

Lemma role_step_inv st sp st' ih v6 s g :
  red_inv st sp → ih_wf ih → role_step st st' ih v6 s g → red_inv st' (sp_upd (ih, v6) s g sp).
Proof.
  intros I Hwf R. split.
  - intros ih' v6' s' Hwf'. rewrite role_sm_get_sp_upd.
    destruct (decide ((ih', v6') = (ih, v6) ∧ s' = s)) as [[[= -> ->] ->]|Hne].
    + apply R.
    + rewrite (rs_frame _ _ _ _ _ _ R); [by apply I| |apply k_swarm_ne_group].
      intros Heq. apply k_swarm_inj in Heq as (-> & -> & ->); [|done..]. by apply Hne.
  - apply no_empty_sm_set, I.
  - intros ih' v6' Hs. destruct (decide ((ih, v6) = (ih', v6'))) as [[= <- <-]|Hne]; [done|].
    unfold sp_upd in Hs. rewrite sm_set_lookup_ne in Hs by done. by eapply I.
  - apply R.
  - intros ih' v6' s' Hwf' Hne.
    destruct (decide (k_swarm v6' s' ih' = k_swarm v6 s ih)) as [Heq|Hk].
    + apply k_swarm_inj in Heq as (-> & -> & ->); [|done..].
      apply R. by rewrite <-(rs_hash _ _ _ _ _ _ R).
    + rewrite (rs_frame _ _ _ _ _ _ R) in Hne by (done || apply k_swarm_ne_group).
      apply (ri_reg _ _ I) in Hne; [|done].
      destruct (decide (v6' = v6)) as [->|Hv].
      * by rewrite (rs_grp _ _ _ _ _ _ R).
      * rewrite (rs_frame _ _ _ _ _ _ R); [done| |].
        -- apply not_eq_sym, k_swarm_ne_group.
        -- by intros Heq%k_group_inj.
  - intros v6' k Hs. destruct (decide (v6' = v6)) as [->|Hv].
    + destruct (decide (k = k_swarm v6 s ih)) as [->|Hk]; [by exists s, ih|].
      rewrite (rs_grp _ _ _ _ _ _ R) in Hs by done. by eapply I.
    + rewrite (rs_frame _ _ _ _ _ _ R) in Hs; [by eapply I| |].
      * apply not_eq_sym, k_swarm_ne_group.
      * by intros Heq%k_group_inj.
  - intros k Hne.
    destruct (decide (k = k_swarm v6 s ih)) as [->|Hk]; [right; by exists v6, s, ih|].
    destruct (decide (k = k_group v6)) as [->|Hg]; [left; by exists v6|].
    rewrite (rs_frame _ _ _ _ _ _ R) in Hne by done. by eapply I.
  - intros v6' s'. unfold sp_upd. rewrite msum_sm_set by apply fam_w_empty.
    rewrite <-(ri_cnt _ _ I). unfold fam_w. cbn [snd]. rewrite role_set_role.
    destruct (decide (v6 = v6')) as [<-|Hv].
    + destruct (decide (s' = s)) as [->|Hs].
      * rewrite (rs_cnt _ _ _ _ _ _ R). rewrite (ri_hash _ _ I) by done. lia.
      * rewrite (rs_cs_frame _ _ _ _ _ _ R); [lia| |apply k_cnt_ne_ihcount].
        intros Heq%k_cnt_inj. by destruct Heq.
    + rewrite (rs_cs_frame _ _ _ _ _ _ R); [lia| |apply k_cnt_ne_ihcount].
      intros Heq%k_cnt_inj. by destruct Heq.
  - intros v6'. destruct (decide (v6' = v6)) as [->|Hv]; [apply R|].
    rewrite (rs_cs_frame _ _ _ _ _ _ R).
    + rewrite (ri_ic _ _ I). unfold reg_count. rewrite (rs_frame _ _ _ _ _ _ R); [done| |].
      * apply not_eq_sym, k_swarm_ne_group.
      * by intros Heq%k_group_inj.
    + apply not_eq_sym, k_cnt_ne_ihcount.
    + by intros Heq%k_ihcount_inj.
Qed.

(* ---- registered seeder keys under HSET / HDEL on a group hash *)
Lemma reg_size_insert k t G :
  reg_size (<[k := t]> G) = reg_size G + (if key_is_seeder k then if G !! k then 0 else 1 else 0).
Proof.
  unfold reg_size. destruct (key_is_seeder k) eqn:Hk.
  - rewrite map_filter_insert_True by done. destruct (G !! k) as [v|] eqn:HG.
    + rewrite map_size_insert_Some; [lia|]. exists v. by apply map_filter_lookup_Some.
    + rewrite map_size_insert_None; [lia|]. apply map_filter_lookup_None. by left.
  - rewrite map_filter_insert_not; [lia|]. intros y. cbn. by rewrite Hk.
Qed.
Lemma reg_size_delete k G :
  reg_size (delete k G) = reg_size G - (if key_is_seeder k then if G !! k then 1 else 0 else 0).
Proof.
  unfold reg_size. rewrite map_filter_delete.
  set (F := filter _ G).
  destruct (F !! k) as [v|] eqn:HF.
  - pose proof HF as HF'. apply map_filter_lookup_Some in HF' as [HG Hk]. cbn in Hk. rewrite Hk, HG.
    rewrite <-(insert_delete F k v) at 2 by done.
    rewrite map_size_insert_None by apply lookup_delete. lia.
  - rewrite delete_notin by done.
    destruct (key_is_seeder k) eqn:Hk; [|lia]. destruct (G !! k) as [v|] eqn:HG; [|lia].
    assert (F !! k = Some v) as Hc by (by apply map_filter_lookup_Some). congruence.
Qed.
Lemma reg_size_empty : reg_size ∅ = 0.
Proof. unfold reg_size. by rewrite map_filter_empty, map_size_empty. Qed.

(* ---- reading through conditional counter updates *)
Lemma if_incr_hash k (b : bool) c d st : r_hash k (if b then r_incrby c d st else st) = r_hash k st.
Proof. by destruct b. Qed.
Lemma r_get_incrby_full c' c d st :
  r_get c' (r_incrby c d st) = r_get c' st + (if decide (c = c') then d else 0).
Proof.
  case_decide as Hc.
  - subst. apply r_get_incrby.
  - rewrite r_get_incrby_ne by done. lia.
Qed.
Lemma if_incr_get c' (b : bool) c d st :
  r_get c' (if b then r_incrby c d st else st) = r_get c' st + (if b then if decide (c = c') then d else 0 else 0).
Proof. destruct b; [apply r_get_incrby_full|lia]. Qed.
Lemma if_incr_ne (b : bool) c d st : no_empty_hash st → no_empty_hash (if b then r_incrby c d st else st).
Proof. by destruct b. Qed.

Ltac kne := first
  [ done | apply k_swarm_ne_group | apply not_eq_sym, k_swarm_ne_group
  | apply k_cnt_ne_ihcount | apply not_eq_sym, k_cnt_ne_ihcount
  | apply k_scount_ne_lcount | apply not_eq_sym, k_scount_ne_lcount
  | apply k_scount_ne_ihcount | apply not_eq_sym, k_scount_ne_ihcount
  | apply k_lcount_ne_ihcount | apply not_eq_sym, k_lcount_ne_ihcount
  | congruence ].
Ltac rsimp := repeat first
  [ rewrite if_incr_hash | rewrite r_hash_incrby | rewrite r_hash_put
  | rewrite r_hash_put_ne by kne
  | rewrite if_incr_get | rewrite r_get_incrby_full | rewrite r_get_put ].
Ltac cdec := repeat match goal with
  | |- context [decide (?a = ?b)] =>
    first [ rewrite (decide_True (P := a = b)) by done | rewrite (decide_False (P := a = b)) by kne ]
  end.
Ltac rne := repeat first
  [ apply if_incr_ne | apply no_empty_incrby | apply no_empty_put ].

Lemma red_put_seeder_step ih v6 pk t st sp :
  red_inv st sp → ih_wf ih →
  role_step st (red_put_seeder ih v6 pk t st) ih v6 true (<[pk := t]> (r_hash (k_swarm v6 true ih) st)).
Proof.
  intros I Hwf. unfold red_put_seeder. rewrite r_hset_eq. cbv beta iota. rewrite r_hset_eq. cbv beta iota.
  rewrite r_hash_put_ne by kne.
  set (kS := k_swarm v6 true ih). set (G := r_hash (k_group v6) st). set (h := r_hash kS st).
  split.
  - rne. apply I.
  - by rsimp.
  - intros k Hk Hg. by rsimp.
  - intros k Hk. rsimp. by rewrite lookup_insert_ne.
  - intros _. rsimp. rewrite lookup_insert. eauto.
  - rsimp. change (k_cnt v6 true) with (k_scount v6).
    rewrite decide_True by done. rewrite (decide_False (P := k_ihcount v6 = k_scount v6)) by kne.
    rewrite map_size_insert. change (r_hash (k_swarm v6 true ih) st) with h.
    destruct (h !! pk); cbn; destruct (G !! kS); cbn; lia.
  - unfold reg_count. rsimp. rewrite reg_size_insert. rewrite (key_is_seeder_swarm v6 true ih : key_is_seeder kS = true).
    rewrite (decide_False (P := k_scount v6 = k_ihcount v6)) by kne. rewrite decide_True by done.
    rewrite (ri_ic _ _ I). fold G. unfold reg_count. fold G.
    destruct (h !! pk); cbn; destruct (G !! kS); cbn; lia.
  - intros c Hc1 Hc2. rsimp. change (k_cnt v6 true) with (k_scount v6) in Hc1.
    rewrite !decide_False by kne. destruct (h !! pk); cbn; destruct (G !! kS); cbn; lia.
Qed.

Lemma red_put_leecher_step ih v6 pk t st sp :
  red_inv st sp → ih_wf ih →
  role_step st (red_put_leecher ih v6 pk t st) ih v6 false (<[pk := t]> (r_hash (k_swarm v6 false ih) st)).
Proof.
  intros I Hwf. unfold red_put_leecher. rewrite r_hset_eq. cbv beta iota. rewrite r_hset_eq. cbv beta iota.
  rewrite r_hash_put_ne by kne.
  set (kL := k_swarm v6 false ih). set (G := r_hash (k_group v6) st). set (h := r_hash kL st).
  split.
  - rne. apply I.
  - by rsimp.
  - intros k Hk Hg. by rsimp.
  - intros k Hk. rsimp. by rewrite lookup_insert_ne.
  - intros _. rsimp. rewrite lookup_insert. eauto.
  - rsimp. change (k_cnt v6 false) with (k_lcount v6).
    rewrite decide_True by done.
    rewrite map_size_insert. change (r_hash (k_swarm v6 false ih) st) with h.
    destruct (h !! pk); cbn; lia.
  - unfold reg_count. rsimp. rewrite reg_size_insert. rewrite (key_is_seeder_swarm v6 false ih : key_is_seeder kL = false).
    rewrite (decide_False (P := k_lcount v6 = k_ihcount v6)) by kne.
    rewrite (ri_ic _ _ I). fold G. unfold reg_count. fold G.
    destruct (h !! pk); cbn; lia.
  - intros c Hc1 Hc2. rsimp. change (k_cnt v6 false) with (k_lcount v6) in Hc1.
    rewrite !decide_False by kne. destruct (h !! pk); cbn; lia.
Qed.

Lemma role_step_refl st sp ih v6 s :
  red_inv st sp → ih_wf ih → role_step st st ih v6 s (r_hash (k_swarm v6 s ih) st).
Proof.
  intros I Hwf. split; try done.
  - apply I.
  - intros Hne. by apply (ri_reg _ _ I).
  - lia.
  - apply I.
Qed.

Definition red_del (s : bool) := if s then red_del_seeder else red_del_leecher.

Lemma red_del_step s ih v6 pk st sp :
  red_inv st sp → ih_wf ih →
  role_step st (red_del s ih v6 pk st).1 ih v6 s (delete pk (r_hash (k_swarm v6 s ih) st)).
Proof.
  intros I Hwf.
  assert (red_del s ih v6 pk st =
          let '(st', r) := r_hdel (k_swarm v6 s ih) pk st in
          if r =? 0 then (st, false) else (r_incrby (k_cnt v6 s) (-1) st', true)) as -> by (by destruct s).
  set (k := k_swarm v6 s ih). set (h := r_hash k st).
  destruct (h !! pk) as [v|] eqn:Hpk.
  - rewrite r_hdel_Some by (by eexists). cbv beta iota. cbn [Z.eqb fst].
    assert (h ≠ ∅) as Hh by (intros He; by rewrite He, lookup_empty in Hpk).
    split.
    + rne. apply I.
    + by rsimp.
    + intros k' Hk Hg. by rsimp.
    + intros k' Hk. by rsimp.
    + intros _. rsimp. by apply (ri_reg _ _ I).
    + rsimp. rewrite decide_True by done. fold k h.
      rewrite map_size_delete, Hpk.
      assert (size h ≠ 0%nat) by (by apply map_size_non_empty_iff). lia.
    + unfold reg_count. rsimp. rewrite decide_False by kne. rewrite (ri_ic _ _ I). unfold reg_count. lia.
    + intros c Hc1 Hc2. rsimp. rewrite decide_False by kne. lia.
  - rewrite r_hdel_None by done. cbv beta iota. cbn [Z.eqb fst].
    rewrite delete_notin by done. by eapply role_step_refl.
Qed.

Lemma red_graduate_step ih v6 pk t st sp :
  red_inv st sp → ih_wf ih →
  let st1 := (red_del false ih v6 pk st).1 in
  role_step st1 (red_graduate ih v6 pk t st) ih v6 true (<[pk := t]> (r_hash (k_swarm v6 true ih) st1)).
Proof.
  intros I Hwf. cbn zeta.
  set (kL := k_swarm v6 false ih). set (hL := r_hash kL st).
  pose proof (red_del_step false ih v6 pk st sp I Hwf) as R1.
  pose proof (role_step_inv _ _ _ _ _ _ _ I Hwf R1) as I1.
  cbn [red_del] in *. unfold red_del_leecher in *. unfold red_graduate. fold kL hL in R1, I1 |- *.
  destruct (hL !! pk) as [v|] eqn:Hpk.
  - rewrite r_hdel_Some in * by (by eexists). cbv beta iota in *. cbn [Z.eqb fst] in *.
    fold hL in R1, I1 |- *.
    set (st1 := r_incrby (k_lcount v6) (-1) (r_put kL (delete pk hL) st)) in *.
    rewrite r_hset_eq. cbv beta iota. rewrite r_hset_eq. cbv beta iota.
    rewrite r_hash_put_ne by kne.
    assert (kL ≠ k_swarm v6 true ih) as HkL.
    { intros Heq. apply k_swarm_inj in Heq as (_ & ? & _); done. }
    rewrite !(r_hash_put_ne kL) by kne.
    set (kS := k_swarm v6 true ih) in *. set (G := r_hash (k_group v6) st). set (h := r_hash kS st).
    assert (r_hash kS st1 = h) as Hh1 by (unfold st1; by rsimp).
    assert (r_hash (k_group v6) st1 = G) as HG1 by (unfold st1; by rsimp).
    rewrite Hh1.
    split.
    + rne. apply I.
    + by rsimp.
    + intros k Hk Hg. unfold st1. rsimp.
      destruct (decide (k = kL)) as [->|HkL']; [by rsimp|]. by rsimp.
    + intros k Hk. rsimp. rewrite HG1. by rewrite lookup_insert_ne.
    + intros _. rsimp. rewrite lookup_insert. eauto.
    + rsimp. change (k_cnt v6 true) with (k_scount v6).
      unfold st1 at 1. rsimp. cdec.
      rewrite map_size_insert. change (r_hash (k_swarm v6 true ih) st1) with (r_hash kS st1). rewrite Hh1.
      destruct (h !! pk); cbn; destruct (G !! kS); cbn; lia.
    + unfold reg_count. rsimp. rewrite reg_size_insert.
      rewrite (key_is_seeder_swarm v6 true ih : key_is_seeder kS = true).
      cdec.
      rewrite (ri_ic _ _ I). unfold reg_count. fold G.
      destruct (h !! pk); cbn; destruct (G !! kS); cbn; lia.
    + intros c Hc1 Hc2. unfold st1. rsimp. change (k_cnt v6 true) with (k_scount v6) in Hc1.
      cdec.
      destruct (h !! pk); cbn; destruct (G !! kS); cbn; lia.
  - rewrite r_hdel_None in * by done. cbv beta iota in *. cbn [Z.eqb fst] in *.
    by apply (red_put_seeder_step ih v6 pk t st sp).
Qed.
