#!/bin/bash
# commit only when the whole Coq development builds
cd /verif/coq && timeout 3000 make -j8 >/tmp/verif_make.log 2>&1 || { echo "COQ BUILD FAILED - not committed"; grep -B2 -A14 "Error" /tmp/verif_make.log | head -50; exit 1; }
cd /verif && python3 lib/mkmanifest.py >/dev/null && git add -A && git commit -qm "$1" && echo committed
