(* Model of middleware/clientapproval/clientapproval.go and
   middleware/torrentapproval/torrentapproval.go (with encoding/hex.DecodeString).
   [client_id] (bittorrent/client_id.go) lives in Model/Peer.v.   Definitions only. *)
From Chihaya Require Export Model.Peer.
Open Scope Z_scope.

(* ---- encoding/hex: fromHexChar *)
Definition hex_val (c : Z) : option Z :=
  if (48 <=? c) && (c <=? 57) then Some (c - 48)          (* '0'..'9' *)
  else if (97 <=? c) && (c <=? 102) then Some (c - 87)    (* 'a'..'f' *)
  else if (65 <=? c) && (c <=? 70) then Some (c - 55)     (* 'A'..'F' *)
  else None.
Definition is_hex_digit (c : Z) : bool :=
  match hex_val c with Some _ => true | None => false end.

(* hex.DecodeString: None stands for both InvalidByteError and ErrLength *)
Fixpoint hex_decode (s : bytes) : option bytes :=
  match s with
  | [] => Some []
  | [_] => None
  | a :: b :: r =>
    match hex_val a, hex_val b with
    | Some x, Some y =>
      match hex_decode r with Some t => Some (x * 16 + y :: t) | None => None end
    | _, _ => None
    end
  end.

(* hex.EncodeToString with a per-nibble choice of letter case (used to state
   that upper-, lower- and mixed-case entries are accepted) *)
Definition hex_char (upper : bool) (v : Z) : Z :=
  if v <? 10 then 48 + v else if upper then 55 + v else 87 + v.
Fixpoint hex_encode (cs : nat -> bool) (b : bytes) : bytes :=
  match b with
  | [] => []
  | x :: r => hex_char (cs 0%nat) (x / 16) :: hex_char (cs 1%nat) (x mod 16)
              :: hex_encode (fun i => cs (S (S i))) r
  end.

(* ---- configuration (yaml: whitelist / blacklist, entries are Go strings) *)
Record acfg := { wl : list bytes; bl : list bytes }.

(* why NewHook refused *)
Inductive refusal := RBoth | REntry.

(* the two maps of a built hook.  A Go map is modelled by the list of inserted
   keys: membership is list membership, len(map) > 0 iff the list is non-empty
   (every entry of a built hook was inserted), duplicates collapse. *)
Record ahook := { approved : list bytes; unapproved : list bytes }.

Definition nonempty {A} (l : list A) : bool := match l with [] => false | _ => true end.
Definition mem (x : bytes) (l : list bytes) : bool := existsb (bytes_eqb x) l.

Definition client_entry_ok (e : bytes) : bool := Nat.eqb (length e) 6.

Definition new_client_hook (c : acfg) : refusal + ahook :=
  if nonempty (wl c) && nonempty (bl c) then inl RBoth
  else if negb (forallb client_entry_ok (wl c)) then inl REntry
  else if negb (forallb client_entry_ok (bl c)) then inl REntry
  else inr {| approved := wl c; unapproved := bl c |}.

(* one torrent entry: hex text -> 20-byte key *)
Definition torrent_entry (e : bytes) : option bytes :=
  match hex_decode e with
  | Some h => if Nat.eqb (length h) 20 then Some h else None
  | None => None
  end.
Fixpoint torrent_entries (l : list bytes) : option (list bytes) :=
  match l with
  | [] => Some []
  | e :: r =>
    match torrent_entry e with
    | Some h => match torrent_entries r with Some t => Some (h :: t) | None => None end
    | None => None
    end
  end.

Definition new_torrent_hook (c : acfg) : refusal + ahook :=
  if nonempty (wl c) && nonempty (bl c) then inl RBoth
  else match torrent_entries (wl c) with
       | None => inl REntry
       | Some a =>
         match torrent_entries (bl c) with
         | None => inl REntry
         | Some u => inr {| approved := a; unapproved := u |}
         end
       end.

(* ---- HandleAnnounce / HandleScrape.  None = the request passes (nil error). *)
Definition approve (h : ahook) (key : bytes) : bool :=
  if nonempty (approved h) && negb (mem key (approved h)) then false
  else if nonempty (unapproved h) && mem key (unapproved h) then false
  else true.

Definition ErrClientUnapproved := ClientErr (s2b "unapproved client").
Definition ErrTorrentUnapproved := ClientErr (s2b "unapproved torrent").

Definition client_announce (h : ahook) (pid : bytes) : option err :=
  if approve h (client_id pid) then None else Some ErrClientUnapproved.
Definition torrent_announce (h : ahook) (ih : bytes) : option err :=
  if approve h ih then None else Some ErrTorrentUnapproved.
(* scrapes are never looked at *)
Definition client_scrape (h : ahook) (ihs : list bytes) : option err := None.
Definition torrent_scrape (h : ahook) (ihs : list bytes) : option err := None.
