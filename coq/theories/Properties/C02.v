(* C02 - Announce peer lists honour numwant, role preference and self-exclusion. *)
From Chihaya Require Import Model.Select Proofs.SelectP.
Open Scope Z_scope.

Theorem C02_select_size : forall S L ann seeder nw,
  0 <= nw -> sel_size_ok nw (select_ref S L ann seeder nw) = true.
Proof. exact select_ref_size. Qed.
Print Assumptions C02_select_size.
