(* Interleaved forms of the two stores (C04; concurrent clauses of C05, C17).

   A. A generic interleaving machine: a thread is a list of atomic actions plus
      a thread-local state; executing an action may change the shared state,
      the local state, and may push further actions in front of the thread's
      list (the continuation chosen by what the action observed: a Redis reply,
      a snapshot).  An action may be disabled (a lock that cannot be taken).
      `run` follows a schedule (a list of thread numbers); a choice that names
      no thread, a finished thread or a blocked thread is skipped.  No fuel.
   B. storage/memory/peer_store.go: shared state = shards + lock table; every
      store operation is  acquire ; body ; release  on its shard's RWMutex.
   C. storage/redis/peer_store.go at round-trip granularity: shared state = the
      Redis keyspace + per-key versions (WATCH); every store operation is the
      script of round-trips it issues, continued according to the replies.
   Definitions only. *)
From Chihaya Require Export Model.History.
Open Scope Z_scope.

(* ================================================================== A. the machine *)
Section Machine.
  Context {A Sh Lo : Type}.
  (* None: the action is disabled in this state.
     Some (shared', local', more): it runs; `more` is pushed in front of the thread *)
  Variable sem : A → Sh → Lo → option (Sh * Lo * list A).

  Record thread := Thread { todo : list A; loc : Lo }.

  Definition tstep (sh : Sh) (t : thread) : option (A * Sh * thread) :=
    match todo t with
    | [] => None
    | a :: rest =>
      match sem a sh (loc t) with
      | None => None
      | Some (sh', lo', more) => Some (a, sh', Thread (more ++ rest) lo')
      end
    end.

  (* one scheduling choice; the event is (thread, action, shared state it ran in) *)
  Definition mstep (i : nat) (m : Sh * list thread) : (Sh * list thread) * option (nat * A * Sh) :=
    match m.2 !! i with
    | None => (m, None)
    | Some t =>
      match tstep m.1 t with
      | None => (m, None)
      | Some (a, sh', t') => ((sh', <[i := t']> m.2), Some (i, a, m.1))
      end
    end.

  Fixpoint run (sched : list nat) (m : Sh * list thread) : Sh * list thread :=
    match sched with
    | [] => m
    | i :: sched => run sched (mstep i m).1
    end.

  (* the actions actually executed, in order, each with the shared state it saw *)
  Fixpoint trace (sched : list nat) (m : Sh * list thread) : list (nat * A * Sh) :=
    match sched with
    | [] => []
    | i :: sched =>
      let r := mstep i m in
      match r.2 with Some e => [e] | None => [] end ++ trace sched r.1
    end.

  Definition finished (m : Sh * list thread) : Prop := ∀ t, t ∈ m.2 → todo t = [].
  Definition finishedb (m : Sh * list thread) : bool :=
    forallb (λ t, match todo t with [] => true | _ => false end) m.2.
  (* a complete schedule runs every thread to its end *)
  Definition complete (sched : list nat) (m : Sh * list thread) : Prop := finished (run sched m).
  (* reachable machine states *)
  Definition reachable (m0 m : Sh * list thread) : Prop := ∃ sched, m = run sched m0.
End Machine.
Arguments thread : clear implicits.
Arguments Thread {A Lo}.

(* ================================================================== C. Redis store, round-trip granularity *)

(* announce-type store operations; the cached clock value the operation read
   (ps.getClock() precedes the first round-trip) is part of the operation *)
Inductive rop :=
| RPutSeeder (ih : list Z) (v6 : bool) (pk : list Z) (t : Z)
| RPutLeecher (ih : list Z) (v6 : bool) (pk : list Z) (t : Z)
| RDelSeeder (ih : list Z) (v6 : bool) (pk : list Z)
| RDelLeecher (ih : list Z) (v6 : bool) (pk : list Z)
| RGraduate (ih : list Z) (v6 : bool) (pk : list Z) (t : Z).

(* the membership round-trip: one command or one MULTI ... EXEC; returns the replies *)
Definition rop_first (o : rop) (st : rstate) : rstate * list Z :=
  match o with
  | RPutSeeder ih v6 pk t =>
    let '(st, r0) := r_hset (k_swarm v6 true ih) pk t st in
    let '(st, r1) := r_hset (k_group v6) (k_swarm v6 true ih) t st in (st, [r0; r1])
  | RPutLeecher ih v6 pk t =>
    let '(st, r0) := r_hset (k_swarm v6 false ih) pk t st in
    let '(st, r1) := r_hset (k_group v6) (k_swarm v6 false ih) t st in (st, [r0; r1])
  | RDelSeeder ih v6 pk => let '(st, r) := r_hdel (k_swarm v6 true ih) pk st in (st, [r])
  | RDelLeecher ih v6 pk => let '(st, r) := r_hdel (k_swarm v6 false ih) pk st in (st, [r])
  | RGraduate ih v6 pk t =>
    let '(st, r0) := r_hdel (k_swarm v6 false ih) pk st in
    let '(st, r1) := r_hset (k_swarm v6 true ih) pk t st in
    let '(st, r2) := r_hset (k_group v6) (k_swarm v6 true ih) t st in (st, [r0; r1; r2])
  end.

(* the counter round-trips that follow, chosen by the replies: (counter, amount) *)
Definition rop_counters (o : rop) (rs : list Z) : list (list Z * Z) :=
  let r := λ i : nat, nth i rs 0 in
  match o with
  | RPutSeeder ih v6 pk t =>
    (if r 0%nat =? 1 then [(k_scount v6, 1)] else []) ++ (if r 1%nat =? 1 then [(k_ihcount v6, 1)] else [])
  | RPutLeecher ih v6 pk t => if r 0%nat =? 1 then [(k_lcount v6, 1)] else []
  | RDelSeeder ih v6 pk => if r 0%nat =? 0 then [] else [(k_scount v6, -1)]
  | RDelLeecher ih v6 pk => if r 0%nat =? 0 then [] else [(k_lcount v6, -1)]
  | RGraduate ih v6 pk t =>
    (if r 0%nat =? 1 then [(k_lcount v6, -1)] else []) ++
    (if r 1%nat =? 1 then [(k_scount v6, 1)] else []) ++
    (if r 2%nat =? 1 then [(k_ihcount v6, 1)] else [])
  end.

(* keys whose value the membership round-trip modified (WATCH looks at these):
   HSET always touches its key, HDEL only when it removed the field *)
Definition rop_touched (o : rop) (rs : list Z) : list (list Z) :=
  let r := λ i : nat, nth i rs 0 in
  match o with
  | RPutSeeder ih v6 pk t => [k_swarm v6 true ih; k_group v6]
  | RPutLeecher ih v6 pk t => [k_swarm v6 false ih; k_group v6]
  | RDelSeeder ih v6 pk => if r 0%nat =? 1 then [k_swarm v6 true ih] else []
  | RDelLeecher ih v6 pk => if r 0%nat =? 1 then [k_swarm v6 false ih] else []
  | RGraduate ih v6 pk t =>
    (if r 0%nat =? 1 then [k_swarm v6 false ih] else []) ++ [k_swarm v6 true ih; k_group v6]
  end.

(* the same operation run alone, with the functions of Model/RedisStore.v *)
Definition red_apply (o : rop) (st : rstate) : rstate :=
  match o with
  | RPutSeeder ih v6 pk t => red_put_seeder ih v6 pk t st
  | RPutLeecher ih v6 pk t => red_put_leecher ih v6 pk t st
  | RDelSeeder ih v6 pk => (red_del_seeder ih v6 pk st).1
  | RDelLeecher ih v6 pk => (red_del_leecher ih v6 pk st).1
  | RGraduate ih v6 pk t => red_graduate ih v6 pk t st
  end.
Definition red_apply_all (os : list rop) (st : rstate) : rstate := fold_left (λ st o, red_apply o st) os st.
(* ... and as a history of Model/History.v *)
Definition rop_sops (o : rop) : list sop :=
  match o with
  | RPutSeeder ih v6 pk t => [SClock t; SPutSeeder ih v6 pk]
  | RPutLeecher ih v6 pk t => [SClock t; SPutLeecher ih v6 pk]
  | RDelSeeder ih v6 pk => [SDelSeeder ih v6 pk]
  | RDelLeecher ih v6 pk => [SDelLeecher ih v6 pk]
  | RGraduate ih v6 pk t => [SClock t; SGraduate ih v6 pk]
  end.
Definition rop_wf (o : rop) : Prop :=
  match o with
  | RPutSeeder ih _ _ _ | RPutLeecher ih _ _ _ | RDelSeeder ih _ _ | RDelLeecher ih _ _
  | RGraduate ih _ _ _ => ih_wf ih
  end.

(* one round-trip *)
Inductive rrt :=
| RtOp (o : rop)                                   (* membership round-trip of an announce-type operation *)
| RtIncr (c : list Z) (d : Z)                      (* INCR / DECR / DECRBY *)
| RtHkeys (T : Z) (v6 : bool)                      (* collectGarbage: HKEYS group *)
| RtHgetall (T : Z) (v6 : bool) (k : list Z)       (* HGETALL key; decides which fields are stale *)
| RtGcHdel (v6 : bool) (k f : list Z) (last : bool)  (* HDEL key field - unconditional; `last`: DECRBY follows if removed > 0 *)
| RtWatch (k : list Z)
| RtHlen (v6 : bool) (k : list Z)
| RtExec (v6 : bool) (k : list Z)                  (* MULTI{HDEL group key; DECR infohash_count if seeder key}EXEC *)
| RtUnwatch.

Record rshared := RShared { rst : rstate; ver : gmap (list Z) Z }.
(* per connection: removedPeerCount, the watched key with the version seen, replies of membership round-trips *)
Record rlocal := RLocal { acc : Z; watch : option (list Z * Z); outs : list (list Z) }.
Definition rlocal_init : rlocal := RLocal 0 None [].
Definition rshared_of (st : rstate) : rshared := RShared st ∅.

Definition ver_of (k : list Z) (v : gmap (list Z) Z) : Z := default 0 (v !! k).
Definition bump (ks : list (list Z)) (v : gmap (list Z) Z) : gmap (list Z) Z :=
  foldr (λ k v, <[k := ver_of k v + 1]> v) v ks.

Fixpoint gc_hdels (v6 : bool) (k : list Z) (fs : list (list Z)) : list rrt :=
  match fs with
  | [] => []
  | [f] => [RtGcHdel v6 k f true]
  | f :: fs => RtGcHdel v6 k f false :: gc_hdels v6 k fs
  end.
Definition stale_fields (T : Z) (h : gmap (list Z) Z) : list (list Z) :=
  map fst (map_to_list (filter (λ kv, kv.2 ≤ T) h)).
Definition gc_counter (v6 : bool) (k : list Z) : list Z := if key_is_seeder k then k_scount v6 else k_lcount v6.

(* Redis executes every round-trip atomically and never blocks *)
Definition rsem (a : rrt) (sh : rshared) (lo : rlocal) : option (rshared * rlocal * list rrt) :=
  let st := rst sh in
  match a with
  | RtOp o =>
    let '(st', rs) := rop_first o st in
    Some (RShared st' (bump (rop_touched o rs) (ver sh)),
          RLocal (acc lo) (watch lo) (outs lo ++ [rs]),
          map (λ cd, RtIncr cd.1 cd.2) (rop_counters o rs))
  | RtIncr c d => Some (RShared (r_incrby c d st) (ver sh), lo, [])
  | RtHkeys T v6 =>
    Some (sh, lo, map (RtHgetall T v6) (map fst (map_to_list (r_hash (k_group v6) st))))
  | RtHgetall T v6 k =>
    Some (sh, RLocal 0 (watch lo) (outs lo),
          gc_hdels v6 k (stale_fields T (r_hash k st)) ++ [RtWatch k; RtHlen v6 k])
  | RtGcHdel v6 k f last =>
    let '(st', r) := r_hdel k f st in
    let n := acc lo + r in
    Some (RShared st' (if r =? 1 then bump [k] (ver sh) else ver sh),
          RLocal n (watch lo) (outs lo),
          if last && (0 <? n) then [RtIncr (gc_counter v6 k) (- n)] else [])
  | RtWatch k => Some (sh, RLocal (acc lo) (Some (k, ver_of k (ver sh))) (outs lo), [])
  | RtHlen v6 k => Some (sh, lo, if r_hlen k st =? 0 then [RtExec v6 k] else [RtUnwatch])
  | RtExec v6 k =>
    let unchanged := match watch lo with None => true | Some (wk, wv) => ver_of wk (ver sh) =? wv end in
    if unchanged then
      let '(st', r) := r_hdel (k_group v6) k st in
      let st'' := if key_is_seeder k then r_incrby (k_ihcount v6) (-1) st' else st' in
      Some (RShared st'' (if r =? 1 then bump [k_group v6] (ver sh) else ver sh),
            RLocal (acc lo) None (outs lo), [])
    else Some (sh, RLocal (acc lo) None (outs lo), [])     (* EXEC replies nil; nothing was executed *)
  | RtUnwatch => Some (sh, RLocal (acc lo) None (outs lo), [])
  end.

Notation rthread := (thread rrt rlocal).
(* a thread that issues the given announce-type operations one after the other *)
Definition rop_thread (os : list rop) : rthread := Thread (map RtOp os) rlocal_init.
(* one expiry pass: for _, group := range ps.groups() *)
Definition rgc_thread (T : Z) : rthread := Thread [RtHkeys T false; RtHkeys T true] rlocal_init.

Definition rrun := run rsem.
Definition rtrace := trace rsem.
(* operations in the order of their first round-trips *)
Definition rstarted (sched : list nat) (m : rshared * list rthread) : list rop :=
  omap (λ e : nat * rrt * rshared, match e.1.2 with RtOp o => Some o | _ => None end) (rtrace sched m).
(* what a thread still owes to counter c *)
Definition rt_pending (c : list Z) (a : rrt) : Z :=
  match a with RtIncr c' d => if decide (c' = c) then d else 0 | _ => 0 end.
Definition rpending (c : list Z) (ts : list rthread) : Z :=
  foldr (λ t s, foldr (λ a s, rt_pending c a + s) 0 (todo t) + s) 0 ts.
(* threads of announce-type operations, possibly in the middle of their scripts *)
Definition rt_announce (a : rrt) : Prop := match a with RtOp _ | RtIncr _ _ => True | _ => False end.
Definition rthread_announce (t : rthread) : Prop := Forall rt_announce (todo t).
