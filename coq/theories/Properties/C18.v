(* C18 - Interval variation only ever lengthens intervals, within the configured bound.
   This file contains only statements, each closed by [exact] of a lemma from
   Proofs/VarIntervalP.v, followed by Print Assumptions. *)
From Chihaya Require Import Model.VarInterval Proofs.VarIntervalP.
Open Scope Z_scope.

(* Intn returns k with 0 <= k < n for every generator state *)
Theorem C18_intn_range : forall s0 s1 n, 0 < n -> 0 <= fst (fst (intn s0 s1 n)) < n.
Proof. exact intn_range. Qed.
Print Assumptions C18_intn_range.

(* d is 0 or 1 <= d <= max_increase_delta, for every infohash and peer ID *)
Theorem C18_delta_range : forall c ih pid,
  check_config c = 0 -> delta c ih pid = 0 \/ 1 <= delta c ih pid <= max_delta c.
Proof. exact delta_range. Qed.
Print Assumptions C18_delta_range.

(* interval' = interval + d s; min interval follows iff configured; nothing else changes *)
Theorem C18_hook_effect : forall (R : Type) c ih pid (r : vresp R),
  check_config c = 0 ->
  - 2 ^ 63 <= interval r -> interval r + max_delta c * 1000000000 < 2 ^ 63 ->
  - 2 ^ 63 <= min_interval r -> min_interval r + max_delta c * 1000000000 < 2 ^ 63 ->
  hook c ih pid r =
  {| interval := interval r + delta c ih pid * 1000000000;
     min_interval := if mod_min c then min_interval r + delta c ih pid * 1000000000
                     else min_interval r;
     rest := rest r |}.
Proof. exact @hook_effect. Qed.
Print Assumptions C18_hook_effect.

(* d is a deterministic function of (the first 16 bytes of) infohash and peer ID *)
Theorem C18_delta_function_of_ids : forall c ih ih' pid pid',
  firstn 16 ih = firstn 16 ih' -> firstn 16 pid = firstn 16 pid' ->
  delta c ih pid = delta c ih' pid'.
Proof. exact delta_function_of_ids. Qed.
Print Assumptions C18_delta_function_of_ids.

(* "the configured fraction is modified", deterministic form: a response is
   modified iff probability = 1 or its 24-bit residue is below ceil(p * 2^24) *)
Theorem C18_modified_iff_threshold : forall c ih pid,
  draw c ih pid <> None <->
  (let '(s0, s1) := entropy ih pid in
   selected c (fst (fst (intn s0 s1 (2 ^ 24)))) = true).
Proof. exact modified_iff. Qed.
Print Assumptions C18_modified_iff_threshold.

Theorem C18_selected_iff_threshold : forall c r,
  selected c r = true <-> prob_is_one c = true \/ r < threshold c.
Proof. exact selected_iff_threshold. Qed.
Print Assumptions C18_selected_iff_threshold.

Theorem C18_prob_one_always : forall c ih pid,
  prob_is_one c = true -> draw c ih pid <> None.
Proof. exact prob_one_always. Qed.
Print Assumptions C18_prob_one_always.

(* the code before "fix: Intn": the statement was false *)
Theorem C18_intn_legacy_refuted :
  exists s0 s1 n, 0 < n /\ fst (fst (intn_legacy s0 s1 n)) < 0.
Proof. exact intn_legacy_refuted. Qed.
Print Assumptions C18_intn_legacy_refuted.

Theorem C18_delta_legacy_refuted :
  exists c ih pid, check_config c = 0 /\ wf_bytes ih = true /\ length ih = 20%nat /\
                   wf_bytes pid = true /\ length pid = 20%nat /\ delta_legacy c ih pid < 0.
Proof. exact delta_legacy_refuted. Qed.
Print Assumptions C18_delta_legacy_refuted.
