(* Lemmas about Model/UdpWrite.v (C09). *)
From Chihaya Require Import Model.UdpWrite.
From Coq Require Import ZifyBool ZifyNat.
Open Scope Z_scope.

(* ---- list / bytes helpers *)
Lemma firstn_app_len {A} (a b : list A) n : length a = n -> firstn n (a ++ b) = a.
Proof. intros <-. rewrite firstn_app, Nat.sub_diag, firstn_all. cbn. apply app_nil_r. Qed.
Lemma skipn_app_len {A} (a b : list A) n : length a = n -> skipn n (a ++ b) = b.
Proof. intros <-. rewrite skipn_app, Nat.sub_diag, skipn_all. reflexivity. Qed.
Lemma skipn_add {A} a b (l : list A) : skipn (a + b) l = skipn b (skipn a l).
Proof.
  revert l; induction a as [|a IH]; intros l; [reflexivity|].
  destruct l as [|x l]; cbn [Nat.add skipn]; [destruct b; reflexivity|apply IH].
Qed.
(* reading a block that sits right after a prefix of known length *)
Lemma sub_after {A} (a b c : list A) n m :
  length a = n -> length b = m -> firstn m (skipn n (a ++ b ++ c)) = b.
Proof. intros Ha Hb. rewrite skipn_app_len by exact Ha. apply firstn_app_len, Hb. Qed.

Lemma be32_len v : length (be32 v) = 4%nat. Proof. apply be_enc_length. Qed.
Lemma be16_len v : length (be16 v) = 2%nat. Proof. apply be_enc_length. Qed.
Lemma be_dec_be32 v : 0 <= v < 2 ^ 32 -> be_dec (be32 v) = v.
Proof. intros H. unfold be32. rewrite be_dec_enc. apply Z.mod_small. exact H. Qed.
Lemma be_dec_be16 v : 0 <= v < 2 ^ 16 -> be_dec (be16 v) = v.
Proof. intros H. unfold be16. rewrite be_dec_enc. apply Z.mod_small. exact H. Qed.

Definition u32 (v : Z) : Prop := 0 <= v < 2 ^ 32.

(* a datagram that starts with four 32-bit... generic: header words *)
Lemma u32_at_0 a r : u32 a -> u32_at 0 (be32 a ++ r) = a.
Proof.
  intros H. unfold u32_at, sub. cbn [skipn Nat.add Nat.sub]. rewrite firstn_app_len by apply be32_len.
  apply be_dec_be32, H.
Qed.
Lemma u32_at_skip (p r : bytes) n off : length p = n -> u32_at (n + off) (p ++ r) = u32_at off r.
Proof.
  intros H. unfold u32_at, sub. replace (n + off + 4 - (n + off))%nat with (off + 4 - off)%nat by lia.
  rewrite skipn_add, skipn_app_len by exact H. reflexivity.
Qed.
Lemma sub_skip (p r : bytes) n lo hi : length p = n -> sub (n + lo) (n + hi) (p ++ r) = sub lo hi r.
Proof.
  intros H. unfold sub. replace (n + hi - (n + lo))%nat with (hi - lo)%nat by lia.
  rewrite skipn_add, skipn_app_len by exact H. reflexivity.
Qed.
Lemma sub_here (p r : bytes) n : length p = n -> sub 0 n (p ++ r) = p.
Proof. intros H. unfold sub. cbn [skipn]. rewrite Nat.sub_0_r. apply firstn_app_len, H. Qed.

(* ---- peers *)
Definition peer_ok (w : nat) (p : peer) : Prop := length (p_ip p) = w /\ 0 <= p_port p < 2 ^ 16.
Definition endpoint (p : peer) : bytes * Z := (p_ip p, p_port p).

Lemma write_peer_len w p : peer_ok w p -> length (write_peer p) = (w + 2)%nat.
Proof. intros [H _]. unfold write_peer. rewrite app_length, be16_len, H. reflexivity. Qed.

Lemma flat_peers_len_ge ps : (length ps <= length (flat_map write_peer ps))%nat.
Proof.
  induction ps as [|p ps IH]; cbn [flat_map length]; [lia|].
  unfold write_peer at 1. rewrite !app_length, be16_len. lia.
Qed.

Lemma bep15_peers_flat w ps fuel :
  Forall (peer_ok w) ps -> (length ps <= fuel)%nat ->
  bep15_peers w fuel (flat_map write_peer ps) = Some (map endpoint ps).
Proof.
  revert fuel; induction ps as [|p ps IH]; intros fuel Hok Hf.
  - destruct fuel; reflexivity.
  - inversion Hok as [|? ? Hp Hps]; subst. cbn [length] in Hf.
    destruct fuel as [|fuel]; [lia|].
    cbn [flat_map map].
    pose proof (write_peer_len w p Hp) as Lp.
    destruct (write_peer p ++ flat_map write_peer ps) as [|x0 r0] eqn:E.
    { apply (f_equal (@length Z)) in E. rewrite app_length, Lp in E. cbn in E. lia. }
    cbn [bep15_peers]. rewrite <- E.
    assert (Lb : (w + 2 <= length (write_peer p ++ flat_map write_peer ps))%nat) by (rewrite app_length; lia).
    destruct (Nat.ltb_spec (length (write_peer p ++ flat_map write_peer ps)) (w + 2)) as [C|_]; [lia|].
    rewrite skipn_app_len by exact Lp. rewrite IH by (assumption || lia).
    destruct Hp as [Hw Hport].
    assert (F : firstn w (write_peer p ++ flat_map write_peer ps) = p_ip p).
    { unfold write_peer. rewrite <- app_assoc. apply firstn_app_len, Hw. }
    assert (S : sub w (w + 2) (write_peer p ++ flat_map write_peer ps) = be16 (p_port p)).
    { unfold sub, write_peer. rewrite <- app_assoc. replace (w + 2 - w)%nat with 2%nat by lia.
      apply sub_after; [exact Hw|apply be16_len]. }
    rewrite F, S, be_dec_be16 by exact Hport. reflexivity.
Qed.

(* ---- announce *)
Definition aresp_ok (r : aresp) (v6peers : bool) : Prop :=
  u32 (a_incomplete r) /\ u32 (a_complete r) /\
  Forall (peer_ok (if v6peers then 16 else 4)%nat) (if v6peers then a_v6 r else a_v4 r).

Lemma interval_field_u32 ns : u32 (interval_field ns).
Proof. unfold interval_field, u32. apply wrap_range. lia. Qed.
(* for a non-negative duration the field is the whole seconds mod 2^32 *)
Lemma interval_field_nonneg ns : 0 <= ns -> interval_field ns = (ns / 1000000000) mod 2 ^ 32.
Proof. intros H. unfold interval_field, wrap. rewrite Z.quot_div_nonneg by lia. reflexivity. Qed.

Lemma udp_announce_decodes txid r v6action v6peers :
  length txid = 4%nat -> aresp_ok r v6peers ->
  bep15_decode_announce v6peers (write_announce txid r v6action v6peers) =
  Some {| da_action := if v6action then 4 else 1; da_txid := txid;
          da_interval := interval_field (a_interval r);
          da_leechers := a_incomplete r; da_seeders := a_complete r;
          da_peers := map endpoint (if v6peers then a_v6 r else a_v4 r) |}.
Proof.
  intros Lt (Hi & Hc & Hp).
  unfold write_announce, write_header.
  set (act := if v6action then act_announce_v6 else act_announce).
  assert (Ha : u32 act) by (unfold act, u32, act_announce_v6, act_announce; destruct v6action; lia).
  set (P := flat_map write_peer (if v6peers then a_v6 r else a_v4 r)).
  set (iv := interval_field (a_interval r)).
  pose proof (interval_field_u32 (a_interval r)) as Hiv. fold iv in Hiv.
  rewrite <- !app_assoc.
  set (out := be32 act ++ txid ++ be32 iv ++ be32 (a_incomplete r) ++ be32 (a_complete r) ++ P).
  assert (Lout : length out = (20 + length P)%nat).
  { unfold out. rewrite !app_length, !be32_len, Lt. lia. }
  assert (S20 : skipn 20 out = P).
  { unfold out. change 20%nat with (4 + (4 + (4 + (4 + 4))))%nat.
    rewrite !skipn_add. rewrite skipn_app_len by apply be32_len. rewrite skipn_app_len by exact Lt.
    rewrite !skipn_app_len by apply be32_len. reflexivity. }
  assert (A0 : u32_at 0 out = act) by (apply u32_at_0, Ha).
  assert (A4 : sub 4 8 out = txid).
  { unfold out. change 8%nat with (4 + 4)%nat. change 4%nat with (4 + 0)%nat at 1.
    rewrite sub_skip by apply be32_len. apply sub_here, Lt. }
  assert (A8 : u32_at 8 out = iv).
  { unfold out. change 8%nat with (4 + (4 + 0))%nat.
    rewrite u32_at_skip by apply be32_len. rewrite u32_at_skip by exact Lt. apply u32_at_0, Hiv. }
  assert (A12 : u32_at 12 out = a_incomplete r).
  { unfold out. change 12%nat with (4 + (4 + (4 + 0)))%nat.
    rewrite u32_at_skip by apply be32_len. rewrite u32_at_skip by exact Lt.
    rewrite u32_at_skip by apply be32_len. apply u32_at_0, Hi. }
  assert (A16 : u32_at 16 out = a_complete r).
  { unfold out. change 16%nat with (4 + (4 + (4 + (4 + 0))))%nat.
    rewrite u32_at_skip by apply be32_len. rewrite u32_at_skip by exact Lt.
    rewrite !u32_at_skip by apply be32_len.
    rewrite <- (app_nil_r P) at 1. rewrite app_assoc. rewrite <- (app_nil_r (_ ++ P)).
    rewrite <- app_assoc. apply u32_at_0, Hc. }
  unfold bep15_decode_announce.
  destruct (Nat.ltb_spec (length out) 20) as [C|_]; [lia|].
  rewrite S20. unfold P.
  rewrite bep15_peers_flat; [| exact Hp |].
  - rewrite A0, A4, A8, A12, A16. unfold act, act_announce_v6, act_announce. destruct v6action; reflexivity.
  - rewrite Lout. pose proof (flat_peers_len_ge (if v6peers then a_v6 r else a_v4 r)). fold P in H. lia.
Qed.

(* ---- scrape *)
Definition scrape_ok (s : scrape) : Prop := u32 (sc_complete s) /\ u32 (sc_snatches s) /\ u32 (sc_incomplete s).
Definition triple_of (s : scrape) : dec_triple :=
  {| dt_seeders := sc_complete s; dt_completed := sc_snatches s; dt_leechers := sc_incomplete s |}.

Lemma entry_len s : length (write_scrape_entry s) = 12%nat.
Proof. unfold write_scrape_entry. rewrite !app_length, !be32_len. reflexivity. Qed.

Lemma flat_entries_len_ge fs : (length fs <= length (flat_map write_scrape_entry fs))%nat.
Proof.
  induction fs as [|s fs IH]; cbn [flat_map length]; [lia|]. rewrite app_length, entry_len. lia.
Qed.

Lemma bep15_triples_flat fs fuel :
  Forall scrape_ok fs -> (length fs <= fuel)%nat ->
  bep15_triples fuel (flat_map write_scrape_entry fs) = Some (map triple_of fs).
Proof.
  revert fuel; induction fs as [|s fs IH]; intros fuel Hok Hf.
  - destruct fuel; reflexivity.
  - inversion Hok as [|? ? Hs Hfs]; subst. cbn [length] in Hf.
    destruct fuel as [|fuel]; [lia|].
    cbn [flat_map map].
    pose proof (entry_len s) as Ls.
    destruct (write_scrape_entry s ++ flat_map write_scrape_entry fs) as [|x0 r0] eqn:E.
    { apply (f_equal (@length Z)) in E. rewrite app_length, Ls in E. cbn in E. lia. }
    cbn [bep15_triples]. rewrite <- E.
    destruct (Nat.ltb_spec (length (write_scrape_entry s ++ flat_map write_scrape_entry fs)) 12) as [C|_];
      [rewrite app_length in C; lia|].
    rewrite skipn_app_len by exact Ls. rewrite IH by (assumption || lia).
    destruct Hs as (H1 & H2 & H3).
    set (R := flat_map write_scrape_entry fs).
    unfold write_scrape_entry. rewrite <- !app_assoc.
    assert (B0 : u32_at 0 (be32 (sc_complete s) ++ be32 (sc_snatches s) ++ be32 (sc_incomplete s) ++ R) = sc_complete s)
      by (apply u32_at_0, H1).
    assert (B4 : u32_at 4 (be32 (sc_complete s) ++ be32 (sc_snatches s) ++ be32 (sc_incomplete s) ++ R) = sc_snatches s).
    { change 4%nat with (4 + 0)%nat. rewrite u32_at_skip by apply be32_len. apply u32_at_0, H2. }
    assert (B8 : u32_at 8 (be32 (sc_complete s) ++ be32 (sc_snatches s) ++ be32 (sc_incomplete s) ++ R) = sc_incomplete s).
    { change 8%nat with (4 + (4 + 0))%nat. rewrite !u32_at_skip by apply be32_len. apply u32_at_0, H3. }
    rewrite B0, B4, B8. reflexivity.
Qed.

Lemma udp_scrape_decodes txid files :
  length txid = 4%nat -> Forall scrape_ok files ->
  bep15_decode_scrape (write_scrape txid files) = Some (2, txid, map triple_of files).
Proof.
  intros Lt Hok. unfold write_scrape, write_header. rewrite <- app_assoc.
  set (R := flat_map write_scrape_entry files).
  set (out := be32 act_scrape ++ txid ++ R).
  assert (Lout : length out = (8 + length R)%nat) by (unfold out; rewrite !app_length, be32_len, Lt; lia).
  unfold bep15_decode_scrape.
  destruct (Nat.ltb_spec (length out) 8) as [C|_]; [lia|].
  assert (S8 : skipn 8 out = R).
  { unfold out. change 8%nat with (4 + 4)%nat. rewrite skipn_add, skipn_app_len by apply be32_len.
    apply skipn_app_len, Lt. }
  rewrite S8. unfold R. rewrite bep15_triples_flat; [| exact Hok |].
  - assert (A0 : u32_at 0 out = 2) by (apply u32_at_0; unfold u32; lia).
    assert (A4 : sub 4 8 out = txid).
    { unfold out. change 8%nat with (4 + 4)%nat. change 4%nat with (4 + 0)%nat at 1.
      rewrite sub_skip by apply be32_len. apply sub_here, Lt. }
    rewrite A0, A4. reflexivity.
  - rewrite Lout. pose proof (flat_entries_len_ge files). fold R in H. lia.
Qed.

(* responseHook.HandleScrape: file i answers infohash i of the request *)
Lemma scrape_files_in_request_order (St : Type) (scrape_of : St -> bytes -> family -> scrape) st req :
  length (handle_scrape St scrape_of st req) = length (s_ihs req) /\
  forall i d d', (i < length (s_ihs req))%nat ->
    nth i (handle_scrape St scrape_of st req) d = scrape_of st (nth i (s_ihs req) d') (s_af req).
Proof.
  unfold handle_scrape. split; [apply map_length|].
  intros i d d' Hi.
  rewrite (nth_indep _ d (scrape_of st d' (s_af req))) by (rewrite map_length; exact Hi).
  apply (map_nth (fun ih => scrape_of st ih (s_af req))).
Qed.

(* what a client decodes for a scrape: one triple per requested infohash, in
   request order, repeats included *)
Lemma udp_scrape_end_to_end (St : Type) (scrape_of : St -> bytes -> family -> scrape) st req txid :
  length txid = 4%nat -> (forall ih af, scrape_ok (scrape_of st ih af)) ->
  bep15_decode_scrape (write_scrape txid (handle_scrape St scrape_of st req)) =
  Some (2, txid, map (fun ih => triple_of (scrape_of st ih (s_af req))) (s_ihs req)).
Proof.
  intros Lt Hok. rewrite udp_scrape_decodes; [| exact Lt |].
  - unfold handle_scrape. rewrite map_map. reflexivity.
  - unfold handle_scrape. apply Forall_forall. intros s Hs. apply in_map_iff in Hs as (ih & <- & _). apply Hok.
Qed.

(* ---- connect *)
Lemma udp_connect_decodes txid connid :
  length txid = 4%nat -> length connid = 8%nat ->
  bep15_decode_connect (write_connection_id txid connid) = Some (0, txid, connid).
Proof.
  intros Lt Lc. unfold write_connection_id, write_header, bep15_decode_connect. rewrite <- app_assoc.
  set (out := be32 act_connect ++ txid ++ connid).
  assert (Lout : length out = 16%nat) by (unfold out; rewrite !app_length, be32_len, Lt, Lc; reflexivity).
  rewrite Lout. cbn [Nat.eqb].
  assert (A0 : u32_at 0 out = 0) by (apply u32_at_0; unfold u32; lia).
  assert (A4 : sub 4 8 out = txid).
  { unfold out. change 8%nat with (4 + 4)%nat. change 4%nat with (4 + 0)%nat at 1.
    rewrite sub_skip by apply be32_len. apply sub_here, Lt. }
  assert (A8 : sub 8 16 out = connid).
  { unfold out. change 16%nat with (4 + (4 + 8))%nat. change 8%nat with (4 + (4 + 0))%nat at 1.
    rewrite sub_skip by apply be32_len. rewrite sub_skip by exact Lt.
    unfold sub. cbn [skipn Nat.sub]. apply firstn_all2. lia. }
  rewrite A0, A4, A8. reflexivity.
Qed.

(* ---- errors *)
Lemma decode_error_msg txid msg :
  length txid = 4%nat ->
  bep15_decode_error (write_error_msg txid msg) = Some (3, txid, msg ++ [0]).
Proof.
  intros Lt. unfold write_error_msg, write_header, bep15_decode_error. rewrite <- app_assoc.
  set (out := be32 act_error ++ txid ++ msg ++ [0]).
  assert (Lout : (8 <= length out)%nat) by (unfold out; rewrite !app_length, be32_len, Lt; lia).
  destruct (Nat.ltb_spec (length out) 8) as [C|_]; [lia|].
  assert (A0 : u32_at 0 out = 3) by (apply u32_at_0; unfold u32; lia).
  assert (A4 : sub 4 8 out = txid).
  { unfold out. change 8%nat with (4 + 4)%nat. change 4%nat with (4 + 0)%nat at 1.
    rewrite sub_skip by apply be32_len. apply sub_here, Lt. }
  assert (S8 : skipn 8 out = msg ++ [0]).
  { unfold out. change 8%nat with (4 + 4)%nat. rewrite skipn_add, skipn_app_len by apply be32_len.
    apply skipn_app_len, Lt. }
  rewrite A0, A4, S8. reflexivity.
Qed.

(* a client error travels as its own text (NUL-terminated) *)
Lemma udp_error_client_text txid msg :
  length txid = 4%nat ->
  bep15_decode_error (write_error txid (goerr_of (ClientErr msg))) = Some (3, txid, msg ++ [0]).
Proof. intros Lt. unfold write_error. cbn [goerr_of error_message ge_client ge_text]. apply decode_error_msg, Lt. Qed.

(* more generally: whenever errors.As finds a ClientError the text sent is err.Error() *)
Lemma udp_error_client_any txid e c :
  length txid = 4%nat -> ge_client e = Some c ->
  bep15_decode_error (write_error txid e) = Some (3, txid, ge_text e ++ [0]).
Proof. intros Lt H. unfold write_error, error_message. rewrite H. apply decode_error_msg, Lt. Qed.

(* anything that is not the client's fault: one constant datagram, whatever the error *)
Lemma udp_error_internal_constant txid e e' :
  ge_client e = None -> ge_client e' = None -> write_error txid e = write_error txid e'.
Proof. intros H H'. unfold write_error, error_message. rewrite H, H'. reflexivity. Qed.

Lemma udp_error_internal_generic txid e :
  length txid = 4%nat -> ge_client e = None ->
  bep15_decode_error (write_error txid e) = Some (3, txid, generic_internal ++ [0]).
Proof. intros Lt H. unfold write_error, error_message. rewrite H. apply decode_error_msg, Lt. Qed.

(* the code before the fix (finding F2): the internal error's text was sent *)
Lemma write_error_legacy_leaks txid e :
  length txid = 4%nat -> ge_client e = None ->
  bep15_decode_error (write_error_legacy txid e) = Some (3, txid, legacy_internal_prefix ++ ge_text e ++ [0]).
Proof.
  intros Lt H. unfold write_error_legacy, error_message_legacy. rewrite H.
  rewrite decode_error_msg by exact Lt. rewrite <- app_assoc. reflexivity.
Qed.
Lemma udp_error_internal_constant_legacy_refuted :
  exists txid e e', length txid = 4%nat /\ ge_client e = None /\ ge_client e' = None /\
                    write_error_legacy txid e <> write_error_legacy txid e'.
Proof.
  exists [0;0;0;1], {| ge_client := None; ge_text := s2b "dial tcp 10.0.0.7:6379: connection refused" |},
         {| ge_client := None; ge_text := s2b "x" |}.
  repeat split; try reflexivity. vm_compute. discriminate.
Qed.

(* ---- the hypotheses are satisfiable *)
Example announce_example :
  let r := {| a_interval := 1800500000000; a_min_interval := 0; a_complete := 3; a_incomplete := 4294967295;
              a_v4 := [{| p_id := []; p_ip := [10;0;0;1]; p_port := 6881 |}; {| p_id := []; p_ip := [10;0;0;2]; p_port := 0 |}];
              a_v6 := [] |} in
  aresp_ok r false /\
  option_map da_interval (bep15_decode_announce false (write_announce [9;8;7;6] r true false)) = Some 1800.
Proof. cbn zeta. split; [|vm_compute; reflexivity]. unfold aresp_ok, u32, peer_ok. cbn.
  split; [lia|split; [lia|]]. repeat (apply Forall_cons; [cbn; split; [reflexivity|lia]|]). apply Forall_nil. Qed.
