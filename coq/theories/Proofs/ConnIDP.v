(* Lemmas about Model/ConnID.v (C10). *)
From Chihaya Require Import Model.ConnID.
From Coq Require Import ZifyBool ZifyNat.
Open Scope Z_scope.

(* ---- bytes helpers *)
Lemma firstn_app_exact {A} (a b : list A) n : length a = n -> firstn n (a ++ b) = a.
Proof. intros <-. rewrite firstn_app, Nat.sub_diag, firstn_all. cbn. apply app_nil_r. Qed.
Lemma skipn_app_exact {A} (a b : list A) n : length a = n -> skipn n (a ++ b) = b.
Proof. intros <-. rewrite skipn_app, Nat.sub_diag, skipn_all. reflexivity. Qed.

Lemma sub_0 n l : sub 0 n l = firstn n l.
Proof. unfold sub. rewrite Nat.sub_0_r. reflexivity. Qed.

Lemma be32_length v : length (be32 v) = 4%nat.
Proof. apply be_enc_length. Qed.
Lemma ts4_length now : length (ts4 now) = 4%nat.
Proof. apply be32_length. Qed.

Lemma generate_ts mac k ip now : sub 0 4 (generate mac k ip now) = ts4 now.
Proof. unfold generate. rewrite sub_0. apply firstn_app_exact, ts4_length. Qed.
Lemma generate_tag mac k ip now : skipn 4 (generate mac k ip now) = tag mac k (ts4 now) ip.
Proof. unfold generate. apply skipn_app_exact, ts4_length. Qed.

Lemma be_dec_be32 v : 0 <= v < 2 ^ 32 -> be_dec (be32 v) = v.
Proof. intros H. unfold be32. rewrite be_dec_enc. apply Z.mod_small. exact H. Qed.

(* the seconds field of an issued ID *)
Lemma generate_id_time mac k ip now :
  id_time (generate mac k ip now) = wrap32 (unix_seconds now) * ns_per_s.
Proof.
  unfold id_time. rewrite generate_ts. unfold ts4. rewrite be_dec_be32; [reflexivity|].
  apply wrap_range. lia.
Qed.
Lemma generate_id_time_small mac k ip now :
  0 <= now < 2 ^ 32 * ns_per_s ->
  id_time (generate mac k ip now) = now / ns_per_s * ns_per_s.
Proof.
  intros H. rewrite generate_id_time. unfold unix_seconds. rewrite wrap_small; [reflexivity|].
  unfold ns_per_s in *. split; [apply Z.div_pos; lia|apply Z.div_lt_upper_bound; lia].
Qed.

(* ---- characterisation *)
Lemma validate_iff mac k id ip now skew :
  validate mac k id ip now skew = true <->
  now <= id_time id + ttl_ns /\ id_time id <= now + skew /\
  tag mac k (sub 0 4 id) ip = skipn 4 id.
Proof.
  unfold validate.
  destruct (Z.gtb_spec now (id_time id + ttl_ns)) as [A|A]; cbn [orb].
  - split; [discriminate|lia].
  - destruct (Z.gtb_spec (id_time id) (now + skew)) as [B|B].
    + split; [discriminate|lia].
    + rewrite bytes_eqb_eq. split; [intros H; repeat split; [lia|lia|exact H]|intros (_ & _ & H); exact H].
Qed.

Lemma validate_generate_iff mac k ip t0 now skew :
  validate mac k (generate mac k ip t0) ip now skew = true <->
  now <= id_time (generate mac k ip t0) + ttl_ns /\ id_time (generate mac k ip t0) <= now + skew.
Proof.
  rewrite validate_iff, generate_ts, generate_tag. tauto.
Qed.

(* every issued ID is accepted from that IP throughout its lifetime *)
Lemma issued_accepted mac k ip t0 now skew :
  0 <= skew -> 0 <= t0 < 2 ^ 32 * ns_per_s ->
  t0 <= now <= (t0 / ns_per_s + 120) * ns_per_s ->
  validate mac k (generate mac k ip t0) ip now skew = true.
Proof.
  intros Hs Ht Hn. apply validate_generate_iff. rewrite generate_id_time_small by exact Ht.
  unfold ttl_ns, ns_per_s in *.
  pose proof (Z.mul_div_le t0 1000000000 ltac:(lia)). lia.
Qed.

(* the same, with the skew used in full: accepted iff inside the window *)
Lemma issued_accepted_iff mac k ip t0 now skew :
  0 <= t0 < 2 ^ 32 * ns_per_s ->
  validate mac k (generate mac k ip t0) ip now skew = true <->
  t0 / ns_per_s * ns_per_s - skew <= now <= (t0 / ns_per_s + 120) * ns_per_s.
Proof.
  intros Ht. rewrite validate_generate_iff, generate_id_time_small by exact Ht.
  unfold ttl_ns, ns_per_s. lia.
Qed.

Lemma expired_rejected mac k id ip now skew :
  now > id_time id + ttl_ns -> validate mac k id ip now skew = false.
Proof.
  intros H. destruct (validate mac k id ip now skew) eqn:E; [|reflexivity].
  apply validate_iff in E. lia.
Qed.
Lemma postdated_rejected mac k id ip now skew :
  id_time id > now + skew -> validate mac k id ip now skew = false.
Proof.
  intros H. destruct (validate mac k id ip now skew) eqn:E; [|reflexivity].
  apply validate_iff in E. lia.
Qed.
(* in terms of the instant of issue, for any number of (nano)seconds past the edges *)
Lemma issued_expired_rejected mac k ip t0 now skew :
  0 <= t0 < 2 ^ 32 * ns_per_s -> now > (t0 / ns_per_s + 120) * ns_per_s ->
  validate mac k (generate mac k ip t0) ip now skew = false.
Proof.
  intros Ht H. apply expired_rejected. rewrite generate_id_time_small by exact Ht.
  unfold ttl_ns, ns_per_s in *. lia.
Qed.
Lemma issued_postdated_rejected mac k ip t0 now skew :
  0 <= t0 < 2 ^ 32 * ns_per_s -> t0 / ns_per_s * ns_per_s > now + skew ->
  validate mac k (generate mac k ip t0) ip now skew = false.
Proof.
  intros Ht H. apply postdated_rejected. rewrite generate_id_time_small by exact Ht. exact H.
Qed.

(* an accepted ID is exactly what this key issues for this IP at an instant
   inside the window - no assumption on the MAC *)
Lemma accepted_is_issued mac k id ip now skew :
  wf_bytes id = true -> (4 <= length id)%nat ->
  validate mac k id ip now skew = true ->
  exists t, id = generate mac k ip t /\ 0 <= t < 2 ^ 32 * ns_per_s /\
            t - skew <= now <= t + ttl_ns.
Proof.
  intros Hwf Hlen Hv. apply validate_iff in Hv as (H1 & H2 & H3).
  set (ts := sub 0 4 id) in *.
  assert (Lts : length ts = 4%nat) by (unfold ts; apply sub_length; lia).
  assert (Wts : wf_bytes ts = true) by (unfold ts; apply wf_bytes_sub, Hwf).
  pose proof (be_dec_bounds ts Wts) as Bd. rewrite Lts in Bd. change (256 ^ Z.of_nat 4) with (2 ^ 32) in Bd.
  exists (id_time id). unfold id_time. fold ts.
  assert (E : ts4 (be_dec ts * ns_per_s) = ts).
  { unfold ts4, unix_seconds. rewrite Z.div_mul by (unfold ns_per_s; lia).
    rewrite wrap_small by lia. unfold be32. rewrite <- Lts. apply be_enc_dec, Wts. }
  split; [|split].
  - unfold generate. rewrite E, H3. unfold ts. rewrite sub_0. symmetry. apply firstn_skipn.
  - unfold ns_per_s. lia.
  - unfold id_time in H1, H2. fold ts in H1, H2. lia.
Qed.

(* any change in the tag bytes of an accepted ID is rejected *)
Lemma tag_bitflip_rejected mac k id id' ip now skew :
  sub 0 4 id' = sub 0 4 id -> skipn 4 id' <> skipn 4 id ->
  validate mac k id ip now skew = true -> validate mac k id' ip now skew = false.
Proof.
  intros Hts Htag Hv. apply validate_iff in Hv as (_ & _ & H3).
  destruct (validate mac k id' ip now skew) eqn:E; [|reflexivity].
  apply validate_iff in E as (_ & _ & E3). rewrite Hts in E3. congruence.
Qed.

(* rejection of an ID replayed from another IP / under another key / with an
   altered timestamp holds whenever the two 32-bit tags differ; that they
   differ (except with probability 2^-32) is the unforgeability of HMAC, which
   is not claimed *)
Lemma other_ip_rejected mac k ip ip' t0 now skew :
  tag mac k (ts4 t0) ip' <> tag mac k (ts4 t0) ip ->
  validate mac k (generate mac k ip t0) ip' now skew = false.
Proof.
  intros H. destruct (validate _ _ _ _ _ _) eqn:E; [|reflexivity].
  apply validate_iff in E as (_ & _ & E3). rewrite generate_ts, generate_tag in E3. contradiction.
Qed.
Lemma other_key_rejected mac k k' ip t0 now skew :
  tag mac k' (ts4 t0) ip <> tag mac k (ts4 t0) ip ->
  validate mac k' (generate mac k ip t0) ip now skew = false.
Proof.
  intros H. destruct (validate _ _ _ _ _ _) eqn:E; [|reflexivity].
  apply validate_iff in E as (_ & _ & E3). rewrite generate_ts, generate_tag in E3. contradiction.
Qed.
Lemma ts_bitflip_rejected mac k ip t0 ts' now skew :
  length ts' = 4%nat ->
  tag mac k ts' ip <> tag mac k (ts4 t0) ip ->
  validate mac k (ts' ++ tag mac k (ts4 t0) ip) ip now skew = false.
Proof.
  intros L H. destruct (validate _ _ _ _ _ _) eqn:E; [|reflexivity].
  apply validate_iff in E as (_ & _ & E3).
  rewrite sub_0, firstn_app_exact, skipn_app_exact in E3 by exact L. contradiction.
Qed.

(* ---- dispatcher *)
Lemma dispatch_short mac k skew now ip packet :
  (length packet < 16)%nat -> dispatch_request mac k skew now ip packet = DSilent.
Proof.
  intros H. unfold dispatch_request. destruct (Nat.ltb_spec (length packet) 16); [reflexivity|lia].
Qed.

Lemma dispatch_invalid_id mac k skew now ip packet :
  (16 <= length packet)%nat ->
  be_dec (sub 8 12 packet) <> act_connect ->
  validate mac k (sub 0 8 packet) ip now skew = false ->
  dispatch_request mac k skew now ip packet =
  DReply (write_error_msg (sub 12 16 packet) bad_connection_id).
Proof.
  intros L A V. unfold dispatch_request.
  destruct (Nat.ltb_spec (length packet) 16); [lia|].
  rewrite V. destruct (Z.eqb_spec (be_dec (sub 8 12 packet)) act_connect); [contradiction|]. reflexivity.
Qed.

(* with an invalid ID on a non-connect action nothing behind the dispatcher
   runs: the result does not depend on [body], the state is unchanged, no
   logic call is made and exactly one error datagram goes out *)
Lemma invalid_id_no_logic mac (St Call : Type) (body : St -> Z -> bytes -> bytes -> St * list bytes * list Call)
      st k skew now ip packet :
  (16 <= length packet)%nat ->
  be_dec (sub 8 12 packet) <> act_connect ->
  validate mac k (sub 0 8 packet) ip now skew = false ->
  handle mac St Call body st k skew now ip packet =
  Some (st, [write_error_msg (sub 12 16 packet) bad_connection_id], []).
Proof.
  intros L A V. unfold handle. rewrite dispatch_invalid_id by assumption. reflexivity.
Qed.

(* conversely: whenever the body (parsers, logic) is reached, the ID was valid *)
Lemma body_reached_valid mac k skew now ip packet a tx :
  dispatch_request mac k skew now ip packet = DBody a tx ->
  (16 <= length packet)%nat /\ validate mac k (sub 0 8 packet) ip now skew = true /\
  a = be_dec (sub 8 12 packet) /\ (a = act_announce \/ a = act_announce_v6 \/ a = act_scrape).
Proof.
  unfold dispatch_request.
  destruct (Nat.ltb_spec (length packet) 16) as [L|L]; [discriminate|].
  destruct (Z.eqb_spec (be_dec (sub 8 12 packet)) act_connect) as [A|A]; cbn [negb andb].
  - destruct (bytes_eqb _ _); cbn [negb]; [|discriminate]. destruct (ip_family ip); discriminate.
  - destruct (validate mac k (sub 0 8 packet) ip now skew) eqn:V; cbn [negb]; [|discriminate].
    destruct (_ || _ || _) eqn:O; [|discriminate].
    intros [= <- <-]. unfold act_announce, act_announce_v6, act_scrape in *. repeat split; try assumption; try lia.
Qed.

Lemma connect_issues_generate mac k skew now ip packet af :
  (16 <= length packet)%nat ->
  be_dec (sub 8 12 packet) = act_connect ->
  sub 0 8 packet = initial_connection_id ->
  ip_family ip = Some af ->
  dispatch_request mac k skew now ip packet =
  DReply (write_connection_id (sub 12 16 packet) (generate mac k ip now)).
Proof.
  intros L A M F. unfold dispatch_request.
  destruct (Nat.ltb_spec (length packet) 16); [lia|].
  rewrite A, M, F. cbn [negb andb]. rewrite Z.eqb_refl, bytes_eqb_refl. reflexivity.
Qed.

Lemma connect_without_magic_silent mac k skew now ip packet :
  (16 <= length packet)%nat ->
  be_dec (sub 8 12 packet) = act_connect ->
  sub 0 8 packet <> initial_connection_id ->
  dispatch_request mac k skew now ip packet = DSilent.
Proof.
  intros L A M. unfold dispatch_request.
  destruct (Nat.ltb_spec (length packet) 16); [lia|].
  rewrite A. cbn [negb andb]. rewrite Z.eqb_refl.
  destruct (bytes_eqb (sub 0 8 packet) initial_connection_id) eqn:E; [|reflexivity].
  apply bytes_eqb_eq in E. contradiction.
Qed.

Lemma unknown_action_error mac k skew now ip packet :
  (16 <= length packet)%nat ->
  let a := be_dec (sub 8 12 packet) in
  a <> act_connect -> a <> act_announce -> a <> act_scrape -> a <> act_announce_v6 ->
  exists msg, dispatch_request mac k skew now ip packet = DReply (write_error_msg (sub 12 16 packet) msg).
Proof.
  intros L a A0 A1 A2 A4. unfold dispatch_request. fold a.
  destruct (Nat.ltb_spec (length packet) 16); [lia|].
  destruct (Z.eqb_spec a act_connect); [contradiction|]. cbn [negb andb].
  destruct (validate mac k (sub 0 8 packet) ip now skew); cbn [negb].
  - destruct (Z.eqb_spec a act_announce); [contradiction|].
    destruct (Z.eqb_spec a act_announce_v6); [contradiction|].
    destruct (Z.eqb_spec a act_scrape); [contradiction|]. cbn [orb]. eexists; reflexivity.
  - eexists; reflexivity.
Qed.

(* two instances are two (key, skew) configurations: there is no other state.
   An ID issued by one is accepted by every instance with the same key. *)
Record instance := { i_key : bytes; i_skew : Z }.
Lemma instances_agree mac (a b : instance) ip t0 now :
  i_key a = i_key b -> 0 <= i_skew b -> 0 <= t0 < 2 ^ 32 * ns_per_s ->
  t0 <= now <= (t0 / ns_per_s + 120) * ns_per_s ->
  validate mac (i_key b) (generate mac (i_key a) ip t0) ip now (i_skew b) = true.
Proof. intros E Hs Ht Hn. rewrite E. apply issued_accepted; assumption. Qed.

(* the connect response of instance a carries an ID that instance b lets through
   to the body for any announce/scrape packet built around it *)
Lemma connect_then_use mac (a b : instance) ip t0 now body_bytes action txid :
  i_key a = i_key b -> 0 <= i_skew b -> 0 <= t0 < 2 ^ 32 * ns_per_s ->
  t0 <= now <= (t0 / ns_per_s + 120) * ns_per_s ->
  length (mac (i_key a) (ts4 t0 ++ ip)) = 32%nat ->
  length txid = 4%nat -> 0 <= action < 2 ^ 32 ->
  action = act_announce \/ action = act_announce_v6 \/ action = act_scrape ->
  dispatch_request mac (i_key b) (i_skew b) now ip
    (generate mac (i_key a) ip t0 ++ be32 action ++ txid ++ body_bytes) = DBody action txid.
Proof.
  intros E Hs Ht Hn Lm Lt Ha Hact.
  set (id := generate mac (i_key a) ip t0).
  assert (Lid : length id = 8%nat).
  { unfold id, generate, tag. rewrite app_length, ts4_length, firstn_length, Lm. reflexivity. }
  set (p := id ++ be32 action ++ txid ++ body_bytes).
  assert (S0 : sub 0 8 p = id) by (unfold p; rewrite sub_0; apply firstn_app_exact, Lid).
  assert (S1 : sub 8 12 p = be32 action).
  { unfold p, sub. rewrite skipn_app_exact by exact Lid. apply firstn_app_exact, be32_length. }
  assert (S2 : sub 12 16 p = txid).
  { unfold p, sub. rewrite skipn_app, Lid, skipn_all2 by lia. cbn [app].
    change (12 - 8)%nat with 4%nat. rewrite skipn_app_exact by apply be32_length.
    apply firstn_app_exact, Lt. }
  unfold dispatch_request. fold p.
  assert (Lp : (16 <= length p)%nat).
  { unfold p. rewrite !app_length, Lid, be32_length, Lt. lia. }
  destruct (Nat.ltb_spec (length p) 16); [lia|].
  rewrite S0, S1, S2, be_dec_be32 by exact Ha.
  unfold id. rewrite (instances_agree mac a b) by assumption.
  unfold act_announce, act_announce_v6, act_scrape, act_connect in *.
  destruct Hact as [Hq|[Hq|Hq]]; rewrite Hq; reflexivity.
Qed.

(* ---- the hypotheses are satisfiable (a toy MAC suffices) *)
Definition toy_mac (k m : bytes) : bytes := firstn 32 (rev m ++ k ++ repeat 0 32).
Example issued_accepted_example :
  validate toy_mac [1;2;3] (generate toy_mac [1;2;3] [10;0;0;1] 1600000000123456789) [10;0;0;1]
           1600000119999999999 0 = true
  /\ validate toy_mac [1;2;3] (generate toy_mac [1;2;3] [10;0;0;1] 1600000000123456789) [10;0;0;1]
           1600000120000000001 0 = false
  /\ validate toy_mac [1;2;3] (generate toy_mac [1;2;3] [10;0;0;1] 1600000000123456789) [10;0;0;2]
           1600000001000000000 0 = false.
Proof. vm_compute. repeat split. Qed.
