(* C10 - UDP announces and scrapes are processed only with a valid connection ID.
   Statements only, each closed by [exact] of a lemma from Proofs/ConnIDP.v.
   [mac] is the HMAC-SHA256 oracle: every theorem holds for EVERY function mac. *)
From Chihaya Require Import Model.ConnID Proofs.ConnIDP.
Open Scope Z_scope.

(* Validate = inside [ts - skew, ts + 2 min] and the tag is the MAC of (ts, ip) *)
Theorem C10_validate_iff : forall mac k id ip now skew,
  validate mac k id ip now skew = true <->
  now <= id_time id + ttl_ns /\ id_time id <= now + skew /\
  tag mac k (sub 0 4 id) ip = skipn 4 id.
Proof. exact validate_iff. Qed.
Print Assumptions C10_validate_iff.

(* every issued ID is accepted from that IP throughout its lifetime (counted
   from the embedded whole second, DESIGN 9.B-7; skew >= 0, 9.B-9; before 2106) *)
Theorem C10_issued_accepted : forall mac k ip t0 now skew,
  0 <= skew -> 0 <= t0 < 2 ^ 32 * ns_per_s ->
  t0 <= now <= (t0 / ns_per_s + 120) * ns_per_s ->
  validate mac k (generate mac k ip t0) ip now skew = true.
Proof. exact issued_accepted. Qed.
Print Assumptions C10_issued_accepted.

Theorem C10_issued_accepted_iff : forall mac k ip t0 now skew,
  0 <= t0 < 2 ^ 32 * ns_per_s ->
  validate mac k (generate mac k ip t0) ip now skew = true <->
  t0 / ns_per_s * ns_per_s - skew <= now <= (t0 / ns_per_s + 120) * ns_per_s.
Proof. exact issued_accepted_iff. Qed.
Print Assumptions C10_issued_accepted_iff.

(* strict edges, any ID, any number of nanoseconds *)
Theorem C10_expired_rejected : forall mac k id ip now skew,
  now > id_time id + ttl_ns -> validate mac k id ip now skew = false.
Proof. exact expired_rejected. Qed.
Print Assumptions C10_expired_rejected.

Theorem C10_postdated_rejected : forall mac k id ip now skew,
  id_time id > now + skew -> validate mac k id ip now skew = false.
Proof. exact postdated_rejected. Qed.
Print Assumptions C10_postdated_rejected.

Theorem C10_issued_expired_rejected : forall mac k ip t0 now skew,
  0 <= t0 < 2 ^ 32 * ns_per_s -> now > (t0 / ns_per_s + 120) * ns_per_s ->
  validate mac k (generate mac k ip t0) ip now skew = false.
Proof. exact issued_expired_rejected. Qed.
Print Assumptions C10_issued_expired_rejected.

Theorem C10_issued_postdated_rejected : forall mac k ip t0 now skew,
  0 <= t0 < 2 ^ 32 * ns_per_s -> t0 / ns_per_s * ns_per_s > now + skew ->
  validate mac k (generate mac k ip t0) ip now skew = false.
Proof. exact issued_postdated_rejected. Qed.
Print Assumptions C10_issued_postdated_rejected.

(* an accepted ID IS what this key issues for this IP at an instant inside the
   window; no assumption on mac *)
Theorem C10_accepted_is_issued : forall mac k id ip now skew,
  wf_bytes id = true -> (4 <= length id)%nat ->
  validate mac k id ip now skew = true ->
  exists t, id = generate mac k ip t /\ 0 <= t < 2 ^ 32 * ns_per_s /\
            t - skew <= now <= t + ttl_ns.
Proof. exact accepted_is_issued. Qed.
Print Assumptions C10_accepted_is_issued.

Theorem C10_tag_bitflip_rejected : forall mac k id id' ip now skew,
  sub 0 4 id' = sub 0 4 id -> skipn 4 id' <> skipn 4 id ->
  validate mac k id ip now skew = true -> validate mac k id' ip now skew = false.
Proof. exact tag_bitflip_rejected. Qed.
Print Assumptions C10_tag_bitflip_rejected.

(* under the visible hypothesis that the two 32-bit tags differ *)
Theorem C10_other_ip_rejected : forall mac k ip ip' t0 now skew,
  tag mac k (ts4 t0) ip' <> tag mac k (ts4 t0) ip ->
  validate mac k (generate mac k ip t0) ip' now skew = false.
Proof. exact other_ip_rejected. Qed.
Print Assumptions C10_other_ip_rejected.

Theorem C10_other_key_rejected : forall mac k k' ip t0 now skew,
  tag mac k' (ts4 t0) ip <> tag mac k (ts4 t0) ip ->
  validate mac k' (generate mac k ip t0) ip now skew = false.
Proof. exact other_key_rejected. Qed.
Print Assumptions C10_other_key_rejected.

Theorem C10_ts_bitflip_rejected : forall mac k ip t0 ts' now skew,
  length ts' = 4%nat ->
  tag mac k ts' ip <> tag mac k (ts4 t0) ip ->
  validate mac k (ts' ++ tag mac k (ts4 t0) ip) ip now skew = false.
Proof. exact ts_bitflip_rejected. Qed.
Print Assumptions C10_ts_bitflip_rejected.

(* invalid ID on a non-connect action: state unchanged, no logic call, exactly
   one "bad connection ID" datagram, whatever sits behind the dispatcher *)
Theorem C10_invalid_id_no_logic :
  forall mac (St Call : Type) (body : St -> Z -> bytes -> bytes -> St * list bytes * list Call)
         st k skew now ip packet,
  (16 <= length packet)%nat ->
  be_dec (sub 8 12 packet) <> act_connect ->
  validate mac k (sub 0 8 packet) ip now skew = false ->
  handle mac St Call body st k skew now ip packet =
  Some (st, [write_error_msg (sub 12 16 packet) bad_connection_id], []).
Proof. exact invalid_id_no_logic. Qed.
Print Assumptions C10_invalid_id_no_logic.

Theorem C10_body_reached_only_with_valid_id : forall mac k skew now ip packet a tx,
  dispatch_request mac k skew now ip packet = DBody a tx ->
  (16 <= length packet)%nat /\ validate mac k (sub 0 8 packet) ip now skew = true /\
  a = be_dec (sub 8 12 packet) /\ (a = act_announce \/ a = act_announce_v6 \/ a = act_scrape).
Proof. exact body_reached_valid. Qed.
Print Assumptions C10_body_reached_only_with_valid_id.

Theorem C10_short_packet_silent : forall mac k skew now ip packet,
  (length packet < 16)%nat -> dispatch_request mac k skew now ip packet = DSilent.
Proof. exact dispatch_short. Qed.
Print Assumptions C10_short_packet_silent.

Theorem C10_connect_issues_generate : forall mac k skew now ip packet af,
  (16 <= length packet)%nat ->
  be_dec (sub 8 12 packet) = act_connect ->
  sub 0 8 packet = initial_connection_id ->
  ip_family ip = Some af ->
  dispatch_request mac k skew now ip packet =
  DReply (write_connection_id (sub 12 16 packet) (generate mac k ip now)).
Proof. exact connect_issues_generate. Qed.
Print Assumptions C10_connect_issues_generate.

Theorem C10_connect_without_magic_silent : forall mac k skew now ip packet,
  (16 <= length packet)%nat ->
  be_dec (sub 8 12 packet) = act_connect ->
  sub 0 8 packet <> initial_connection_id ->
  dispatch_request mac k skew now ip packet = DSilent.
Proof. exact connect_without_magic_silent. Qed.
Print Assumptions C10_connect_without_magic_silent.

(* no per-instance state: any instance with the same key accepts the ID *)
Theorem C10_instances_agree : forall mac (a b : instance) ip t0 now,
  i_key a = i_key b -> 0 <= i_skew b -> 0 <= t0 < 2 ^ 32 * ns_per_s ->
  t0 <= now <= (t0 / ns_per_s + 120) * ns_per_s ->
  validate mac (i_key b) (generate mac (i_key a) ip t0) ip now (i_skew b) = true.
Proof. exact instances_agree. Qed.
Print Assumptions C10_instances_agree.

Theorem C10_connect_then_use : forall mac (a b : instance) ip t0 now body_bytes action txid,
  i_key a = i_key b -> 0 <= i_skew b -> 0 <= t0 < 2 ^ 32 * ns_per_s ->
  t0 <= now <= (t0 / ns_per_s + 120) * ns_per_s ->
  length (mac (i_key a) (ts4 t0 ++ ip)) = 32%nat ->
  length txid = 4%nat -> 0 <= action < 2 ^ 32 ->
  action = act_announce \/ action = act_announce_v6 \/ action = act_scrape ->
  dispatch_request mac (i_key b) (i_skew b) now ip
    (generate mac (i_key a) ip t0 ++ be32 action ++ txid ++ body_bytes) = DBody action txid.
Proof. exact connect_then_use. Qed.
Print Assumptions C10_connect_then_use.
