(* Lemmas and proofs about Model/HttpParse.v. *)
From Chihaya Require Import Model.HttpParse Proofs.QueryP.
From Coq Require Import ZifyBool ZifyNat Permutation.
Open Scope Z_scope.

Lemma sanitize_announce_err r mx df e : sanitize_announce r mx df = inl e -> is_client_err e.
Proof.
  unfold sanitize_announce. destruct (p_port (r_peer r) =? 0); [intros H; injection H as <-; eexists; reflexivity|].
  destruct (to4 _); [discriminate|]. destruct (Nat.eqb _ 16); [discriminate|].
  intros H; injection H as <-; eexists; reflexivity.
Qed.

Definition total_outcome {A} (x : outcome A) : Prop :=
  (exists a, x = Accept a) \/ (exists msg, x = Reject (ClientErr msg)).

Section Total.
  Variable parse_ip : bytes -> option bytes.
  Variable header_get : bytes -> bytes.
  Variable split_host : bytes -> bytes.

  Lemma total_cerr {A} msg : total_outcome (@cerr A msg).
  Proof. right. eexists. reflexivity. Qed.

  Lemma announce_of_params_total o q remote :
    total_outcome (announce_of_params parse_ip header_get split_host o q remote).
  Proof.
    unfold announce_of_params.
    repeat first
      [ progress cbv zeta
      | apply total_cerr
      | match goal with
        | H : sanitize_announce _ _ _ = inl ?e |- total_outcome (Reject ?e) =>
          apply sanitize_announce_err in H as [msg ->]; right; eexists; reflexivity
        | |- total_outcome (Accept _) => left; eexists; reflexivity
        | |- total_outcome (if negb (Nat.eqb (length ?pid) 20) then _ else _) =>
          unfold id_from_string; destruct (Nat.eqb (length pid) 20); cbn [negb]
        | |- total_outcome (match ?x with _ => _ end) => destruct x eqn:?
        end ].
  Qed.

  Lemma parse_announce_total o uri remote :
    total_outcome (parse_announce parse_ip header_get split_host o uri remote).
  Proof.
    unfold parse_announce. destruct (parse_url_data uri) as [e|q] eqn:E.
    - apply parse_url_data_client_err in E as [msg ->]. right; eexists; reflexivity.
    - destruct (announce_of_params_total o q remote) as [[a ->]|[msg ->]].
      + left; eexists; reflexivity.
      + right; eexists; reflexivity.
  Qed.

  Lemma parse_scrape_total o uri : total_outcome (parse_scrape o uri).
  Proof.
    unfold parse_scrape. destruct (parse_url_data uri) as [e|q] eqn:E.
    - apply parse_url_data_client_err in E as [msg ->]. right; eexists; reflexivity.
    - unfold scrape_of_params. destruct (q_ihs q).
      + right; eexists; reflexivity.
      + left; eexists; reflexivity.
  Qed.
End Total.

(* ------------------------------------------------------------------------
   What SanitizeAnnounce guarantees *)
Lemma to4_length ip ip4 : to4 ip = Some ip4 -> length ip4 = 4%nat.
Proof.
  unfold to4. destruct (Nat.eqb (length ip) 4) eqn:E4.
  - intros H; injection H as <-. apply Nat.eqb_eq in E4. exact E4.
  - destruct (Nat.eqb (length ip) 16) eqn:E16; cbn [andb]; [|discriminate].
    destruct (bytes_eqb _ _); [|discriminate]. intros H.
    assert (E : ip4 = skipn 12 ip) by congruence. subst ip4.
    apply Nat.eqb_eq in E16. rewrite skipn_length. lia.
Qed.

(* a 4-byte address is its own To4 *)
Lemma to4_of_4 ip : length ip = 4%nat -> to4 ip = Some ip.
Proof. intros H. unfold to4. rewrite H. reflexivity. Qed.

Lemma sanitize_announce_ok r mx df r' :
  sanitize_announce r mx df = inr r' ->
  p_port (r_peer r') <> 0 /\ p_port (r_peer r') = p_port (r_peer r) /\
  r_numwant r' = (if r_numwant_provided r then Z.min (r_numwant r) mx else df) /\
  ((r_af r' = V4 /\ length (p_ip (r_peer r')) = 4%nat /\ to4 (p_ip (r_peer r)) = Some (p_ip (r_peer r'))) \/
   (r_af r' = V6 /\ length (p_ip (r_peer r')) = 16%nat /\ to4 (p_ip (r_peer r')) = None /\
    p_ip (r_peer r') = p_ip (r_peer r))) /\
  r_event r' = r_event r /\ r_ih r' = r_ih r /\ r_compact r' = r_compact r /\
  r_event_provided r' = r_event_provided r /\ r_numwant_provided r' = r_numwant_provided r /\
  r_ip_provided r' = r_ip_provided r /\ r_left r' = r_left r /\ r_downloaded r' = r_downloaded r /\
  r_uploaded r' = r_uploaded r /\ p_id (r_peer r') = p_id (r_peer r).
Proof.
  unfold sanitize_announce. destruct (p_port (r_peer r) =? 0) eqn:EP; [discriminate|].
  assert (NW : (if negb (r_numwant_provided r) then df
                else if r_numwant r >? mx then mx else r_numwant r) =
               (if r_numwant_provided r then Z.min (r_numwant r) mx else df)).
  { destruct (r_numwant_provided r); cbn [negb]; [|reflexivity].
    destruct (r_numwant r >? mx) eqn:G; lia. }
  rewrite NW. clear NW.
  destruct (to4 (p_ip (r_peer r))) as [ip4|] eqn:E4.
  - intros H; injection H as <-. cbn. repeat split; try reflexivity; try lia.
    left. repeat split. eapply to4_length; eauto.
  - destruct (Nat.eqb (length (p_ip (r_peer r))) 16) eqn:E16; [|discriminate].
    intros H; injection H as <-. cbn. repeat split; try reflexivity; try lia.
    right. repeat split; auto. apply Nat.eqb_eq in E16. exact E16.
Qed.

(* ------------------------------------------------------------------------
   Inversion of an accepted announce: every check of ParseAnnounce passed *)
Section Accept.
  Variable parse_ip : bytes -> option bytes.
  Variable header_get : bytes -> bytes.
  Variable split_host : bytes -> bytes.

  (* the request ParseAnnounce hands to SanitizeAnnounce *)
  Definition raw_req (q : qparams) event ih pid nleft dl ul (nw : uint_res) port ip ipp : areq :=
    {| r_event := event; r_ih := ih;
       r_compact := match q_string q k_compact with
                    | Some s => negb (bytes_eqb s []) && negb (bytes_eqb s [48])
                    | None => false end;
       r_event_provided := match q_string q k_event with Some _ => true | None => false end;
       r_numwant_provided := match nw with UOk _ => true | _ => false end;
       r_ip_provided := ipp;
       r_numwant := match nw with UOk v => v | _ => 0 end;
       r_left := nleft; r_downloaded := dl; r_uploaded := ul;
       r_peer := {| p_id := pid; p_ip := ip; p_port := port |}; r_af := V4 |}.

  Definition announce_checks (o : popts) (q : qparams) (remote : bytes)
             event ih pid nleft dl ul nw port ip ipp : Prop :=
    (match q_string q k_event with Some s => new_event s | None => Some EvNone end) = Some event /\
    q_ihs q = [ih] /\ q_string q k_peer_id = Some pid /\ length pid = 20%nat /\
    q_uint q k_left 64 = UOk nleft /\ q_uint q k_downloaded 64 = UOk dl /\
    q_uint q k_uploaded 64 = UOk ul /\ q_uint q k_numwant 32 = nw /\ nw <> UBad /\
    q_uint q k_port 16 = UOk port /\
    requested_ip parse_ip header_get split_host o q remote = (Some ip, ipp).

  Lemma announce_of_params_spec o q remote event ih pid nleft dl ul nw port ip ipp :
    announce_checks o q remote event ih pid nleft dl ul nw port ip ipp ->
    announce_of_params parse_ip header_get split_host o q remote =
    match sanitize_announce (raw_req q event ih pid nleft dl ul nw port ip ipp)
                            (o_max_numwant o) (o_default_numwant o) with
    | inl e => Reject e | inr r' => Accept r' end.
  Proof.
    intros (Hev & Hih & Hpid & Hlen & Hl & Hd & Hu & Hnw & Hnb & Hp & Hip).
    unfold announce_of_params. rewrite Hev, Hih, Hpid, Hl, Hd, Hu, Hnw, Hp, Hip.
    unfold id_from_string. rewrite Hlen. cbn [Nat.eqb negb].
    unfold raw_req. destruct nw; try congruence; reflexivity.
  Qed.

  Lemma announce_of_params_accept o q remote r' :
    announce_of_params parse_ip header_get split_host o q remote = Accept r' ->
    exists event ih pid nleft dl ul nw port ip ipp,
      announce_checks o q remote event ih pid nleft dl ul nw port ip ipp /\
      sanitize_announce (raw_req q event ih pid nleft dl ul nw port ip ipp)
                        (o_max_numwant o) (o_default_numwant o) = inr r'.
  Proof.
    unfold announce_of_params, announce_checks, cerr.
    destruct (match q_string q k_event with Some s => new_event s | None => Some EvNone end) as [event|] eqn:Hev; [|discriminate].
    destruct (q_ihs q) as [|ih [|ih2 ihs]] eqn:Hih; try discriminate.
    destruct (q_string q k_peer_id) as [pid|] eqn:Hpid; [|discriminate].
    unfold id_from_string. destruct (Nat.eqb (length pid) 20) eqn:Hlen; cbn [negb]; [|discriminate].
    destruct (q_uint q k_left 64) as [nleft| |] eqn:Hl; try discriminate.
    destruct (q_uint q k_downloaded 64) as [dl| |] eqn:Hd; try discriminate.
    destruct (q_uint q k_uploaded 64) as [ul| |] eqn:Hu; try discriminate.
    destruct (q_uint q k_port 16) as [port| |] eqn:Hp;
      destruct (q_uint q k_numwant 32) as [nw| |] eqn:Hnw; try discriminate.
    all: destruct (requested_ip parse_ip header_get split_host o q remote) as [[ip|] ipp] eqn:Hip; try discriminate.
    all: match goal with |- context [sanitize_announce ?r ?a ?b] => destruct (sanitize_announce r a b) as [e|r''] eqn:ES end; try discriminate.
    all: intros H; injection H as <-.
    all: apply Nat.eqb_eq in Hlen.
    - exists event, ih, pid, nleft, dl, ul, (UOk nw), port, ip, ipp.
      repeat split; auto; try discriminate.
    - exists event, ih, pid, nleft, dl, ul, UMissing, port, ip, ipp.
      repeat split; auto; try discriminate.
  Qed.

  (* the text of the numwant parameter, when given, is a 32-bit decimal *)
  Definition numwant_clause (o : popts) (q : qparams) (r : areq) : Prop :=
    (q_string q k_numwant = None -> r_numwant r = o_default_numwant o) /\
    (forall s, q_string q k_numwant = Some s ->
               exists n, parse_uint 32 s = Some n /\ r_numwant r = Z.min n (o_max_numwant o)).

  Definition ip_clause (r : areq) : Prop :=
    (r_af r = V4 /\ length (p_ip (r_peer r)) = 4%nat) \/
    (r_af r = V6 /\ length (p_ip (r_peer r)) = 16%nat /\ to4 (p_ip (r_peer r)) = None).

  Lemma accept_postconditions o uri remote r q :
    parse_announce parse_ip header_get split_host o uri remote = Accept (r, q) ->
    parse_url_data uri = inr q /\
    p_port (r_peer r) <> 0 /\ numwant_clause o q r /\ ip_clause r.
  Proof.
    unfold parse_announce. destruct (parse_url_data uri) as [e|q'] eqn:EU; [discriminate|].
    destruct (announce_of_params _ _ _ o q' remote) as [r'| |] eqn:EA; try discriminate.
    intros H; injection H as <- <-. split; [reflexivity|].
    apply announce_of_params_accept in EA
      as (event & ih & pid & nleft & dl & ul & nw & port & ip & ipp & CK & ES).
    destruct CK as (_ & _ & _ & _ & _ & _ & _ & Hnw & Hnb & _ & _).
    apply sanitize_announce_ok in ES as (P0 & _ & NW & IP & _).
    split; [exact P0|]. split; [|destruct IP as [(A & B & _)|(A & B & C & _)]; [left|right]; auto].
    unfold numwant_clause. rewrite NW. unfold raw_req; cbn [r_numwant_provided r_numwant].
    unfold q_uint in Hnw. split.
    - intros HN. rewrite HN in Hnw. subst nw. reflexivity.
    - intros s HS. rewrite HS in Hnw. destruct (parse_uint 32 s) as [n|]; [|congruence].
      exists n. subst nw. split; reflexivity.
  Qed.

  Lemma reject_is_client_error o uri remote e :
    parse_announce parse_ip header_get split_host o uri remote = Reject e -> exists msg, e = ClientErr msg.
  Proof.
    intros H. destruct (parse_announce_total parse_ip header_get split_host o uri remote) as [[a E]|[msg E]];
      rewrite E in H; [discriminate|]. injection H as <-. eexists; reflexivity.
  Qed.
End Accept.

Lemma scrape_reject_is_client_error o uri e : parse_scrape o uri = Reject e -> exists msg, e = ClientErr msg.
Proof.
  intros H. destruct (parse_scrape_total o uri) as [[a E]|[msg E]]; rewrite E in H; [discriminate|].
  injection H as <-. eexists; reflexivity.
Qed.

Lemma sanitize_scrape_limit ihs mx : 0 <= mx -> Z.of_nat (length (sanitize_scrape ihs mx)) <= mx.
Proof.
  intros H. unfold sanitize_scrape. destruct (Z.of_nat (length ihs) >? mx) eqn:E; [|lia].
  rewrite firstn_length. lia.
Qed.

Lemma scrape_limit o uri ihs q : 0 <= o_max_scrape o ->
  parse_scrape o uri = Accept (ihs, q) -> Z.of_nat (length ihs) <= o_max_scrape o.
Proof.
  intros Hm. unfold parse_scrape. destruct (parse_url_data uri) as [e|q']; [discriminate|].
  unfold scrape_of_params. destruct (q_ihs q') eqn:E; [discriminate|].
  intros H; injection H as <- <-. apply sanitize_scrape_limit, Hm.
Qed.
