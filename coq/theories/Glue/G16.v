(* Correspondence glue for C16 (lifecycle).  Every case is one deterministic,
   gated scenario executed on the real code; the model is run on the schedule
   the scenario forces.  Unproved; part of the trusted base. *)
From Chihaya Require Export Glue.Pack Model.Lifecycle.
Open Scope Z_scope.

(* one step of a reload history, with what the client observed *)
Inductive rop :=
| RAnn (via ih peer : Z) (seeder stopped : bool) (o_ok : bool)
| RScr (via ih : Z) (o_ok : bool) (o_complete o_incomplete : Z)
| RReload (o_ok : bool).

(* fe: 0 = UDP frontend, 1 = HTTP frontend.
   CGroup: members' Done arguments, the order in which the members complete
     (members not listed never complete), whether the group's Result delivered
     and what it delivered.
   CGated: a request whose pre-hook (mode 0) or post-hook (mode 1) is blocked on
     a gate when Stop is called.  o_b0: Stop's Result delivered while the
     handler was blocked (mode 0 only); o_b1: ... while the post-response hook
     was blocked; o_after: ... after all gates were opened; o_hookdone: the
     post-response hook had finished when the Result delivered.
   CRace: NewFrontend immediately followed by Stop.  o_open: the port still
     accepted a connection / was still bound after the Result delivered;
     o_answered: a request was even answered.
   CLeak: requests, Stop, then the component's goroutines still alive after
     the grace period.
   CReload: a request history through cmd/chihaya's Run with reload points.
   CAfterStop: Stop(everything) with a gated post-hook; o_panic: the hook's
     store call panicked ("attempted to interact with stopped ... store"). *)
(* a group member: a leaf calling Done with these arguments, or a nested group of leaves *)
Inductive gmem := GLeaf (r : list (option Z)) | GInner (l : list (list (option Z))).

Inductive case16 :=
| CGroup (ms : list gmem) (order : list Z) (o_done : bool) (o_res : list (option Z))
| CGated (fe : Z) (scrape : bool) (mode : Z) (o_b0 o_b1 o_after o_hookdone : bool)
| CRace (fe procs : Z) (o_done : bool) (o_errs : Z) (o_open o_answered : bool)
| CLeak (fe nreq : Z) (o_done : bool) (o_left : Z)
| CReload (ops : list rop)
| CAfterStop (fe store : Z) (o_done o_panic o_storemsg : bool)
| CMwStop (state : Z) (members : list (list (option Z))) (o_done : bool) (o_res : list (option Z)).
     (* middleware.Logic.Stop: a stop group over the stoppable hooks (pre-hooks, then post-hooks); members = the Done
        arguments of each; state: what the JWT hook's refresh goroutine was doing (0 no JWT hook, 1 idle, 2 a fetch in
        flight that never completes).  A hook's Stop completes whatever its own goroutines are doing. *)

(* ---- groups *)
Definition oz_eqb (a b : option Z) : bool :=
  match a, b with
  | Some x, Some y => x =? y
  | None, None => true
  | _, _ => false
  end.
Fixpoint raw_eqb (a b : raw) : bool :=
  match a, b with
  | [], [] => true
  | x :: a', y :: b' => oz_eqb x y && raw_eqb a' b'
  | _, _ => false
  end.
Definition is_some (o : option Z) : bool := match o with Some _ => true | None => false end.
Definition all_proper (ms : list raw) : bool := forallb (forallb is_some) ms.

(* a nested group is a member that completes with its own group_result *)
Definition flat (m : gmem) : raw := match m with GLeaf r => r | GInner l => group_result l end.
Definition leaves (m : gmem) : list raw := match m with GLeaf r => [r] | GInner l => l end.
Definition has_inner (ms : list gmem) : bool := existsb (fun m => match m with GInner _ => true | _ => false end) ms.

Definition chk_group (ms : list gmem) (order : list Z) (o_done : bool) (o_res : raw) : verdict :=
  match group_run (map flat ms) (map Z.to_nat order) with
  | Some r =>
    ((if has_inner ms then 3 else 1),
        if negb o_done then 5
        else if raw_eqb r o_res then 0
        else if all_proper (concat (map leaves ms)) then 4 else 101)
  | None => (2, if o_done then 5 else 0)
  end.

(* ---- frontends: the schedules the gated scenarios force *)
Definition udone (s : ustate) : bool := match u_stop s with TDone => true | _ => false end.
Definition hdone (s : hstate) : bool := match h_stop s with HTDone => true | _ => false end.
Definition ustops := [UStop; UStop; UStop; UStop; UStop; UStop].
Definition hstops := [HStop; HStop; HStop; HStop; HStop].

(* (delivered while the handler is gated, while the hook is gated, after the gates, hooks left at delivery) *)
Definition model_gated (fixed : bool) (fe mode : Z) : bool * bool * bool * bool :=
  if fe =? 0 then
    let s0 := urun fixed [UServe; UServe; UPacket; UServe] uinit in        (* handler in flight *)
    if mode =? 0 then
      let s1 := urun fixed (ustops ++ [UServe; UServe; UServe] ++ ustops) s0 in
      let s2 := urun fixed ([UHandler true; UServe; UServe] ++ ustops) s1 in
      let s3 := urun fixed (UHook :: ustops) s2 in
      (udone s1, udone s2, udone s3, (if udone s2 then false else (u_hooks s3 =? 0)%nat))
    else
      let s1 := urun fixed [UHandler true] s0 in                          (* hook in flight *)
      let s2 := urun fixed (ustops ++ [UServe; UServe; UServe] ++ ustops) s1 in
      let s3 := urun fixed (UHook :: ustops) s2 in
      (false, udone s2, udone s3, (if udone s2 then false else (u_hooks s3 =? 0)%nat))
  else
    let s0 := hrun fixed [HServe; HServe; HConn; HServe] (hinit fixed) in
    if mode =? 0 then
      let s1 := hrun fixed (hstops ++ [HServe] ++ hstops) s0 in
      let s2 := hrun fixed ([HHandler true; HServe] ++ hstops) s1 in
      let s3 := hrun fixed (HHook :: hstops) s2 in
      (hdone s1, hdone s2, hdone s3, (if hdone s2 then false else (h_hooks s3 =? 0)%nat))
    else
      let s1 := hrun fixed [HHandler true] s0 in
      let s2 := hrun fixed (hstops ++ [HServe] ++ hstops) s1 in
      let s3 := hrun fixed (HHook :: hstops) s2 in
      (false, hdone s2, hdone s3, (if hdone s2 then false else (h_hooks s3 =? 0)%nat)).

Definition chk_gated (fe : Z) (mode : Z) (o_b0 o_b1 o_after o_hookdone : bool) : verdict :=
  let '(m0, m1, m2, m3) := model_gated true fe mode in
  (10 + 2 * fe + mode,
   if negb (Bool.eqb o_b0 m0) then 11            (* Stop delivered while a request handler was running *)
   else if negb (Bool.eqb o_b1 m1) then 1        (* ... while a post-response hook was in flight *)
   else if negb (Bool.eqb o_after m2) then 6     (* never delivered *)
   else if negb (Bool.eqb o_hookdone m3) then 1
   else 0).

(* NewFrontend; Stop: the Stop goroutine runs first, the serving goroutine later *)
Definition model_race (fixed : bool) (fe : Z) : bool * bool :=   (* delivered, port open at delivery *)
  if fe =? 2 then
    let s := mrun (negb fixed) [MStop] in (m_done s, m_bound s)
  else if fe =? 0 then
    let s := urun fixed (ustops ++ [UServe; UServe; UServe]) uinit in (udone s, u_sock s)
  else
    let s := hrun fixed (hstops ++ [HServe; HServe] ++ hstops) (hinit fixed) in (hdone s, h_lopen s).

Definition chk_race (fe : Z) (o_done : bool) (o_errs : Z) (o_open o_answered : bool) : verdict :=
  let '(md, mo) := model_race true fe in
  (20 + fe,
   if negb (Bool.eqb o_done md) then 6
   else if negb (o_errs =? 0) then 10
   else if negb (Bool.eqb o_open mo) then 2
   else if o_answered then 9
   else 0).

(* nreq requests served completely, then Stop *)
Definition model_leak (fixed : bool) (fe : Z) (n : nat) : bool * Z :=
  if fe =? 0 then
    let one := [UPacket; UServe; UServe; UHandler true; UHook] in
    let s := urun fixed ([UServe] ++ concat (repeat one n) ++ [UServe] ++ ustops ++ [UServe; UServe] ++ ustops) uinit in
    (udone s, Z.of_nat (u_handlers s + u_hooks s) + (match u_serve s with SExit => 0 | _ => 1 end))
  else
    let one := [HConn; HServe; HHandler true; HHook] in
    let s := hrun fixed ([HServe; HServe] ++ concat (repeat one n) ++ hstops ++ [HServe] ++ hstops) (hinit fixed) in
    (hdone s, Z.of_nat (h_handlers s + h_hooks s) + (match h_serve s with HExit => 0 | _ => 1 end)).

Definition chk_leak (fe nreq : Z) (o_done : bool) (o_left : Z) : verdict :=
  let '(md, ml) := model_leak true fe (Z.to_nat nreq) in
  (30 + fe,
   if negb (Bool.eqb o_done md) then 6
   else if negb (o_left =? ml) then 7
   else 0).

(* Stop(everything) while a post-response hook is gated; then the gate opens *)
Definition model_afterstop (fixed : bool) (fe : Z) : bool * bool :=    (* store stopped in the end, panic *)
  let su := map AU ustops in
  let sh := map AH hstops ++ [AH HServe; AH HServe] ++ map AH hstops in
  let pre := if fe =? 0
             then map AU [UServe; UServe; UPacket; UServe; UHandler true]
             else map AH [HServe; HServe; HConn; HServe; HHandler true] in
  let stop1 := su ++ map AU [UServe; UServe; UServe] ++ su ++ sh ++ [AStopStore] in
  let gate := if fe =? 0 then [AU UHook] else [AH HHook] in
  let s := srun fixed (pre ++ stop1 ++ gate ++ su ++ sh ++ [AStopStore]) (sysinit fixed) in
  (sy_closed s, sy_panic s).

Definition chk_afterstop (fe : Z) (o_done o_panic o_storemsg : bool) : verdict :=
  let '(md, mp) := model_afterstop true fe in
  (50 + fe,
   if negb (Bool.eqb o_panic mp) then (if o_storemsg then 3 else 13)
   else if negb (Bool.eqb o_done md) then 6
   else 0).

(* ---- reload histories: a tiny swarm store behind the Run model *)
Definition memb := (Z * Z * bool)%type.          (* infohash, peer, seeder? *)
Definition memb_eqb (a b : memb) : bool :=
  let '(i, p, s) := a in let '(i', p', s') := b in (i =? i') && (p =? p') && Bool.eqb s s'.
Inductive rreq := QAnn (ih peer : Z) (seeder stopped : bool) | QScr (ih : Z).
Definition count (ih : Z) (sd : bool) (d : list memb) : Z :=
  Z.of_nat (length (filter (fun m => let '(i, _, s) := m in (i =? ih) && Bool.eqb s sd) d)).
Definition rhandle (d : list memb) (q : rreq) : list memb * (Z * Z) :=
  match q with
  | QAnn ih p sd stopped =>
    if stopped then (filter (fun m => negb (memb_eqb m (ih, p, true) || memb_eqb m (ih, p, false))) d, (0, 0))
    else if existsb (memb_eqb (ih, p, sd)) d then (d, (0, 0))
    else ((ih, p, sd) :: d, (0, 0))
  | QScr ih => (d, (count ih true d, count ih false d))
  end.

Fixpoint chk_ops (ops : list rop) (r : runst (list memb)) (reloads : Z) : Z * Z :=
  let bad := if 0 <? reloads then 8 else 108 in
  match ops with
  | [] => (reloads, 0)
  | RAnn _ ih p sd st o_ok :: rest =>
    let '(r', o) := serve_req _ _ _ rhandle r (QAnn ih p sd st) in
    match o with
    | Answer _ => if o_ok then chk_ops rest r' reloads else (reloads, bad)
    | _ => (reloads, 109)
    end
  | RScr _ ih o_ok oc oi :: rest =>
    let '(r', o) := serve_req _ _ _ rhandle r (QScr ih) in
    match o with
    | Answer (c, i) => if o_ok && (c =? oc) && (i =? oi) then chk_ops rest r' reloads else (reloads, bad)
    | _ => (reloads, 109)
    end
  | RReload o_ok :: rest =>
    match reload _ [] [] [] r with
    | Some r' => if o_ok then chk_ops rest r' (reloads + 1) else (reloads, 12)
    | None => (reloads, 109)
    end
  end.

Definition chk_reload (ops : list rop) : verdict :=
  let '(n, rs) := chk_ops ops (run_start _ [] None) 0 in
  (40 + Z.min n 3, rs).

Definition chk16 (c : case16) : verdict :=
  match c with
  | CGroup ms order o_done o_res => chk_group ms order o_done o_res
  | CGated fe _ mode o_b0 o_b1 o_after o_hookdone => chk_gated fe mode o_b0 o_b1 o_after o_hookdone
  | CRace fe _ o_done o_errs o_open o_answered => chk_race fe o_done o_errs o_open o_answered
  | CLeak fe nreq o_done o_left => chk_leak fe nreq o_done o_left
  | CReload ops => chk_reload ops
  | CAfterStop fe _ o_done o_panic o_storemsg => chk_afterstop fe o_done o_panic o_storemsg
  | CMwStop state ms o_done o_res =>
    (60 + state, if negb o_done then 6 else if raw_eqb (group_result ms) o_res then 0
                 else if all_proper ms then 4 else 101)
  end.

(* what the fixed protocol and the protocol of the code before F6/F7 predict *)
Inductive expl :=
| XGroup (r : option raw)
| XGated (fixed legacy : bool * bool * bool * bool)
| XRace (fixed legacy : bool * bool)
| XLeak (fixed : bool * Z)
| XReload (v : verdict)
| XAfterStop (fixed legacy : bool * bool).

Definition explain16 (c : case16) : expl :=
  match c with
  | CGroup ms order _ _ => XGroup (group_run (map flat ms) (map Z.to_nat order))
  | CGated fe _ mode _ _ _ _ => XGated (model_gated true fe mode) (model_gated false fe mode)
  | CRace fe _ _ _ _ _ => XRace (model_race true fe) (model_race false fe)
  | CLeak fe n _ _ => XLeak (model_leak true fe (Z.to_nat n))
  | CReload ops => XReload (chk_reload ops)
  | CAfterStop fe _ _ _ _ => XAfterStop (model_afterstop true fe) (model_afterstop false fe)
  | CMwStop _ ms _ _ => XGroup (Some (group_result ms))
  end.

(* sanity of the scenario schedules themselves (evaluated when this file is compiled) *)
Definition selftest : list (bool * bool * bool * bool) * list (bool * bool) * list (bool * bool) :=
  ([model_gated true 0 0; model_gated true 0 1; model_gated true 1 0; model_gated true 1 1;
    model_gated false 0 0; model_gated false 0 1; model_gated false 1 0; model_gated false 1 1],
   [model_race true 0; model_race true 1; model_race false 0; model_race false 1],
   [model_afterstop true 0; model_afterstop true 1; model_afterstop false 0; model_afterstop false 1]).
Eval vm_compute in selftest.
Eval vm_compute in (model_leak true 0 3, model_leak true 1 3, model_leak false 0 3, model_leak false 1 3).
