//go:build verif

package main

import (
	"bufio"
	"crypto/sha256"
	"encoding/hex"
	"encoding/json"
	"fmt"
	"math/big"
	"os"
	"path/filepath"
	"strings"
)

// Case is one executed case: the Coq term handed to the model, and the JSON
// form kept for replays and evidence samples.
type Case struct {
	Coq  string
	In   map[string]interface{} // enough to re-execute the case
	Obs  map[string]interface{} // what the implementation did
	Kind string                 // stream / class label for the distribution
}

type Out struct {
	dir   string
	p     *propDef
	cases []Case
	dist  map[string]int
	notes map[string]interface{}
}

func newOut(dir string, p *propDef) *Out {
	return &Out{dir: dir, p: p, dist: map[string]int{}, notes: map[string]interface{}{}}
}

func (o *Out) add(c Case) {
	o.cases = append(o.cases, c)
	o.dist[c.Kind]++
}

func (o *Out) flush() error {
	shard := o.p.shard
	if shard <= 0 {
		shard = 500
	}
	jf, err := os.Create(filepath.Join(o.dir, "cases.jsonl"))
	if err != nil {
		return err
	}
	jw := bufio.NewWriter(jf)
	distinct := map[string]bool{}
	nshards := 0
	for start := 0; start < len(o.cases); start += shard {
		end := start + shard
		if end > len(o.cases) {
			end = len(o.cases)
		}
		f, err := os.Create(filepath.Join(o.dir, fmt.Sprintf("cases_%04d.v", nshards)))
		if err != nil {
			return err
		}
		w := bufio.NewWriter(f)
		fmt.Fprintf(w, "From Chihaya Require Import Glue.%s.\nFrom Coq Require Import Uint63.\n%s\n", o.p.glue, o.p.prelude)
		fmt.Fprintf(w, "Definition cases : list %s := [\n", o.p.ctype)
		for i := start; i < end; i++ {
			sep := ";"
			if i == end-1 {
				sep = ""
			}
			fmt.Fprintf(w, "%s%s\n", o.cases[i].Coq, sep)
		}
		fmt.Fprintf(w, "].\nDefinition V := Eval vm_compute in map %s cases.\nDefinition M := Eval vm_compute in mism_of V.\nDefinition H := Eval vm_compute in hist_of V.\nPrint M.\nPrint H.\n", o.p.chk)
		if err := w.Flush(); err != nil {
			return err
		}
		f.Close()
		nshards++
	}
	for i, c := range o.cases {
		rec := map[string]interface{}{"i": i, "kind": c.Kind, "in": c.In, "obs": c.Obs, "coq": c.Coq}
		b, err := json.Marshal(rec)
		if err != nil {
			return err
		}
		jw.Write(b)
		jw.WriteByte('\n')
		ib, _ := json.Marshal(c.In)
		h := sha256.Sum256(ib)
		distinct[hex.EncodeToString(h[:8])] = true
	}
	if err := jw.Flush(); err != nil {
		return err
	}
	jf.Close()
	stats := map[string]interface{}{
		"cases":           len(o.cases),
		"distinct_inputs": len(distinct),
		"shards":          nshards,
		"shard_size":      shard,
		"distribution":    o.dist,
		"notes":           o.notes,
	}
	sb, _ := json.MarshalIndent(stats, "", " ")
	return os.WriteFile(filepath.Join(o.dir, "stats.json"), sb, 0o644)
}

func readReplayInput(path string) (map[string]interface{}, error) {
	b, err := os.ReadFile(path)
	if err != nil {
		return nil, err
	}
	var rec map[string]interface{}
	dec := json.NewDecoder(strings.NewReader(string(b)))
	dec.UseNumber()
	if err := dec.Decode(&rec); err != nil {
		return nil, err
	}
	if in, ok := rec["in"].(map[string]interface{}); ok {
		return in, nil
	}
	if c, ok := rec["case"].(map[string]interface{}); ok {
		if in, ok := c["in"].(map[string]interface{}); ok {
			return in, nil
		}
	}
	return nil, fmt.Errorf("no \"in\" object in %s", path)
}

// ---- Coq term helpers

// cB renders a byte string as (B len [w; ...]) with seven bytes per word.
func cB(b []byte) string {
	var sb strings.Builder
	fmt.Fprintf(&sb, "(B %d [", len(b))
	for i := 0; i < len(b); i += 7 {
		j := i + 7
		if j > len(b) {
			j = len(b)
		}
		var v uint64
		for _, x := range b[i:j] {
			v = v<<8 | uint64(x)
		}
		if i > 0 {
			sb.WriteString(";")
		}
		fmt.Fprintf(&sb, "0x%x%%uint63", v)
	}
	sb.WriteString("])")
	return sb.String()
}

func cZ(v int64) string {
	if v < 0 {
		return fmt.Sprintf("(%d)", v)
	}
	return fmt.Sprintf("%d", v)
}
func cU(v uint64) string { return fmt.Sprintf("%d", v) }
func cBig(v *big.Int) string {
	if v.Sign() < 0 {
		return "(" + v.String() + ")"
	}
	return v.String()
}
func cBool(b bool) string {
	if b {
		return "true"
	}
	return "false"
}
func cList(items []string) string { return "[" + strings.Join(items, "; ") + "]" }
func cOpt(present bool, s string) string {
	if present {
		return "(Some " + s + ")"
	}
	return "None"
}

// ---- JSON helpers for replay inputs

func hx(b []byte) string { return hex.EncodeToString(b) }
func unhx(v interface{}) []byte {
	s, _ := v.(string)
	b, err := hex.DecodeString(s)
	if err != nil {
		panic(err)
	}
	return b
}
func jInt(v interface{}) int64 {
	switch x := v.(type) {
	case json.Number:
		if i, err := x.Int64(); err == nil {
			return i
		}
		bi, _ := new(big.Int).SetString(x.String(), 10)
		return int64(bi.Uint64())
	case float64:
		return int64(x)
	case string:
		bi, _ := new(big.Int).SetString(x, 10)
		if bi.IsInt64() {
			return bi.Int64()
		}
		return int64(bi.Uint64())
	}
	panic(fmt.Sprintf("jInt: %T", v))
}
func jU64(v interface{}) uint64 {
	switch x := v.(type) {
	case json.Number:
		bi, _ := new(big.Int).SetString(x.String(), 10)
		return bi.Uint64()
	case string:
		bi, _ := new(big.Int).SetString(x, 10)
		return bi.Uint64()
	case float64:
		return uint64(x)
	}
	panic(fmt.Sprintf("jU64: %T", v))
}
func jBool(v interface{}) bool { b, _ := v.(bool); return b }
func jStr(v interface{}) string { s, _ := v.(string); return s }

// reJSON converts a generic decoded JSON value into a typed one.
func reJSON(v interface{}, out interface{}) error {
	b, err := json.Marshal(v)
	if err != nil {
		return err
	}
	return json.Unmarshal(b, out)
}
