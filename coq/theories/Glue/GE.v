(* Correspondence glue for END-TO-END histories: arbitrary datagrams and HTTP
   requests through the real frontends (handleRequest / the router), the real
   tracker logic and a real store, judged against the composed model of
   Model/Tracker.v (parse -> logic -> store -> write) running over the
   specification store.  Shared by C13 (no panic, one response, keeps answering
   correctly), C09 (UDP wire), C08 (HTTP wire), C03 (families on the wire). *)
From Chihaya Require Export Glue.Pack.
From Chihaya Require Glue.G06 Glue.G10 Glue.G08.
From Chihaya Require Import Model.Tracker.
Open Scope Z_scope.

(* what the tracker logic returned for the request (recorded by a wrapping TrackerLogic) *)
Inductive elogic :=
| LNone                                             (* logic not invoked *)
| LAnn (complete incomplete : Z) (peers : list (list Z)) (interval min_interval : Z) (v4n v6n : Z)
| LScr (files : list (Z * Z))
| LErr
| LSkip.                                            (* not recorded (concurrent stress): only the wire is judged *)

Inductive ereq :=
| EClock (ns : Z)
| EUdp (ip packet : list Z) (macs : G10.mactbl) (o_panic : bool) (o_dgrams : list (list Z)) (o_logic : elogic)
| EHttpAnn (uri remote hdrval host : list Z) (ips : list (list Z * option (list Z)))
           (o_panic : bool) (o_body : list Z) (o_logic : elogic)
| EHttpScr (uri remote host : list Z) (split_ok : bool) (ips : list (list Z * option (list Z)))
           (o_panic : bool) (o_body : list Z) (o_logic : elogic)
| EDump (entries : list (list Z * bool * bool * list Z * Z))
| EGc (cutoff : Z)                                   (* one complete expiry pass of the store between two requests *)
| EHookSaw (views wrong : Z).                        (* of the views hooks had of a request's parameters (before and after the
                                                        response was written), how many were not that request's own bytes *)

Record ecfg := {
  e_key : list Z; e_skew : Z; e_uspoof : bool; e_hspoof : bool; e_hdrname : list Z;
  e_maxnw : Z; e_defnw : Z; e_maxscrape : Z; e_interval : Z; e_min_interval : Z
}.
Definition ecase := (ecfg * list ereq)%type.

Definition uopts (c : ecfg) : UdpParse.popts :=
  {| UdpParse.o_spoof := e_uspoof c; UdpParse.o_max_nw := e_maxnw c; UdpParse.o_def_nw := e_defnw c; UdpParse.o_max_scrape := e_maxscrape c |}.
Definition hopts (c : ecfg) : HttpParse.popts :=
  {| HttpParse.o_spoof := e_hspoof c; HttpParse.o_real_ip_header := e_hdrname c; HttpParse.o_max_numwant := e_maxnw c;
     HttpParse.o_default_numwant := e_defnw c; HttpParse.o_max_scrape := e_maxscrape c |}.
Definition tc (c : ecfg) : tcfg := {| t_interval := e_interval c; t_min_interval := e_min_interval c |}.

Definition oracle (ips : list (list Z * option (list Z))) : list Z -> option (list Z) :=
  fun s => match G06.assoc s ips with Some r => r | None => None end.

Definition fam_ok (v6 : bool) (k : list Z) : bool :=
  match decode_key k with
  | Some (_, V4) => negb v6 && Nat.eqb (length k) 26
  | Some (_, V6) => v6
  | None => false
  end.

Fixpoint lists_eqb (a b : list (list Z)) : bool :=
  match a, b with
  | [], [] => true
  | x :: a', y :: b' => bytes_eqb x y && lists_eqb a' b'
  | _, _ => false
  end.

Record est := { x_st : spec; x_clock : Z; x_seen : list (list Z * bool) }.

Definition swk_eqb (a b : list Z * bool) : bool := bytes_eqb a.1 b.1 && Bool.eqb a.2 b.2.
Definition note (k : list Z * bool) (seen : list (list Z * bool)) := if existsb (swk_eqb k) seen then seen else k :: seen.

(* judge the logic-level announce response and the state change; returns (state', reasons) *)
Definition judge_ann (c : ecfg) (x : est) (a : ann) (lg : elogic) : est * list Z * option (Z * Z * list peer) :=
  let st := x_st x in
  let x' := {| x_st := swarm_interaction spec_if a (x_clock x) st; x_clock := x_clock x; x_seen := note (a_ih a, a_v6 a) (x_seen x) |} in
  match lg with
  | LAnn cm ic peers iv miv v4n v6n =>
    let rv := response_verdict spec_if a st cm ic peers in
    let fam := forallb (fam_ok (a_v6 a)) peers in
    let lists := if a_v6 a then (v4n =? 0) else (v6n =? 0) in
    (x', (if rv =? 0 then [] else [rv]) ++ (if fam then [] else [31]) ++ (if lists then [] else [32]) ++
         (if (iv =? e_interval c) && (miv =? e_min_interval c) then [] else [14]),
     match decode_all peers with Some ps => Some (cm, ic, ps) | None => None end)
  | LSkip => (x', [], None)          (* population set-up of the stress stream: state follows, response not judged *)
  | _ => (x', [3], None)
  end.

Definition step (c : ecfg) (x : est) (r : ereq) : est * list Z :=
  let st := x_st x in
  match r with
  | EClock ns => ({| x_st := st; x_clock := ns; x_seen := x_seen x |}, [])
  | EGc T => ({| x_st := st_gc spec_if T st; x_clock := x_clock x; x_seen := x_seen x |}, [])
  | EHookSaw _ wrong => (x, if wrong =? 0 then [] else [15])
  | EUdp ip packet macs o_panic dg lg =>
    let mac := G10.mac_of macs in
    if o_panic then (x, [1]) else
    if negb (Nat.ltb (length packet) 16 || (G10.mac_has macs (e_key c) (sub 0 4 packet ++ ip) && G10.mac_has macs (e_key c) (ConnID.ts4 (x_clock x) ++ ip)))
    then (x, [199]) else
    match UdpParse.handle_udp mac (e_key c) (e_skew c) (x_clock x) (uopts c) ip packet with
    | UdpParse.USilent => (x, (if Nat.eqb (length dg) 0 then [] else [2]) ++ (match lg with LNone | LSkip => [] | _ => [3] end))
    | UdpParse.UReply d =>
      (x, (match lg with LNone | LSkip => [] | _ => [3] end) ++
          (match dg with [d'] => if bytes_eqb d d' then [] else [4] | _ => [2] end))
    | UdpParse.UPanic => (x, [198])
    | UdpParse.UAnnounce txid v6action rq q =>
      let a := ann_of_areq rq in
      let '(x', rs, resp) := judge_ann c x a lg in
      (x', rs ++
           match dg, resp with
           | [d], Some (cm, ic, ps) =>
             if bytes_eqb d (udp_announce_datagram (tc c) txid v6action a cm ic ps) then [] else [5]
           | [_], None => []
           | [], None => (match lg with LSkip => [] | _ => [2] end)
           | _, _ => [2]
           end)
    | UdpParse.UScrape txid af ihs =>
      let v6 := match af with V6 => true | V4 => false end in
      let want := map (fun ih => st_scrape spec_if ih v6 st) ihs in
      (x, (match lg with LScr files => if bool_decide (files = want) then [] else [12] | LSkip => [] | _ => [3] end) ++
          (match dg with [d] => if bytes_eqb d (udp_scrape_datagram spec_if txid v6 ihs st) then [] else [5] | _ => [2] end))
    end
  | EHttpAnn uri remote hdrval host ips o_panic body lg =>
    if o_panic then (x, [1]) else
    if negb (G06.oracle_hit uri (e_hspoof c) (e_hdrname c) hdrval remote host ips) then (x, [199]) else
    match HttpParse.parse_announce (oracle ips) (fun _ => hdrval) (fun _ => host) (hopts c) uri remote with
    | HttpParse.Panic => (x, [198])
    | HttpParse.Reject e =>
      (x, (match lg with LNone => [] | _ => [3] end) ++
          (if G08.check_body (HttpWrite.error_value e) body None =? 31 then [] else [6]))
    | HttpParse.Accept (rq, q) =>
      let a := ann_of_areq rq in
      let '(x', rs, resp) := judge_ann c x a lg in
      (x', rs ++
           match resp with
           | Some (cm, ic, ps) =>
             match http_announce_value (tc c) (r_compact rq) a cm ic ps with
             | Some v => if G08.check_body v body None =? 31 then [] else [6]
             | None => [198]
             end
           | None => []
           end)
    end
  | EHttpScr uri remote host split_ok ips o_panic body lg =>
    if o_panic then (x, [1]) else
    match http_scrape_step spec_if (oracle ips) (fun _ => host) split_ok (hopts c) st uri remote with
    | HPanic => (x, [198])
    | HBody v =>
      (x, (if G08.check_body v body None =? 31 then [] else [6]) ++
          (match lg, HttpParse.parse_scrape (hopts c) uri with
           | LScr _, HttpParse.Accept _ => []
           | LNone, HttpParse.Accept _ => (match HttpParse.scrape_route_af (oracle ips) (fun _ => host) split_ok remote with HttpParse.Accept _ => [3] | _ => [] end)
           | LNone, _ => []
           | _, _ => [3]
           end))
    end
  | EDump entries =>
    let seen := x_seen x in
    let known := forallb (fun e => existsb (swk_eqb (e.1.1.1.1, e.1.1.1.2)) seen) entries in
    let match_one (k : list Z * bool) :=
      let mine := List.filter (fun e => swk_eqb (e.1.1.1.1, e.1.1.1.2) k) entries in
      let es := List.filter (fun e => e.1.1.2) mine in
      let el := List.filter (fun e => negb e.1.1.2) mine in
      let sw := default empty_swarm (st !! k) in
      Nat.eqb (length es) (size (seeders sw)) && Nat.eqb (length el) (size (leechers sw)) &&
      forallb (fun e => match seeders sw !! e.1.2 with Some t => t =? e.2 | None => false end) es &&
      forallb (fun e => match leechers sw !! e.1.2 with Some t => t =? e.2 | None => false end) el in
    (x, (if known && forallb match_one seen then [] else [13]) ++
        (if forallb (fun e => fam_ok e.1.1.1.2 e.1.2) entries then [] else [33]))
  end.

Fixpoint run (c : ecfg) (i : Z) (x : est) (rs : list ereq) : list (Z * Z) :=
  match rs with
  | [] => []
  | r :: rest => let '(x', codes) := step c x r in map (fun k => (i, k)) codes ++ run c (i + 1) x' rest
  end.
Definition run_case (c : ecase) : list (Z * Z) :=
  run c.1 0 {| x_st := spec_init; x_clock := 0; x_seen := [] |} c.2.

Definition first_in (codes : list Z) (l : list (Z * Z)) : Z * Z :=
  match List.filter (fun p => existsb (Z.eqb p.2) codes) l with [] => (0, 0) | p :: _ => p end.
Definition chkE_with (codes : list Z) (c : ecase) : verdict :=
  let '(i, r) := first_in codes (run_case c) in
  if r =? 0 then (Z.of_nat (length c.2), 0) else (i, r).

(* C13: no panic (1), exactly the expected number of responses (2), logic invoked exactly when the
   request is well-formed and authorised (3), and every answer correct whatever preceded it *)
Definition chkE13 := chkE_with [1; 2; 3; 4; 5; 6; 11; 12; 13; 14; 21; 22; 23; 24; 25; 26; 31; 32; 33; 198; 199].
Definition chkE09 := chkE_with [2; 4; 5].
(* C02: the selection rules on the logic-level answer AND that exactly the selected peers reach the wire *)
Definition chkE02 := chkE_with [5; 6; 21; 22; 23; 24; 25; 26].
(* C04, concurrent datagrams: every response is the one its own request calls for, and the state they leave is the
   one the requests imply (13: e.g. a peer registered under bytes that were not its request's) *)
Definition chkE04 := chkE_with [1; 2; 4; 5; 12; 13; 15].
Definition chkE08 := chkE_with [6].
Definition chkE03 := chkE_with [31; 32; 33; 5; 6].
(* C11: the address stored and handed out is the request's *)
Definition chkE11 := chkE_with [13; 22; 31; 33].
Definition explainE (c : ecase) := run_case c.
