(* Correspondence glue for C11 (which address a peer is registered under).
   Reuses the case formats of C06 (HTTP ParseAnnounce) and C07 (UDP ParseAnnounce); the
   checks here are the clauses of C11 stated directly on the observed request. *)
From Chihaya Require Export Glue.Pack.
From Chihaya Require Glue.G06 Glue.G07.
From Chihaya Require Import Model.Peer Model.Query.
Open Scope Z_scope.

Inductive case11 :=
| H11 (c : G06.case06)
| U11 (c : G07.case07).

Definition stored_form (ip : bytes) : bytes := match to4 ip with Some x => x | None => ip end.
Definition obytes_eqb (a : option bytes) (b : bytes) : bool :=
  match a with Some x => bytes_eqb x b | None => false end.

Definition chk11 (c : case11) : verdict :=
  match c with
  | H11 (G06.CAnn uri spoof hdrname maxnw defnw hdrval remote host ips o) =>
    let parse_ip := fun s => match G06.assoc s ips with Some r => r | None => None end in
    let transport := match hdrname, hdrval with _ :: _, _ :: _ => hdrval | _, _ => host end in
    let supplied :=
      match parse_url_data uri with
      | inl _ => None
      | inr q => match q_string q HttpParse.k_ip with
                 | Some s => Some s
                 | None => match q_string q HttpParse.k_ipv4 with Some s => Some s | None => q_string q HttpParse.k_ipv6 end
                 end
      end in
    let m := G06.model_ann uri spoof hdrname maxnw defnw hdrval remote host ips in
    let tag := (if spoof then 10 else 0) + (match supplied with Some _ => 1 | None => 0 end)
               + (match hdrname, hdrval with _ :: _, _ :: _ => 2 | _, _ => 0 end)
               + (match m with HttpParse.Accept _ => 4 | _ => 0 end) in
    (tag,
     if negb (G06.oracle_hit uri spoof hdrname hdrval remote host ips) then 199 else
     match o with
     | G06.OAcc x =>
       let want := if spoof then match supplied with Some s => s | None => transport end else transport in
       if negb (obytes_eqb (option_map stored_form (parse_ip want)) (G06.x_ip x)) then
         (if negb spoof then 1 else match supplied with Some _ => 2 | None => 3 end)
       else if negb (Nat.eqb (length (G06.x_ip x)) (if G06.x_af x =? 0 then 4 else 16)) then 8
       else if negb (Bool.eqb (G06.x_ipp x) (spoof && match supplied with Some _ => true | None => false end)) then 101
       else match m with HttpParse.Accept _ => 0 | _ => 102 end
     | G06.OCli _ =>
       (* a rejection is fine unless the model accepts; an unparsable address must reject *)
       match m with HttpParse.Accept _ => 4 | _ => 0 end
     | G06.OOther => 4
     | G06.OPanic => 9
     end)
  | H11 _ => (98, 0)
  | U11 (G07.CAnnP v6action spoof maxnw defnw src packet obs) =>
    let e := UdpParse.ip_end v6action in
    let field := sub 84 e packet in
    let zero := UdpParse.all_zero field in
    let m := UdpParse.parse_announce v6action
               {| UdpParse.o_spoof := spoof; UdpParse.o_max_nw := maxnw; UdpParse.o_def_nw := defnw; UdpParse.o_max_scrape := 50 |} src packet in
    let tag := 20 + (if spoof then 10 else 0) + (if zero then 1 else 0) + (if v6action then 2 else 0)
               + (match m with UdpParse.Accept _ => 4 | _ => 0 end) in
    (tag,
     match obs with
     | G07.APanic => 9
     | G07.AErr _ => match m with UdpParse.Accept _ => 4 | _ => 0 end
     | G07.AOk ev ih pid port dl lf ul nw ip af evp nwp ipp rq rp lookups =>
       if Nat.ltb (length packet) (e + 10) then 102 else
       let use_field := spoof && negb zero in
       let want := if use_field then Some field else src in
       if negb (obytes_eqb (option_map stored_form want) ip) then
         (if negb spoof then 5 else if zero then 7 else 6)
       else if negb (Nat.eqb (length ip) (if af =? 0 then 4 else 16)) then 8
       else if negb (Bool.eqb ipp use_field) then 101
       else match m with UdpParse.Accept _ => 0 | _ => 102 end
     end)
  | U11 _ => (99, 0)
  end.

Definition explain11 (c : case11) :=
  match c with
  | H11 c => (G06.chk06 c, (0, 0))
  | U11 c => ((0, 0), G07.chk07 c)
  end.
