//go:build verif && shim_memsched

package memory

import "sync"

// verifRWMutex replaces sync.RWMutex in a REWRITTEN copy of peer_store.go (made by ./check at
// build time from the current source: the type token sync.RWMutex -> verifRWMutex, nothing else).
// It simulates the lock state itself and parks the calling goroutine in the driver's cooperative
// scheduler before every acquire and after every release, so that the interleaving of the
// lock-delimited steps of concurrently issued store operations is chosen by the driver.

// VerifYield is set by the driver while a schedule is being explored: it parks the calling thread
// until the scheduler resumes it; a thread with enabled != nil is only resumed when enabled() holds.
var VerifYield func(enabled func() bool)

// VerifLockEvent, when set, is told about every lock operation the store performs while a schedule is being
// explored: the shard the mutex guards (-1: not a shard mutex), write or read mode, acquire (after it succeeded)
// or release (before it happens).  The driver turns these into the lock trace judged against Model/Locks.v.
var VerifLockEvent func(shard int, write, acquire bool)

// verifShardOf maps a shard mutex to its index (the stores the driver builds register themselves).
var verifStores []*peerStore

func VerifRegister(ps interface{}) { verifStores = append(verifStores, ps.(*peerStore)) }
func VerifUnregisterAll()          { verifStores = nil }

func (m *verifRWMutex) event(write, acquire bool) {
	if VerifLockEvent == nil {
		return
	}
	for _, ps := range verifStores {
		for i, sh := range ps.shards {
			if &sh.verifRWMutex == m {
				VerifLockEvent(i, write, acquire)
				return
			}
		}
	}
	VerifLockEvent(-1, write, acquire)
}

type verifRWMutex struct {
	real    sync.RWMutex // used whenever no schedule is being explored (ordinary concurrent use)
	readers int
	writer  bool
}

func (m *verifRWMutex) Lock() {
	if VerifYield == nil {
		m.real.Lock()
		return
	}
	VerifYield(func() bool { return !m.writer && m.readers == 0 })
	if m.writer || m.readers != 0 {
		panic("verif: Lock acquired while held (scheduler bug or lock used outside a schedule)")
	}
	m.writer = true
	m.event(true, true)
}

func (m *verifRWMutex) Unlock() {
	if VerifYield == nil {
		m.real.Unlock()
		return
	}
	if !m.writer {
		panic("verif: Unlock of unlocked mutex")
	}
	m.event(true, false)
	m.writer = false
	VerifYield(nil)
}

func (m *verifRWMutex) RLock() {
	if VerifYield == nil {
		m.real.RLock()
		return
	}
	VerifYield(func() bool { return !m.writer })
	if m.writer {
		panic("verif: RLock acquired while write-locked")
	}
	m.readers++
	m.event(false, true)
}

func (m *verifRWMutex) RUnlock() {
	if VerifYield == nil {
		m.real.RUnlock()
		return
	}
	if m.readers <= 0 {
		panic("verif: RUnlock of unlocked mutex")
	}
	m.event(false, false)
	m.readers--
	VerifYield(nil)
}

// VerifNoWriter reports whether no shard is write-locked (an instant a reader can observe).
func VerifNoWriter(ps interface{}) bool {
	for _, s := range ps.(*peerStore).shards {
		if s.writer {
			return false
		}
	}
	return true
}

// VerifShardsRaw reads counters and recounts without taking locks (only valid while the cooperative
// scheduler has every other thread parked and no shard is write-locked).
func VerifShardsRaw(ps interface{}) []VerifShard {
	var out []VerifShard
	for _, s := range ps.(*peerStore).shards {
		v := VerifShard{NumSeeders: s.numSeeders, NumLeechers: s.numLeechers, Swarms: len(s.swarms)}
		for _, sw := range s.swarms {
			v.Seeders += uint64(len(sw.seeders))
			v.Leechers += uint64(len(sw.leechers))
		}
		out = append(out, v)
	}
	return out
}
