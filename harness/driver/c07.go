//go:build verif && (verif_c07 || verif_c11)

package main

import (
	"encoding/binary"
	"fmt"
	"math/rand"
	"net"
	"os"
	"strings"
	"time"

	"github.com/chihaya/chihaya/bittorrent"
	"github.com/chihaya/chihaya/frontend/udp"
	"github.com/chihaya/chihaya/pkg/timecache"
)

func init() {
	props["C07"] = &propDef{glue: "G07", ctype: "case07", chk: "chk07", stream: c07Stream, replay: c07Replay, shard: 300}
}

var c07Keys = []string{"k", "key", "compact", "a", "x", "info_hash", "port"}

func c07Lookups(p bittorrent.Params) string {
	var it []string
	for _, k := range c07Keys {
		v, ok := p.String(k)
		it = append(it, fmt.Sprintf("(%s, %s)", cB([]byte(k)), cOpt(ok, cB([]byte(v)))))
	}
	return cList(it)
}

func c07AnnFields(r *bittorrent.AnnounceRequest) string {
	return fmt.Sprintf("%d %s %s %d %s %s %s %d %s %d", uint8(r.Event), cB(r.InfoHash[:]), cB(r.Peer.ID[:]), r.Peer.Port,
		cU(r.Downloaded), cU(r.Left), cU(r.Uploaded), r.NumWant, cB(r.Peer.IP.IP), uint8(r.Peer.IP.AddressFamily))
}
func c07AnnJSON(r *bittorrent.AnnounceRequest) map[string]interface{} {
	return map[string]interface{}{"event": r.Event.String(), "ih": hx(r.InfoHash[:]), "pid": hx(r.Peer.ID[:]), "port": r.Peer.Port,
		"downloaded": fmt.Sprint(r.Downloaded), "left": fmt.Sprint(r.Left), "uploaded": fmt.Sprint(r.Uploaded), "numwant": r.NumWant,
		"ip": hx(r.Peer.IP.IP), "af": r.Peer.IP.AddressFamily.String()}
}

func c07Announce(o *Out, kind string, v6action bool, po udp.ParseOptions, src []byte, srcNil bool, packet []byte) {
	in := map[string]interface{}{"t": "ann", "v6action": v6action, "spoof": po.AllowIPSpoofing, "maxnw": po.MaxNumWant, "defnw": po.DefaultNumWant,
		"src": hx(src), "src_nil": srcNil, "packet": hx(packet)}
	var ip net.IP
	if !srcNil {
		ip = make(net.IP, len(src))
		copy(ip, src)
	}
	pk := make([]byte, len(packet)) // exact capacity: an over-long slice expression must panic
	copy(pk, packet)
	var req *bittorrent.AnnounceRequest
	var err error
	var pv interface{}
	func() {
		defer func() { pv = recover() }()
		req, err = udp.ParseAnnounce(udp.Request{Packet: pk, IP: ip}, v6action, po)
	}()
	var obs string
	oj := map[string]interface{}{}
	switch {
	case pv != nil:
		obs, oj["panic"] = "APanic", fmt.Sprint(pv)
	case err != nil:
		obs, oj["error"] = fmt.Sprintf("(AErr %s)", cB([]byte(err.Error()))), err.Error()
	default:
		obs = fmt.Sprintf("(AOk %s %s %s %s %s %s %s)", c07AnnFields(req), cBool(req.EventProvided), cBool(req.NumWantProvided), cBool(req.IPProvided),
			cB([]byte(req.Params.RawQuery())), cB([]byte(req.Params.RawPath())), c07Lookups(req.Params))
		oj = c07AnnJSON(req)
		oj["rawquery"], oj["rawpath"] = req.Params.RawQuery(), req.Params.RawPath()
	}
	o.add(Case{Coq: fmt.Sprintf("CAnnP %s %s %d %d %s %s %s", cBool(v6action), cBool(po.AllowIPSpoofing), po.MaxNumWant, po.DefaultNumWant,
		cOpt(!srcNil, cB(src)), cB(packet), obs), In: in, Kind: kind, Obs: oj})
}

func c07Scrape(o *Out, kind string, maxScrape uint32, packet []byte) {
	in := map[string]interface{}{"t": "scr", "maxscrape": maxScrape, "packet": hx(packet)}
	pk := make([]byte, len(packet))
	copy(pk, packet)
	var req *bittorrent.ScrapeRequest
	var err error
	var pv interface{}
	func() {
		defer func() { pv = recover() }()
		req, err = udp.ParseScrape(udp.Request{Packet: pk, IP: net.IP{10, 0, 0, 1}}, udp.ParseOptions{MaxScrapeInfoHashes: maxScrape})
	}()
	var obs string
	oj := map[string]interface{}{}
	switch {
	case pv != nil:
		obs, oj["panic"] = "SPanic", fmt.Sprint(pv)
	case err != nil:
		obs, oj["error"] = fmt.Sprintf("(SErr %s)", cB([]byte(err.Error()))), err.Error()
	default:
		var it, ij []string
		for _, ih := range req.InfoHashes {
			it = append(it, cB(ih[:]))
			ij = append(ij, hx(ih[:]))
		}
		obs, oj["infohashes"] = fmt.Sprintf("(SOk %s)", cList(it)), ij
	}
	o.add(Case{Coq: fmt.Sprintf("CScrP %d %s %s", maxScrape, cB(packet), obs), In: in, Kind: kind, Obs: oj})
}

// c07Hand runs one datagram through handleRequest (offline frontend, spy logic).
func c07Hand(o *Out, kind string, key []byte, skew, now int64, po udp.ParseOptions, ip, packet []byte) [][]byte {
	in := map[string]interface{}{"t": "hand", "key": hx(key), "skew": fmt.Sprint(skew), "now": fmt.Sprint(now), "maxnw": po.MaxNumWant, "defnw": po.DefaultNumWant,
		"maxscrape": po.MaxScrapeInfoHashes, "ip": hx(ip), "packet": hx(packet)}
	fr := udpFrontend("A", key, skew, po)
	timecache.VerifPin(now)
	fr.spy.mu.Lock()
	fr.spy.handles, fr.spy.lastAnn, fr.spy.lastScr = 0, nil, nil
	fr.spy.mu.Unlock()
	dgrams, _, pv, err := udp.VerifHandle(fr.f, append([]byte{}, packet...), net.IP(append([]byte{}, ip...)))
	if err != nil {
		fmt.Fprintln(os.Stderr, "shim_udp failed:", err)
		os.Exit(3)
	}
	fr.spy.mu.Lock()
	calls, la, ls := fr.spy.handles, fr.spy.lastAnn, fr.spy.lastScr
	fr.spy.mu.Unlock()
	for i := 0; i < calls && pv == nil; i++ {
		select {
		case <-fr.spy.afters:
		case <-time.After(2 * time.Second):
		}
	}
	call, cj := "HNone", map[string]interface{}{}
	switch {
	case calls > 1:
		fmt.Fprintln(os.Stderr, "VERIF-CRASH-INPUT: logic called", calls, "times for one datagram", hx(packet))
		os.Exit(4)
	case la != nil:
		call, cj = fmt.Sprintf("(HAnn %s)", c07AnnFields(la)), c07AnnJSON(la)
	case ls != nil:
		var it, ij []string
		for _, ih := range ls.InfoHashes {
			it = append(it, cB(ih[:]))
			ij = append(ij, hx(ih[:]))
		}
		call = fmt.Sprintf("(HScr %d %s)", uint8(ls.AddressFamily), cList(it))
		cj = map[string]interface{}{"af": ls.AddressFamily.String(), "infohashes": ij}
	}
	es := []macEntry{{key, cat(ts4(now), ip)}}
	if len(packet) >= 4 {
		es = append(es, macEntry{key, cat(packet[:4], ip)})
	}
	var ds, dj []string
	for _, d := range dgrams {
		ds = append(ds, cB(d))
		dj = append(dj, hx(d))
	}
	o.add(Case{Coq: fmt.Sprintf("CHand %s %s %s %d %d %d %s %s %s %s %s %s", cB(key), cZ(skew), cZ(now), po.MaxNumWant, po.DefaultNumWant, po.MaxScrapeInfoHashes,
		cB(ip), cB(packet), c10Macs(es), cList(ds), cBool(pv != nil), call),
		In: in, Kind: kind, Obs: map[string]interface{}{"datagrams": dj, "panicked": pv != nil, "logic_call": cj}})
	return dgrams
}

func c07Replay(o *Out, in map[string]interface{}) error {
	switch jStr(in["t"]) {
	case "ann":
		c07Announce(o, "replay", jBool(in["v6action"]), udp.ParseOptions{AllowIPSpoofing: jBool(in["spoof"]), MaxNumWant: uint32(jU64(in["maxnw"])),
			DefaultNumWant: uint32(jU64(in["defnw"]))}, unhx(in["src"]), jBool(in["src_nil"]), unhx(in["packet"]))
	case "scr":
		c07Scrape(o, "replay", uint32(jU64(in["maxscrape"])), unhx(in["packet"]))
	case "hand":
		c07Hand(o, "replay", unhx(in["key"]), jInt(in["skew"]), jInt(in["now"]), udp.ParseOptions{MaxNumWant: uint32(jU64(in["maxnw"])),
			DefaultNumWant: uint32(jU64(in["defnw"])), MaxScrapeInfoHashes: uint32(jU64(in["maxscrape"]))}, unhx(in["ip"]), unhx(in["packet"]))
	default:
		return fmt.Errorf("unknown case type")
	}
	return nil
}

// ---- generators

type c07Gen struct{ rng *rand.Rand }

func (g c07Gen) bytes(n int) []byte {
	b := make([]byte, n)
	g.rng.Read(b)
	return b
}

func (g c07Gen) popts() udp.ParseOptions {
	mx := []uint32{1, 50, 100, 100, 100, 1<<32 - 1, 0}[g.rng.Intn(7)]
	df := []uint32{50, 50, 0, 7, 1<<32 - 1}[g.rng.Intn(5)]
	return udp.ParseOptions{AllowIPSpoofing: g.rng.Intn(3) == 0, MaxNumWant: mx, DefaultNumWant: df}
}

func (g c07Gen) src() ([]byte, bool) {
	switch g.rng.Intn(12) {
	case 0:
		return nil, true
	case 1:
		return g.bytes([]int{0, 3, 5, 15, 17}[g.rng.Intn(5)]), false
	case 2, 3, 4:
		return g.bytes(16), false
	case 5:
		return cat([]byte{0, 0, 0, 0, 0, 0, 0, 0, 0, 0, 255, 255}, g.bytes(4)), false
	}
	return g.bytes(4), false
}

// urlData builds URL data as a client would put it into BEP 41 options.
func (g c07Gen) urlData() []byte {
	r := g.rng
	var sb strings.Builder
	if r.Intn(3) > 0 {
		sb.WriteString([]string{"/announce", "/", "/a/b%20c", "", "/ANNOUNCE"}[r.Intn(5)])
	}
	if r.Intn(6) > 0 {
		sb.WriteByte('?')
		n := r.Intn(5)
		for i := 0; i < n; i++ {
			if i > 0 {
				sb.WriteByte("&&;"[r.Intn(3)])
			}
			k := c07Keys[r.Intn(len(c07Keys))]
			if r.Intn(5) == 0 {
				k = strings.ToUpper(k)
			}
			switch {
			case k == "info_hash" && r.Intn(3) > 0:
				sb.WriteString("info_hash=")
				for j := 0; j < 20; j++ {
					fmt.Fprintf(&sb, "%%%02x", r.Intn(256))
				}
			case r.Intn(8) == 0:
				sb.WriteString(k) // no value
			default:
				sb.WriteString(k + "=")
				sb.WriteString([]string{"1", "abc", "a+b", "%41%42", "v%3d1", "", "%zz", "%4", "caf%C3%A9", "=x=", "0"}[r.Intn(11)])
			}
		}
	}
	if r.Intn(10) == 0 {
		// MANY distinct parameters (far more than a client sends), the ones the lookups ask for among / after them
		if sb.Len() == 0 {
			sb.WriteString("/?")
		} else if !strings.Contains(sb.String(), "?") {
			sb.WriteByte('?')
		}
		cnt := []int{31, 32, 33, 64, 120}[r.Intn(5)]
		for i := 0; i < cnt; i++ {
			fmt.Fprintf(&sb, "&q%d=%d", i, r.Intn(10))
			if i == cnt/2 && r.Intn(2) == 0 {
				sb.WriteString("&" + c07Keys[r.Intn(len(c07Keys))] + "=mid")
			}
		}
		sb.WriteString("&" + c07Keys[r.Intn(len(c07Keys))] + "=last")
	}
	if r.Intn(8) == 0 {
		// a long request string: BEP 41 chains it over any number of URLData options
		total := []int{254, 255, 256, 509, 510, 511, 512, 700, 765, 766, 1020, 1021, 1500, 1850}[r.Intn(14)]
		if sb.Len() == 0 {
			sb.WriteString("/?")
		}
		sb.WriteString("&pad=")
		for sb.Len() < total {
			sb.WriteByte("xyz+"[r.Intn(4)])
		}
	}
	return []byte(sb.String())
}

// options renders URL data as a BEP 41 option sequence, split into chunks, with nops sprinkled in.
func (g c07Gen) options(data []byte, end bool) []byte {
	r := g.rng
	var out []byte
	for len(data) > 0 || r.Intn(4) == 0 {
		if r.Intn(4) == 0 {
			out = append(out, 1)
			continue
		}
		n := r.Intn(40)
		if r.Intn(10) == 0 || (len(data) > 300 && r.Intn(4) > 0) {
			n = 255
		}
		if n > len(data) {
			n = len(data)
		}
		out = append(out, 2, byte(n))
		out = append(out, data[:n]...)
		data = data[n:]
		if len(data) == 0 && r.Intn(2) == 0 {
			break
		}
	}
	if end {
		out = append(out, 0)
		if r.Intn(3) == 0 { // whatever follows the end marker is ignored
			out = append(out, g.bytes(r.Intn(12))...)
		}
	}
	return out
}

// announce builds a well-formed announce up to and including the port.
func (g c07Gen) announce(connID []byte, v6 bool, event uint32) []byte {
	r := g.rng
	n := 98
	if v6 {
		n = 110
	}
	p := g.bytes(n)
	copy(p[0:8], connID)
	a := uint32(1)
	if v6 {
		a = 4
	}
	binary.BigEndian.PutUint32(p[8:12], a)
	for _, off := range []int{56, 64, 72} {
		switch r.Intn(5) {
		case 0:
			binary.BigEndian.PutUint64(p[off:], 0)
		case 1:
			binary.BigEndian.PutUint64(p[off:], 1<<64-1)
		case 2:
			binary.BigEndian.PutUint64(p[off:], uint64(r.Intn(1<<20)))
		}
	}
	binary.BigEndian.PutUint32(p[80:84], event)
	switch r.Intn(6) {
	case 0, 1: // IP field zero = "use the source address"
		for i := 84; i < n-10; i++ {
			p[i] = 0
		}
	case 2: // ALMOST zero: one non-zero byte anywhere in the field, or zero but for the tail (::1, ::ffff:a.b.c.d, ::a.b.c.d)
		for i := 84; i < n-10; i++ {
			p[i] = 0
		}
		switch r.Intn(4) {
		case 0:
			p[84+r.Intn(n-10-84)] = byte(1 + r.Intn(255))
		case 1:
			p[n-11] = 1
		case 2:
			copy(p[n-14:n-10], g.bytes(4))
			if v6 {
				p[n-16], p[n-15] = 0xff, 0xff
			}
		default:
			copy(p[n-14:n-10], g.bytes(4))
		}
	}
	nw := []uint32{0, 1, 49, 50, 51, 99, 100, 101, 1<<32 - 1, 1 << 31, r.Uint32()}[r.Intn(11)]
	binary.BigEndian.PutUint32(p[n-6:n-2], nw)
	port := []uint16{1, 80, 6881, 65535, 256, uint16(r.Intn(65536)), uint16(r.Intn(65535) + 1)}[r.Intn(7)]
	if r.Intn(25) == 0 {
		port = 0
	}
	binary.BigEndian.PutUint16(p[n-2:], port)
	return p
}

func c07Stream(o *Out, rng *rand.Rand, n int) {
	g := c07Gen{rng}
	thorough := os.Getenv("VERIF_TIER") == "thorough"
	// ---- 1. every length 0..2048 (quick: every length up to 140, then a stride), random content
	reps := 1
	if thorough {
		reps = 4
	}
	for L := 0; L <= 2048; L++ {
		if !thorough && L > 140 && L%23 != 0 && L != 2048 && L != 2047 {
			continue
		}
		for rep := 0; rep < reps; rep++ {
			p := g.bytes(L)
			if L > 83 && rng.Intn(2) == 0 { // let half of them pass the event / port checks
				p[83] = byte(rng.Intn(4))
			}
			src, isNil := g.src()
			c07Announce(o, "length-sweep", false, g.popts(), src, isNil, p)
			q := append([]byte{}, p...)
			if L > 109 && rng.Intn(2) == 0 {
				q[110%len(q)] = byte(rng.Intn(3)) // a plausible first option byte
			}
			src, isNil = g.src()
			c07Announce(o, "length-sweep", true, g.popts(), src, isNil, q)
			c07Scrape(o, "length-sweep", []uint32{0, 1, 50, 50, 1<<32 - 1, 3}[rng.Intn(6)], p)
		}
	}
	// ---- 2. structured announces
	for i := 0; i < n; i++ {
		v6 := rng.Intn(2) == 0
		ev := uint32(rng.Intn(4))
		kind := "announce"
		switch rng.Intn(12) {
		case 0:
			ev = uint32(4 + rng.Intn(252))
			kind = "announce-bad-event"
		case 1:
			ev = uint32(rng.Intn(4)) | uint32(rng.Intn(1<<24)+1)<<8 // high bytes set (DESIGN 9.B-2)
			kind = "announce-event-high-bytes"
		}
		p := g.announce(g.bytes(8), v6, ev)
		switch rng.Intn(10) {
		case 0: // no options at all
		case 1: // unknown option type somewhere
			p = append(p, g.options(g.urlData(), false)...)
			p = append(p, byte(3+rng.Intn(253)))
			p = append(p, g.bytes(rng.Intn(5))...)
			kind = "announce-unknown-option"
		case 2: // truncated inside the options
			opts := g.options(g.urlData(), false)
			if len(opts) > 0 {
				opts = opts[:rng.Intn(len(opts))]
			}
			p = append(p, opts...)
			kind = "announce-truncated-options"
		case 3: // length byte larger than what is left
			p = append(p, g.options(g.urlData(), false)...)
			d := g.bytes(rng.Intn(20))
			p = append(p, 2, byte(len(d)+1+rng.Intn(255-len(d))))
			p = append(p, d...)
			kind = "announce-truncated-options"
		case 4: // cut anywhere
			p = append(p, g.options(g.urlData(), true)...)
			p = p[:rng.Intn(len(p)+1)]
			kind = "announce-cut"
		default:
			p = append(p, g.options(g.urlData(), rng.Intn(2) == 0)...)
		}
		src, isNil := g.src()
		c07Announce(o, kind, v6, g.popts(), src, isNil, p)
	}
	// lengths around the minimum (98 / 110), well-formed content
	for _, v6 := range []bool{false, true} {
		for d := -4; d <= 4; d++ {
			for rep := 0; rep < 3; rep++ {
				p := g.announce(g.bytes(8), v6, uint32(rng.Intn(4)))
				if d < 0 {
					p = p[:len(p)+d]
				} else {
					p = append(p, []byte{1, 1, 0, 7}[:d]...)
				}
				c07Announce(o, "announce-min-length", v6, udp.ParseOptions{MaxNumWant: 100, DefaultNumWant: 50}, []byte{10, 0, 0, byte(rep + 1)}, false, p)
			}
		}
	}
	// every length byte once
	for l := 0; l < 256; l += 1 {
		if !thorough && l%5 != 0 && l < 250 {
			continue
		}
		p := g.announce(g.bytes(8), false, 2)
		d := []byte(strings.Repeat("k=v&", 64))[:l]
		p = append(p, 2, byte(l))
		p = append(p, d...)
		c07Announce(o, "option-length-byte", false, udp.ParseOptions{MaxNumWant: 100, DefaultNumWant: 50}, []byte{10, 0, 0, 1}, false, p)
		if l > 0 {
			c07Announce(o, "option-length-byte", false, udp.ParseOptions{MaxNumWant: 100, DefaultNumWant: 50}, []byte{10, 0, 0, 1}, false, p[:len(p)-1])
		}
	}
	// ---- 3. scrapes
	for k := 0; k <= 80; k++ {
		for _, d := range []int{-1, 0, 1} {
			if 16+20*k+d < 0 {
				continue
			}
			p := g.bytes(16 + 20*k + d)
			if len(p) >= 56 && rng.Intn(2) == 0 { // repeats
				copy(p[36:56], p[16:36])
			}
			c07Scrape(o, "scrape", []uint32{0, 1, 2, 50, 50, 50, 51, 80, 1<<32 - 1}[rng.Intn(9)], p)
		}
	}
	// ---- 4. through handleRequest: what reaches the logic, what comes back
	key := []byte("7fPpbXx3gzmrsmVXA5WT4lDCOtTCnEXpvQLjXa9GFeGL1sPoN2yVtTtKiUmaBlOb")
	magic := []byte{0, 0, 0x04, 0x17, 0x27, 0x10, 0x19, 0x80}
	ips := [][]byte{{127, 0, 0, 1}, {10, 1, 2, 3}, net.ParseIP("2001:db8::1"), net.ParseIP("fe80::dead:beef")}
	pos := []udp.ParseOptions{{MaxNumWant: 100, DefaultNumWant: 50, MaxScrapeInfoHashes: 50}, {MaxNumWant: 5, DefaultNumWant: 3, MaxScrapeInfoHashes: 2}}
	for i := 0; i < n/2+20; i++ {
		ip := ips[rng.Intn(len(ips))]
		po := pos[rng.Intn(len(pos))]
		now := (int64(rng.Intn(1<<31)) + 1000) * sec
		cp := append(append([]byte{}, magic...), 0, 0, 0, 0)
		cp = append(cp, g.bytes(4)...)
		id := make([]byte, 8)
		if ds := c07Hand(o, "connect", key, 10*sec, now, po, ip, cp); len(ds) == 1 && len(ds[0]) == 16 {
			id = ds[0][8:16]
		}
		now += int64(rng.Intn(100)) * sec
		switch i % 8 {
		case 0, 1, 2:
			v6 := rng.Intn(2) == 0
			ev := uint32(rng.Intn(4))
			if rng.Intn(8) == 0 {
				ev = uint32(rng.Intn(256))
			}
			p := g.announce(id, v6, ev)
			if rng.Intn(2) == 0 {
				p = append(p, g.options(g.urlData(), rng.Intn(2) == 0)...)
			}
			if rng.Intn(8) == 0 {
				p = p[:rng.Intn(len(p)+1)]
			}
			c07Hand(o, "handle-announce", key, 10*sec, now, po, ip, p)
		case 3, 4:
			k := rng.Intn(6)
			if rng.Intn(4) == 0 {
				k = 45 + rng.Intn(10)
			}
			p := g.bytes(16 + 20*k + []int{0, 0, 0, 0, 1, -1, 7}[rng.Intn(7)])
			copy(p, id)
			binary.BigEndian.PutUint32(p[8:12], 2)
			c07Hand(o, "handle-scrape", key, 10*sec, now, po, ip, p)
		case 5: // unknown action with a valid ID
			p := g.bytes(16 + rng.Intn(100))
			copy(p, id)
			a := []uint32{3, 5, 6, 7, 255, 256, 1 << 24, 0x01000000, 0x00000104, rng.Uint32() | 8}[rng.Intn(10)]
			binary.BigEndian.PutUint32(p[8:12], a)
			c07Hand(o, "handle-unknown-action", key, 10*sec, now, po, ip, p)
		case 6: // shorter than a header
			p := g.bytes(rng.Intn(16))
			copy(p, id)
			c07Hand(o, "handle-short", key, 10*sec, now, po, ip, p)
		default: // connect without the magic
			p := g.bytes(16 + rng.Intn(8))
			if rng.Intn(2) == 0 {
				copy(p, magic)
				p[rng.Intn(8)] ^= byte(1 << uint(rng.Intn(8)))
			}
			binary.BigEndian.PutUint32(p[8:12], 0)
			c07Hand(o, "handle-connect-no-magic", key, 10*sec, now, po, ip, p)
		}
	}
}
