"""C09 - UDP responses follow BEP 15."""
from e2e_common import e2e_part
import importlib.util, os
_s = importlib.util.spec_from_file_location("c04def9", os.path.join(os.path.dirname(os.path.abspath(__file__)), "C04.py"))
_m = importlib.util.module_from_spec(_s); _s.loader.exec_module(_m)
# "every response echoes ITS request's transaction id" also when datagrams are in flight together (pooled buffers):
# the stress part of C04 (48 concurrent UDP clients against a real frontend), judged with C09's reasons
_stress = dict(_m.PROP["parts"][0], chk="chkE09", n={"quick": 60, "thorough": 800}, gotags=_m.CONC_TAGS)
PROP = {
    "parts": [e2e_part("chkE09", 40, 800), _stress],
    "mutex_rewrite": True,
    "glue": "G09", "chk": "chk09", "explain": "explain09",
    "n": {"quick": 1500, "thorough": 25000},
    "rule": "cases = WriteAnnounce (interval grid incl. sub-second, negative, >= 2^31 s, int64 extremes; counts 0..2^32-1; 0..110 peers per family; both actions x both requester families; "
            "a few peer lists with address bytes of the wrong width), WriteScrape (0..75 files), middleware.NewLogic(...).HandleScrape over a table-backed store followed by WriteScrape "
            "(1..60 infohashes with repeats and near-identical hashes, both families), WriteConnectionID, WriteError (every client error text of the code base, client errors behind 1-2 wrappers, "
            "plain and nested internal errors carrying addresses/paths).  Every case is non-trivial (tag 0 is the v4/v4 announce); distinct = distinct input JSON",
    "tags": {"0": "announce action 1, IPv4 requester", "1": "announce action 1, IPv6 requester", "2": "announce action 4, IPv4 requester", "3": "announce action 4, IPv6 requester",
             "4": "announce outside the property's domain (negative interval / odd address width), a1 v4", "5": "same, a1 v6", "6": "same, a4 v4", "7": "same, a4 v6",
             "10": "scrape response", "20": "connect response", "30": "client error", "31": "wrapped client error", "32": "internal error", "40": "HandleScrape + WriteScrape"},
    "trivial_tags": [],
    "min_tags": 10,
    "reasons": {"1": "announce datagram not decodable by the BEP 15 reference decoder", "2": "announce: action is not 1 (4 for the opentracker action)", "3": "announce: transaction ID not echoed",
                "4": "announce: interval field is not floor(interval / 1 s) mod 2^32", "5": "announce: leechers field is not Incomplete", "6": "announce: seeders field is not Complete",
                "7": "announce: peer entries are not the requester family's list as address+port", "11": "scrape datagram not decodable", "12": "scrape: action is not 2", "13": "scrape: transaction ID not echoed",
                "14": "scrape: triples are not (complete, snatches, incomplete) per file in order", "21": "connect response is not 16 bytes", "22": "connect: action is not 0", "23": "connect: transaction ID not echoed",
                "24": "connect: connection ID not carried", "31": "error datagram shorter than its header", "32": "error: action is not 3", "33": "error: transaction ID not echoed",
                "34": "client error: message is not the client error's text", "35": "internal error: the error's text is on the wire",
                "41": "scrape (via HandleScrape) not decodable", "42": "scrape (via HandleScrape): action", "43": "scrape (via HandleScrape): transaction ID",
                "44": "scrape: number of triples differs from the number of requested infohashes", "45": "scrape: triples are not the store's answers in request order",
                "101": "announce bytes differ from the model although the decoder agrees", "102": "announce outside the domain: bytes differ from the model", "103": "scrape bytes differ from the model",
                "104": "connect bytes differ from the model", "105": "client error bytes differ from the model (e.g. no NUL terminator)", "106": "internal error: constant differs from the model's 'internal error occurred'",
                "107": "Files[i].InfoHash differs from the requested infohash", "108": "scrape (via HandleScrape) bytes differ from the model", "199": "driver did not ship a store answer"},
    "assumptions": ["a Go error value is modelled by (errors.As(err, &ClientError) result, err.Error())", "the store is abstract in scrape_files_in_request_order (any function of state, infohash, family)",
                    "interval clause checked for non-negative durations (Go truncates toward zero; negative intervals are outside the property)"],
    "explanation": "Theorems over Model/UdpWrite.v: an independent decoder written from the BEP 15 tables recovers exactly the response values from the model writers' bytes for all inputs; "
                   "the model is tied to frontend/udp/writer.go and middleware/hooks.go by executing WriteAnnounce/WriteScrape/WriteConnectionID/WriteError and Logic.HandleScrape on generated values; "
                   "the clauses are checked on the implementation's own bytes with the reference decoder inside Coq, then bytes are compared with the model.",
}

CLAIM = {
    "text": "Machine-checked proof (Coq) that for EVERY response value, transaction ID, both announce actions and both requester families an independent BEP 15 reference decoder recovers action, transaction ID, interval (whole seconds mod 2^32), leechers, seeders and the requester family's peers from write_announce; one (seeders, completed, leechers) triple per requested infohash in request order (repeats included) from handle_scrape + write_scrape; the connection ID from write_connection_id; a client error's text from write_error; and that all non-client errors produce one constant datagram. The pre-fix WriteError (internal error text on the wire, finding F2) is kept as write_error_legacy with a kernel-checked refutation. The model is tied to the Go writers on every run by differential execution.",
    "design_ref": "DESIGN.md section 8, C09; section 9 F2",
    "note": "Trusted: Coq kernel + vm_compute; Glue/G09.v; Go driver. F2 (WriteError sends 'internal error occurred: ' + err.Error()) is genuine on the unfixed tree: ./check C09 reports reason 35 until proposed_fixes/F2.diff is applied. End-to-end 'every datagram echoes the request's transaction ID' is covered at the dispatcher level by C07/C10 cases, not by a separate theorem here.",
    "technique": "Coq proof over executable Gallina model + differential correspondence check (vm_compute)",
}
