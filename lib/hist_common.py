HIST_RULE = ("cases = operation histories (20-250 ops: clock, announce through middleware.Logic [HandleAnnounce+AfterAnnounce], scrape, direct store calls, "
             "AnnouncePeers, expiry with a cutoff never equal to a clock value, totals, full membership dump) over tiny colliding pools (4 infohashes incl. same-shard and "
             "differ-beyond-byte-4 pairs, 4 peer IDs x 3 ports x 3 addresses per family, same infohash/ID/port in both families) against the memory store "
             "(1/2/7/1024 shards) and the Redis store (miniredis, 1-3 store instances sharing one server); every history is non-trivial (>= 20 ops); distinct = distinct input JSON.")
HIST_TAGS = {"1": "memory, 1 shard", "2": "memory, 2 shards", "7": "memory, 7 shards", "1024": "memory, 1024 shards",
             "100001": "redis, 1 instance", "100002": "redis, 2 instances", "100003": "redis, 3 instances", "other": "index of the failing operation"}
HIST_REASONS = {
    "11": "announce response counts differ from the swarm's seeder/leecher counts (plus the documented self bump)",
    "12": "scrape counts differ from what the history implies", "13": "stored memberships differ from what the history implies",
    "15": "store/logic returned an unexpected error or panicked", "16": "AnnouncePeers: known/unknown swarm differs from what the history implies",
    "21": "more than numwant peers", "22": "returned peer is not a current member (or returned twice)", "23": "fewer peers than the swarm can offer / leechers preferred over seeders",
    "24": "leecher received its own leecher entry", "25": "seeder was offered a seeder", "26": "empty selection but response is not just the announcer",
    "31": "returned peer of the other address family", "32": "wrong family list populated in the response", "33": "membership stored in a swarm of the other family",
    "51": "after an expiry pass the stored memberships are not exactly those announced after the cutoff", "52": "swarm emptied by expiry is still known",
    "53": "re-announce did not restart the lifetime (stored time differs)",
    "71": "exported gauges differ from a recount of the stored memberships", "72": "per-shard counters differ from the per-shard recount", "73": "a total is negative or wrapped",
    "114": "Delete* result for an absent/present peer differs from the model (auxiliary)", "171": "recount differs from the model's totals",
}
HIST_ASSUMPTIONS = ["miniredis 2.5.0 stands in for Redis", "peers handed to the store are sanitised (4-byte IPv4 / 16-byte non-mapped IPv6), as the frontends guarantee (C06/C07)",
                    "the cached clock is pinned by an overlay shim; entries exactly at the expiry cutoff are not generated (the property leaves them open)"]
