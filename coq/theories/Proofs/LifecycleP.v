(* C16 - proofs over Model/Lifecycle.v *)
From Coq Require Import List ZArith Bool Arith Lia.
From Chihaya Require Import Model.Lifecycle.
Import ListNotations.

(* ================================================================== *)
(* (i) stop groups                                                     *)
(* ================================================================== *)

Lemma chan_wait_proper : forall es, chan_wait (proper es) = proper es.
Proof. destruct es; reflexivity. Qed.

Lemma chan_wait_head : forall a, chan_wait a = [] \/ exists e r, chan_wait a = Some e :: r.
Proof.
  intros [|[e|] r]; unfold chan_wait; cbn; auto. right; eauto.
Qed.

Lemma chan_wait_fix : forall a, (a = [] \/ exists e r, a = Some e :: r) -> chan_wait a = a.
Proof. intros a [->|(e & r & ->)]; reflexivity. Qed.

Lemma concat_waits_head : forall ms : list raw,
  let c := concat (map chan_wait ms) in c = [] \/ exists e r, c = Some e :: r.
Proof.
  induction ms as [|m ms IH]; cbn; auto.
  destruct (chan_wait_head m) as [E|(e & r & E)]; rewrite E; cbn; auto.
  right; eauto.
Qed.

(* members reporting through Channel.Done: the group delivers exactly what the
   members delivered, member after member *)
Lemma group_result_concat : forall ms, group_result ms = concat (map chan_wait ms).
Proof. intros ms. unfold group_result. apply chan_wait_fix, concat_waits_head. Qed.

Lemma group_reports_all_errors : forall es : list (list Z),
  group_result (map proper es) = proper (concat es).
Proof.
  intros es. rewrite group_result_concat. unfold proper.
  rewrite concat_map. f_equal. rewrite map_map. apply map_ext. intros a. apply (chan_wait_proper a).
Qed.

Lemma group_no_error_lost : forall (es : list (list Z)) i e,
  In e (nth i es []) -> In (Some e) (group_result (map proper es)).
Proof.
  intros es i e H. rewrite group_reports_all_errors. unfold proper. apply in_map.
  apply in_concat. exists (nth i es []). split; auto.
  destruct (Nat.lt_ge_cases i (length es)) as [L|L].
  - apply nth_In; auto.
  - rewrite nth_overflow in H by auto. destruct H.
Qed.

Lemma group_clean_iff : forall es : list (list Z),
  group_result (map proper es) = [] <-> forall m, In m es -> m = [].
Proof.
  intros es. rewrite group_reports_all_errors. unfold proper. split.
  - intros H m Hm. apply map_eq_nil in H. induction es as [|a es IH]; [destruct Hm|].
    cbn in H. apply app_eq_nil in H. destruct H as [Ha Hr]. destruct Hm as [<-|Hm]; auto.
  - intros H. replace (concat es) with (@nil Z); auto.
    induction es as [|a es IH]; auto. cbn. rewrite (H a) by (left; auto). cbn. apply IH.
    intros m Hm. apply H. right; auto.
Qed.

(* recorded, not claimed: a nil first argument makes Done drop everything *)
Lemma done_nil_first_dropped : forall e rest, chan_wait (None :: Some e :: rest) = [].
Proof. reflexivity. Qed.

Lemma completed_in_iff : forall sched i, completed_in sched i = true <-> In i sched.
Proof.
  intros sched i. unfold completed_in. rewrite existsb_exists. split.
  - intros (x & Hx & E). apply Nat.eqb_eq in E. subst; auto.
  - intros H. exists i. split; auto. apply Nat.eqb_refl.
Qed.

Lemma waiter_all : forall ms k completed acc,
  (forall i, k <= i < k + length ms -> completed i = true) ->
  waiter ms k completed acc = Some (chan_wait (acc ++ concat (map chan_wait ms))).
Proof.
  induction ms as [|m ms IH]; intros k completed acc H; cbn.
  - rewrite app_nil_r; auto.
  - rewrite H by (cbn; lia). rewrite IH.
    + rewrite <- app_assoc; auto.
    + intros i Hi. apply H. cbn. lia.
Qed.

Lemma waiter_some : forall ms k completed acc r,
  waiter ms k completed acc = Some r ->
  forall i, k <= i < k + length ms -> completed i = true.
Proof.
  induction ms as [|m ms IH]; intros k completed acc r H i Hi; cbn in *; [lia|].
  destruct (completed k) eqn:E; [|discriminate].
  destruct (Nat.eq_dec i k) as [->|N]; auto.
  eapply IH; eauto. lia.
Qed.

Lemma group_stop_terminates : forall ms sched,
  (forall i, i < length ms -> In i sched) ->
  group_run ms sched = Some (group_result ms).
Proof.
  intros ms sched H. unfold group_run. rewrite waiter_all.
  - cbn. reflexivity.
  - intros i Hi. apply completed_in_iff, H. lia.
Qed.

Lemma group_delivers_iff : forall ms sched,
  (exists r, group_run ms sched = Some r) <-> (forall i, i < length ms -> In i sched).
Proof.
  intros ms sched. split.
  - intros (r & H) i Hi. apply completed_in_iff. eapply waiter_some; eauto. lia.
  - intros H. eexists. apply group_stop_terminates; auto.
Qed.

Lemma group_run_result : forall ms sched r, group_run ms sched = Some r -> r = group_result ms.
Proof.
  intros ms sched r H. assert (A : exists r, group_run ms sched = Some r) by eauto.
  pose proof (proj1 (group_delivers_iff ms sched) A) as B. rewrite group_stop_terminates in H by auto. congruence.
Qed.

Example group_example :
  group_run [proper [1%Z]; []; proper [2%Z; 3%Z]] [2; 0; 1] = Some (proper [1%Z; 2%Z; 3%Z])
  /\ group_run [proper [1%Z]; []; proper [2%Z; 3%Z]] [2; 0] = None.
Proof. split; reflexivity. Qed.
