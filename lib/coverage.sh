#!/bin/bash
# usage: lib/coverage.sh [props...]   (audit tool, not a registered check)
# Which statements of chihaya do the correspondence drivers execute?  For every property: a throw-away worktree of /repo
# HEAD, the overlay files copied into it (go build -cover cannot read overlays), the quick check run with a
# coverage-instrumented driver; then the merged profile, per function, for the packages the models cover.
# Statements no driver executes are where a change can hide from every correspondence check.
export GOFLAGS=-mod=mod GOPROXY=off GOSUMDB=off GOTOOLCHAIN=local
props=${@:-C01 C02 C03 C04 C05 C06 C07 C08 C09 C10 C11 C12 C13 C14 C15 C16 C17 C18 C19 C20}
out=/tmp/verif-cov; rm -rf $out; mkdir -p $out/data
for p in $props; do
  wt=/tmp/cov-$p
  git -C /repo worktree remove --force $wt >/dev/null 2>&1
  git -C /repo worktree add -q --detach $wt HEAD || exit 2
  (cd ${VERIFDIR:-/verif} && VERIF_COVER=1 GOCOVERDIR=$out/data VERIF_REPO=$wt timeout 1500 ./check $p --tier quick 2>&1 | grep -E "^VIOLATION|^KNOWN" | head -3)
  echo "$p done"
  git -C /repo worktree remove --force $wt
done
go tool covdata textfmt -i=$out/data -o=$out/profile.txt 2>&1 | tail -2
# the profile's file names are import paths; `go tool cover -func` needs the sources: use /repo
(cd /repo && go tool cover -func=$out/profile.txt 2>/dev/null | grep -v "verifharness\|zz_verif" > $out/func.txt)
grep -v "100.0%" $out/func.txt | awk '$NF+0 < 100' | sort -k3 -n -t$'\t' > $out/partial.txt
echo "functions not fully executed: $(wc -l < $out/partial.txt) of $(wc -l < $out/func.txt) (see $out/partial.txt)"
