(* C17 - Reported seeder, leecher and swarm totals equal the stored reality. *)
From Chihaya Require Import Model.History Proofs.SwarmP Proofs.MemP.
Open Scope Z_scope.

(* memory store: in every reachable state, every shard's counters equal a
   recount of that shard (modulo 2^64: the counters are uint64; the recount of a
   history of fewer than 2^64 operations is below 2^64, so nothing ever wraps) *)
Theorem C17_mem_totals_exact : forall n ops sh, (0 < n)%nat -> sh ∈ run_mem n ops ->
  numS sh = wrap64 (sm_total_seeders (swarms sh)) /\ numL sh = wrap64 (sm_total_leechers (swarms sh)).
Proof. exact mem_totals_exact. Qed.
Print Assumptions C17_mem_totals_exact.

(* Redis store: after every sequential history the exported totals are (registered seeder
   keys, seeder memberships stored, leecher memberships stored) - and never negative *)
From Chihaya Require Import Proofs.RedisP.
Theorem C17_redis_totals_exact : forall ops, Forall sop_wf ops ->
  red_prom (run_redis ops) =
  (red_registered (run_redis ops), sm_total_seeders (run_spec ops), sm_total_leechers (run_spec ops)).
Proof. exact redis_totals_exact. Qed.
Print Assumptions C17_redis_totals_exact.

Theorem C17_redis_totals_nonnegative : forall ops, Forall sop_wf ops ->
  let '(i, s, l) := red_prom (run_redis ops) in 0 <= i /\ 0 <= s /\ 0 <= l.
Proof. exact redis_totals_nonnegative. Qed.
Print Assumptions C17_redis_totals_nonnegative.
