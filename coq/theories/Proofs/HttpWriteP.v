(* Lemmas about Model/HttpWrite.v (C08). *)
From Chihaya Require Import Model.HttpWrite Proofs.BencodeP.
From Coq Require Import ZifyBool ZifyNat.
Open Scope Z_scope.

(* ------------------------------------------------------------ values as finite maps *)

Lemma bequiv_int z y : bequiv (BInt z) y = true -> y = BInt z.
Proof. destruct y; cbn [bequiv]; try discriminate. intros H. apply Z.eqb_eq in H. congruence. Qed.

Lemma bequiv_str s y : bequiv (BStr s) y = true -> y = BStr s.
Proof. destruct y; cbn [bequiv]; try discriminate. intros H. apply bytes_eqb_eq in H. congruence. Qed.

Lemma bequiv_list l y :
  bequiv (BList l) y = true -> exists l', y = BList l' /\ Forall2 (fun a b => bequiv a b = true) l l'.
Proof.
  destruct y as [| |l'|]; cbn [bequiv]; try discriminate. intros H. exists l'. split; [reflexivity|].
  revert l' H. induction l as [|x l IH]; intros [|y l'] H; try discriminate; [constructor|].
  apply andb_true_iff in H as [H1 H2]. constructor; [exact H1|apply IH, H2].
Qed.

Lemma bequiv_dict d y :
  bequiv (BDict d) y = true ->
  exists d', y = BDict d' /\ length d = length d' /\
             forall k x, In (k, x) d -> exists x', lookup k d' = Some x' /\ bequiv x x' = true.
Proof.
  destruct y as [| | |d']; cbn [bequiv]; try discriminate. intros H.
  apply andb_true_iff in H as [H1 H2]. exists d'. split; [reflexivity|]. split; [apply Nat.eqb_eq, H1|].
  clear H1. induction d as [|[k0 x0] d IH]; intros k x Hin; [destruct Hin|].
  apply andb_true_iff in H2 as [Ha Hb]. destruct Hin as [E|Hin].
  - inversion E; subst. destruct (lookup k d') as [x'|]; [|discriminate]. exists x'. auto.
  - apply IH; assumption.
Qed.

Lemma lookup_In k d x : lookup k d = Some x -> In (k, x) d.
Proof.
  induction d as [|[k' v] d IH]; cbn [lookup]; [discriminate|].
  destruct (bytes_eqb k k') eqn:E.
  - apply bytes_eqb_eq in E. subst. intros H. inversion H; subst. left. reflexivity.
  - intros H. right. apply IH, H.
Qed.

(* a key absent from d is absent from every reordering of d *)
Lemma same_dict_absent d d' k :
  bequiv (BDict d') (BDict d) = true -> lookup k d = None -> lookup k d' = None.
Proof.
  intros H Hn. destruct (lookup k d') as [y|] eqn:E; [|reflexivity].
  apply lookup_In in E. apply bequiv_dict in H as (d0 & E0 & _ & Hl). inversion E0; subst d0.
  destruct (Hl k y E) as (x' & Hx & _). congruence.
Qed.

Lemma same_value_dict d v' :
  same_value (BDict d) v' = true ->
  exists d', v' = BDict d' /\ canonb v' = true /\
    (forall k x, In (k, x) d -> exists x', lookup k d' = Some x' /\ bequiv x x' = true) /\
    (forall k, lookup k d = None -> lookup k d' = None).
Proof.
  unfold same_value. intros H. apply andb_true_iff in H as [H Hc]. apply andb_true_iff in H as [H1 H2].
  destruct (bequiv_dict d v' H1) as (d' & E & _ & Hl). subst v'. exists d'.
  split; [reflexivity|]. split; [exact Hc|]. split; [exact Hl|].
  intros k Hk. eapply same_dict_absent; eauto.
Qed.

(* ------------------------------------------------------------ single value *)

(* every body the writer may emit is one bencoded value and nothing else *)
Lemma single_value v v' fuel :
  same_value v v' = true -> (length (bencode v') <= fuel)%nat ->
  bdecode fuel (bencode v') = Ok v' [].
Proof.
  intros H Hf. unfold same_value in H. apply andb_true_iff in H as [_ Hc].
  rewrite <- (app_nil_r (bencode v')) at 1. apply bdecode_bencode; assumption.
Qed.

(* ------------------------------------------------------------ errors *)

Definition is_client (e : err) : bool := match e with ClientErr _ => true | InternalErr => false end.

(* every failure that is not the client's fault produces the same body: no
   detail, nothing echoed *)
Lemma error_body_internal_constant e e' :
  is_client e = false -> is_client e' = false -> http_error_body e = http_error_body e'.
Proof. destruct e, e'; cbn; intros; try discriminate; reflexivity. Qed.

Lemma error_body_decodes e v' fuel :
  same_value (error_value e) v' = true -> (length (bencode v') <= fuel)%nat ->
  bdecode fuel (bencode v') = Ok v' [] /\ get k_failure v' = Some (BStr (error_msg e)).
Proof.
  intros H Hf. split; [eapply single_value; eauto|].
  unfold error_value in H. apply same_value_dict in H as (d' & E & _ & Hl & _). subst v'.
  destruct (Hl k_failure (BStr (error_msg e)) (or_introl eq_refl)) as (x' & Hx & Hb).
  apply bequiv_str in Hb. subst x'. exact Hx.
Qed.

Lemma error_body_client msg v' fuel :
  same_value (error_value (ClientErr msg)) v' = true -> (length (bencode v') <= fuel)%nat ->
  bdecode fuel (bencode v') = Ok v' [] /\ get k_failure v' = Some (BStr msg).
Proof. apply (error_body_decodes (ClientErr msg)). Qed.

Lemma error_body_internal v' fuel :
  same_value (error_value InternalErr) v' = true -> (length (bencode v') <= fuel)%nat ->
  bdecode fuel (bencode v') = Ok v' [] /\ get k_failure v' = Some (BStr internal_msg).
Proof. apply (error_body_decodes InternalErr). Qed.

(* ------------------------------------------------------------ announce *)

Ltac int_field Hl k x :=
  let x' := fresh "x'" in let Hx := fresh "Hx" in let Hb := fresh "Hb" in
  destruct (Hl k x) as (x' & Hx & Hb);
  [ apply in_or_app; left; cbn [base_entries In]; auto 10
  | apply bequiv_int in Hb; subst x'; exact Hx ].

Lemma base_fields r rest d' :
  (forall k x, In (k, x) (base_entries r ++ rest) -> exists x', lookup k d' = Some x' /\ bequiv x x' = true) ->
  lookup k_complete d' = Some (BInt (a_complete r)) /\
  lookup k_incomplete d' = Some (BInt (a_incomplete r)) /\
  lookup k_interval d' = Some (BInt (dur_secs (a_interval r))) /\
  lookup k_min_interval d' = Some (BInt (dur_secs (a_min_interval r))).
Proof.
  intros Hl. repeat split.
  - int_field Hl k_complete (BInt (a_complete r)).
  - int_field Hl k_incomplete (BInt (a_incomplete r)).
  - int_field Hl k_interval (BInt (dur_secs (a_interval r))).
  - int_field Hl k_min_interval (BInt (dur_secs (a_min_interval r))).
Qed.

Definition opt_str (s : bytes) : option bval := match s with [] => None | _ :: _ => Some (BStr s) end.

Lemma announce_body_decodes_compact r v v' fuel :
  a_compact r = true -> announce_value r = Some v ->
  same_value v v' = true -> (length (bencode v') <= fuel)%nat ->
  bdecode fuel (bencode v') = Ok v' [] /\
  get k_complete v' = Some (BInt (a_complete r)) /\
  get k_incomplete v' = Some (BInt (a_incomplete r)) /\
  get k_interval v' = Some (BInt (dur_secs (a_interval r))) /\
  get k_min_interval v' = Some (BInt (dur_secs (a_min_interval r))) /\
  exists c4 c6, compact_all compact4 (a_v4 r) = Some c4 /\ compact_all compact6 (a_v6 r) = Some c6 /\
                get k_peers v' = opt_str c4 /\ get k_peers6 v' = opt_str c6.
Proof.
  intros Hc Hv Hs Hf. split; [eapply single_value; eauto|].
  unfold announce_value in Hv. rewrite Hc in Hv.
  destruct (compact_all compact4 (a_v4 r)) as [c4|]; [|discriminate].
  destruct (compact_all compact6 (a_v6 r)) as [c6|]; [|discriminate].
  assert (E : v = BDict (base_entries r ++ opt_entry k_peers c4 ++ opt_entry k_peers6 c6)) by congruence.
  subst v. clear Hv.
  apply same_value_dict in Hs as (d' & E & _ & Hl & Hn). subst v'. cbn [get].
  destruct (base_fields r _ d' Hl) as (F1 & F2 & F3 & F4).
  repeat (split; [assumption|]).
  exists c4, c6. repeat (split; [reflexivity|]).
  split.
  - destruct c4 as [|b c4]; cbn [opt_str].
    + apply Hn. destruct c6; vm_compute; reflexivity.
    + destruct (Hl k_peers (BStr (b :: c4))) as (x' & Hx & Hb).
      { apply in_or_app; right. apply in_or_app; left. left. reflexivity. }
      apply bequiv_str in Hb. subst x'. exact Hx.
  - destruct c6 as [|b c6]; cbn [opt_str].
    + apply Hn. destruct c4; vm_compute; reflexivity.
    + destruct (Hl k_peers6 (BStr (b :: c6))) as (x' & Hx & Hb).
      { apply in_or_app; right. apply in_or_app; right. left. reflexivity. }
      apply bequiv_str in Hb. subst x'. exact Hx.
Qed.

(* what a client reads in one peer dictionary *)
Definition peer_read (p : peer) (pd : bval) : Prop :=
  get k_peer_id pd = Some (BStr (p_id p)) /\
  get k_ip pd = Some (BStr (ip_string (p_ip p))) /\
  get k_port pd = Some (BInt (p_port p)).

Lemma peer_dict_read p pd : bequiv (peer_dict p) pd = true -> peer_read p pd.
Proof.
  intros H. unfold peer_dict in H. apply bequiv_dict in H as (d' & E & _ & Hl). subst pd.
  unfold peer_read. cbn [get]. repeat split.
  - destruct (Hl k_peer_id (BStr (p_id p))) as (x' & Hx & Hb); [cbn [In]; auto 10|].
    apply bequiv_str in Hb. subst x'. exact Hx.
  - destruct (Hl k_ip (BStr (ip_string (p_ip p)))) as (x' & Hx & Hb); [cbn [In]; auto 10|].
    apply bequiv_str in Hb. subst x'. exact Hx.
  - destruct (Hl k_port (BInt (p_port p))) as (x' & Hx & Hb); [cbn [In]; auto 10|].
    apply bequiv_int in Hb. subst x'. exact Hx.
Qed.

Lemma announce_body_decodes_dict r v v' fuel :
  a_compact r = false -> announce_value r = Some v ->
  same_value v v' = true -> (length (bencode v') <= fuel)%nat ->
  bdecode fuel (bencode v') = Ok v' [] /\
  get k_complete v' = Some (BInt (a_complete r)) /\
  get k_incomplete v' = Some (BInt (a_incomplete r)) /\
  get k_interval v' = Some (BInt (dur_secs (a_interval r))) /\
  get k_min_interval v' = Some (BInt (dur_secs (a_min_interval r))) /\
  get k_peers6 v' = None /\
  exists pl, get k_peers v' = Some (BList pl) /\ Forall2 peer_read (a_v4 r ++ a_v6 r) pl.
Proof.
  intros Hc Hv Hs Hf. split; [eapply single_value; eauto|].
  unfold announce_value in Hv. rewrite Hc in Hv.
  assert (E : v = BDict (base_entries r ++ [(k_peers, BList (map peer_dict (a_v4 r ++ a_v6 r)))])) by congruence.
  subst v. clear Hv.
  apply same_value_dict in Hs as (d' & E & _ & Hl & Hn). subst v'. cbn [get].
  destruct (base_fields r _ d' Hl) as (F1 & F2 & F3 & F4).
  repeat (split; [assumption|]).
  split; [apply Hn; vm_compute; reflexivity|].
  destruct (Hl k_peers (BList (map peer_dict (a_v4 r ++ a_v6 r)))) as (x' & Hx & Hb).
  { apply in_or_app; right. left. reflexivity. }
  apply bequiv_list in Hb as (pl & E & F2'). subst x'. exists pl. split; [exact Hx|].
  clear - F2'. revert pl F2'. induction (a_v4 r ++ a_v6 r) as [|p ps IH]; intros pl F; inversion F; subst; constructor.
  - apply peer_dict_read. assumption.
  - apply IH. assumption.
Qed.

(* ------------------------------------------------------------ scrape *)

Lemma lookup_dict_put k k' v d :
  lookup k (dict_put k' v d) = if bytes_eqb k k' then Some v else lookup k d.
Proof.
  induction d as [|[k0 v0] d IH]; cbn [dict_put lookup]; [reflexivity|].
  destruct (bytes_eqb k' k0) eqn:E0; cbn [lookup].
  - apply bytes_eqb_eq in E0. subst k0. destruct (bytes_eqb k k'); reflexivity.
  - rewrite IH. destruct (bytes_eqb k k0) eqn:E1; [|reflexivity].
    destruct (bytes_eqb k k') eqn:E2; [|reflexivity].
    apply bytes_eqb_eq in E1, E2. subst. rewrite bytes_eqb_refl in E0. discriminate.
Qed.

(* the last file listed for an infohash *)
Definition last_file (ih : bytes) (fs : list sfile) : option sfile :=
  fold_left (fun o f => if bytes_eqb ih (f_ih f) then Some f else o) fs None.

Lemma lookup_files_gen ih fs : forall d o,
  lookup ih d = option_map file_dict o ->
  lookup ih (fold_left (fun d f => dict_put (f_ih f) (file_dict f) d) fs d) =
  option_map file_dict (fold_left (fun o f => if bytes_eqb ih (f_ih f) then Some f else o) fs o).
Proof.
  induction fs as [|f fs IH]; intros d o H; cbn [fold_left]; [exact H|].
  apply IH. rewrite lookup_dict_put. destruct (bytes_eqb ih (f_ih f)); [reflexivity|exact H].
Qed.

Lemma lookup_files ih fs : lookup ih (files_dict fs) = option_map file_dict (last_file ih fs).
Proof. apply lookup_files_gen. reflexivity. Qed.

Lemma file_dict_read f pd :
  bequiv (file_dict f) pd = true ->
  get k_complete pd = Some (BInt (f_complete f)) /\ get k_incomplete pd = Some (BInt (f_incomplete f)).
Proof.
  intros H. unfold file_dict in H. apply bequiv_dict in H as (d' & E & _ & Hl). subst pd. cbn [get]. split.
  - destruct (Hl k_complete (BInt (f_complete f))) as (x' & Hx & Hb); [cbn [In]; auto 10|].
    apply bequiv_int in Hb. subst x'. exact Hx.
  - destruct (Hl k_incomplete (BInt (f_incomplete f))) as (x' & Hx & Hb); [cbn [In]; auto 10|].
    apply bequiv_int in Hb. subst x'. exact Hx.
Qed.

(* the "files" dictionary is keyed by the raw infohash; for a repeated
   infohash the last entry wins; nothing else is in it *)
Lemma scrape_body_decodes fs v' fuel :
  same_value (scrape_value fs) v' = true -> (length (bencode v') <= fuel)%nat ->
  bdecode fuel (bencode v') = Ok v' [] /\
  exists fd, get k_files v' = Some (BDict fd) /\
    forall ih, match last_file ih fs with
               | Some f => exists pd, lookup ih fd = Some pd /\
                                      get k_complete pd = Some (BInt (f_complete f)) /\
                                      get k_incomplete pd = Some (BInt (f_incomplete f))
               | None => lookup ih fd = None
               end.
Proof.
  intros Hs Hf. split; [eapply single_value; eauto|].
  pose proof Hs as Hs'. unfold same_value in Hs'. apply andb_true_iff in Hs' as [Hs' _].
  apply andb_true_iff in Hs' as [_ Hrev].
  unfold scrape_value in Hs. apply same_value_dict in Hs as (d' & E & _ & Hl & _). subst v'. cbn [get].
  destruct (Hl k_files (BDict (files_dict fs)) (or_introl eq_refl)) as (x' & Hx & Hb).
  destruct (bequiv_dict _ _ Hb) as (fd & E & _ & Hfl). subst x'. exists fd. split; [exact Hx|].
  (* the reverse direction, for absent infohashes *)
  apply lookup_In in Hx. unfold scrape_value in Hrev.
  apply bequiv_dict in Hrev as (d0 & E0 & _ & Hr). inversion E0; subst d0. clear E0.
  destruct (Hr k_files (BDict fd) Hx) as (y & Hy & Hby).
  cbn [lookup] in Hy. rewrite bytes_eqb_refl in Hy. inversion Hy; subst y. clear Hy.
  intros ih. pose proof (lookup_files ih fs) as L. destruct (last_file ih fs) as [f|]; cbn [option_map] in L.
  - apply lookup_In in L. destruct (Hfl ih (file_dict f) L) as (pd & Hpd & Hbp).
    exists pd. split; [exact Hpd|]. apply file_dict_read, Hbp.
  - eapply same_dict_absent; eauto.
Qed.

(* ------------------------------------------------------------ compact peer strings *)

Lemma firstn_len_app {A} (a X : list A) : firstn (length a) (a ++ X) = a.
Proof. induction a as [|x a IH]; cbn; [destruct X; reflexivity|congruence]. Qed.
Lemma skipn_len_app {A} (a X : list A) : skipn (length a) (a ++ X) = X.
Proof. induction a as [|x a IH]; cbn; auto. Qed.

Lemma to4_length ip ip4 : to4 ip = Some ip4 -> length ip4 = 4%nat.
Proof.
  unfold to4. destruct (Nat.eqb_spec (length ip) 4).
  - intros H; inversion H; subst; assumption.
  - destruct (Nat.eqb_spec (length ip) 16); cbn [andb]; [|discriminate].
    destruct (bytes_eqb (firstn 12 ip) v4_in_v6_prefix); [|discriminate].
    assert (L : length (skipn 12 ip) = 4%nat) by (rewrite skipn_length; lia).
    intros H. injection H as <-. exact L.
Qed.
Lemma to16_length ip ip6 : to16 ip = Some ip6 -> length ip6 = 16%nat.
Proof.
  unfold to16. destruct (Nat.eqb_spec (length ip) 4).
  - assert (L : length (v4_in_v6_prefix ++ ip) = 16%nat) by (rewrite app_length; cbn [length v4_in_v6_prefix]; lia).
    intros H. injection H as <-. exact L.
  - destruct (Nat.eqb_spec (length ip) 16); [|discriminate]. intros H; inversion H; subst; assumption.
Qed.

Lemma decode_compact_entry n a port rest fuel :
  length a = n -> 0 <= port < 65536 ->
  decode_compact n (S fuel) (a ++ be_enc 2 port ++ rest) = (a, port) :: decode_compact n fuel rest.
Proof.
  intros Ha Hp. subst n. cbn [decode_compact].
  destruct (a ++ be_enc 2 port ++ rest) as [|b0 s0] eqn:E.
  { apply (f_equal (@length Z)) in E. rewrite !app_length, be_enc_length in E. cbn [length] in E. lia. }
  rewrite <- E. clear E.
  rewrite firstn_len_app, skipn_len_app.
  replace (firstn 2 (be_enc 2 port ++ rest)) with (be_enc 2 port)
    by (rewrite <- (be_enc_length 2 port) at 2; symmetry; apply firstn_len_app).
  rewrite be_dec_enc. change (256 ^ Z.of_nat 2) with 65536. rewrite Z.mod_small by lia.
  f_equal. f_equal. rewrite app_assoc.
  replace (length a + 2)%nat with (length (a ++ be_enc 2 port)) by (rewrite app_length, be_enc_length; reflexivity).
  apply skipn_len_app.
Qed.

Lemma compact_decodes (cf : peer -> option bytes) (ep : peer -> bytes * Z) n :
  (forall p c, peer_wf p = true -> cf p = Some c -> exists a, c = a ++ be_enc 2 (p_port p) /\ length a = n /\ ep p = (a, p_port p)) ->
  forall ps c, forallb peer_wf ps = true -> compact_all cf ps = Some c ->
  (length ps <= length c)%nat /\
  forall fuel, (length ps <= fuel)%nat -> decode_compact n fuel c = map ep ps.
Proof.
  intros Hcf. induction ps as [|p ps IH]; intros c Hw Hc.
  - cbn in Hc. inversion Hc; subst. split; [cbn; lia|]. intros [|f] _; reflexivity.
  - cbn [compact_all] in Hc. cbn [forallb] in Hw. apply andb_true_iff in Hw as [Hp Hw].
    destruct (cf p) as [cp|] eqn:E1; [|discriminate].
    destruct (compact_all cf ps) as [c'|] eqn:E2; [|discriminate]. inversion Hc; subst c. clear Hc.
    destruct (Hcf p cp Hp E1) as (a & Ea & La & Eep). subst cp.
    destruct (IH c' Hw eq_refl) as [I1 I2].
    split; [rewrite !app_length, be_enc_length; cbn [length]; lia|].
    intros [|fuel] Hfu; [cbn [length] in Hfu; lia|].
    rewrite <- app_assoc. rewrite decode_compact_entry.
    + cbn [map]. rewrite Eep. f_equal. apply I2. cbn [length] in Hfu. lia.
    + exact La.
    + unfold peer_wf in Hp. lia.
Qed.

(* a client that cuts "peers" into 6-byte and "peers6" into 18-byte entries
   gets exactly the peers' addresses and ports, in order *)
Lemma compact4_decodes ps c fuel :
  forallb peer_wf ps = true -> compact_all compact4 ps = Some c -> (length c <= fuel)%nat ->
  decode_compact 4 fuel c = map endpoint4 ps.
Proof.
  intros Hw Hc Hf.
  destruct (compact_decodes compact4 endpoint4 4) with (ps := ps) (c := c) as [L D]; auto.
  - intros p cp _ H. unfold compact4 in H. unfold endpoint4. destruct (to4 (p_ip p)) as [ip4|] eqn:E; [|discriminate].
    inversion H; subst. exists ip4. split; [reflexivity|]. split; [eapply to4_length; eauto|reflexivity].
  - apply D. lia.
Qed.
Lemma compact6_decodes ps c fuel :
  forallb peer_wf ps = true -> compact_all compact6 ps = Some c -> (length c <= fuel)%nat ->
  decode_compact 16 fuel c = map endpoint6 ps.
Proof.
  intros Hw Hc Hf.
  destruct (compact_decodes compact6 endpoint6 16) with (ps := ps) (c := c) as [L D]; auto.
  - intros p cp _ H. unfold compact6 in H. unfold endpoint6. destruct (to16 (p_ip p)) as [ip6|] eqn:E; [|discriminate].
    inversion H; subst. exists ip6. split; [reflexivity|]. split; [eapply to16_length; eauto|reflexivity].
  - apply D. lia.
Qed.

(* ------------------------------------------------------------ the hypotheses are satisfiable *)

Example announce_example :
  let p4 := {| p_id := repeat 255 20; p_ip := [10; 0; 0; 1]; p_port := 6881 |} in
  let p6 := {| p_id := repeat 0 20; p_ip := [32; 1; 13; 184; 0; 0; 0; 0; 0; 0; 0; 0; 0; 0; 0; 1]; p_port := 80 |} in
  let r c := {| a_compact := c; a_complete := 2 ^ 32 - 1; a_incomplete := 0; a_interval := 1800 * 10 ^ 9 + 5;
                a_min_interval := - 1500000000; a_v4 := [p4]; a_v6 := [p6] |} in
  resp_wf (r true) = true /\
  (exists v, announce_value (r true) = Some v /\ same_value v v = true) /\
  (exists v, announce_value (r false) = Some v /\ same_value v v = true /\
             get k_peers v = Some (BList [peer_dict p4; peer_dict p6]) /\
             get k_ip (peer_dict p6) = Some (BStr (s2b "2001:db8::1"))) /\
  same_value (scrape_value [{| f_ih := repeat 7 20; f_complete := 1; f_incomplete := 2 |}])
             (scrape_value [{| f_ih := repeat 7 20; f_complete := 1; f_incomplete := 2 |}]) = true /\
  same_value (error_value InternalErr) (error_value InternalErr) = true.
Proof.
  cbv zeta. split; [vm_compute; reflexivity|].
  split; [eexists; split; [reflexivity|vm_compute; reflexivity]|].
  split; [eexists; split; [reflexivity|]; split; [vm_compute; reflexivity|]; split; vm_compute; reflexivity|].
  split; vm_compute; reflexivity.
Qed.
