//go:build verif && shim_timecache

package timecache

import "sync/atomic"

var verifPinned bool

// VerifPin replaces the global TimeCache by one that is never run (first
// call; must happen before any concurrent use) and sets the cached clock.
func VerifPin(ns int64) {
	if !verifPinned {
		t = New()
		verifPinned = true
	}
	atomic.StoreInt64(&t.clock, ns)
}
