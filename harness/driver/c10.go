//go:build verif && verif_c10

package main

import (
	"encoding/binary"
	"fmt"
	"math/rand"
	"net"
	"os"
	"time"

	"github.com/chihaya/chihaya/frontend/udp"
	"github.com/chihaya/chihaya/pkg/timecache"
)

func init() {
	props["C10"] = &propDef{glue: "G10", ctype: "case10", chk: "chk10", stream: c10Stream, replay: c10Replay, shard: 400}
}

// ---- function level

func c10Valid(o *Out, kind string, key, id, ip []byte, now, skew int64) {
	in := map[string]interface{}{"t": "valid", "key": hx(key), "id": hx(id), "ip": hx(ip), "now": fmt.Sprint(now), "skew": fmt.Sprint(skew)}
	obs := int64(0)
	func() {
		defer func() {
			if recover() != nil {
				obs = 2
			}
		}()
		idc := make([]byte, len(id)) // exact capacity: id[:4] on a shorter slice must panic as in the model
		copy(idc, id)
		if udp.ValidConnectionID(idc, net.IP(append([]byte{}, ip...)), time.Unix(0, now), time.Duration(skew), string(key)) {
			obs = 1
		}
	}()
	var pre []byte
	if len(id) >= 4 {
		pre = id[:4]
	}
	macs := c10Macs([]macEntry{{key, cat(pre, ip)}})
	o.add(Case{Coq: fmt.Sprintf("CValid %s %s %s %s %s %s %s", cB(key), cB(id), cB(ip), cZ(now), cZ(skew), macs, cZ(obs)),
		In: in, Kind: kind, Obs: map[string]interface{}{"verdict": obs}})
}

func c10Gen(o *Out, kind string, key, ip []byte, now int64) []byte {
	in := map[string]interface{}{"t": "gen", "key": hx(key), "ip": hx(ip), "now": fmt.Sprint(now)}
	id := append([]byte{}, udp.NewConnectionID(net.IP(append([]byte{}, ip...)), time.Unix(0, now), string(key))...)
	macs := c10Macs([]macEntry{{key, cat(ts4(now), ip)}})
	o.add(Case{Coq: fmt.Sprintf("CGen %s %s %s %s %s", cB(key), cB(ip), cZ(now), macs, cB(id)),
		In: in, Kind: kind, Obs: map[string]interface{}{"id": hx(id)}})
	return id
}

// ---- dispatcher level

// c10Disp runs one datagram through handleRequest and records what came back.
func c10Disp(o *Out, kind, inst string, key []byte, skew, now int64, ip, packet []byte, bodyOK bool) [][]byte {
	in := map[string]interface{}{"t": "disp", "inst": inst, "key": hx(key), "skew": fmt.Sprint(skew), "now": fmt.Sprint(now),
		"ip": hx(ip), "packet": hx(packet), "body_ok": bodyOK}
	fr := c10Frontend(inst, key, skew)
	if len(key) == 0 {
		// no key configured: the tracker must use the key its validated configuration reports
		key = []byte(fr.f.PrivateKey)
	}
	timecache.VerifPin(now)
	fr.spy.mu.Lock()
	fr.spy.handles = 0
	fr.spy.mu.Unlock()
	dgrams, _, pv, err := udp.VerifHandle(fr.f, append([]byte{}, packet...), net.IP(append([]byte{}, ip...)))
	if err != nil {
		fmt.Fprintln(os.Stderr, "shim_udp failed:", err)
		os.Exit(3)
	}
	fr.spy.mu.Lock()
	calls := fr.spy.handles
	fr.spy.mu.Unlock()
	// the asynchronous After* call belongs to this request: wait for it so that
	// it cannot be attributed to the next one
	for i := 0; i < calls && pv == nil; i++ {
		select {
		case <-fr.spy.afters:
		case <-time.After(2 * time.Second):
		}
	}
	es := []macEntry{{key, cat(ts4(now), ip)}}
	if len(packet) >= 4 {
		es = append(es, macEntry{key, cat(packet[:4], ip)})
	}
	var ds, dj []string
	for _, d := range dgrams {
		ds = append(ds, cB(d))
		dj = append(dj, hx(d))
		if len(d) == 16 {
			es = append(es, macEntry{key, cat(d[8:12], ip)})
		}
	}
	o.add(Case{Coq: fmt.Sprintf("CDisp %s %s %s %s %s %s %s %s %s %s", cB(key), cZ(skew), cZ(now), cB(ip), cB(packet), c10Macs(es),
		cBool(bodyOK), cList(ds), cBool(pv != nil), cZ(int64(calls))),
		In: in, Kind: kind, Obs: map[string]interface{}{"datagrams": dj, "panicked": pv != nil, "calls": calls}})
	return dgrams
}

func c10Replay(o *Out, in map[string]interface{}) error {
	switch jStr(in["t"]) {
	case "valid":
		c10Valid(o, "replay", unhx(in["key"]), unhx(in["id"]), unhx(in["ip"]), jInt(in["now"]), jInt(in["skew"]))
	case "gen":
		c10Gen(o, "replay", unhx(in["key"]), unhx(in["ip"]), jInt(in["now"]))
	case "disp":
		c10Disp(o, "replay", jStr(in["inst"]), unhx(in["key"]), jInt(in["skew"]), jInt(in["now"]), unhx(in["ip"]), unhx(in["packet"]), jBool(in["body_ok"]))
	default:
		return fmt.Errorf("unknown case type")
	}
	return nil
}

// ---- packets

func c10Announce(rng *rand.Rand, connID []byte, action uint32, v6 bool) []byte {
	n := 98
	if v6 {
		n = 110
	}
	p := make([]byte, n)
	rng.Read(p)
	copy(p[0:8], connID)
	binary.BigEndian.PutUint32(p[8:12], action)
	binary.BigEndian.PutUint32(p[80:84], uint32(rng.Intn(4)))
	binary.BigEndian.PutUint16(p[n-2:], uint16(rng.Intn(65535)+1))
	return p
}

func c10Scrape(rng *rand.Rand, connID []byte, k int) []byte {
	p := make([]byte, 16+20*k)
	rng.Read(p)
	copy(p[0:8], connID)
	binary.BigEndian.PutUint32(p[8:12], 2)
	return p
}

func c10Stream(o *Out, rng *rand.Rand, n int) {
	keys := [][]byte{[]byte("k"), []byte("7fPpbXx3gzmrsmVXA5WT4lDCOtTCnEXpvQLjXa9GFeGL1sPoN2yVtTtKiUmaBlOb"), {0, 255, 1, 2}, []byte("another key")}
	ips := [][]byte{{127, 0, 0, 1}, {10, 1, 2, 3}, {0, 0, 0, 0}, {255, 255, 255, 255},
		net.ParseIP("2001:db8::1"), net.ParseIP("::1"), net.ParseIP("fe80::dead:beef"), net.ParseIP("::ffff:10.1.2.3")}
	skews := []int64{0, 1 * sec, 10 * sec, 120 * sec, 3*sec + 500000000, -1 * sec, 1}
	randKey := func() []byte {
		if rng.Intn(3) > 0 {
			return keys[rng.Intn(len(keys))]
		}
		k := make([]byte, rng.Intn(80)+1)
		rng.Read(k)
		return k
	}
	randIP := func() []byte {
		if rng.Intn(3) > 0 {
			return ips[rng.Intn(len(ips))]
		}
		b := make([]byte, []int{4, 16}[rng.Intn(2)])
		rng.Read(b)
		if len(b) == 16 && rng.Intn(4) == 0 {
			copy(b, []byte{0, 0, 0, 0, 0, 0, 0, 0, 0, 0, 255, 255})
		}
		return b
	}
	otherIPs := func(ip []byte) [][]byte {
		r := [][]byte{}
		if len(ip) == 4 {
			r = append(r, cat([]byte{0, 0, 0, 0, 0, 0, 0, 0, 0, 0, 255, 255}, ip)) // the IPv4-mapped form of the same address
		} else if len(ip) == 16 {
			r = append(r, ip[12:]) // low four bytes as an IPv4 address
		}
		x := append([]byte{}, ip...)
		x[len(x)-1] ^= 1
		r = append(r, x)
		y := append([]byte{}, ip...)
		y[0] ^= 0x80
		r = append(r, y, []byte{}, randIP(), ip[:len(ip)-1])
		return r
	}
	randT0 := func() int64 {
		switch rng.Intn(5) {
		case 0:
			return (int64(rng.Intn(1<<30)) + 1000) * sec // whole second
		case 1:
			return (1<<32-1)*sec + int64(rng.Intn(int(sec))) // the last representable second
		default:
			return (int64(rng.Intn(1<<31))+1000)*sec + int64(rng.Intn(int(sec)))
		}
	}

	// ---- A. NewConnectionID / ValidConnectionID
	bases := n/400 + 3
	for b := 0; b < bases; b++ {
		key, ip, t0 := randKey(), randIP(), randT0()
		if b < len(keys) {
			key, ip = keys[b], ips[(b*3)%len(ips)]
		}
		id := c10Gen(o, "issue", key, ip, t0)
		// window edges
		for _, skew := range skews {
			ds := []int64{-1, 0, 1, 60, 119, 120, 121, 122}
			for d := int64(-2); d <= 2; d++ {
				ds = append(ds, -skew/sec+d)
			}
			for _, d := range ds {
				for _, e := range []int64{-1, 0, 1} {
					// offsets from the issue instant and from the embedded whole second
					c10Valid(o, "window-edge", key, id, ip, t0+d*sec+e, skew)
					c10Valid(o, "window-edge", key, id, ip, t0/sec*sec+d*sec-skew%sec+e, skew)
				}
			}
		}
		// every single-bit flip
		for bit := 0; bit < 64; bit++ {
			f := append([]byte{}, id...)
			f[bit/8] ^= 1 << uint(bit%8)
			c10Valid(o, "bit-flip", key, f, ip, t0+int64(rng.Intn(100))*sec, 10*sec)
		}
		// replay from another address (both families, IPv4-mapped form), with another key
		for _, ip2 := range otherIPs(ip) {
			c10Valid(o, "other-ip", key, id, ip2, t0+5*sec, 10*sec)
		}
		for _, k2 := range [][]byte{randKey(), cat(key, []byte{0}), key[:len(key)-1], {}} {
			if string(k2) != string(key) {
				c10Valid(o, "other-key", k2, id, ip, t0+5*sec, 10*sec)
			}
		}
		c10Valid(o, "issued", key, id, ip, t0+int64(rng.Intn(120))*sec, skews[rng.Intn(len(skews)-2)])
		// truncated / extended / random IDs
		for l := 0; l <= 9; l++ {
			x := cat(id, []byte{7})[:l]
			c10Valid(o, "id-length", key, x, ip, t0+sec, 10*sec)
		}
		r := make([]byte, 8)
		rng.Read(r)
		c10Valid(o, "random-id", key, r, ip, int64(binary.BigEndian.Uint32(r[:4]))*sec+int64(rng.Intn(100))*sec, 0)
	}
	// year 2106: uint32(now.Unix()) wraps
	for i := 0; i < 6; i++ {
		key, ip := randKey(), randIP()
		t0 := (int64(1)<<32+int64(rng.Intn(1000)))*sec + int64(rng.Intn(int(sec)))
		id := c10Gen(o, "wrap-2106", key, ip, t0)
		c10Valid(o, "wrap-2106", key, id, ip, t0, 0)
		c10Valid(o, "wrap-2106", key, id, ip, t0+sec, 10*sec)
		c10Valid(o, "wrap-2106", key, id, ip, t0-(int64(1)<<32)*sec+sec, 0)
		t1 := (int64(1)<<32-1)*sec - int64(rng.Intn(100))*sec
		id1 := c10Gen(o, "wrap-2106", key, ip, t1)
		c10Valid(o, "wrap-2106", key, id1, ip, (int64(1)<<32)*sec+5*sec, 0)
		c10Valid(o, "wrap-2106", key, id1, ip, t1+120*sec, 0)
		c10Valid(o, "wrap-2106", key, id1, ip, t1+121*sec, 0)
	}

	// ---- B. handleRequest on offline frontends with a spy logic
	magic := []byte{0, 0, 0x04, 0x17, 0x27, 0x10, 0x19, 0x80}
	dispIPs := [][]byte{{127, 0, 0, 1}, {10, 1, 2, 3}, net.ParseIP("2001:db8::1"), net.ParseIP("fe80::dead:beef"), {192, 168, 7, 9}}
	connect := func(inst string, key []byte, skew, now int64, ip []byte, kind string) []byte {
		p := make([]byte, 16)
		copy(p, magic)
		rng.Read(p[12:16])
		ds := c10Disp(o, kind, inst, key, skew, now, ip, p, false)
		if len(ds) == 1 && len(ds[0]) == 16 {
			return ds[0][8:16]
		}
		return make([]byte, 8)
	}
	body := func(action uint32, id []byte) ([]byte, bool) {
		switch action {
		case 1:
			return c10Announce(rng, id, 1, false), true
		case 4:
			return c10Announce(rng, id, 4, true), true
		case 2:
			return c10Scrape(rng, id, rng.Intn(5)+1), true
		}
		p := make([]byte, 16+rng.Intn(120))
		rng.Read(p)
		copy(p, id)
		binary.BigEndian.PutUint32(p[8:12], action)
		return p, false
	}
	// every action code, with a valid and with an invalid ID
	for _, act := range []uint32{0, 1, 2, 3, 4, 5, 6, 7, 255, 256, 1 << 24, 1<<32 - 1, 0x01000000, 0x00000104} {
		key, skew, ip := keys[1], 10*sec, dispIPs[int(act)%len(dispIPs)]
		now := randT0()
		id := connect("A", key, skew, now, ip, "connect")
		p, ok := body(act, id)
		c10Disp(o, "action-valid-id", "A", key, skew, now+sec, ip, p, ok)
		bad := append([]byte{}, id...)
		bad[4+rng.Intn(4)] ^= byte(1 << uint(rng.Intn(8)))
		p, _ = body(act, bad)
		c10Disp(o, "action-forged-id", "A", key, skew, now+sec, ip, p, false)
		p, _ = body(act, magic)
		c10Disp(o, "action-magic-id", "A", key, skew, now+sec, ip, p, false)
	}
	// short packets: nothing comes back
	for l := 0; l < 16; l++ {
		p := make([]byte, l)
		rng.Read(p)
		c10Disp(o, "short", "A", keys[0], 0, randT0(), dispIPs[l%len(dispIPs)], p, false)
		copy(p, magic)
		c10Disp(o, "short", "A", keys[0], 0, randT0(), dispIPs[l%len(dispIPs)], p, false)
	}
	// connect from a source that is neither IPv4 nor IPv6 (the explicit panic)
	for _, ip := range [][]byte{{1, 2, 3, 4, 5}, {}} {
		p := make([]byte, 16)
		copy(p, magic)
		c10Disp(o, "connect-bad-ip", "A", keys[0], 0, randT0(), ip, p, false)
	}
	acts := []uint32{1, 2, 4}
	for i := 0; i < n; i++ {
		key := keys[rng.Intn(2)]
		skew := skews[rng.Intn(len(skews))]
		ip := dispIPs[rng.Intn(len(dispIPs))]
		t0 := randT0()
		act := acts[rng.Intn(3)]
		switch i % 8 {
		case 0: // connect on one frontend, use on another one with the same key
			id := connect("A", key, skew, t0, ip, "connect")
			p, ok := body(act, id)
			c10Disp(o, "two-frontends", "B", key, skew, t0+int64(rng.Intn(120))*sec, ip, p, ok)
		case 1: // the same, but the second frontend has another key
			id := connect("A", key, skew, t0, ip, "connect")
			p, _ := body(act, id)
			c10Disp(o, "other-key-frontend", "C", keys[2+rng.Intn(2)], skew, t0+sec, ip, p, false)
		case 2: // replay from another address
			id := connect("A", key, skew, t0, ip, "connect")
			ip2 := dispIPs[rng.Intn(len(dispIPs))]
			p, ok := body(act, id)
			c10Disp(o, "other-ip-frontend", "A", key, skew, t0+sec, ip2, p, ok)
		case 3: // around the expiry and post-dating edges
			id := connect("A", key, skew, t0, ip, "connect")
			d := []int64{119, 120, 121, 122, -1, 0, -skew/sec - 1, -skew / sec, -skew/sec + 1}[rng.Intn(9)]
			e := int64(rng.Intn(3) - 1)
			now := t0/sec*sec + d*sec + e
			if rng.Intn(2) == 0 {
				now = t0 + d*sec + e
			}
			p, ok := body(act, id)
			c10Disp(o, "expiry-frontend", "A", key, skew, now, ip, p, ok)
		case 4: // bit flip anywhere in the ID
			id := connect("A", key, skew, t0, ip, "connect")
			bit := rng.Intn(64)
			id[bit/8] ^= 1 << uint(bit%8)
			p, _ := body(act, id)
			c10Disp(o, "bit-flip-frontend", "A", key, skew, t0+sec, ip, p, false)
		case 5: // valid ID, arbitrary action and body
			id := connect("A", key, skew, t0, ip, "connect")
			a := uint32(rng.Intn(7))
			if a == 0 || rng.Intn(4) == 0 {
				a = rng.Uint32() | 1
			}
			p := make([]byte, 16+rng.Intn(150))
			rng.Read(p)
			copy(p, id)
			binary.BigEndian.PutUint32(p[8:12], a)
			if a == 2 && (len(p)-16)%20 == 0 && len(p) >= 36 && rng.Intn(2) == 0 {
				p = p[:len(p)-1]
			}
			c10Disp(o, "valid-id-random-body", "A", key, skew, t0+sec, ip, p, false)
		case 6: // connect without the magic
			p := make([]byte, 16+rng.Intn(20))
			rng.Read(p)
			if rng.Intn(2) == 0 {
				copy(p, magic)
				p[rng.Intn(8)] ^= byte(1 << uint(rng.Intn(8)))
			}
			binary.BigEndian.PutUint32(p[8:12], 0)
			c10Disp(o, "connect-no-magic", "A", key, skew, t0, ip, p, false)
		default: // random ID
			id := make([]byte, 8)
			rng.Read(id)
			if rng.Intn(2) == 0 {
				copy(id, ts4(t0))
			}
			p, _ := body(act, id)
			c10Disp(o, "random-id-frontend", "A", key, skew, t0+sec, ip, p, false)
		}
	}
	// ---- C. sequences on ONE frontend (pooled generator state carried from one datagram to the next): IDs spliced
	// from the timestamp half of one issued ID and the MAC half of another must never validate, and two live IDs
	// of one address must both stay valid, whatever was generated or validated just before
	for i := 0; i < n/8+6; i++ {
		key, skew := keys[rng.Intn(2)], skews[rng.Intn(len(skews))]
		if i%5 == 4 {
			key = nil // udp.private_key unset: IDs are issued and checked under the generated key
		}
		ipA, ipB := dispIPs[rng.Intn(len(dispIPs))], dispIPs[rng.Intn(len(dispIPs))]
		t0 := randT0()
		t1 := t0 + int64(1+rng.Intn(100))*sec
		act := acts[rng.Intn(3)]
		idB0 := connect("A", key, skew, t0, ipB, "seq-connect")
		idA1 := connect("A", key, skew, t1, ipA, "seq-connect")
		idB1 := connect("A", key, skew, t1, ipB, "seq-connect")
		splice := func(tsOf, macOf []byte) []byte { return cat(tsOf[:4], macOf[4:8]) }
		type step struct {
			ip []byte
			id []byte
		}
		var seqs [][]step
		switch i % 4 {
		case 0: // connect(A,t1) ; B's genuine older ID ; B presents ts(t1)+mac(t0)
			seqs = [][]step{{{ipA, nil}, {ipB, idB0}, {ipB, splice(idA1, idB0)}}}
		case 1: // B's older then newer genuine ID, then the older again
			seqs = [][]step{{{ipB, idB0}, {ipB, idB1}, {ipB, idB0}}}
		case 2: // validate for A, then B replays A's ID, then A's timestamp with B's MAC
			seqs = [][]step{{{ipA, idA1}, {ipB, idA1}, {ipB, splice(idA1, idB1)}, {ipA, splice(idB0, idA1)}}}
		default: // a failed validation, then the genuine one, then the splice the other way round
			seqs = [][]step{{{ipB, splice(idB1, idB0)}, {ipB, idB1}, {ipB, splice(idB0, idB1)}, {ipB, idB0}}}
		}
		if key == nil {
			// an ID anybody can compute offline: the MAC under the EMPTY key
			forged := cat(ts4(t1), c10Mac(nil, cat(ts4(t1), ipB))[:4])
			seqs = append(seqs, []step{{ipB, forged}})
		}
		for _, sq := range seqs {
			for _, st := range sq {
				if st.id == nil {
					connect("A", key, skew, t1, st.ip, "seq-connect")
					continue
				}
				p, ok := body(act, st.id)
				c10Disp(o, "seq-spliced-ids", "A", key, skew, t1+int64(rng.Intn(int(sec))), st.ip, p, ok)
			}
		}
	}
	o.notes["mac_oracle"] = "crypto/hmac + crypto/sha256 (standard library); the tracker itself uses minio/sha256-simd"
}
