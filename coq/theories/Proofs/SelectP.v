(* Lemmas about peer selection (Model/Select.v). *)
From Chihaya Require Import Model.Select.
From Coq Require Import ZifyBool ZifyNat.
Open Scope Z_scope.

Lemma ztake_length {A} n (l : list A) : 0 <= n -> zlen (ztake n l) = Z.min n (zlen l).
Proof. intros Hn. unfold zlen, ztake. rewrite firstn_length. lia. Qed.

(* at most numwant peers, whatever the swarm and the iteration order *)
Lemma select_ref_size S L ann seeder nw :
  0 <= nw -> sel_size_ok nw (select_ref S L ann seeder nw) = true.
Proof.
  intros Hn. unfold sel_size_ok, select_ref. destruct seeder.
  - rewrite ztake_length by lia. lia.
  - unfold zlen at 1. rewrite app_length, Nat2Z.inj_add. fold (zlen (ztake nw S)).
    fold (zlen (ztake (nw - zlen (ztake nw S)) (kremove ann L))).
    rewrite (ztake_length nw S) by lia.
    rewrite ztake_length by lia. lia.
Qed.
