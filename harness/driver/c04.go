//go:build verif && verif_conc

package main

// Schedule-forced concurrency: the lock-delimited steps of the memory store (through a rewritten
// mutex, see harness/overlay/storage/memory/zz_verif_sched.go) and the round-trips of the Redis
// store (through wrapped connections, zz_verif_conc.go) of concurrently issued operations are
// interleaved by a cooperative scheduler; schedules are enumerated depth-first (stateless,
// re-executing from a fresh store) up to a bound and sampled beyond it.

import (
	"context"
	"encoding/binary"
	"errors"
	"fmt"
	"math/rand"
	"net"
	"os"
	"runtime"
	"sort"
	"strconv"
	"strings"
	"time"

	"github.com/alicebob/miniredis"
	dto "github.com/prometheus/client_model/go"

	"github.com/chihaya/chihaya/bittorrent"
	"github.com/chihaya/chihaya/middleware"
	"github.com/chihaya/chihaya/pkg/timecache"
	"github.com/chihaya/chihaya/storage"
	"github.com/chihaya/chihaya/storage/memory"
	redisstore "github.com/chihaya/chihaya/storage/redis"
)

func init() {
	d := &propDef{glue: "G04", ctype: "ccase", chk: "chk04", stream: concStream, replay: concReplay, shard: 150,
		prelude: "From Chihaya Require Import Model.Tracker.\nOpen Scope Z_scope."}
	props["C04"], props["CONC"] = d, d
}

// ---- cooperative scheduler

type coThr struct {
	id      int
	gid     string // goroutine the thread body runs on
	resume  chan struct{}
	enabled func() bool
	done    bool
}

type coSched struct {
	thr     []*coThr
	cur     *coThr
	yielded chan struct{}
	prefix  []int
	branch  []int
	picks   []int
	rng     *rand.Rand // non-nil: random choices after the prefix
	// context-bounded mode (used when prefix and rng are empty): keep running the last thread while it is
	// enabled, except at the global step numbers in preempt, where the scheduler switches to the
	// preempt[step]-th next enabled thread; start = thread to begin with
	cb      bool
	start   int
	preempt map[int]int
	last    *coThr
	onStep  func()
	steps   int
}

// curGID returns the running goroutine's id ("goroutine 17 [running]:" -> "17").
func curGID() string {
	var b [64]byte
	f := strings.Fields(string(b[:runtime.Stack(b[:], false)]))
	if len(f) >= 2 {
		return f[1]
	}
	return "?"
}

func (s *coSched) yield(enabled func() bool) {
	t := s.cur
	if g := curGID(); t == nil || g != t.gid {
		// a lock operation on a goroutine the implementation started itself: the cooperative scheduler cannot
		// place it in a schedule.  Not a verdict about the property - the schedule-forced tie is lost.
		fmt.Fprintln(os.Stderr, "VERIF-SCHED-LOST: the store performs lock operations on goroutines it starts itself; the cooperative scheduler controls only the calling threads")
		os.Exit(4)
	}
	t.enabled = enabled
	s.yielded <- struct{}{}
	<-t.resume
}

// run executes the thread bodies under the scheduler; returns false on deadlock / runaway.
func (s *coSched) run(bodies []func()) bool {
	s.yielded = make(chan struct{})
	for i, b := range bodies {
		t := &coThr{id: i, resume: make(chan struct{})}
		s.thr = append(s.thr, t)
		b := b
		go func() {
			t.gid = curGID()
			<-t.resume
			b()
			t.done = true
			s.yielded <- struct{}{}
		}()
	}
	for {
		var en []*coThr
		alive := 0
		for _, t := range s.thr {
			if t.done {
				continue
			}
			alive++
			if t.enabled == nil || t.enabled() {
				en = append(en, t)
			}
		}
		if alive == 0 {
			return true
		}
		if len(en) == 0 || s.steps > 5000 {
			return false
		}
		k := 0
		if len(s.picks) < len(s.prefix) {
			k = s.prefix[len(s.picks)]
			if k >= len(en) {
				k = len(en) - 1
			}
		} else if s.rng != nil {
			k = s.rng.Intn(len(en))
		} else if s.cb {
			pos := -1
			for i, t := range en {
				if t == s.last {
					pos = i
				}
			}
			off, pre := s.preempt[s.steps]
			switch {
			case s.last == nil:
				k = s.start % len(en)
			case pos >= 0 && !pre:
				k = pos
			case pos >= 0:
				k = (pos + off) % len(en)
			default: // the last thread finished or is blocked: next enabled thread after it, in id order
				k = 0
				for i, t := range en {
					if t.id > s.last.id {
						k = i
						break
					}
				}
				if pre {
					k = (k + off - 1 + len(en)) % len(en)
				}
			}
		}
		s.branch = append(s.branch, len(en))
		s.picks = append(s.picks, k)
		s.steps++
		s.cur = en[k]
		s.last = en[k]
		en[k].resume <- struct{}{}
		<-s.yielded
		if s.onStep != nil {
			s.onStep()
		}
	}
}

// nextPrefix returns the next DFS prefix after a run, or nil when the space is exhausted.
func nextPrefix(picks, branch []int) []int {
	for i := len(picks) - 1; i >= 0; i-- {
		if picks[i]+1 < branch[i] {
			np := append([]int{}, picks[:i]...)
			return append(np, picks[i]+1)
		}
	}
	return nil
}

// ---- scenarios

type cOp struct {
	T      string `json:"t"` // puts putl dels dell grad scrape peers ann gc
	IH     string `json:"ih,omitempty"`
	V6     bool   `json:"v6,omitempty"`
	PID    string `json:"pid,omitempty"`
	IP     string `json:"ip,omitempty"`
	Port   int    `json:"port,omitempty"`
	Left   uint64 `json:"left,omitempty"`
	Ev     int    `json:"ev,omitempty"`
	NW     uint32 `json:"nw,omitempty"`
	Seeder bool   `json:"seeder,omitempty"`
	Cutoff int64  `json:"cutoff,omitempty"`
	Inst   int    `json:"inst,omitempty"`
}

type cSetup struct {
	Clock int64 `json:"clock"`
	Op    cOp   `json:"op"`
}

type cScenario struct {
	Name    string   `json:"scenario"`
	Kind    string   `json:"kind"` // mem | redis
	Shards  int      `json:"shards,omitempty"`
	Inst    int      `json:"instances,omitempty"`
	Setup   []cSetup `json:"setup"`
	Clock   int64    `json:"clock"`
	Threads []cOp    `json:"threads"` // one operation per thread ...
	Then    [][]cOp  `json:"then,omitempty"` // ... followed, in the same thread, by these (Then[i] after Threads[i])
}

func cPeer(op cOp) bittorrent.Peer {
	af := bittorrent.IPv4
	if op.V6 {
		af = bittorrent.IPv6
	}
	return bittorrent.Peer{ID: bittorrent.PeerIDFromBytes(unhx(op.PID)), Port: uint16(op.Port), IP: bittorrent.IP{IP: net.IP(unhx(op.IP)), AddressFamily: af}}
}
func cKey(op cOp) []byte {
	ip := unhx(op.IP)
	b := make([]byte, 22+len(ip))
	copy(b, unhx(op.PID))
	binary.BigEndian.PutUint16(b[20:22], uint16(op.Port))
	copy(b[22:], ip)
	return b
}
func cKeyOfPeer(p bittorrent.Peer) []byte {
	b := make([]byte, 22+len(p.IP.IP))
	copy(b, p.ID[:])
	binary.BigEndian.PutUint16(b[20:22], p.Port)
	copy(b[22:], p.IP.IP)
	return b
}
func cKeys(ps []bittorrent.Peer) string {
	var it []string
	for _, p := range ps {
		it = append(it, cB(cKeyOfPeer(p)))
	}
	return cList(it)
}
func cAnn(op cOp) string {
	return fmt.Sprintf("(mk_a %s %s %s %s %d %s %d %d)", cB(unhx(op.IH)), cBool(op.V6), cB(unhx(op.PID)), cB(unhx(op.IP)), op.Port, cU(op.Left), op.Ev, op.NW)
}

type concEnv struct {
	sc     cScenario
	stores []storage.PeerStore
	logics []*middleware.Logic
	mr     *miniredis.Miniredis
}

func newConcEnv(sc cScenario) *concEnv {
	e := &concEnv{sc: sc}
	huge := 1000 * time.Hour
	if sc.Kind == "mem" {
		ps, err := memory.New(memory.Config{ShardCount: sc.Shards, GarbageCollectionInterval: huge, PrometheusReportingInterval: huge, PeerLifetime: huge})
		if err != nil {
			panic(err)
		}
		e.stores = []storage.PeerStore{ps}
	} else {
		mr, err := miniredis.Run()
		if err != nil {
			panic(err)
		}
		e.mr = mr
		for i := 0; i < sc.Inst; i++ {
			ps, err := redisstore.New(redisstore.Config{RedisBroker: "redis://@" + mr.Addr() + "/0", GarbageCollectionInterval: huge, PrometheusReportingInterval: huge,
				PeerLifetime: huge, RedisReadTimeout: 30 * time.Second, RedisWriteTimeout: 30 * time.Second, RedisConnectTimeout: 30 * time.Second})
			if err != nil {
				panic(err)
			}
			redisstore.VerifHookConns(ps)
			e.stores = append(e.stores, ps)
		}
	}
	for _, ps := range e.stores {
		e.logics = append(e.logics, middleware.NewLogic(middleware.ResponseConfig{AnnounceInterval: time.Minute, MinAnnounceInterval: time.Second}, ps, nil, nil))
	}
	return e
}
func (e *concEnv) close() {
	for _, ps := range e.stores {
		<-ps.Stop()
	}
	if e.mr != nil {
		e.mr.Close()
	}
}

// execOp performs one operation and returns the Coq steps (with observations) it consisted of.
func (e *concEnv) execOp(op cOp, known map[string]bool) []string {
	ps := e.stores[op.Inst%len(e.stores)]
	ih := bittorrent.InfoHash{}
	if op.IH != "" {
		ih = bittorrent.InfoHashFromBytes(unhx(op.IH))
	}
	hd := func() string { return fmt.Sprintf("%s %s %s", cB(unhx(op.IH)), cBool(op.V6), cB(cKey(op))) }
	switch op.T {
	case "puts":
		_ = ps.PutSeeder(ih, cPeer(op))
		return []string{"KPutS " + hd()}
	case "putl":
		_ = ps.PutLeecher(ih, cPeer(op))
		return []string{"KPutL " + hd()}
	case "dels":
		err := ps.DeleteSeeder(ih, cPeer(op))
		return []string{fmt.Sprintf("KDelS %s %s", hd(), cBool(err == nil))}
	case "dell":
		err := ps.DeleteLeecher(ih, cPeer(op))
		return []string{fmt.Sprintf("KDelL %s %s", hd(), cBool(err == nil))}
	case "grad":
		_ = ps.GraduateLeecher(ih, cPeer(op))
		return []string{"KGrad " + hd()}
	case "scrape":
		af := bittorrent.IPv4
		if op.V6 {
			af = bittorrent.IPv6
		}
		s := ps.ScrapeSwarm(ih, af)
		return []string{fmt.Sprintf("KScrape %s %s (%d, %d)", cB(unhx(op.IH)), cBool(op.V6), s.Complete, s.Incomplete)}
	case "peers":
		peers, err := ps.AnnouncePeers(ih, op.Seeder, int(op.NW), cPeer(op))
		knownSwarm := !errors.Is(err, storage.ErrResourceDoesNotExist)
		return []string{fmt.Sprintf("KPeers %s %s %d %s %s", hd(), cBool(op.Seeder), op.NW, cBool(knownSwarm), cKeys(peers))}
	case "ann":
		req := &bittorrent.AnnounceRequest{Event: evMapC[op.Ev], InfoHash: ih, NumWant: op.NW, Left: op.Left, Peer: cPeer(op), NumWantProvided: true, EventProvided: true}
		lg := e.logics[op.Inst%len(e.logics)]
		ctx, resp, err := lg.HandleAnnounce(context.Background(), req)
		if err != nil {
			return []string{"KScrape [] false (99, 99)"} // impossible observation: flags the case
		}
		lg.AfterAnnounce(ctx, req, resp)
		all := append(append([]bittorrent.Peer{}, resp.IPv4Peers...), resp.IPv6Peers...)
		a := cAnn(op)
		apply := []string{"KAnnApply " + a}
		if op.Ev == 2 {
			// a stopped announce updates the membership with two store operations: two steps
			apply = []string{"KAnnStopS " + a, "KAnnStopL " + a}
		}
		if e.sc.Kind == "redis" {
			// the Redis clause is about the state reached once the operations have finished
			return apply
		}
		return append([]string{fmt.Sprintf("KAnnCount %s %s", cB(unhx(op.IH)), cBool(op.V6)),
			fmt.Sprintf("KAnnSelect %s %d %d %s", a, resp.Complete, resp.Incomplete, cKeys(all))}, apply...)
	case "gc":
		if e.sc.Kind == "mem" {
			_ = memory.VerifGC(ps, op.Cutoff)
		} else {
			_ = redisstore.VerifGC(ps, op.Cutoff)
		}
		var ks []string
		for k := range known {
			ks = append(ks, k)
		}
		sort.Strings(ks)
		var out []string
		for _, k := range ks {
			parts := strings.Split(k, "|")
			// may_skip: the swarm did not exist when the concurrent phase began
			out = append(out, fmt.Sprintf("KGcOne %s %s %s %s", cB(unhx(parts[0])), parts[1], cZ(op.Cutoff), cBool(!known[k])))
		}
		return out
	}
	panic("op " + op.T)
}

func gaugeValC(g interface{ Write(*dto.Metric) error }) int64 {
	var m dto.Metric
	_ = g.Write(&m)
	return int64(m.GetGauge().GetValue())
}

var evMapC = []bittorrent.Event{bittorrent.None, bittorrent.Started, bittorrent.Stopped, bittorrent.Completed}

func cSop(s cSetup) []string {
	op := s.Op
	hd := fmt.Sprintf("%s %s %s", cB(unhx(op.IH)), cBool(op.V6), cB(cKey(op)))
	name := map[string]string{"puts": "SPutSeeder", "putl": "SPutLeecher", "dels": "SDelSeeder", "dell": "SDelLeecher", "grad": "SGraduate"}[op.T]
	return []string{fmt.Sprintf("SClock %s", cZ(s.Clock)), name + " " + hd}
}

// runSchedule executes the scenario once under the given scheduling prefix; returns the case and the
// scheduler's record for the DFS.
func runSchedule(sc cScenario, prefix []int, rng *rand.Rand, cb *coSched) (Case, []int, []int, bool) {
	e := newConcEnv(sc)
	defer e.close()
	memory.VerifYield, redisstore.VerifBeforeDo = nil, nil
	known := map[string]bool{} // swarm key -> existed at the start of the concurrent phase
	var setup []string
	alive := map[string]int{}
	for _, s := range sc.Setup {
		timecache.VerifPin(s.Clock)
		e.execOp(s.Op, nil)
		setup = append(setup, cSop(s)...)
		k := s.Op.IH + "|" + cBool(s.Op.V6)
		switch s.Op.T {
		case "puts", "putl", "grad":
			alive[k]++
		}
		known[k] = true
	}
	// which swarms exist right now
	exists := map[string]bool{}
	if sc.Kind == "mem" {
		half := memory.VerifShardCount(e.stores[0]) / 2
		for _, d := range memory.VerifDump(e.stores[0]) {
			exists[hx(d.InfoHash[:])+"|"+cBool(d.Shard >= half)] = true
		}
	} else {
		for _, k := range e.mr.Keys() {
			if len(k) == 47 {
				if b, err := hexDecodeC(k[7:]); err == nil {
					exists[hx(b)+"|"+cBool(k[3] == '6')] = true
				}
			}
		}
	}
	allOps := append([]cOp{}, sc.Threads...)
	for _, l := range sc.Then {
		allOps = append(allOps, l...)
	}
	for _, op := range allOps {
		if op.IH != "" {
			k := op.IH + "|" + cBool(op.V6)
			if _, ok := known[k]; !ok {
				known[k] = false
			}
		}
	}
	for k := range known {
		known[k] = exists[k]
	}
	timecache.VerifPin(sc.Clock)
	s := &coSched{prefix: prefix, rng: rng}
	if cb != nil {
		s.cb, s.start, s.preempt = true, cb.start, cb.preempt
	}
	midOK := true
	var lockTrace []string
	// advisory hint for the model's search (tried first, never trusted): the order in which the threads' steps took effect -
	// memory: one entry per critical section entered (an expiry pass: its write sections); redis: whole operations as they returned
	var hint []string
	if sc.Kind == "mem" {
		memory.VerifUnregisterAll()
		memory.VerifRegister(e.stores[0])
		memory.VerifLockEvent = func(shard int, write, acquire bool) {
			tid := -1
			if s.cur != nil {
				tid = s.cur.id
			}
			lockTrace = append(lockTrace, fmt.Sprintf("(%d, %d, %s, %s)", tid, shard, cBool(write), cBool(acquire)))
			if acquire && tid >= 0 && tid < len(sc.Threads) && (write || sc.Threads[tid].T != "gc") {
				hint = append(hint, fmt.Sprint(tid))
			}
		}
		memory.VerifYield = s.yield
		s.onStep = func() {
			if memory.VerifNoWriter(e.stores[0]) {
				for _, sh := range memory.VerifShardsRaw(e.stores[0]) {
					if sh.NumSeeders != sh.Seeders || sh.NumLeechers != sh.Leechers {
						midOK = false
					}
				}
			}
		}
	} else {
		redisstore.VerifBeforeDo = func(string) { s.yield(nil) }
	}
	steps := make([][]string, len(sc.Threads))
	var panics []string
	var bodies []func()
	for i, op := range sc.Threads {
		i, op := i, op
		bodies = append(bodies, func() {
			defer func() {
				if r := recover(); r != nil {
					// a panic inside a store operation: an observation no sequential ordering explains
					steps[i] = []string{"KScrape [] false (99, 99)"}
					panics = append(panics, fmt.Sprint(r))
					memory.VerifYield, redisstore.VerifBeforeDo = func(func() bool) {}, func(string) {}
				}
			}()
			done := func(n int) {
				if sc.Kind == "redis" {
					for ; n > 0; n-- {
						hint = append(hint, fmt.Sprint(i))
					}
				}
			}
			steps[i] = e.execOp(op, known)
			done(len(steps[i]))
			if i < len(sc.Then) {
				for _, op2 := range sc.Then[i] {
					more := e.execOp(op2, known)
					done(len(more))
					steps[i] = append(steps[i], more...)
				}
			}
		})
	}
	cancelW := wedgeWatch(wedgeLimit, "a schedule-forced scenario ("+sc.Name+")", func() map[string]interface{} {
		return map[string]interface{}{"scenario": sc.Name, "kind": sc.Kind, "sc": sc, "schedule": append([]int{}, s.picks...)}
	})
	ok := s.run(bodies)
	cancelW()
	memory.VerifYield, redisstore.VerifBeforeDo, memory.VerifLockEvent = nil, nil, nil
	// final observation
	var entries []string
	var ri, rs, rl, ti, ts, tl int64
	observe := func() {
		entries, ri, rs, rl = nil, 0, 0, 0
		if sc.Kind == "mem" {
			ps := e.stores[0]
			half := memory.VerifShardCount(ps) / 2
			ds := memory.VerifDump(ps)
			sort.Slice(ds, func(a, b int) bool {
				if ds[a].InfoHash != ds[b].InfoHash {
					return string(ds[a].InfoHash[:]) < string(ds[b].InfoHash[:])
				}
				if ds[a].Shard != ds[b].Shard {
					return ds[a].Shard < ds[b].Shard
				}
				if ds[a].Seeder != ds[b].Seeder {
					return ds[a].Seeder
				}
				return ds[a].Key < ds[b].Key
			})
			for _, d := range ds {
				entries = append(entries, fmt.Sprintf("(%s, %s, %s, %s, %s)", cB(d.InfoHash[:]), cBool(d.Shard >= half), cBool(d.Seeder), cB([]byte(d.Key)), cZ(d.MTime)))
			}
			memory.VerifPopulateProm(ps)
			for _, sh := range memory.VerifShards(ps) {
				ri += int64(sh.Swarms)
				rs += int64(sh.Seeders)
				rl += int64(sh.Leechers)
			}
		} else {
			redisstore.VerifPopulateProm(e.stores[0])
			keys := e.mr.Keys()
			sort.Strings(keys)
			for _, k := range keys {
				if len(k) == 47 && (strings.HasPrefix(k, "IPv4_") || strings.HasPrefix(k, "IPv6_")) {
					ihb, err := hexDecodeC(k[7:])
					if err != nil {
						continue
					}
					fields, _ := e.mr.HKeys(k)
					sort.Strings(fields)
					for _, f := range fields {
						mt, _ := strconv.ParseInt(e.mr.HGet(k, f), 10, 64)
						entries = append(entries, fmt.Sprintf("(%s, %s, %s, %s, %s)", cB(ihb), cBool(k[3] == '6'), cBool(k[5] == 'S'), cB([]byte(f)), cZ(mt)))
						if k[5] == 'S' {
							rs++
						} else {
							rl++
						}
					}
				}
				if k == "IPv4" || k == "IPv6" {
					f, _ := e.mr.HKeys(k)
					for _, sk := range f {
						if len(sk) > 5 && sk[5] == 'S' {
							ri++
						}
					}
				}
			}
		}
		ti, ts, tl = gaugeValC(storage.PromInfohashesCount), gaugeValC(storage.PromSeedersCount), gaugeValC(storage.PromLeechersCount)
	}
	observe()
	entries1, ri1, rs1, rl1, ti1, ts1, tl1 := entries, ri, rs, rl, ti, ts, tl
	// post phase (sequential): much later, one complete expiry pass whose cutoff lies after everything stored so far.
	// Whatever state the concurrent phase left - registered or not - nothing may survive it.
	postClock, postCut := sc.Clock+int64(time.Hour), sc.Clock+int64(30*time.Minute)
	timecache.VerifPin(postClock)
	func() {
		defer func() { _ = recover() }()
		e.execOp(cOp{T: "gc", Cutoff: postCut}, nil)
	}()
	observe()
	entries2 := entries
	entries, ri, rs, rl, ti, ts, tl = entries1, ri1, rs1, rl1, ti1, ts1, tl1
	var thr []string
	for _, st := range steps {
		thr = append(thr, cList(st))
	}
	kind := fmt.Sprintf("KMemC %d", sc.Shards)
	if sc.Kind == "redis" {
		kind = fmt.Sprintf("KRedisC %d", sc.Inst)
	}
	coq := fmt.Sprintf("{| c_kind := %s; c_setup := %s; c_clock := %s; c_threads := %s; c_final := %s; c_totals := (%s, %s, %s); c_recount := (%d, %d, %d); c_midflight_ok := %s; c_steps_only := %s; c_post := [SClock %s; SExpire %s]; c_final2 := %s; c_locks := %s; c_hint := %s |}",
		kind, cList(setup), cZ(sc.Clock), "[\n  "+strings.Join(thr, ";\n  ")+"]", cList(entries), cZ(ti), cZ(ts), cZ(tl), ri, rs, rl, cBool(midOK && ok), cBool(sc.Kind == "mem"),
		cZ(postClock), cZ(postCut), cList(entries2), cList(lockTrace), "["+strings.Join(hint, ";")+"]%nat")
	in := map[string]interface{}{"scenario": sc.Name, "kind": sc.Kind, "sc": sc, "schedule": append([]int{}, s.picks...)}
	obs := map[string]interface{}{"completed": ok, "entries": len(entries), "totals": []int64{ti, ts, tl}, "recount": []int64{ri, rs, rl}, "midflight_ok": midOK, "steps": steps, "panics": panics, "entries_after_late_expiry": len(entries2), "lock_events": len(lockTrace)}
	return Case{Coq: coq, In: in, Obs: obs, Kind: sc.Kind + ":" + sc.Name}, s.picks, s.branch, ok
}

func hexDecodeC(s string) ([]byte, error) {
	if len(s)%2 != 0 {
		return nil, fmt.Errorf("odd")
	}
	out := make([]byte, len(s)/2)
	for i := range out {
		v, err := strconv.ParseUint(s[2*i:2*i+2], 16, 8)
		if err != nil {
			return nil, err
		}
		out[i] = byte(v)
	}
	return out, nil
}

func concReplay(o *Out, in map[string]interface{}) error {
	var sc cScenario
	if err := reJSON(in["sc"], &sc); err != nil {
		return err
	}
	var sched []int
	if err := reJSON(in["schedule"], &sched); err != nil {
		return err
	}
	c, _, _, _ := runSchedule(sc, sched, nil, nil)
	o.add(c)
	return nil
}

// explore runs one scenario under: every non-preemptive schedule (each thread first), every schedule with
// one preemption (at every step, to every other thread), in the thorough tier every schedule with two
// preemptions, plus random schedules.  (Context bounding: the bugs of interest - a step of one operation
// landing between two steps of another - need one or two preemptions.)
func explore(o *Out, sc cScenario, rng *rand.Rand, twoPreempt bool, samples int) {
	k := len(sc.Threads)
	seen := map[string]bool{}
	emit := func(c Case, picks []int) {
		key := fmt.Sprint(picks)
		if seen[key] {
			return
		}
		seen[key] = true
		o.add(c)
	}
	maxN := 0
	for st := 0; st < k; st++ {
		c, picks, _, _ := runSchedule(sc, nil, nil, &coSched{start: st})
		emit(c, picks)
		if len(picks) > maxN {
			maxN = len(picks)
		}
	}
	for st := 0; st < k; st++ {
		for i := 1; i < maxN; i++ {
			for off := 1; off < k || off == 1; off++ {
				c, picks, _, _ := runSchedule(sc, nil, nil, &coSched{start: st, preempt: map[int]int{i: off}})
				emit(c, picks)
				if twoPreempt {
					for j := i + 1; j < maxN; j++ {
						c2, p2, _, _ := runSchedule(sc, nil, nil, &coSched{start: st, preempt: map[int]int{i: off, j: 1}})
						emit(c2, p2)
					}
				}
			}
		}
	}
	for i := 0; i < samples; i++ {
		c, picks, _, _ := runSchedule(sc, nil, rand.New(rand.NewSource(rng.Int63())), nil)
		emit(c, picks)
	}
	o.dist["scenarios"]++
}

func concStream(o *Out, rng *rand.Rand, n int) {
	mkID := func(b byte) string {
		id := make([]byte, 20)
		for i := range id {
			id[i] = b
		}
		return hx(id)
	}
	ihA, ihB := mkID(0xA1), mkID(0xB2)
	p := func(t string, ih string, id byte, port int) cOp {
		return cOp{T: t, IH: ih, PID: mkID(id), IP: hx([]byte{10, 0, 0, id}), Port: port}
	}
	c0 := int64(1_000_000_000_000)
	c1 := c0 + 1000
	stale := c0
	cut := c0 + 505
	// ---- memory store: pairs and triples on one swarm (same peer and other peers), with and without expiry
	var scs []cScenario
	baseSetup := []cSetup{{stale, p("puts", ihA, 1, 1)}, {stale, p("putl", ihA, 2, 1)}, {c0 + 900, p("putl", ihA, 3, 1)}}
	opsPool := []cOp{p("puts", ihA, 2, 1), p("putl", ihA, 1, 1), p("dels", ihA, 1, 1), p("dell", ihA, 2, 1), p("grad", ihA, 2, 1), p("grad", ihA, 4, 1),
		p("scrape", ihA, 0, 0), {T: "peers", IH: ihA, PID: mkID(2), IP: hx([]byte{10, 0, 0, 2}), Port: 1, NW: 2}, {T: "peers", IH: ihA, PID: mkID(9), IP: hx([]byte{10, 0, 0, 9}), Port: 1, NW: 50, Seeder: true},
		{T: "ann", IH: ihA, PID: mkID(2), IP: hx([]byte{10, 0, 0, 2}), Port: 1, Left: 0, Ev: 3, NW: 5}, {T: "ann", IH: ihA, PID: mkID(5), IP: hx([]byte{10, 0, 0, 5}), Port: 1, Left: 7, NW: 1},
		{T: "ann", IH: ihA, PID: mkID(1), IP: hx([]byte{10, 0, 0, 1}), Port: 1, Left: 0, NW: 0}, p("puts", ihB, 1, 1), p("dell", ihA, 3, 1), p("dels", ihA, 7, 1),
		{T: "ann", IH: ihA, PID: mkID(1), IP: hx([]byte{10, 0, 0, 1}), Port: 1, Left: 0, Ev: 2, NW: 0}}
	for _, shards := range []int{1, 2} {
		for i := 0; i < len(opsPool); i++ {
			for j := i + 1; j < len(opsPool); j++ {
				if (i*31+j*17+shards)%3 != 0 && n < 2000 { // quick tier: a third of the pairs
					continue
				}
				scs = append(scs, cScenario{Name: "mem-pair", Kind: "mem", Shards: shards, Setup: baseSetup, Clock: c1, Threads: []cOp{opsPool[i], opsPool[j]}})
			}
		}
	}
	for k := 0; k < n/40+6; k++ {
		var thr []cOp
		for len(thr) < 3 {
			thr = append(thr, opsPool[rng.Intn(len(opsPool))])
		}
		scs = append(scs, cScenario{Name: "mem-triple", Kind: "mem", Shards: 1 + rng.Intn(2), Setup: baseSetup, Clock: c1, Threads: thr})
	}
	// expiry pass concurrent with put / graduate / delete on the same and on other peers, and with a swarm created meanwhile
	gc := cOp{T: "gc", Cutoff: cut}
	for _, other := range []cOp{p("puts", ihA, 1, 1), p("putl", ihA, 2, 1), p("grad", ihA, 2, 1), p("dels", ihA, 1, 1), p("dell", ihA, 3, 1), p("putl", ihB, 6, 1), p("puts", ihA, 8, 1),
		{T: "ann", IH: ihA, PID: mkID(2), IP: hx([]byte{10, 0, 0, 2}), Port: 1, Left: 3, NW: 5}, p("scrape", ihA, 0, 0)} {
		for _, shards := range []int{1, 2} {
			scs = append(scs, cScenario{Name: "mem-gc", Kind: "mem", Shards: shards, Setup: append(append([]cSetup{}, baseSetup...), cSetup{stale, p("puts", ihB, 1, 1)}), Clock: c1, Threads: []cOp{gc, other}})
		}
	}
	scs = append(scs, cScenario{Name: "mem-gc", Kind: "mem", Shards: 1, Setup: baseSetup, Clock: c1, Threads: []cOp{gc, p("puts", ihA, 1, 1), p("dell", ihA, 2, 1)}})
	// a swarm emptied and re-created (other thread: delete the last member; third thread: a new member) between the pass's
	// snapshot of the shard and its step for that swarm: the step must look at the swarm that exists NOW
	for _, shards := range []int{1, 2} {
		one := []cSetup{{stale, p("puts", ihB, 1, 1)}, {stale, p("putl", ihA, 2, 1)}}
		scs = append(scs, cScenario{Name: "mem-gc-recreate", Kind: "mem", Shards: shards, Setup: one, Clock: c1, Threads: []cOp{gc, p("dels", ihB, 1, 1), p("puts", ihB, 8, 1)}})
		scs = append(scs, cScenario{Name: "mem-gc-recreate", Kind: "mem", Shards: shards, Setup: one, Clock: c1, Threads: []cOp{gc, p("dell", ihA, 2, 1), p("putl", ihA, 8, 1)}})
		scs = append(scs, cScenario{Name: "mem-gc-recreate", Kind: "mem", Shards: shards, Setup: one, Clock: c1, Threads: []cOp{gc,
			{T: "ann", IH: ihB, PID: mkID(1), IP: hx([]byte{10, 0, 0, 1}), Port: 1, Left: 0, Ev: 3, NW: 5}, {T: "ann", IH: ihB, PID: mkID(5), IP: hx([]byte{10, 0, 0, 5}), Port: 1, Left: 7, NW: 1}}})
	}
	// ---- redis store: whole operations interleaved at round-trip granularity, 1-2 instances
	rOps := []cOp{p("puts", ihA, 2, 1), p("putl", ihA, 1, 1), p("dels", ihA, 1, 1), p("dell", ihA, 2, 1), p("grad", ihA, 2, 1), p("grad", ihA, 4, 1), p("puts", ihA, 1, 1), p("putl", ihA, 2, 1),
		{T: "ann", IH: ihA, PID: mkID(2), IP: hx([]byte{10, 0, 0, 2}), Port: 1, Left: 0, Ev: 3, NW: 5}, p("puts", ihB, 1, 1)}
	for i := 0; i < len(rOps); i++ {
		for j := i + 1; j < len(rOps); j++ {
			if (i*13+j*7)%4 != 0 && n < 2000 {
				continue
			}
			a, b := rOps[i], rOps[j]
			b.Inst = 1
			scs = append(scs, cScenario{Name: "redis-pair", Kind: "redis", Inst: 2, Setup: baseSetup, Clock: c1, Threads: []cOp{a, b}})
		}
	}
	for k := 0; k < n/60+3; k++ {
		var thr []cOp
		for len(thr) < 3 {
			op := rOps[rng.Intn(len(rOps))]
			op.Inst = rng.Intn(2)
			thr = append(thr, op)
		}
		scs = append(scs, cScenario{Name: "redis-triple", Kind: "redis", Inst: 2, Setup: baseSetup, Clock: c1, Threads: thr})
	}
	// one client issuing TWO operations one after the other while another operation is in flight: an operation that is
	// not one transaction can be split by them in a way no ordering explains (its first half before the first, its
	// second half after the second)
	{
		on1 := func(op cOp) cOp { op.Inst = 1; return op }
		seqs := [][3]cOp{
			{p("grad", ihA, 2, 1), p("putl", ihA, 2, 1), p("dels", ihA, 2, 1)},
			{p("grad", ihA, 2, 1), p("dels", ihA, 2, 1), p("putl", ihA, 2, 1)},
			{p("grad", ihA, 2, 1), p("puts", ihA, 2, 1), p("dell", ihA, 2, 1)},
			{{T: "ann", IH: ihA, PID: mkID(2), IP: hx([]byte{10, 0, 0, 2}), Port: 1, Left: 0, Ev: 3, NW: 5}, p("putl", ihA, 2, 1), p("dels", ihA, 2, 1)},
			{{T: "ann", IH: ihA, PID: mkID(1), IP: hx([]byte{10, 0, 0, 1}), Port: 1, Left: 0, Ev: 2, NW: 0}, p("puts", ihA, 1, 1), p("putl", ihA, 1, 1)},
			{p("putl", ihA, 1, 1), p("dels", ihA, 1, 1), p("dell", ihA, 1, 1)},
		}
		for _, q := range seqs {
			scs = append(scs, cScenario{Name: "redis-seq", Kind: "redis", Inst: 2, Setup: baseSetup, Clock: c1,
				Threads: []cOp{q[0], on1(q[1])}, Then: [][]cOp{nil, {on1(q[2])}}})
		}
		for k := 0; k < n/100+2; k++ {
			a, b, c := rOps[rng.Intn(len(rOps))], on1(rOps[rng.Intn(len(rOps))]), on1(rOps[rng.Intn(len(rOps))])
			scs = append(scs, cScenario{Name: "redis-seq", Kind: "redis", Inst: 2, Setup: baseSetup, Clock: c1, Threads: []cOp{a, b}, Then: [][]cOp{nil, {c}}})
		}
	}
	// redis expiry concurrent with operations on OTHER members (must be exact) ...
	for _, other := range []cOp{p("puts", ihA, 8, 1), p("putl", ihB, 6, 1), p("dell", ihA, 3, 1), p("dels", ihA, 1, 1), p("dell", ihA, 2, 1)} {
		other.Inst = 1
		scs = append(scs, cScenario{Name: "redis-gc-other", Kind: "redis", Inst: 2, Setup: baseSetup, Clock: c1, Threads: []cOp{gc, other}})
	}
	// ... with a re-announce of a stale member during the pass (known finding F10) ...
	for _, other := range []cOp{p("puts", ihA, 1, 1), p("putl", ihA, 2, 1)} {
		other.Inst = 1
		scs = append(scs, cScenario{Name: "redis-gc-reannounce", Kind: "redis", Inst: 2, Setup: baseSetup, Clock: c1, Threads: []cOp{gc, other}})
	}
	// ... with a NEW member joining a swarm the pass is just emptying (every round-trip boundary of the pass's
	// HLEN / WATCH / EXEC tail): the swarm must stay registered, i.e. a later pass must still find the member
	for _, other := range []cOp{p("puts", ihB, 8, 1), p("putl", ihA, 9, 1), {T: "ann", IH: ihB, PID: mkID(6), IP: hx([]byte{10, 0, 0, 6}), Port: 1, Left: 0, NW: 5}} {
		other.Inst = 1
		scs = append(scs, cScenario{Name: "redis-gc-emptied", Kind: "redis", Inst: 2,
			Setup: []cSetup{{stale, p("puts", ihB, 1, 1)}, {stale, p("putl", ihA, 2, 1)}}, Clock: c1, Threads: []cOp{gc, other}})
	}
	// ... and two passes from two instances at once (known finding F11)
	gc2 := gc
	gc2.Inst = 1
	scs = append(scs, cScenario{Name: "redis-double-gc", Kind: "redis", Inst: 2, Setup: []cSetup{{stale, p("puts", ihA, 1, 1)}}, Clock: c1, Threads: []cOp{gc, gc2}})
	two, samples := false, 6
	if n >= 2000 {
		two, samples = true, 40
	}
	for _, sc := range scs {
		explore(o, sc, rng, two, samples)
	}
}
