(* Specification-side definitions for C06: how a client may WRITE a request.
   A query is a list of parameters; every byte of every key and value carries
   its own escaping style; parameters are joined by '&' or ';'.  Also the
   field record of an announce and the parameter list it stands for.
   Definitions only - nothing here is executed against the Go code; these
   functions only appear in the statements of the round-trip theorems. *)
From Chihaya Require Export Model.HttpParse.
Open Scope Z_scope.

(* ---- per-byte escaping styles *)
Inductive esc :=
| Raw                           (* the byte itself *)
| Pct (hi_upper lo_upper : bool) (* %XX with each hex digit in upper or lower case *)
| Plus.                         (* '+' (only for a space) *)

Definition hex_digit (upper : bool) (d : Z) : Z :=
  if d <? 10 then 48 + d else (if upper then 55 else 87) + d.

Definition render_byte (b : Z) (e : esc) : bytes :=
  match e with
  | Raw => [b]
  | Pct u1 u2 => [37; hex_digit u1 (b / 16); hex_digit u2 (b mod 16)]
  | Plus => [43]
  end.

(* bytes that cannot be written raw inside a key or value: % + & ; = *)
Definition reserved (b : Z) : bool :=
  (b =? 37) || (b =? 43) || (b =? 38) || (b =? 59) || (b =? 61).

Definition esc_ok (b : Z) (e : esc) : bool :=
  is_byte b && match e with Raw => negb (reserved b) | Pct _ _ => true | Plus => b =? 32 end.

(* a styled byte string *)
Notation sbytes := (list (Z * esc)) (only parsing).
Definition plain (s : sbytes) : bytes := map fst s.
Definition render_str (s : sbytes) : bytes := flat_map (fun be => render_byte (fst be) (snd be)) s.
Definition sbytes_ok (s : sbytes) : bool := forallb (fun be => esc_ok (fst be) (snd be)) s.

(* a styled parameter; sp_bare: written as "key" without '=' (only when the
   value is empty and the key is not); sp_semi: the separator written after
   this parameter, when another one follows, is ';' instead of '&' *)
Record sparam := { sp_key : sbytes; sp_val : sbytes; sp_bare : bool; sp_semi : bool }.

Definition sparam_ok (p : sparam) : bool :=
  sbytes_ok (sp_key p) && sbytes_ok (sp_val p) &&
  (negb (sp_bare p) || (Nat.eqb (length (sp_val p)) 0 && negb (Nat.eqb (length (sp_key p)) 0))).

Definition render_seg (p : sparam) : bytes :=
  render_str (sp_key p) ++ (if sp_bare p then [] else 61 :: render_str (sp_val p)).

Fixpoint render_query (ps : list sparam) : bytes :=
  match ps with
  | [] => []
  | p :: r => match r with
              | [] => render_seg p
              | _ => render_seg p ++ (if sp_semi p then 59 else 38) :: render_query r
              end
  end.

(* the (key, value) a styled parameter denotes *)
Definition logical (p : sparam) : bytes * bytes := (plain (sp_key p), plain (sp_val p)).

(* what a (decoded) parameter means to the tracker: an infohash (key exactly
   "info_hash") or an ordinary parameter under its lower-cased key *)
Inductive lparam := LIH (v : bytes) | LP (k v : bytes).
Definition classify (kv : bytes * bytes) : lparam :=
  if bytes_eqb (fst kv) info_hash_key then LIH (snd kv) else LP (lower_key (fst kv)) (snd kv).
Definition lp_pairs (l : list lparam) : list (bytes * bytes) :=
  flat_map (fun p => match p with LP k v => [(k, v)] | LIH _ => [] end) l.
Definition lp_ihs (l : list lparam) : list bytes :=
  flat_map (fun p => match p with LIH v => [v] | LP _ _ => [] end) l.

(* ---- raw segments (no styling): used by the order / last-wins theorems *)
Fixpoint join_amp (segs : list bytes) : bytes :=
  match segs with
  | [] => []
  | s :: r => match r with [] => s | _ => s ++ 38 :: join_amp r end
  end.
Definition seg_ok (s : bytes) : bool := forallb (fun c => negb (is_amp_semi c)) s.

(* the meaning of one raw segment *)
Inductive segsem := SSkip | SErr (e : err) | SIH (v : bytes) | SP (k v : bytes).
Definition seg_sem (seg : bytes) : segsem :=
  match seg with
  | [] => SSkip
  | _ =>
    let '(k, v) := cut_at 61 seg in
    let v := match v with Some v => v | None => [] end in
    match unescape k, unescape v with
    | Some k, Some v =>
      if bytes_eqb k info_hash_key
      then if Nat.eqb (length v) 20 then SIH v else SErr ErrInvalidInfohash
      else SP (lower_key k) v
    | _, _ => SErr ErrInvalidQueryEscape
    end
  end.
(* effective key of a segment: None for info_hash *)
Definition seg_keys (segs : list bytes) : list (option bytes) :=
  flat_map (fun s => match seg_sem s with SIH _ => [None] | SP k _ => [Some k] | _ => [] end) segs.

Definition no_qmark (path : bytes) : bool := forallb (fun c => negb (c =? 63)) path.

(* ---- the field record of an announce *)
Record afields := {
  f_ih : bytes; f_pid : bytes; f_port : Z; f_left : Z; f_downloaded : Z; f_uploaded : Z;
  f_event : option (event * list bool);  (* the event and which letters of its name are upper-case *)
  f_numwant : option Z;
  f_compact : option bytes;              (* the text of the compact parameter *)
  f_ip : option bytes; f_ipv4 : option bytes; f_ipv6 : option bytes   (* texts *)
}.

Definition opt_wf (o : option bytes) : bool := match o with Some s => wf_bytes s | None => true end.
Definition wf_fields (f : afields) : bool :=
  wf_bytes (f_ih f) && Nat.eqb (length (f_ih f)) 20 && wf_bytes (f_pid f) && Nat.eqb (length (f_pid f)) 20 &&
  (0 <=? f_port f) && (f_port f <? 2 ^ 16) && (0 <=? f_left f) && (f_left f <? 2 ^ 64) &&
  (0 <=? f_downloaded f) && (f_downloaded f <? 2 ^ 64) && (0 <=? f_uploaded f) && (f_uploaded f <? 2 ^ 64) &&
  match f_numwant f with Some n => (0 <=? n) && (n <? 2 ^ 32) | None => true end &&
  opt_wf (f_compact f) && opt_wf (f_ip f) && opt_wf (f_ipv4 f) && opt_wf (f_ipv6 f).

(* spell a lower-case name with some letters in upper case *)
Fixpoint spell (mask : list bool) (s : bytes) : bytes :=
  match s with
  | [] => []
  | c :: r => match mask with
              | true :: m => (c - 32) :: spell m r
              | _ :: m => c :: spell m r
              | [] => c :: r
              end
  end.

Definition somes (l : list (bytes * option bytes)) : list (bytes * bytes) :=
  flat_map (fun kv => match snd kv with Some v => [(fst kv, v)] | None => [] end) l.

(* the ordinary parameters an announce with these fields consists of *)
Definition field_table (f : afields) : list (bytes * option bytes) :=
  [ (k_peer_id, Some (f_pid f)); (k_port, Some (fmt_uint (f_port f)));
    (k_left, Some (fmt_uint (f_left f))); (k_downloaded, Some (fmt_uint (f_downloaded f)));
    (k_uploaded, Some (fmt_uint (f_uploaded f)));
    (k_event, option_map (fun em => spell (snd em) (event_name (fst em))) (f_event f));
    (k_numwant, option_map fmt_uint (f_numwant f)); (k_compact, f_compact f);
    (k_ip, f_ip f); (k_ipv4, f_ipv4 f); (k_ipv6, f_ipv6 f) ].
Definition field_params (f : afields) : list (bytes * bytes) := somes (field_table f).

(* where the peer address text comes from, in terms of the fields *)
Definition fields_ip_source (header_get split_host : bytes -> bytes)
           (o : popts) (f : afields) (remote : bytes) : bytes * bool :=
  let spoofed := if o_spoof o then
                   match f_ip f with Some s => Some s | None =>
                   match f_ipv4 f with Some s => Some s | None => f_ipv6 f end end
                 else None in
  match spoofed with
  | Some s => (s, true)
  | None => let h := match o_real_ip_header o with [] => [] | name => header_get name end in
            match h with _ :: _ => (h, false) | [] => (split_host remote, false) end
  end.

(* the request the fields denote, before SanitizeAnnounce *)
Definition fields_req (f : afields) (ip : bytes) (ip_provided : bool) : areq :=
  {| r_event := match f_event f with Some (e, _) => e | None => EvNone end;
     r_ih := f_ih f;
     r_compact := match f_compact f with
                  | Some s => negb (bytes_eqb s []) && negb (bytes_eqb s [48]) | None => false end;
     r_event_provided := match f_event f with Some _ => true | None => false end;
     r_numwant_provided := match f_numwant f with Some _ => true | None => false end;
     r_ip_provided := ip_provided;
     r_numwant := match f_numwant f with Some n => n | None => 0 end;
     r_left := f_left f; r_downloaded := f_downloaded f; r_uploaded := f_uploaded f;
     r_peer := {| p_id := f_pid f; p_ip := ip; p_port := f_port f |}; r_af := V4 |}.

(* forget the Params part of an accepted request *)
Definition omap {A B} (g : A -> B) (x : outcome A) : outcome B :=
  match x with Accept a => Accept (g a) | Reject e => Reject e | Panic => Panic end.
