//go:build verif && verif_c12

package main

import (
	"bytes"
	"context"
	"encoding/binary"
	"errors"
	"fmt"
	"math/rand"
	"net"
	nethttp "net/http"
	"net/http/httptest"
	"net/url"
	"strings"
	"sync"
	"time"

	"github.com/chihaya/chihaya/bittorrent"
	httpfe "github.com/chihaya/chihaya/frontend/http"
	cbencode "github.com/chihaya/chihaya/frontend/http/bencode"
	"github.com/chihaya/chihaya/frontend/udp"
	"github.com/chihaya/chihaya/middleware"
	"github.com/chihaya/chihaya/pkg/timecache"
	"github.com/chihaya/chihaya/storage"
	"github.com/chihaya/chihaya/storage/memory"
)

func init() {
	props["C12"] = &propDef{glue: "G12", ctype: "case12", chk: "chk12", stream: c12Stream, replay: c12Replay, shard: 400}
}

type hkSpec struct {
	K   string `json:"k"` // accept rejc reji skipswarm skipresp bump tag
	Msg string `json:"msg,omitempty"`
	D   int64  `json:"d,omitempty"`
	// a rejecting hook may return a nil context with its error (the usual Go idiom); it is a rejection all the same
	NilCtx bool `json:"nilctx,omitempty"`
}

func (h hkSpec) coq() string {
	switch h.K {
	case "accept", "donectx":
		return "KAccept"
	case "rejc":
		return "(KRejC " + cB([]byte(h.Msg)) + ")"
	case "reji":
		return "KRejI"
	case "skipswarm":
		return "KSkipSwarm"
	case "skipresp":
		return "KSkipResp"
	case "bump":
		return fmt.Sprintf("(KBump %s)", cZ(h.D))
	default:
		return fmt.Sprintf("(KTag %s)", cZ(h.D))
	}
}

type c12Log struct {
	mu    sync.Mutex
	evs   []int64
	muted bool // while the prelude request of an overlap case is being handled / post-processed
}

func (l *c12Log) mute(b bool) { l.mu.Lock(); l.muted = b; l.mu.Unlock() }

func (l *c12Log) add(v int64) {
	l.mu.Lock()
	defer l.mu.Unlock()
	if l.muted {
		return
	}
	// consecutive store reads (resp. writes) of one hook invocation collapse into one event
	if (v == 900 || v == 901) && len(l.evs) > 0 && l.evs[len(l.evs)-1] == v {
		return
	}
	l.evs = append(l.evs, v)
}

type tagKey struct{ n int64 }

type instrHook struct {
	code int64
	spec hkSpec
	log  *c12Log
}

func (h *instrHook) act(ctx context.Context, bump func(time.Duration)) (context.Context, error) {
	h.log.add(h.code)
	switch h.spec.K {
	case "rejc":
		if h.spec.NilCtx {
			return nil, bittorrent.ClientError(h.spec.Msg)
		}
		return ctx, bittorrent.ClientError(h.spec.Msg)
	case "reji":
		if h.spec.NilCtx {
			return nil, errors.New("database exploded at 10.1.2.3:5432")
		}
		return ctx, errors.New("database exploded at 10.1.2.3:5432")
	case "skipswarm":
		return context.WithValue(ctx, middleware.SkipSwarmInteractionKey, true), nil
	case "skipresp":
		return context.WithValue(ctx, middleware.SkipResponseHookKey, true), nil
	case "bump":
		bump(time.Duration(h.spec.D) * time.Second)
	case "tag":
		return context.WithValue(ctx, tagKey{h.spec.D}, h.spec.D), nil
	case "donectx":
		// accepts, and hands on a derived context that is already done: `ctx, cancel := context.WithTimeout(ctx, d); defer cancel()`
		c, cancel := context.WithCancel(ctx)
		cancel()
		return c, nil
	}
	return ctx, nil
}

func (h *instrHook) HandleAnnounce(ctx context.Context, req *bittorrent.AnnounceRequest, resp *bittorrent.AnnounceResponse) (context.Context, error) {
	if req.InfoHash == c12IH2 {
		return ctx, nil // the prelude request of an overlap case: the configured hooks let it pass untouched
	}
	return h.act(ctx, func(d time.Duration) { resp.Interval += d })
}
func (h *instrHook) HandleScrape(ctx context.Context, _ *bittorrent.ScrapeRequest, _ *bittorrent.ScrapeResponse) (context.Context, error) {
	return h.act(ctx, func(time.Duration) {})
}

// spyStore records reads and writes of the real memory store it wraps.
type spyStore struct {
	storage.PeerStore
	log *c12Log
}

func (s *spyStore) PutSeeder(ih bittorrent.InfoHash, p bittorrent.Peer) error {
	s.log.add(901)
	return s.PeerStore.PutSeeder(ih, p)
}
func (s *spyStore) DeleteSeeder(ih bittorrent.InfoHash, p bittorrent.Peer) error {
	s.log.add(901)
	return s.PeerStore.DeleteSeeder(ih, p)
}
func (s *spyStore) PutLeecher(ih bittorrent.InfoHash, p bittorrent.Peer) error {
	s.log.add(901)
	return s.PeerStore.PutLeecher(ih, p)
}
func (s *spyStore) DeleteLeecher(ih bittorrent.InfoHash, p bittorrent.Peer) error {
	s.log.add(901)
	return s.PeerStore.DeleteLeecher(ih, p)
}
func (s *spyStore) GraduateLeecher(ih bittorrent.InfoHash, p bittorrent.Peer) error {
	s.log.add(901)
	return s.PeerStore.GraduateLeecher(ih, p)
}
func (s *spyStore) AnnouncePeers(ih bittorrent.InfoHash, seeder bool, n int, p bittorrent.Peer) ([]bittorrent.Peer, error) {
	s.log.add(900)
	return s.PeerStore.AnnouncePeers(ih, seeder, n, p)
}
func (s *spyStore) ScrapeSwarm(ih bittorrent.InfoHash, af bittorrent.AddressFamily) bittorrent.Scrape {
	s.log.add(900)
	return s.PeerStore.ScrapeSwarm(ih, af)
}

// syncLogic lets the driver wait for the frontends' `go AfterAnnounce(...)`.
type syncLogic struct {
	*middleware.Logic
	mu       sync.Mutex
	pending  int
	rejected bool // Handle* returned an error: no After* call is legitimate
	log      *c12Log
	done     chan struct{}
	// overlap cases: the prelude request's post-processing is held until the measured request has been dealt with
	holdGate chan struct{}
	holdDone chan struct{}
}

func (l *syncLogic) enterAfter() {
	l.mu.Lock()
	r := l.rejected
	l.mu.Unlock()
	if r {
		l.log.add(950) // post-processing started for a rejected request
	}
}

func (l *syncLogic) HandleAnnounce(ctx context.Context, r *bittorrent.AnnounceRequest) (context.Context, *bittorrent.AnnounceResponse, error) {
	if r.InfoHash == c12IH2 {
		return l.Logic.HandleAnnounce(ctx, r)
	}
	c, resp, err := l.Logic.HandleAnnounce(ctx, r)
	l.mu.Lock()
	if err == nil {
		l.pending++
	} else {
		l.rejected = true
	}
	l.mu.Unlock()
	return c, resp, err
}
func (l *syncLogic) AfterAnnounce(ctx context.Context, r *bittorrent.AnnounceRequest, resp *bittorrent.AnnounceResponse) {
	if l.holdGate != nil && r.InfoHash == c12IH2 {
		// NB the request is identified when the hook STARTS; what it applies is read after the gate opens
		defer func() { _ = recover(); l.holdDone <- struct{}{} }()
		<-l.holdGate
		l.log.mute(true)
		l.Logic.AfterAnnounce(ctx, r, resp)
		l.log.mute(false)
		return
	}
	defer func() { _ = recover(); l.done <- struct{}{} }()
	l.enterAfter()
	l.Logic.AfterAnnounce(ctx, r, resp)
}
func (l *syncLogic) HandleScrape(ctx context.Context, r *bittorrent.ScrapeRequest) (context.Context, *bittorrent.ScrapeResponse, error) {
	c, resp, err := l.Logic.HandleScrape(ctx, r)
	l.mu.Lock()
	if err == nil {
		l.pending++
	} else {
		l.rejected = true
	}
	l.mu.Unlock()
	return c, resp, err
}
func (l *syncLogic) AfterScrape(ctx context.Context, r *bittorrent.ScrapeRequest, resp *bittorrent.ScrapeResponse) {
	defer func() { _ = recover(); l.done <- struct{}{} }()
	l.enterAfter()
	l.Logic.AfterScrape(ctx, r, resp)
}
func (l *syncLogic) wait() bool {
	l.mu.Lock()
	n := l.pending
	l.pending = 0
	rej := l.rejected
	l.mu.Unlock()
	if rej {
		// a frontend must not start post-processing for a rejected request; give a stray
		// goroutine a moment to show up
		time.Sleep(8 * time.Millisecond)
	}
	for ; n > 0; n-- {
		select {
		case <-l.done:
		case <-time.After(5 * time.Second):
			return false
		}
	}
	return true
}

var c12IH = bittorrent.InfoHashFromBytes([]byte("c12-infohash-0123456"))
var c12IH2 = bittorrent.InfoHashFromBytes([]byte("c12-prelude-ih-65432"))
var c12IH3 = bittorrent.InfoHashFromBytes([]byte("c12-warmup-ih-098765"))

const c12Key = "c12-private-key"
const c12Now = int64(1_700_000_000_000_000_000)

func c12Run(o *Out, kind string, via int, scrape bool, pre, post []hkSpec, baseSec int64) {
	c12RunO(o, kind, via, scrape, pre, post, baseSec, false)
}

// overlap (UDP announces only): another client's accepted announce (another swarm; the configured hooks let it pass) is
// answered first and its post-response processing is still pending while the measured request is handled.
func c12RunO(o *Out, kind string, via int, scrape bool, pre, post []hkSpec, baseSec int64, overlap bool) {
	c12RunV(o, kind, via, scrape, pre, post, baseSec, overlap, 0, 0)
}

// c12RunV: the measured announce carries event ev (0 none, 1 started, 2 stopped, 3 completed) and its peer is already a
// member of the swarm (member 1: seeder, 2: leecher).  Only used with chains whose pre-hooks REJECT: whatever the request
// asks for - leaving included - a rejected request must not touch the store.
func c12RunV(o *Out, kind string, via int, scrape bool, pre, post []hkSpec, baseSec int64, overlap bool, ev, member int) {
	c12RunW(o, kind, via, scrape, pre, post, baseSec, overlap, ev, member, 0)
}

// c12RunW: the measured request is not the first one - the same Logic instance has handled `warm` requests just like it
// before (announces and scrapes alternating, from other peers).  What a hook chain decides for a request does not depend on
// how many requests it has decided before, or how.
func c12RunW(o *Out, kind string, via int, scrape bool, pre, post []hkSpec, baseSec int64, overlap bool, ev, member, warm int) {
	rejecting := false
	for _, h := range pre {
		rejecting = rejecting || h.K == "rejc" || h.K == "reji"
	}
	if !rejecting || scrape {
		ev, member = 0, 0
	}
	overlap = overlap && via == 2 && !scrape
	timecache.VerifPin(c12Now)
	lg := &c12Log{}
	huge := 1000 * time.Hour
	real, err := memory.New(memory.Config{ShardCount: 2, GarbageCollectionInterval: huge, PrometheusReportingInterval: huge, PeerLifetime: huge})
	if err != nil {
		panic(err)
	}
	defer func() { <-real.Stop() }()
	// two seeders so that a response filled from the store is recognisable
	for i := 0; i < 2; i++ {
		id := bittorrent.PeerIDFromBytes([]byte(fmt.Sprintf("seeder-%013d", i)))
		_ = real.PutSeeder(c12IH, bittorrent.Peer{ID: id, Port: uint16(7000 + i), IP: bittorrent.IP{IP: net.IP{10, 1, 0, byte(i + 1)}, AddressFamily: bittorrent.IPv4}})
	}
	spy := &spyStore{PeerStore: real, log: lg}
	var preH, postH []middleware.Hook
	for i, s := range pre {
		preH = append(preH, &instrHook{code: int64(i), spec: s, log: lg})
	}
	for j, s := range post {
		postH = append(postH, &instrHook{code: int64(100 + j), spec: s, log: lg})
	}
	logic := &syncLogic{Logic: middleware.NewLogic(middleware.ResponseConfig{AnnounceInterval: time.Duration(baseSec) * time.Second, MinAnnounceInterval: time.Second}, spy, preH, postH),
		done: make(chan struct{}, 16), log: lg}
	if overlap {
		logic.holdGate, logic.holdDone = make(chan struct{}), make(chan struct{}, 1)
	}
	countIH := func() (n int) {
		for _, d := range memory.VerifDump(real) {
			if d.InfoHash == c12IH {
				n++
			}
		}
		return
	}
	me := bittorrent.Peer{ID: bittorrent.PeerIDFromBytes([]byte("announcer-0123456789")), Port: 6881, IP: bittorrent.IP{IP: net.IP{127, 0, 0, 1}, AddressFamily: bittorrent.IPv4}}
	if via == 1 {
		me.IP.IP = net.IP{192, 0, 2, 1} // httptest.NewRequest's RemoteAddr
	}
	switch member {
	case 1:
		_ = real.PutSeeder(c12IH, me)
	case 2:
		_ = real.PutLeecher(c12IH, me)
	}
	if warm > 0 {
		lg.mute(true)
		for i := 0; i < warm; i++ {
			wp := bittorrent.Peer{ID: bittorrent.PeerIDFromBytes([]byte(fmt.Sprintf("warmup-%013d", i))), Port: uint16(2000 + i%60000), IP: bittorrent.IP{IP: net.IP{10, 3, byte(i >> 8), byte(i)}, AddressFamily: bittorrent.IPv4}}
			if i%2 == 0 {
				req := &bittorrent.AnnounceRequest{InfoHash: c12IH3, Peer: wp, Left: 1, NumWant: 5, NumWantProvided: true}
				if ctx, resp, err := logic.Logic.HandleAnnounce(context.Background(), req); err == nil {
					logic.Logic.AfterAnnounce(ctx, req, resp)
				}
			} else {
				req := &bittorrent.ScrapeRequest{InfoHashes: []bittorrent.InfoHash{c12IH3}, AddressFamily: bittorrent.IPv4}
				if ctx, resp, err := logic.Logic.HandleScrape(context.Background(), req); err == nil {
					logic.Logic.AfterScrape(ctx, req, resp)
				}
			}
		}
		lg.mute(false)
	}
	before := countIH()

	oErr, oMsg, oInterval, oFilled, oDisclosed := int64(0), "", int64(0), false, false
	setErr := func(msg string, internalTexts ...string) {
		oErr, oMsg = 1, msg
		for _, t := range internalTexts {
			if msg == t {
				oErr, oMsg = 3, ""
			}
		}
	}
	switch via {
	case 0:
		if !scrape {
			req := &bittorrent.AnnounceRequest{InfoHash: c12IH, Peer: me, Left: 10, NumWant: 50, NumWantProvided: true,
				Event: []bittorrent.Event{bittorrent.None, bittorrent.Started, bittorrent.Stopped, bittorrent.Completed}[ev], EventProvided: ev != 0}
			ctx, resp, err := logic.HandleAnnounce(context.Background(), req)
			if err != nil {
				var ce bittorrent.ClientError
				if errors.As(err, &ce) {
					oErr, oMsg = 1, string(ce)
				} else {
					oErr = 3
				}
				oDisclosed = resp != nil
			} else {
				oInterval = int64(resp.Interval / time.Second)
				oFilled = resp.Complete == 2 && len(resp.IPv4Peers) == 2
				logic.AfterAnnounce(ctx, req, resp)
			}
		} else {
			req := &bittorrent.ScrapeRequest{InfoHashes: []bittorrent.InfoHash{c12IH}, AddressFamily: bittorrent.IPv4}
			ctx, resp, err := logic.HandleScrape(context.Background(), req)
			if err != nil {
				var ce bittorrent.ClientError
				if errors.As(err, &ce) {
					oErr, oMsg = 1, string(ce)
				} else {
					oErr = 3
				}
				oDisclosed = resp != nil
			} else {
				oInterval = baseSec
				oFilled = len(resp.Files) == 1 && resp.Files[0].Complete == 2
				logic.AfterScrape(ctx, req, resp)
			}
		}
		logic.wait()
	case 1:
		h, hstop := httpfe.VerifHandler(logic, httpfe.Config{Addr: "127.0.0.1:0", AnnounceRoutes: []string{"/announce"}, ScrapeRoutes: []string{"/scrape"}})
		defer hstop()
		uri := "/announce?info_hash=" + url.QueryEscape(string(c12IH[:])) + "&peer_id=announcer-0123456789&port=6881&left=10&downloaded=0&uploaded=0&compact=1&numwant=50" +
			[]string{"", "&event=started", "&event=stopped", "&event=completed"}[ev]
		if scrape {
			uri = "/scrape?info_hash=" + url.QueryEscape(string(c12IH[:]))
		}
		r := httptest.NewRequest("GET", uri, nil)
		r.RemoteAddr = "127.0.0.1:40000"
		r.RequestURI = uri
		w := httptest.NewRecorder()
		h.ServeHTTP(w, r)
		logic.wait()
		// the wire format itself is C08's subject; here chihaya's own decoder is good enough
		dv, derr := cbencode.Unmarshal(w.Body.Bytes())
		d, isDict := dv.(cbencode.Dict)
		if derr != nil || !isDict || w.Code != nethttp.StatusOK {
			oErr, oMsg, oDisclosed = 1, "undecodable body: "+w.Body.String(), true
			break
		}
		if fr, ok := d["failure reason"]; ok {
			setErr(fmt.Sprint(fr), "internal server error")
			oDisclosed = len(d) != 1
		} else if !scrape {
			oInterval, _ = d["interval"].(int64)
			peers, _ := d["peers"].(string)
			c, _ := d["complete"].(int64)
			oFilled = c == 2 && len(peers) == 12
		} else {
			oInterval = baseSec
			files, _ := d["files"].(cbencode.Dict)
			f, _ := files[string(c12IH[:])].(cbencode.Dict)
			c, _ := f["complete"].(int64)
			oFilled = len(files) == 1 && c == 2
		}
	case 2:
		f := udp.VerifNewOffline(logic, udp.Config{PrivateKey: c12Key, MaxClockSkew: time.Second})
		defer func() { <-f.Stop() }()
		src := net.IP{127, 0, 0, 1}
		cid := udp.NewConnectionID(src, time.Unix(0, c12Now), c12Key)
		preludeOK := true
		if overlap {
			src2 := net.IP{10, 7, 7, 7}
			var p2 bytes.Buffer
			p2.Write(udp.NewConnectionID(src2, time.Unix(0, c12Now), c12Key))
			binary.Write(&p2, binary.BigEndian, uint32(1))
			p2.Write([]byte{8, 8, 8, 8})
			p2.Write(c12IH2[:])
			p2.Write([]byte("prelude-client-54321"))
			binary.Write(&p2, binary.BigEndian, uint64(0))
			binary.Write(&p2, binary.BigEndian, uint64(3))
			binary.Write(&p2, binary.BigEndian, uint64(0))
			binary.Write(&p2, binary.BigEndian, uint32(0))
			p2.Write([]byte{0, 0, 0, 0})
			binary.Write(&p2, binary.BigEndian, uint32(0))
			binary.Write(&p2, binary.BigEndian, uint32(5))
			binary.Write(&p2, binary.BigEndian, uint16(7007))
			lg.mute(true)
			buf := make([]byte, 2048)
			n := copy(buf, p2.Bytes())
			d2, _, pan2, err2 := udp.VerifHandle(f, buf[:n], src2)
			for i := range buf { // serve() returns the packet buffer to its pool as soon as the handler is done
				buf[i] = 0
			}
			lg.mute(false)
			preludeOK = err2 == nil && pan2 == nil && len(d2) == 1 && len(d2[0]) >= 4 && binary.BigEndian.Uint32(d2[0][:4]) == 1
		}
		var pkt bytes.Buffer
		pkt.Write(cid)
		if !scrape {
			binary.Write(&pkt, binary.BigEndian, uint32(1))
			pkt.Write([]byte{9, 9, 9, 9})
			pkt.Write(c12IH[:])
			pkt.Write([]byte("announcer-0123456789"))
			binary.Write(&pkt, binary.BigEndian, uint64(0))
			binary.Write(&pkt, binary.BigEndian, uint64(10))
			binary.Write(&pkt, binary.BigEndian, uint64(0))
			binary.Write(&pkt, binary.BigEndian, []uint32{0, 2, 3, 1}[ev]) // BEP 15 event codes
			pkt.Write([]byte{0, 0, 0, 0})
			binary.Write(&pkt, binary.BigEndian, uint32(0))
			binary.Write(&pkt, binary.BigEndian, uint32(50))
			binary.Write(&pkt, binary.BigEndian, uint16(6881))
		} else {
			binary.Write(&pkt, binary.BigEndian, uint32(2))
			pkt.Write([]byte{9, 9, 9, 9})
			pkt.Write(c12IH[:])
		}
		dgs, _, pan, err := udp.VerifHandle(f, pkt.Bytes(), src)
		logic.wait()
		if overlap {
			// now let the prelude request's post-response processing run; it must apply the PRELUDE request
			close(logic.holdGate)
			select {
			case <-logic.holdDone:
			case <-time.After(5 * time.Second):
				preludeOK = false
			}
			found := false
			for _, e := range memory.VerifDump(real) {
				if e.InfoHash == c12IH2 && strings.HasPrefix(e.Key, "prelude-client-54321") {
					found = true
				}
			}
			if !found || !preludeOK {
				lg.add(902) // the other client's announce was not applied as itself
			}
		}
		if err != nil || pan != nil || len(dgs) != 1 || len(dgs[0]) < 8 {
			oErr, oMsg, oDisclosed = 1, fmt.Sprintf("unexpected datagrams: %d panic=%v err=%v", len(dgs), pan, err), true
			break
		}
		d := dgs[0]
		switch binary.BigEndian.Uint32(d[:4]) {
		case 3:
			msg := string(bytes.TrimRight(d[8:], "\x00"))
			setErr(msg, "internal error occurred")
		case 1:
			oInterval = int64(binary.BigEndian.Uint32(d[8:12]))
			oFilled = len(d) == 20+12 && binary.BigEndian.Uint32(d[16:20]) == 2
		case 2:
			oInterval = baseSec
			oFilled = len(d) == 8+12 && binary.BigEndian.Uint32(d[8:12]) == 2
		default:
			oErr, oMsg, oDisclosed = 1, "unexpected action", true
		}
	}
	applied := int64(countIH() - before)
	lg.mu.Lock()
	var tr []string
	for _, v := range lg.evs {
		tr = append(tr, fmt.Sprint(v))
	}
	evs := append([]int64{}, lg.evs...)
	lg.mu.Unlock()
	var cp, cq []string
	for _, s := range pre {
		cp = append(cp, s.coq())
	}
	for _, s := range post {
		cq = append(cq, s.coq())
	}
	coq := fmt.Sprintf("CChain %d %s %s %s %d %d %s %s %s %s %s %s", via, cBool(scrape), cList(cp), cList(cq), baseSec,
		oErr, cB([]byte(oMsg)), cList(tr), cZ(oInterval), cBool(oFilled), cZ(applied), cBool(oDisclosed))
	o.add(Case{Coq: coq, Kind: kind,
		In:  map[string]interface{}{"via": via, "scrape": scrape, "pre": pre, "post": post, "base": baseSec, "overlap": overlap, "ev": ev, "member": member, "warm": warm},
		Obs: map[string]interface{}{"err": oErr, "msg": oMsg, "trace": evs, "interval": oInterval, "filled": oFilled, "applied": applied, "disclosed": oDisclosed}})
}

func c12Replay(o *Out, in map[string]interface{}) error {
	if jStr(in["t"]) == "backlog" {
		c12Backlog(o, "replay", int(jInt(in["via"])), int(jInt(in["n"])))
		return nil
	}
	var pre, post []hkSpec
	if err := reJSON(in["pre"], &pre); err != nil {
		return err
	}
	if err := reJSON(in["post"], &post); err != nil {
		return err
	}
	c12RunW(o, "replay", int(jInt(in["via"])), jBool(in["scrape"]), pre, post, jInt(in["base"]), jBool(in["overlap"]), int(jInt(in["ev"])), int(jInt(in["member"])), int(jInt(in["warm"])))
	return nil
}

func c12Stream(o *Out, rng *rand.Rand, n int) {
	msgs := []string{"unapproved client", "unapproved torrent", "go away", "unapproved request: missing jwt"}
	gen := func(maxLen int, rejectBias int) []hkSpec {
		var hs []hkSpec
		for i := rng.Intn(maxLen + 1); i > 0; i-- {
			switch r := rng.Intn(12 + rejectBias); {
			case r < 4:
				hs = append(hs, hkSpec{K: "accept"})
			case r == 5:
				hs = append(hs, hkSpec{K: "skipswarm"})
			case r == 6:
				hs = append(hs, hkSpec{K: "skipresp"})
			case r == 7:
				hs = append(hs, hkSpec{K: "bump", D: int64(rng.Intn(100) + 1)})
			case r == 8:
				hs = append(hs, hkSpec{K: "tag", D: int64(rng.Intn(5))})
			case r == 4:
				hs = append(hs, hkSpec{K: "donectx"})
			case r == 9 || r == 12:
				hs = append(hs, hkSpec{K: "rejc", Msg: msgs[rng.Intn(len(msgs))], NilCtx: rng.Intn(2) == 0})
			case r == 10 || r == 13:
				hs = append(hs, hkSpec{K: "reji", NilCtx: rng.Intn(2) == 0})
			default:
				hs = append(hs, hkSpec{K: "accept"})
			}
		}
		return hs
	}
	// fixed corner cases first: no hooks; single rejecting hook; rejecting hook last/first; failing post-hook (F12)
	fixed := [][2][]hkSpec{
		{nil, nil},
		{{{K: "rejc", Msg: "go away"}}, nil},
		{{{K: "accept"}, {K: "rejc", Msg: "go away", NilCtx: true}, {K: "accept"}}, {{K: "accept"}}},
		{{{K: "reji", NilCtx: true}, {K: "accept"}}, nil},
		{{{K: "accept"}, {K: "reji"}, {K: "accept"}}, {{K: "accept"}}},
		{{{K: "accept"}}, {{K: "reji"}}},
		{{{K: "accept"}}, {{K: "accept"}, {K: "rejc", Msg: "go away"}, {K: "accept"}}},
		{{{K: "skipswarm"}}, {{K: "accept"}}},
		{{{K: "skipresp"}}, nil},
		{nil, {{K: "skipswarm"}}},
		{{{K: "donectx"}}, nil},
		{{{K: "accept"}}, {{K: "donectx"}, {K: "accept"}}},
		{{{K: "donectx"}, {K: "rejc", Msg: "go away"}}, nil},
	}
	for via := 0; via < 3; via++ {
		for _, sc := range []bool{false, true} {
			for _, f := range fixed {
				c12Run(o, "fixed", via, sc, f[0], f[1], 1800)
				if !sc {
					// a rejected request that asks to leave / to complete, from a peer that is a member
					for ev := 1; ev < 4; ev++ {
						c12RunV(o, "fixed-event", via, sc, f[0], f[1], 1800, false, ev, 1+(ev+via)%2)
					}
				}
				if via == 2 && !sc {
					c12RunO(o, "fixed-overlap", via, sc, f[0], f[1], 1800, true)
				}
			}
		}
	}
	// LONG chains (dozens of hooks): the rejecting one first, in the middle, last; none
	for via := 0; via < 3; via++ {
		for _, pos := range []int{-1, 0, 20, 39} {
			var pre []hkSpec
			for i := 0; i < 40; i++ {
				switch {
				case i == pos:
					pre = append(pre, hkSpec{K: "rejc", Msg: "go away", NilCtx: i%2 == 0})
				case i%7 == 3:
					pre = append(pre, hkSpec{K: "bump", D: int64(i)})
				case i%11 == 5:
					pre = append(pre, hkSpec{K: "tag", D: int64(i % 5)})
				default:
					pre = append(pre, hkSpec{K: "accept"})
				}
			}
			var post []hkSpec
			for i := 0; i < 30; i++ {
				post = append(post, hkSpec{K: "accept"})
			}
			c12RunV(o, "long-chain", via, false, pre, post, 1800, false, 2, 1)
			c12Run(o, "long-chain", via, true, pre, post, 1800)
		}
	}
	// the N-th request of a long run: the fixed chains again after 40, 100 and 300 earlier requests on the same Logic
	for via := 0; via < 3; via++ {
		for fi, f := range fixed {
			warm := []int{40, 100, 300}[(fi+via)%3]
			c12RunW(o, "after-many", via, false, f[0], f[1], 1800, false, 0, 0, warm)
			c12RunW(o, "after-many", via, true, f[0], f[1], 1800, false, 0, 0, warm)
		}
	}
	// many post-response runs outstanding at once
	for via := 1; via < 3; via++ {
		for _, k := range []int{3, 1500 + rng.Intn(700)} {
			c12Backlog(o, "backlog", via, k)
		}
		if n >= 2000 {
			c12Backlog(o, "backlog", via, 9000+rng.Intn(3000))
		}
	}
	for i := 0; i < n; i++ {
		c12RunV(o, "random", i%3, rng.Intn(4) == 0, gen(6, rng.Intn(3)), gen(4, 0), int64(rng.Intn(3600)+1), rng.Intn(3) == 0, rng.Intn(4), rng.Intn(3))
	}
}

// ---- backlog: MANY accepted requests whose post-response processing is still pending at once (a post-hook that
// blocks until released); after the release every one of them must have been applied to the swarm exactly once.
// "Exactly once" must not depend on how many post-response runs are outstanding.

type c12GateHook struct {
	gate    chan struct{}
	entered chan struct{}
}

func (g *c12GateHook) HandleAnnounce(ctx context.Context, _ *bittorrent.AnnounceRequest, _ *bittorrent.AnnounceResponse) (context.Context, error) {
	select {
	case g.entered <- struct{}{}:
	default:
	}
	<-g.gate
	return ctx, nil
}
func (g *c12GateHook) HandleScrape(ctx context.Context, _ *bittorrent.ScrapeRequest, _ *bittorrent.ScrapeResponse) (context.Context, error) {
	return ctx, nil
}

func c12Backlog(o *Out, kind string, via, n int) {
	timecache.VerifPin(c12Now)
	huge := 1000 * time.Hour
	real, err := memory.New(memory.Config{ShardCount: 4, GarbageCollectionInterval: huge, PrometheusReportingInterval: huge, PeerLifetime: huge})
	if err != nil {
		panic(err)
	}
	defer func() { <-real.Stop() }()
	g := &c12GateHook{gate: make(chan struct{}), entered: make(chan struct{}, n+8)}
	logic := middleware.NewLogic(middleware.ResponseConfig{AnnounceInterval: 30 * time.Minute, MinAnnounceInterval: time.Second}, real, nil, []middleware.Hook{g})
	answered := 0
	var stopFE func()
	switch via {
	case 1:
		h, hstop := httpfe.VerifHandler(logic, httpfe.Config{Addr: "127.0.0.1:0", AnnounceRoutes: []string{"/announce"}, ScrapeRoutes: []string{"/scrape"}})
		stopFE = hstop
		for i := 0; i < n; i++ {
			uri := "/announce?info_hash=" + url.QueryEscape(string(c12IH[:])) + fmt.Sprintf("&peer_id=backlog-%012d&port=%d&left=10&downloaded=0&uploaded=0&compact=1&numwant=0", i, 1024+i%60000)
			r := httptest.NewRequest("GET", uri, nil)
			w := httptest.NewRecorder()
			h.ServeHTTP(w, r)
			if w.Code == 200 && !bytes.Contains(w.Body.Bytes(), []byte("failure reason")) {
				answered++
			}
		}
	default:
		f := udp.VerifNewOffline(logic, udp.Config{PrivateKey: c12Key, MaxClockSkew: time.Second})
		stopFE = func() { <-f.Stop() }
		src := net.IP{127, 0, 0, 1}
		cid := udp.NewConnectionID(src, time.Unix(0, c12Now), c12Key)
		for i := 0; i < n; i++ {
			var pkt bytes.Buffer
			pkt.Write(cid)
			binary.Write(&pkt, binary.BigEndian, uint32(1))
			pkt.Write([]byte{9, 9, byte(i >> 8), byte(i)})
			pkt.Write(c12IH[:])
			pkt.Write([]byte(fmt.Sprintf("backlog-%012d", i)))
			binary.Write(&pkt, binary.BigEndian, uint64(0))
			binary.Write(&pkt, binary.BigEndian, uint64(10))
			binary.Write(&pkt, binary.BigEndian, uint64(0))
			binary.Write(&pkt, binary.BigEndian, uint32(0))
			pkt.Write([]byte{0, 0, 0, 0})
			binary.Write(&pkt, binary.BigEndian, uint32(0))
			binary.Write(&pkt, binary.BigEndian, uint32(0))
			binary.Write(&pkt, binary.BigEndian, uint16(1024+i%60000))
			dgs, _, pan, err := udp.VerifHandle(f, pkt.Bytes(), src)
			if err == nil && pan == nil && len(dgs) == 1 && len(dgs[0]) >= 4 && binary.BigEndian.Uint32(dgs[0][:4]) == 1 {
				answered++
			}
		}
	}
	close(g.gate)
	stopFE() // waits for the post-response processing (fix F7)
	applied := 0
	for _, d := range memory.VerifDump(real) {
		if d.InfoHash == c12IH && !d.Seeder {
			applied++
		}
	}
	o.add(Case{Kind: kind, Coq: fmt.Sprintf("CBacklog %d %d %d %d", via, n, answered, applied),
		In:  map[string]interface{}{"t": "backlog", "via": via, "n": n},
		Obs: map[string]interface{}{"answered": answered, "applied": applied}})
}
