(* Correspondence glue for operation histories against a peer store
   (properties C01, C02, C03, C05, C17 share the history format; each has its
   own checker selecting the clauses it owns). *)
From Chihaya Require Export Glue.Pack Model.Hooks.
Open Scope Z_scope.

Inductive skind := KMem (shards : Z) | KRedis (instances : Z).

(* o_err: 0 nil, 1 ErrResourceDoesNotExist, 2 other client error, 3 internal error, 4 panic *)
Inductive hop :=
| HClock (ns : Z)
| HAnn (ih : list Z) (v6 : bool) (pid ip : list Z) (port lft ev nw : Z)
       (o_err complete incomplete : Z) (o_peers : list (list Z)) (o_lists : Z)
| HScrape (v6 : bool) (ihs : list (list Z)) (o : list (Z * Z))
| HStore (which : Z) (ih : list Z) (v6 : bool) (pid ip : list Z) (port : Z) (o_err : Z)
| HPeers (ih : list Z) (v6 : bool) (pid ip : list Z) (port : Z) (seeder : bool) (nw : Z)
         (o_err : Z) (o_peers : list (list Z))
| HGC (cutoff : Z)
  (* gauges after populateProm (infohashes, seeders, leechers); recount of what is stored
     (swarms [redis: registered seeder keys], seeder memberships, leecher memberships);
     memory only: per shard (numSeeders, numLeechers, recounted seeders, recounted leechers) *)
| HTotals (o_prom o_recount : Z * Z * Z) (o_shards : list (Z * Z * Z * Z))
  (* every stored membership: infohash, family, role, key, mtime *)
| HDump (entries : list (list Z * bool * bool * list Z * Z)).

Definition hcase := (skind * list hop)%type.

Definition ev_of (z : Z) : event :=
  if z =? 1 then EvStarted else if z =? 2 then EvStopped else if z =? 3 then EvCompleted else EvNone.

Definition mk_ann ih v6 pid ip port lft ev nw : ann :=
  {| a_ih := ih; a_v6 := v6; a_peer := {| p_id := pid; p_ip := ip; p_port := port |};
     a_left := lft; a_event := ev_of ev; a_numwant := nw |}.

Definition swkey_eqb (a b : list Z * bool) : bool := bytes_eqb a.1 b.1 && Bool.eqb a.2 b.2.
Definition note (k : list Z * bool) (seen : list (list Z * bool)) : list (list Z * bool) :=
  if existsb (swkey_eqb k) seen then seen else k :: seen.

(* is the key's address of the family of the swarm it is stored in? *)
Definition key_family_ok (v6 : bool) (k : list Z) : bool :=
  match decode_key k with
  | Some (_, V4) => negb v6 && Nat.eqb (length k) 26
  | Some (_, V6) => v6
  | None => false
  end.

Section Run.
  Context {S : Type} (I : store_if S).

  Record rst := { r_st : S; r_clock : Z; r_seen : list (list Z * bool); r_gc : bool }.

  Definition members_match (st : S) (entries : list (list Z * bool * bool * list Z * Z)) (k : list Z * bool) : bool :=
    let mine := List.filter (λ e, swkey_eqb (e.1.1.1.1, e.1.1.1.2) k) entries in
    let es := List.filter (λ e, e.1.1.2) mine in
    let el := List.filter (λ e, negb e.1.1.2) mine in
    let sw := default empty_swarm (st_members I k.1 k.2 st) in
    Nat.eqb (length es) (size (seeders sw)) && Nat.eqb (length el) (size (leechers sw)) &&
    forallb (λ e, match seeders sw !! e.1.2 with Some t => t =? e.2 | None => false end) es &&
    forallb (λ e, match leechers sw !! e.1.2 with Some t => t =? e.2 | None => false end) el.
  (* same, ignoring times *)
  Definition members_match_nt (st : S) (entries : list (list Z * bool * bool * list Z * Z)) (k : list Z * bool) : bool :=
    let mine := List.filter (λ e, swkey_eqb (e.1.1.1.1, e.1.1.1.2) k) entries in
    let es := List.filter (λ e, e.1.1.2) mine in
    let el := List.filter (λ e, negb e.1.1.2) mine in
    let sw := default empty_swarm (st_members I k.1 k.2 st) in
    Nat.eqb (length es) (size (seeders sw)) && Nat.eqb (length el) (size (leechers sw)) &&
    forallb (λ e, bool_decide (is_Some (seeders sw !! e.1.2))) es &&
    forallb (λ e, bool_decide (is_Some (leechers sw !! e.1.2))) el.

  Definition step (x : rst) (o : hop) : rst * list Z :=
    let st := r_st x in
    match o with
    | HClock ns => ({| r_st := st; r_clock := ns; r_seen := r_seen x; r_gc := false |}, [])
    | HAnn ih v6 pid ip port lft ev nw o_err c i o_peers o_lists =>
      let a := mk_ann ih v6 pid ip port lft ev nw in
      let st' := swarm_interaction I a (r_clock x) st in
      let x' := {| r_st := st'; r_clock := r_clock x; r_seen := note (ih, v6) (r_seen x); r_gc := false |} in
      if negb (o_err =? 0) then (x', [15]) else
      let rv := response_verdict I a st c i o_peers in
      let fam := forallb (key_family_ok v6) o_peers in
      let lists := o_lists =? (if v6 then 2 else 1) in
      (x', (if rv =? 0 then [] else [rv]) ++ (if fam then [] else [31]) ++ (if lists then [] else [32]))
    | HScrape v6 ihs o =>
      let want := map (λ ih, st_scrape I ih v6 st) ihs in
      (x, if bool_decide (want = o) then [] else [12])
    | HStore which ih v6 pid ip port o_err =>
      let pk := peer_key {| p_id := pid; p_ip := ip; p_port := port |} in
      let '(st', ok) :=
        if which =? 1 then (st_put_seeder I ih v6 pk (r_clock x) st, true)
        else if which =? 2 then st_del_seeder I ih v6 pk st
        else if which =? 3 then (st_put_leecher I ih v6 pk (r_clock x) st, true)
        else if which =? 4 then st_del_leecher I ih v6 pk st
        else (st_graduate I ih v6 pk (r_clock x) st, true) in
      ({| r_st := st'; r_clock := r_clock x; r_seen := note (ih, v6) (r_seen x); r_gc := false |},
       if o_err =? (if ok then 0 else 1) then [] else if 3 <=? o_err then [15] else [114])
    | HPeers ih v6 pid ip port seeder nw o_err o_peers =>
      let pk := peer_key {| p_id := pid; p_ip := ip; p_port := port |} in
      let x' := {| r_st := st; r_clock := r_clock x; r_seen := note (ih, v6) (r_seen x); r_gc := r_gc x |} in
      match st_members I ih v6 st with
      | None => (x', if o_err =? 1 then [] else if r_gc x then [52] else [16])
      | Some sw =>
        let Sk := map fst (map_to_list (seeders sw)) in
        let Lk := map fst (map_to_list (leechers sw)) in
        (x', if negb (o_err =? 0) then [16]
             else (if negb (sel_size_ok nw o_peers) then [21]
                   else if negb (sel_members_ok Sk Lk seeder o_peers) then
                          [if seeder && existsb (λ k, kmem k Sk && negb (kmem k Lk)) o_peers then 25 else 22]
                   else if negb (sel_no_self Sk pk seeder o_peers) then [24]
                   else if negb (sel_split_ok Sk Lk pk seeder nw o_peers) then [23] else [])
                  ++ (if forallb (key_family_ok v6) o_peers then [] else [31]))
      end
    | HGC cutoff =>
      ({| r_st := st_gc I cutoff st; r_clock := r_clock x; r_seen := r_seen x; r_gc := true |}, [])
    | HTotals o_prom o_recount o_shards =>
      let '(pi, ps, pl) := o_prom in
      let '(ri, rs, rl) := o_recount in
      let wrapped := forallb (λ v, (0 <=? v) && (v <? 2 ^ 62)) [pi; ps; pl] in
      (x, (if (pi =? ri) && (ps =? rs) && (pl =? rl) then [] else [71]) ++
          (if forallb (λ '(a, b, c, d), (a =? c) && (b =? d)) o_shards then [] else [72]) ++
          (if wrapped then [] else [73]) ++
          (if bool_decide (st_prom I st = o_recount) then [] else [171]))
    | HDump entries =>
      let seen := r_seen x in
      let known := forallb (λ e, existsb (swkey_eqb (e.1.1.1.1, e.1.1.1.2)) seen) entries in
      let exact := forallb (members_match st entries) seen in
      let exact_nt := forallb (members_match_nt st entries) seen in
      let fam := forallb (λ e, key_family_ok e.1.1.1.2 e.1.2) entries in
      (x, (if known && exact then []
           else if r_gc x then [51] else if known && exact_nt then [53] else [13]) ++
          (if fam then [] else [33]))
    end.

  Fixpoint run (i : Z) (x : rst) (ops : list hop) : list (Z * Z) :=
    match ops with
    | [] => []
    | o :: r => let '(x', rs) := step x o in map (λ c, (i, c)) rs ++ run (i + 1) x' r
    end.
End Run.

Definition run_case (c : hcase) : list (Z * Z) :=
  match c.1 with
  | KMem n =>
    run (mem_if (Z.to_nat n)) 0 {| r_st := mem_init (Z.to_nat n); r_clock := 0; r_seen := []; r_gc := false |} c.2
  | KRedis _ =>
    run red_if 0 {| r_st := redis_init; r_clock := 0; r_seen := []; r_gc := false |} c.2
  end.
(* and against the specification itself: the abstract machine of C01 *)
Definition run_case_spec (c : hcase) : list (Z * Z) :=
  run spec_if 0 {| r_st := spec_init; r_clock := 0; r_seen := []; r_gc := false |} c.2.

Definition first_in (codes : list Z) (also_div : bool) (l : list (Z * Z)) : Z * Z :=
  match List.filter (λ p, existsb (Z.eqb p.2) codes || (also_div && (100 <=? p.2))) l with
  | [] => (0, 0)
  | p :: _ => p
  end.
Definition kind_tag (c : hcase) : Z := match c.1 with KMem n => n | KRedis k => 100000 + k end.
(* verdict: tag = store kind on success, index of the failing operation on failure *)
Definition chk_with (codes : list Z) (also_div : bool) (c : hcase) : verdict :=
  let '(i, r) := first_in codes also_div (run_case c ++ List.filter (λ p, p.2 <? 100) (run_case_spec c)) in
  if r =? 0 then (kind_tag c, 0) else (i, r).

Definition chk01 := chk_with [11; 12; 13; 15; 16] true.
Definition chk02 := chk_with [21; 22; 23; 24; 25; 26] false.
Definition chk03 := chk_with [31; 32; 33] false.
Definition chk05 := chk_with [51; 52; 53] false.
Definition chk17 := chk_with [71; 72; 73; 171] false.
Definition explainH (c : hcase) : list (Z * Z) * list (Z * Z) := (run_case c, run_case_spec c).
