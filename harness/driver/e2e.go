//go:build verif && (verif_e2e || verif_conc)

package main

// End-to-end histories: arbitrary datagrams and HTTP requests through the real
// frontends (udp handleRequest via VerifHandle, the http router via
// VerifHandler), the real middleware.Logic and a real memory store, with the
// clock pinned.  A wrapping TrackerLogic records what the logic returned and
// lets the driver wait for the frontends' `go After*(...)`.

import (
	"bytes"
	"context"
	"crypto/hmac"
	"crypto/sha256"
	"encoding/binary"
	"fmt"
	"math/rand"
	"net"
	"net/http/httptest"
	"net/url"
	"sort"
	"strings"
	"sync"
	"time"

	"github.com/chihaya/chihaya/bittorrent"
	httpfe "github.com/chihaya/chihaya/frontend/http"
	"github.com/chihaya/chihaya/frontend/udp"
	"github.com/chihaya/chihaya/middleware"
	"github.com/chihaya/chihaya/pkg/timecache"
	"github.com/chihaya/chihaya/storage/memory"
)

func init() {
	d := &propDef{glue: "GE", ctype: "ecase", chk: "chkE13", stream: e2eStream, replay: e2eReplay, shard: 6,
		prelude: "From Chihaya Require Import Glue.G06 Glue.G10."}
	props["E2E"], props["C13"] = d, d
}

type eCfg struct {
	Key       string `json:"key"`
	SkewNs    int64  `json:"skew"`
	USpoof    bool   `json:"uspoof"`
	HSpoof    bool   `json:"hspoof"`
	HdrName   string `json:"hdrname"`
	MaxNW     uint32 `json:"maxnw"`
	DefNW     uint32 `json:"defnw"`
	MaxScrape uint32 `json:"maxscrape"`
	Interval  int64  `json:"interval"`
	MinIntv   int64  `json:"min_interval"`
	// request timing enabled in both frontends (no observable effect on any response; the branch exists in the code)
	Timing bool `json:"timing,omitempty"`
	// Omit: which of max_numwant / default_numwant / max_scrape_infohashes the configuration leaves out (bits 1, 2, 4):
	// the frontends fill in their defaults (Config.Validate) - and must leave every other option alone doing so
	Omit int `json:"omit,omitempty"`
	// SlowMs: the tracker logic takes this long per request while the HTTP frontend is configured with read/write timeouts
	// of SlowMs+10 ms: however long the logic takes, the response that is written is the bencoded answer
	SlowMs int `json:"slow_ms,omitempty"`
}

type eReq struct {
	T      string `json:"t"` // clock udp hann hscr dump
	Ns     int64  `json:"ns,omitempty"`
	IP     string `json:"ip,omitempty"`     // udp source (hex)
	Packet string `json:"packet,omitempty"` // hex
	URI    string `json:"uri,omitempty"`    // hex
	Remote string `json:"remote,omitempty"`
	HdrVal string `json:"hdrval,omitempty"`
	// generator hint: the connection id is to be replaced by a valid one at execution time
	FixConn bool `json:"fixconn,omitempty"`
	// the post-response hook of this (UDP) request stays pending while the NEXT request is handled (it is released,
	// together with that request's own hook, only afterwards).  The generator makes the next request concern
	// another swarm, so the order in which the two hooks run does not show in any observable.
	Hold bool `json:"hold,omitempty"`
}

type eRec struct {
	mu      sync.Mutex
	kind    string // "", "ann", "scr", "err"
	c, i    uint32
	peers   []bittorrent.Peer
	iv, miv int64
	v4n     int
	v6n     int
	files   [][2]uint32
	pending int
	done    chan struct{}
	gate    chan struct{} // After* waits here until the driver has recycled the request buffer
	inner   *middleware.Logic
	delay   time.Duration // a slow tracker logic (a slow hook, a busy store)
}

func (l *eRec) HandleAnnounce(ctx context.Context, r *bittorrent.AnnounceRequest) (context.Context, *bittorrent.AnnounceResponse, error) {
	if l.delay > 0 {
		time.Sleep(l.delay)
	}
	c, resp, err := l.inner.HandleAnnounce(ctx, r)
	l.mu.Lock()
	defer l.mu.Unlock()
	if err != nil {
		l.kind = "err"
		return c, resp, err
	}
	l.kind, l.c, l.i, l.iv, l.miv = "ann", resp.Complete, resp.Incomplete, int64(resp.Interval), int64(resp.MinInterval)
	l.peers = append(append([]bittorrent.Peer{}, resp.IPv4Peers...), resp.IPv6Peers...)
	l.v4n, l.v6n = len(resp.IPv4Peers), len(resp.IPv6Peers)
	l.pending++
	return c, resp, err
}
func (l *eRec) AfterAnnounce(ctx context.Context, r *bittorrent.AnnounceRequest, resp *bittorrent.AnnounceResponse) {
	defer func() { _ = recover(); l.done <- struct{}{} }()
	<-l.gate
	l.inner.AfterAnnounce(ctx, r, resp)
}
func (l *eRec) HandleScrape(ctx context.Context, r *bittorrent.ScrapeRequest) (context.Context, *bittorrent.ScrapeResponse, error) {
	if l.delay > 0 {
		time.Sleep(l.delay)
	}
	c, resp, err := l.inner.HandleScrape(ctx, r)
	l.mu.Lock()
	defer l.mu.Unlock()
	if err != nil {
		l.kind = "err"
		return c, resp, err
	}
	l.kind = "scr"
	l.files = nil
	for _, f := range resp.Files {
		l.files = append(l.files, [2]uint32{f.Complete, f.Incomplete})
	}
	l.pending++
	return c, resp, err
}
func (l *eRec) AfterScrape(ctx context.Context, r *bittorrent.ScrapeRequest, resp *bittorrent.ScrapeResponse) {
	defer func() { _ = recover(); l.done <- struct{}{} }()
	<-l.gate
	l.inner.AfterScrape(ctx, r, resp)
}
func (l *eRec) reset() {
	l.mu.Lock()
	l.kind, l.peers, l.files = "", nil, nil
	l.mu.Unlock()
}
func (l *eRec) wait() bool {
	l.mu.Lock()
	n := l.pending
	l.pending = 0
	l.mu.Unlock()
	for ; n > 0; n-- {
		select {
		case <-l.done:
		case <-time.After(wedgeLimit):
			return false
		}
	}
	return true
}
func (l *eRec) coq() (string, map[string]interface{}) {
	l.mu.Lock()
	defer l.mu.Unlock()
	switch l.kind {
	case "ann":
		var ks []string
		var jk []string
		for _, p := range l.peers {
			b := make([]byte, 22+len(p.IP.IP))
			copy(b, p.ID[:])
			binary.BigEndian.PutUint16(b[20:22], p.Port)
			copy(b[22:], p.IP.IP)
			ks = append(ks, cB(b))
			jk = append(jk, hx(b))
		}
		return fmt.Sprintf("(LAnn %d %d %s %s %s %d %d)", l.c, l.i, cList(ks), cZ(l.iv), cZ(l.miv), l.v4n, l.v6n),
			map[string]interface{}{"logic": "announce", "complete": l.c, "incomplete": l.i, "peers": jk}
	case "scr":
		var fs []string
		for _, f := range l.files {
			fs = append(fs, fmt.Sprintf("(%d, %d)", f[0], f[1]))
		}
		return "(LScr " + cList(fs) + ")", map[string]interface{}{"logic": "scrape", "files": l.files}
	case "err":
		return "LErr", map[string]interface{}{"logic": "error"}
	}
	return "LNone", map[string]interface{}{"logic": "none"}
}

func e2eMac(k, m []byte) []byte {
	h := hmac.New(sha256.New, k)
	h.Write(m)
	return h.Sum(nil)
}

func e2eIPCands(uri, hdrval, host string) []string {
	set := map[string]bool{hdrval: true, host: true}
	if i := strings.IndexByte(uri, '?'); i >= 0 {
		for _, seg := range strings.FieldsFunc(uri[i+1:], func(r rune) bool { return r == '&' || r == ';' }) {
			k, v := seg, ""
			if j := strings.IndexByte(seg, '='); j >= 0 {
				k, v = seg[:j], seg[j+1:]
			}
			ku, err1 := url.QueryUnescape(k)
			vu, err2 := url.QueryUnescape(v)
			if err1 != nil || err2 != nil {
				continue
			}
			switch strings.ToLower(ku) {
			case "ip", "ipv4", "ipv6":
				set[vu] = true
			}
		}
	}
	var out []string
	for s := range set {
		out = append(out, s)
	}
	sort.Strings(out)
	return out
}

func e2eRun(o *Out, kind string, cfg eCfg, reqs []eReq) {
	huge := 1000 * time.Hour
	store, err := memory.New(memory.Config{ShardCount: 2, GarbageCollectionInterval: huge, PrometheusReportingInterval: huge, PeerLifetime: 5 * time.Minute})
	if err != nil {
		panic(err)
	}
	rec := &eRec{done: make(chan struct{}, 16), delay: time.Duration(cfg.SlowMs) * time.Millisecond}
	var hto time.Duration
	if cfg.SlowMs > 0 {
		hto = time.Duration(cfg.SlowMs+10) * time.Millisecond
	}
	rec.inner = middleware.NewLogic(middleware.ResponseConfig{AnnounceInterval: time.Duration(cfg.Interval), MinAnnounceInterval: time.Duration(cfg.MinIntv)}, store, nil, nil)
	// what the configuration FILE says: the omitted numeric options are zero there; cfg carries the defaults the model works with
	fileNW, fileDef, fileScr := cfg.MaxNW, cfg.DefNW, cfg.MaxScrape
	if cfg.Omit&1 != 0 {
		fileNW = 0
	}
	if cfg.Omit&2 != 0 {
		fileDef = 0
	}
	if cfg.Omit&4 != 0 {
		fileScr = 0
	}
	uf := udp.VerifNewOffline(rec, udp.Config{PrivateKey: cfg.Key, MaxClockSkew: time.Duration(cfg.SkewNs), EnableRequestTiming: cfg.Timing,
		ParseOptions: udp.ParseOptions{AllowIPSpoofing: cfg.USpoof, MaxNumWant: fileNW, DefaultNumWant: fileDef, MaxScrapeInfoHashes: fileScr}})
	hh, hstop := httpfe.VerifHandler(rec, httpfe.Config{Addr: "127.0.0.1:0", ReadTimeout: hto, WriteTimeout: hto, IdleTimeout: hto, EnableRequestTiming: cfg.Timing, AnnounceRoutes: []string{"/announce", "/a/:k/announce"}, ScrapeRoutes: []string{"/scrape"},
		ParseOptions: httpfe.ParseOptions{AllowIPSpoofing: cfg.HSpoof, RealIPHeader: cfg.HdrName, MaxNumWant: fileNW, DefaultNumWant: fileDef, MaxScrapeInfoHashes: fileScr}})
	clock := int64(0)
	var terms []string
	var jobs []interface{}
	for idx := range reqs {
		r := &reqs[idx]
		rec.reset()
		if idx == 0 || !reqs[idx-1].Hold {
			rec.gate = make(chan struct{})
		}
		obs := map[string]interface{}{}
		cancel := wedgeWatch(wedgeLimit, fmt.Sprintf("request %d (%s) of an end-to-end history", idx, r.T), func() map[string]interface{} {
			var jr []interface{}
			for _, q := range reqs[:idx+1] {
				jr = append(jr, q)
			}
			return map[string]interface{}{"cfg": cfg, "reqs": jr}
		})
		switch r.T {
		case "clock":
			clock = r.Ns
			timecache.VerifPin(clock)
			terms = append(terms, fmt.Sprintf("EClock %s", cZ(r.Ns)))
		case "gc":
			// one expiry pass of the store between two requests ("every reachable store state")
			func() {
				defer func() {
					if pv := recover(); pv != nil {
						obs["panic"], obs["panic_value"] = true, fmt.Sprint(pv)
					}
				}()
				_ = memory.VerifGC(store, r.Ns)
			}()
			terms = append(terms, fmt.Sprintf("EGc %s", cZ(r.Ns)))
		case "udp":
			ip := unhx(r.IP)
			pkt := unhx(r.Packet)
			if r.FixConn && len(pkt) >= 16 {
				copy(pkt[0:8], udp.NewConnectionID(net.IP(ip), time.Unix(0, clock), cfg.Key))
				r.Packet, r.FixConn = hx(pkt), false
			}
			// serve() hands handleRequest a pooled buffer and returns it to the pool (zeroed) as soon as
			// handleRequest returns, while `go AfterAnnounce` may still be pending: reproduce exactly that order
			buf := make([]byte, 2048)
			copy(buf, pkt)
			dgs, _, pan, herr := udp.VerifHandle(uf, buf[:len(pkt)], append(net.IP{}, ip...))
			if herr != nil {
				panic(herr)
			}
			for i := range buf {
				buf[i] = 0
			}
			// Hold: keep this request's post-response hook pending across the next request
			r.Hold = r.Hold && idx+1 < len(reqs) && reqs[idx+1].T == "udp"
			if !r.Hold {
				close(rec.gate)
				if !rec.wait() {
					var jr []interface{}
					for _, q := range reqs[:idx+1] {
						jr = append(jr, q)
					}
					wedgeFail(fmt.Sprintf("the post-response hook of request %d (%s) of an end-to-end history did not finish within %v", idx, r.T, wedgeLimit),
						map[string]interface{}{"cfg": cfg, "reqs": jr})
				}
			}
			var macs []string
			add := func(m []byte) {
				macs = append(macs, fmt.Sprintf("(%s, %s, %s)", cB([]byte(cfg.Key)), cB(m), cB(e2eMac([]byte(cfg.Key), m))))
			}
			ts := make([]byte, 4)
			binary.BigEndian.PutUint32(ts, uint32(time.Unix(0, clock).Unix()))
			add(append(ts, ip...))
			if len(pkt) >= 16 {
				add(append(append([]byte{}, pkt[0:4]...), ip...))
			}
			var ds []string
			var jd []string
			for _, d := range dgs {
				ds = append(ds, cB(d))
				jd = append(jd, hx(d))
			}
			lc, lj := rec.coq()
			obs["panic"], obs["datagrams"], obs["logic"] = pan != nil, jd, lj
			if pan != nil {
				obs["panic_value"] = fmt.Sprint(pan)
			}
			terms = append(terms, fmt.Sprintf("EUdp %s %s %s %s %s %s", cB(ip), cB(pkt), cList(macs), cBool(pan != nil), cList(ds), lc))
		case "hann", "hscr":
			uri := string(unhx(r.URI))
			hr := httptest.NewRequest("GET", "/x", nil)
			hr.RequestURI = uri
			if u, perr := url.ParseRequestURI(uri); perr == nil {
				hr.URL = u
			} else {
				hr.URL = &url.URL{Path: "/announce"}
				if r.T == "hscr" {
					hr.URL.Path = "/scrape"
				}
			}
			// the router dispatches on URL.Path; the parsers read RequestURI.  Keep both routes reachable
			// even for URIs net/url would reject, by routing on the request type.
			if r.T == "hann" && !strings.HasSuffix(hr.URL.Path, "/announce") {
				hr.URL.Path = "/announce"
			}
			if r.T == "hscr" && hr.URL.Path != "/scrape" {
				hr.URL.Path = "/scrape"
			}
			hr.RemoteAddr = r.Remote
			hdrval := ""
			if r.HdrVal != "" {
				hr.Header["X-Real-Ip"] = []string{r.HdrVal}
			}
			if cfg.HdrName != "" {
				hdrval = hr.Header.Get(cfg.HdrName)
			}
			w := httptest.NewRecorder()
			var pan interface{}
			func() {
				defer func() { pan = recover() }()
				hh.ServeHTTP(w, hr)
			}()
			close(rec.gate)
			if !rec.wait() {
				var jr []interface{}
				for _, q := range reqs[:idx+1] {
					jr = append(jr, q)
				}
				wedgeFail(fmt.Sprintf("the post-response hook of request %d (%s) of an end-to-end history did not finish within %v", idx, r.T, wedgeLimit),
					map[string]interface{}{"cfg": cfg, "reqs": jr})
			}
			host, _, splitErr := net.SplitHostPort(r.Remote)
			var ips []string
			for _, s := range e2eIPCands(uri, hdrval, host) {
				ip := net.ParseIP(s)
				ips = append(ips, "("+cB([]byte(s))+", "+cOpt(ip != nil, cB(ip))+")")
			}
			lc, lj := rec.coq()
			body := w.Body.Bytes()
			obs["panic"], obs["body"], obs["logic"], obs["status"] = pan != nil, string(body), lj, w.Code
			if r.T == "hann" {
				terms = append(terms, fmt.Sprintf("EHttpAnn %s %s %s %s %s %s %s %s", cB([]byte(uri)), cB([]byte(r.Remote)), cB([]byte(hdrval)), cB([]byte(host)),
					cList(ips), cBool(pan != nil), cB(body), lc))
			} else {
				terms = append(terms, fmt.Sprintf("EHttpScr %s %s %s %s %s %s %s %s", cB([]byte(uri)), cB([]byte(r.Remote)), cB([]byte(host)), cBool(splitErr == nil),
					cList(ips), cBool(pan != nil), cB(body), lc))
			}
		case "dump":
			half := memory.VerifShardCount(store) / 2
			type ent struct {
				ih     string
				v6, sd bool
				key    string
				mt     int64
			}
			var es []ent
			for _, d := range memory.VerifDump(store) {
				es = append(es, ent{string(d.InfoHash[:]), d.Shard >= half, d.Seeder, d.Key, d.MTime})
			}
			sort.Slice(es, func(i, j int) bool {
				a, b := es[i], es[j]
				if a.ih != b.ih {
					return a.ih < b.ih
				}
				if a.v6 != b.v6 {
					return !a.v6
				}
				if a.sd != b.sd {
					return a.sd
				}
				return a.key < b.key
			})
			var items []string
			for _, x := range es {
				items = append(items, fmt.Sprintf("(%s, %s, %s, %s, %s)", cB([]byte(x.ih)), cBool(x.v6), cBool(x.sd), cB([]byte(x.key)), cZ(x.mt)))
			}
			obs["entries"] = len(es)
			terms = append(terms, "EDump "+cList(items))
		}
		jobs = append(jobs, obs)
		cancel()
	}
	cancelStop := wedgeWatch(wedgeLimit, "stopping the store after an end-to-end history", func() map[string]interface{} {
		var jr []interface{}
		for _, q := range reqs {
			jr = append(jr, q)
		}
		return map[string]interface{}{"cfg": cfg, "reqs": jr}
	})
	<-store.Stop()
	<-uf.Stop()
	hstop()
	cancelStop()
	cc := fmt.Sprintf("{| e_key := %s; e_skew := %s; e_uspoof := %s; e_hspoof := %s; e_hdrname := %s; e_maxnw := %d; e_defnw := %d; e_maxscrape := %d; e_interval := %s; e_min_interval := %s |}",
		cB([]byte(cfg.Key)), cZ(cfg.SkewNs), cBool(cfg.USpoof), cBool(cfg.HSpoof), cB([]byte(cfg.HdrName)), cfg.MaxNW, cfg.DefNW, cfg.MaxScrape, cZ(cfg.Interval), cZ(cfg.MinIntv))
	var jr []interface{}
	for _, r := range reqs {
		jr = append(jr, r)
	}
	o.add(Case{Coq: fmt.Sprintf("(%s, [\n  %s])", cc, strings.Join(terms, ";\n  ")), Kind: kind,
		In: map[string]interface{}{"cfg": cfg, "reqs": jr}, Obs: map[string]interface{}{"reqs": jobs}})
}

func e2eReplay(o *Out, in map[string]interface{}) error {
	var cfg eCfg
	var reqs []eReq
	if err := reJSON(in["cfg"], &cfg); err != nil {
		return err
	}
	if err := reJSON(in["reqs"], &reqs); err != nil {
		return err
	}
	e2eRun(o, "replay", cfg, reqs)
	return nil
}

// ---- generation

type e2ePeer struct {
	id   []byte
	src  []byte // datagram source / http remote
	port uint16
}

func e2eAnnouncePacket(rng *rand.Rand, v6action bool, ih, pid []byte, left uint64, event uint32, ipField []byte, nw uint32, port uint16, opts []byte) []byte {
	var b bytes.Buffer
	b.Write(make([]byte, 8)) // connection id, fixed at execution time
	a := uint32(1)
	if v6action {
		a = 4
	}
	binary.Write(&b, binary.BigEndian, a)
	tx := make([]byte, 4)
	rng.Read(tx)
	b.Write(tx)
	b.Write(ih)
	b.Write(pid)
	binary.Write(&b, binary.BigEndian, uint64(rng.Intn(1000)))
	binary.Write(&b, binary.BigEndian, left)
	binary.Write(&b, binary.BigEndian, uint64(rng.Intn(1000)))
	binary.Write(&b, binary.BigEndian, event)
	b.Write(ipField)
	b.Write([]byte{1, 2, 3, 4}) // key
	binary.Write(&b, binary.BigEndian, nw)
	binary.Write(&b, binary.BigEndian, port)
	b.Write(opts)
	return b.Bytes()
}

// e2eBulk: one large swarm per family built over UDP, then announces with large numwant over UDP (both action
// codes) and HTTP (compact and dictionary form): everything the logic selected must reach the wire, however
// many peers that is (datagram and body size limits, batch boundaries inside the writers).
func e2eBulk(o *Out, rng *rand.Rand) {
	cfg := eCfg{Key: "e2e-bulk-key", SkewNs: int64(10 * time.Second), MaxNW: 400, DefNW: 50, MaxScrape: 50,
		Interval: int64(30 * time.Minute), MinIntv: int64(15 * time.Minute)}
	ih := make([]byte, 20)
	rng.Read(ih)
	clock := int64(1_700_000_000_000_000_000)
	reqs := []eReq{{T: "clock", Ns: clock}}
	n6, n4 := 85+rng.Intn(30), 245+rng.Intn(30)
	mk := func(k int, v6 bool) e2ePeer {
		id := make([]byte, 20)
		copy(id, []byte("-BK0002-"))
		binary.BigEndian.PutUint32(id[16:], uint32(k))
		if v6 {
			ip := net.ParseIP("2001:db8:1::")
			binary.BigEndian.PutUint32(ip[12:], uint32(k+1))
			return e2ePeer{id: id, src: ip, port: uint16(2000 + k)}
		}
		return e2ePeer{id: id, src: []byte{10, 9, byte(k >> 8), byte(k)}, port: uint16(2000 + k)}
	}
	ann := func(p e2ePeer, v6a bool, left uint64, nw uint32) {
		fl := 4
		if v6a {
			fl = 16
		}
		pkt := e2eAnnouncePacket(rng, v6a, ih, p.id, left, 0, make([]byte, fl), nw, p.port, nil)
		reqs = append(reqs, eReq{T: "udp", IP: hx(p.src), Packet: hx(pkt), FixConn: true})
	}
	for k := 0; k < n6; k++ {
		ann(mk(k, true), k%2 == 0, uint64(k%3), 0)
	}
	for k := 0; k < n4; k++ {
		ann(mk(k, false), false, uint64(k%2), 0)
	}
	// large numwant from a member and from a newcomer of each family, over UDP ...
	for _, nw := range []uint32{80, 81, 100, 243, 400} {
		ann(mk(1, true), true, 1, nw)
		ann(mk(5000, true), false, 0, nw)
		ann(mk(1, false), false, 1, nw)
	}
	// ... and over HTTP
	for _, q := range []string{"compact=1&numwant=400", "compact=0&numwant=300", "numwant=90"} {
		uri := fmt.Sprintf("/announce?info_hash=%s&peer_id=%s&port=7001&left=5&uploaded=0&downloaded=0&%s", url.QueryEscape(string(ih)), url.QueryEscape(string(mk(2, false).id)), q)
		reqs = append(reqs, eReq{T: "hann", URI: hx([]byte(uri)), Remote: "10.9.0.2:7001"})
		uri6 := fmt.Sprintf("/announce?info_hash=%s&peer_id=%s&port=7002&left=0&uploaded=0&downloaded=0&%s", url.QueryEscape(string(ih)), url.QueryEscape(string(mk(2, true).id)), q)
		reqs = append(reqs, eReq{T: "hann", URI: hx([]byte(uri6)), Remote: "[2001:db8:1::3]:7002"})
	}
	reqs = append(reqs, eReq{T: "dump"})
	e2eRun(o, "e2e-bulk", cfg, reqs)
}

// e2eGcStories: directed histories around an expiry pass that purges ALL members of one role of a swarm while a member of the
// other role survives, after which the purged role is used again (a new member joins; a leecher completes) - through the
// UDP and the HTTP frontend.  (The random histories reach this only by luck.)
func e2eGcStories(o *Out, rng *rand.Rand) {
	for variant := 0; variant < 4; variant++ {
		cfg := eCfg{Key: "e2e-key-gc", SkewNs: int64(10 * time.Second), MaxNW: 100, DefNW: 50, MaxScrape: 50, Interval: int64(30 * time.Minute), MinIntv: int64(15 * time.Minute)}
		ih := make([]byte, 20)
		rng.Read(ih)
		mk := func() []byte { b := make([]byte, 20); rng.Read(b); return b }
		a, b, c, d := mk(), mk(), mk(), mk()
		srcA, srcB, srcC := []byte{192, 0, 2, 7}, []byte{10, 0, 0, 1}, []byte{198, 51, 100, 9}
		udp := func(src, id []byte, left uint64, ev uint32) eReq {
			return eReq{T: "udp", IP: hx(src), Packet: hx(e2eAnnouncePacket(rng, false, ih, id, left, ev, make([]byte, 4), 50, 6881, nil)), FixConn: true}
		}
		htt := func(remote string, id []byte, left uint64, ev string) eReq {
			uri := "/announce?info_hash=" + url.QueryEscape(string(ih)) + "&peer_id=" + url.QueryEscape(string(id)) + fmt.Sprintf("&port=6881&left=%d&downloaded=0&uploaded=0&compact=1", left) + ev
			return eReq{T: "hann", URI: hx([]byte(uri)), Remote: remote}
		}
		t0 := int64(1_700_000_000_000_000_000)
		purgeLeechers := variant%2 == 0
		viaHTTP := variant >= 2
		reqs := []eReq{{T: "clock", Ns: t0}, udp(srcA, a, 7, 0), udp(srcB, b, 0, 0), {T: "clock", Ns: t0 + int64(10*time.Minute)}}
		if purgeLeechers {
			reqs = append(reqs, udp(srcB, b, 0, 0)) // the seeder stays
		} else {
			reqs = append(reqs, udp(srcA, a, 7, 0)) // the leecher stays
		}
		reqs = append(reqs, eReq{T: "gc", Ns: t0 + 5}, eReq{T: "dump"})
		// the purged role is used again
		if purgeLeechers {
			if viaHTTP {
				reqs = append(reqs, htt("198.51.100.9:6881", c, 9, ""))
			} else {
				reqs = append(reqs, udp(srcC, c, 9, 0))
			}
		} else {
			if viaHTTP {
				reqs = append(reqs, htt("192.0.2.7:6881", a, 0, "&event=completed"), htt("198.51.100.9:6881", c, 0, ""))
			} else {
				reqs = append(reqs, udp(srcA, a, 0, 1), udp(srcC, c, 0, 0))
			}
		}
		reqs = append(reqs, udp(srcC, d, 3, 0), eReq{T: "hscr", URI: hx([]byte("/scrape?info_hash=" + url.QueryEscape(string(ih)))), Remote: "10.0.0.1:5"}, eReq{T: "dump"})
		e2eRun(o, "e2e-gc-story", cfg, reqs)
	}
}

func e2eStream(o *Out, rng *rand.Rand, n int) {
	e2eBulk(o, rng)
	e2eGcStories(o, rand.New(rand.NewSource(0x67635f73746f7279))) // a stream of their own: the random histories below stay what they were
	for h := 0; h < n; h++ {
		cfg := eCfg{Key: "e2e-key-" + fmt.Sprint(rng.Intn(1000)), SkewNs: int64(rng.Intn(3)) * int64(10*time.Second), USpoof: rng.Intn(3) == 0, HSpoof: rng.Intn(4) == 0,
			MaxNW: []uint32{100, 3, 1}[rng.Intn(3)], DefNW: []uint32{50, 2, 5}[rng.Intn(3)], MaxScrape: []uint32{50, 2}[rng.Intn(2)],
			Interval: int64(time.Duration(rng.Intn(3600)+1) * time.Second), MinIntv: int64(time.Duration(rng.Intn(900)) * time.Second)}
		if rng.Intn(3) == 0 {
			cfg.HdrName = "X-Real-Ip"
		}
		if rng.Intn(5) == 0 {
			cfg.Interval += int64(rng.Intn(999999999)) // sub-second part
		}
		cfg.Timing = rng.Intn(2) == 0
		if h%10 == 4 {
			cfg.SlowMs = 30
		}
		if rng.Intn(3) == 0 {
			// a partial configuration: the documented defaults (100 / 50 / 50) apply to what is left out
			cfg.Omit = 1 + rng.Intn(7)
			if cfg.Omit&1 != 0 {
				cfg.MaxNW = 100
			}
			if cfg.Omit&2 != 0 {
				cfg.DefNW = 50
			}
			if cfg.Omit&4 != 0 {
				cfg.MaxScrape = 50
			}
		}
		ihs := make([][]byte, 3)
		for i := range ihs {
			ihs[i] = make([]byte, 20)
			rng.Read(ihs[i])
		}
		var pastClocks []int64
		srcs := [][]byte{{192, 0, 2, 7}, {10, 0, 0, 1}, net.ParseIP("2001:db8::1"), net.ParseIP("2001:db8::2"), net.ParseIP("::ffff:192.0.2.9"), {127, 0, 0, 1},
			net.ParseIP("64:ff9b::c633:6404"), net.ParseIP("2002:c633:6404::1")} // (IPv6 prefixes that embed an IPv4 address stay IPv6)
		remotes := []string{"192.0.2.7:6881", "10.0.0.1:5", "[2001:db8::1]:6881", "[2001:db8::2]:9", "[::ffff:192.0.2.9]:443", "127.0.0.1:1",
			"[64:ff9b::c633:6404]:6881", "[2002:c633:6404::1]:6881"}
		var peers []e2ePeer
		for i := 0; i < 5; i++ {
			id := make([]byte, 20)
			rng.Read(id)
			peers = append(peers, e2ePeer{id: id, src: srcs[rng.Intn(len(srcs))], port: uint16(rng.Intn(3) + 6881)})
		}
		clock := int64(1_700_000_000_000_000_000) + int64(rng.Intn(1000))*int64(time.Second)
		reqs := []eReq{{T: "clock", Ns: clock}}
		nreq := 25 + rng.Intn(40)
		for len(reqs) < nreq {
			p := peers[rng.Intn(len(peers))]
			ih := ihs[rng.Intn(len(ihs))]
			if rng.Intn(2) == 0 {
				ih = ihs[0]
			}
			left := uint64(0)
			if rng.Intn(2) == 0 {
				left = uint64(rng.Intn(100) + 1)
			}
			nw := []uint32{0, 1, 2, 5, 50, 200, 1<<32 - 1}[rng.Intn(7)]
			switch r := rng.Intn(100); {
			case r < 30: // UDP announce, either action whatever the source family
				v6a := rng.Intn(3) == 0
				fl := 4
				if v6a {
					fl = 16
				}
				field := make([]byte, fl)
				switch rng.Intn(4) {
				case 0:
					rng.Read(field)
				case 1:
					if v6a {
						copy(field, net.ParseIP("::ffff:198.51.100.5"))
					} else {
						copy(field, []byte{198, 51, 100, 4})
					}
				}
				var opts []byte
				switch rng.Intn(8) {
				case 0, 1:
					opts = []byte{2, 5, '/', '?', 'a', '=', 'b', 1, 0}
				case 2:
					// BEP 41 allows any number of URLData options: a long request string chained over
					// many options (totals around the multiples of 255 and up to what a 2048-byte datagram holds)
					total := []int{254, 255, 256, 509, 510, 511, 512, 700, 765, 766, 1020, 1021, 1500, 1900}[rng.Intn(14)]
					data := append([]byte("/?a=b&pad="), bytes.Repeat([]byte{'x'}, total)...)[:total]
					for len(data) > 0 {
						n := 255
						if rng.Intn(4) == 0 {
							n = 1 + rng.Intn(255)
						}
						if n > len(data) {
							n = len(data)
						}
						opts = append(opts, 2, byte(n))
						opts = append(opts, data[:n]...)
						data = data[n:]
						if rng.Intn(6) == 0 {
							opts = append(opts, 1)
						}
					}
					if rng.Intn(2) == 0 {
						opts = append(opts, 0)
					}
				case 3:
					// URLData of arbitrary bytes: not UTF-8, no leading slash, only a query, stray escapes - whatever the
					// parser makes of it must come back as ONE well-formed response (and must survive the frontend's
					// bookkeeping after the response: metrics labels, logging)
					var data []byte
					switch rng.Intn(5) {
					case 0:
						data = make([]byte, 1+rng.Intn(40))
						rng.Read(data)
					case 1:
						data = append([]byte{0xff, 0xfe}, []byte("announce?key=value")...)
					case 2:
						data = make([]byte, 1+rng.Intn(30))
						rng.Read(data)
						data = append([]byte{'/'}, data...)
					case 3:
						data = make([]byte, rng.Intn(30))
						rng.Read(data)
						data = append([]byte("?k="), data...)
					default:
						data = []byte("announce\xc3\x28?a=%zz&b=%")
					}
					opts = append([]byte{2, byte(len(data))}, data...)
					if rng.Intn(2) == 0 {
						opts = append(opts, 0)
					}
				}
				pkt := e2eAnnouncePacket(rng, v6a, ih, p.id, left, uint32(rng.Intn(4)), field, nw, p.port, opts)
				if rng.Intn(5) == 0 {
					// two datagrams in flight: the second one (another peer, ANOTHER swarm) is handled while the first one's
					// post-response hook is still pending
					var ih2 []byte
					for _, c := range ihs {
						if !bytes.Equal(c, ih) {
							ih2 = c
						}
					}
					p2 := peers[rng.Intn(len(peers))]
					pkt2 := e2eAnnouncePacket(rng, false, ih2, p2.id, uint64(rng.Intn(2)), 0, make([]byte, 4), 5, p2.port, nil)
					reqs = append(reqs, eReq{T: "udp", IP: hx(p.src), Packet: hx(pkt), FixConn: true, Hold: true},
						eReq{T: "udp", IP: hx(p2.src), Packet: hx(pkt2), FixConn: true})
					continue
				}
				reqs = append(reqs, eReq{T: "udp", IP: hx(p.src), Packet: hx(pkt), FixConn: true})
			case r < 38: // UDP scrape
				var b bytes.Buffer
				b.Write(make([]byte, 8))
				binary.Write(&b, binary.BigEndian, uint32(2))
				b.Write([]byte{7, 7, 7, byte(rng.Intn(256))})
				for k := rng.Intn(4) + 1; k > 0; k-- {
					b.Write(ihs[rng.Intn(len(ihs))])
				}
				reqs = append(reqs, eReq{T: "udp", IP: hx(p.src), Packet: hx(b.Bytes()), FixConn: true})
			case r < 42: // UDP connect
				pkt := append([]byte{0, 0, 4, 0x17, 0x27, 0x10, 0x19, 0x80, 0, 0, 0, 0}, byte(rng.Intn(256)), 1, 2, 3)
				reqs = append(reqs, eReq{T: "udp", IP: hx(p.src), Packet: hx(pkt)})
			case r < 52: // garbage carrying a VALID connection id: every action code, any body
				l := []int{16, 17, 35, 36, 37, 56, 97, 98, 99, 109, 110, 111, 200}[rng.Intn(13)]
				if rng.Intn(3) == 0 {
					l = 16 + rng.Intn(300)
				}
				pkt := make([]byte, l)
				rng.Read(pkt)
				binary.BigEndian.PutUint32(pkt[8:12], uint32(rng.Intn(6)))
				reqs = append(reqs, eReq{T: "udp", IP: hx(p.src), Packet: hx(pkt), FixConn: true})
			case r < 58: // pure garbage, any length
				pkt := make([]byte, rng.Intn(130))
				rng.Read(pkt)
				reqs = append(reqs, eReq{T: "udp", IP: hx(p.src), Packet: hx(pkt)})
			case r < 80: // HTTP announce
				ri := rng.Intn(len(remotes))
				ev := []string{"", "&event=started", "&event=stopped", "&event=completed", "&event=none"}[rng.Intn(5)]
				uri := "/announce?info_hash=" + url.QueryEscape(string(ih)) + "&peer_id=" + url.QueryEscape(string(p.id)) + fmt.Sprintf("&port=%d&left=%d&downloaded=0&uploaded=0", p.port, left) + ev
				if rng.Intn(2) == 0 {
					uri += "&compact=1"
				}
				if rng.Intn(2) == 0 {
					uri += fmt.Sprintf("&numwant=%d", nw)
				}
				if rng.Intn(6) == 0 {
					uri += "&ip=" + []string{"198.51.100.4", "2001:db8::99", "garbage", "::ffff:198.51.100.5", "64:ff9b::c633:6405", "::198.51.100.6"}[rng.Intn(6)]
				}
				if rng.Intn(6) == 0 {
					// the other spellings an address can be supplied under (honoured only with allow_ip_spoofing, and then
					// only as THE address of the one peer the request announces)
					uri += []string{"&ipv6=2001:db8::10", "&ipv4=198.51.100.77", "&ipv6=2001:db8::", "&ipv4=203.0.113.5&ipv6=2001:db8::11", "&ipv6=garbage", "&ipv6=198.51.100.78"}[rng.Intn(6)]
				}
				if rng.Intn(8) == 0 {
					uri = "/a/k" + fmt.Sprint(rng.Intn(9)) + uri
				}
				rq := eReq{T: "hann", URI: hx([]byte(uri)), Remote: remotes[ri]}
				if rng.Intn(4) == 0 {
					rq.HdrVal = []string{"203.0.113.9", "2001:db8::77", "garbage", "64:ff9b::cb00:7109"}[rng.Intn(4)]
				}
				reqs = append(reqs, rq)
			case r < 86: // HTTP scrape
				uri := "/scrape?x=1"
				for k := rng.Intn(4); k > 0; k-- {
					uri += "&info_hash=" + url.QueryEscape(string(ihs[rng.Intn(len(ihs))]))
				}
				rem := remotes[rng.Intn(len(remotes))]
				if rng.Intn(8) == 0 {
					// a remote address the server cannot split or parse (net/http hands RemoteAddr through as it is)
					rem = []string{"garbage", "notanip:80", "[::1", "1.2.3.4", ":80", "[fe80::1%eth0]:80", ""}[rng.Intn(7)]
				}
				reqs = append(reqs, eReq{T: "hscr", URI: hx([]byte(uri)), Remote: rem})
			case r < 92: // malformed HTTP
				bad := []string{"/announce?info_hash=%zz", "/announce", "/announce?info_hash=short&peer_id=x", "/announce?port=1", "/scrape", "/announce?info_hash=" + url.QueryEscape(string(ih)) + "&peer_id=" + url.QueryEscape(string(p.id)) + "&port=0&left=1&downloaded=0&uploaded=0",
					"/announce?info_hash=" + url.QueryEscape(string(ih)) + "&peer_id=%ff%fe&port=1&left=1&downloaded=0&uploaded=0", "/announce?%ff=%fe&info_hash=" + url.QueryEscape(string(ih))}
				u := bad[rng.Intn(len(bad))]
				if rng.Intn(2) == 0 {
					// an otherwise well-formed announce with ONE hostile value (bytes that are not UTF-8, NUL, line breaks, a long
					// value, an unknown word) for one of the parameters the tracker reads - or under a hostile key
					hostile := []string{"%ff", "%c3", "%80%80", "%00", "a%0d%0ab", "paused%ff", "%e2%28%a1", strings.Repeat("%fe", 40), "-1", "1e3", "started%00", "%f0%9f%92%a9"}[rng.Intn(12)]
					kv := map[string]string{"info_hash": url.QueryEscape(string(ih)), "peer_id": url.QueryEscape(string(p.id)), "port": fmt.Sprint(p.port), "left": fmt.Sprint(left),
						"downloaded": "0", "uploaded": "0", "event": "started", "compact": "1", "numwant": fmt.Sprint(nw)}
					keys := []string{"info_hash", "peer_id", "port", "left", "downloaded", "uploaded", "event", "compact", "numwant"}
					victim := []string{"event", "event", "event", "compact", "numwant", "port", "left", "downloaded", "uploaded", "ip", "peer_id", "info_hash", hostile}[rng.Intn(13)]
					u = "/announce?"
					for _, k := range keys {
						v := kv[k]
						if k == victim {
							v = hostile
						}
						u += k + "=" + v + "&"
					}
					if victim == "ip" || victim == hostile {
						u += victim + "=" + hostile
					}
					u = strings.TrimSuffix(u, "&")
				}
				t := "hann"
				if strings.HasPrefix(u, "/scrape") {
					t = "hscr"
				}
				reqs = append(reqs, eReq{T: t, URI: hx([]byte(u)), Remote: remotes[rng.Intn(len(remotes))]})
			case r < 96:
				pastClocks = append(pastClocks, clock)
				clock += int64(rng.Intn(200)) * int64(time.Second)
				if rng.Intn(3) == 0 {
					clock += int64(10 * time.Minute)
				}
				reqs = append(reqs, eReq{T: "clock", Ns: clock})
				if rng.Intn(2) == 0 {
					// an expiry pass; the cutoff is never exactly a clock value (clocks are whole seconds)
					cut := pastClocks[rng.Intn(len(pastClocks))] + 5
					reqs = append(reqs, eReq{T: "gc", Ns: cut})
				}
			default:
				reqs = append(reqs, eReq{T: "dump"})
			}
		}
		reqs = append(reqs, eReq{T: "dump"})
		e2eRun(o, "e2e", cfg, reqs)
	}
}
