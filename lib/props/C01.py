"""C01 - swarm membership and counts follow the announce history."""
from hist_common import HIST_REASONS, HIST_TAGS, HIST_ASSUMPTIONS, HIST_RULE
from conc_common import conc_part

PROP = {
    # "fully processed" also covers requests that were in flight together (and instances sharing one Redis): the final
    # membership of the schedule-forced scenarios must be that of some sequential ordering
    "parts": [conc_part("chk01c", 100, 3000)],
    "mutex_rewrite": True,
    "glue": "GH", "chk": "chk01", "explain": "explainH",
    "gotags": ["shim_memory", "shim_redis", "shim_timecache"],
    "n": {"quick": 120, "thorough": 1500},
    "rule": HIST_RULE + " Emphasis C01: announce/scrape/store-op mix; every scrape, response count, delete result and membership dump is compared.",
    "tags": HIST_TAGS, "reasons": HIST_REASONS, "assumptions": HIST_ASSUMPTIONS,
    "trivial_tags": [], "min_tags": 4,
    "explanation": "Coq theorems: for EVERY history of store operations and every shard count the memory store's observations (scrape counts, the membership AnnouncePeers selects from) equal those of the specification - one swarm map keyed by infohash x family whose clauses (seeder listed, leecher listed, completed moves, stopped removes, expiry removes, counts reported, other swarms untouched, no empty swarm) are proved as separate theorems; the Redis store's sequential model refines the same specification (Proofs/RedisP.v). The models are tied to storage/memory, storage/redis, middleware/hooks.go on every run by executing generated histories through middleware.Logic and the stores (memory 1/2/7/1024 shards; Redis on miniredis with 1-3 instances) and evaluating the same histories in the model AND in the specification inside Coq, including full membership dumps.",
}

CLAIM = {
    "text": "Coq theorems: for EVERY history of store operations and every shard count the memory store's observations (scrape counts, the membership AnnouncePeers selects from) equal those of the specification - one swarm map keyed by infohash x family whose clauses (seeder listed, leecher listed, completed moves, stopped removes, expiry removes, counts reported, other swarms untouched, no empty swarm) are proved as separate theorems; the Redis store's sequential model refines the same specification (Proofs/RedisP.v). The models are tied to storage/memory, storage/redis, middleware/hooks.go on every run by executing generated histories through middleware.Logic and the stores (memory 1/2/7/1024 shards; Redis on miniredis with 1-3 instances) and evaluating the same histories in the model AND in the specification inside Coq, including full membership dumps.",
    "design_ref": "DESIGN.md section 8, C01",
    "note": "Trusted: Coq kernel+vm_compute, Glue/GH.v, Go driver, overlay shims (VerifDump/VerifShards/VerifGC), miniredis standing in for Redis. Several tracker instances sharing one Redis: the model has no per-instance state, which is checked by the multi-instance histories, not proved. Concurrency proper is C04's subject; C01 only re-uses its schedule-forced scenarios for the membership reached once all operations have finished (reasons 41, 42, 54).",
    "technique": "Coq refinement/invariant proofs over executable Gallina store models + differential history correspondence (vm_compute)",
}
