#!/bin/bash
# usage: lib/regress.sh seeds|harmless   (VERIFDIR=<snapshot of /verif> recommended: the tree must not change while it runs)
# seeds:    every seeded change against the check of its own property (+ the properties its meta.json names in "also")
# harmless: every behaviour-preserving patch against the checks recorded for it in harmless/RESULTS.txt
cd /verif
case "$1" in
seeds)
  for d in seeded/C*-*/; do
    s=$(basename $d); p=${s%-*}
    lib/reeval.sh $s $p
  done ;;
harmless)
  for d in harmless/h*/; do
    h=$(basename $d)
    props=$(grep -E "^\[$h\] check " harmless/RESULTS.txt | sed -E 's/.*check (C[0-9]+):.*/\1/' | sort -u | tr '\n' ' ')
    [ -z "$props" ] && props=$(grep -E "^$h " harmless/RESULTS.txt | grep -oE "C[0-9]+" | sort -u | tr '\n' ' ')
    lib/harmeval.sh /verif/harmless/$h/patch.diff $props
  done ;;
esac
