//go:build verif && shim_redisconc

package redis

import (
	redigolib "github.com/gomodule/redigo/redis"

	"github.com/chihaya/chihaya/storage"
)

// VerifBeforeDo, when set, is called before every round-trip (Do) of every connection the hooked
// stores open: the driver's cooperative scheduler parks the calling goroutine there.
var VerifBeforeDo func(cmd string)

type verifConn struct{ redigolib.Conn }

func (c *verifConn) Do(cmd string, args ...interface{}) (interface{}, error) {
	if VerifBeforeDo != nil && cmd != "" {
		VerifBeforeDo(cmd)
	}
	return c.Conn.Do(cmd, args...)
}

// VerifHookConns wraps every connection the store dials from now on.
func VerifHookConns(ps storage.PeerStore) {
	p := ps.(*peerStore).rb.pool
	dial := p.Dial
	p.Dial = func() (redigolib.Conn, error) {
		c, err := dial()
		if err != nil {
			return nil, err
		}
		return &verifConn{c}, nil
	}
}
