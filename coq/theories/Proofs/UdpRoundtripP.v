(* C07: a packet laid out as the BEP 15 announce table prescribes is parsed into
   exactly those fields.  The renderer below is written from the table
   (BEP 15 "announce request"; opentracker's IPv6 variant widens the IP field
   to 16 bytes and shifts what follows by 12):

     0  64-bit connection_id      56  64-bit downloaded      84      IP address (4 | 16 bytes)
     8  32-bit action             64  64-bit left            88|100  32-bit key
     12 32-bit transaction_id     72  64-bit uploaded        92|104  32-bit num_want
     16 20-byte info_hash         80  32-bit event           96|108  16-bit port
     36 20-byte peer_id                                      98|110  (BEP 41 options)        *)
From Chihaya Require Import Model.UdpParse Proofs.ConnIDP Proofs.UdpParseP.
From Coq Require Import ZifyBool ZifyNat.
Open Scope Z_scope.

Record afields := {
  f_connid : bytes; f_action : Z; f_txid : bytes; f_ih : bytes; f_pid : bytes;
  f_downloaded : Z; f_left : Z; f_uploaded : Z; f_event : Z;
  f_ip : bytes; f_key : bytes; f_numwant : Z; f_port : Z
}.

Definition render_bep15 (f : afields) : bytes :=
  f_connid f ++ be_enc 4 (f_action f) ++ f_txid f ++ f_ih f ++ f_pid f ++
  be_enc 8 (f_downloaded f) ++ be_enc 8 (f_left f) ++ be_enc 8 (f_uploaded f) ++
  be_enc 4 (f_event f) ++ f_ip f ++ f_key f ++ be_enc 4 (f_numwant f) ++ be_enc 2 (f_port f).

Definition fields_ok (v6 : bool) (f : afields) : Prop :=
  length (f_connid f) = 8%nat /\ length (f_txid f) = 4%nat /\ length (f_ih f) = 20%nat /\
  length (f_pid f) = 20%nat /\ 0 <= f_downloaded f < 2 ^ 64 /\ 0 <= f_left f < 2 ^ 64 /\
  0 <= f_uploaded f < 2 ^ 64 /\ 0 <= f_event f < 4 /\
  length (f_ip f) = (if v6 then 16 else 4)%nat /\ length (f_key f) = 4%nat /\
  0 <= f_numwant f < 2 ^ 32 /\ 0 <= f_port f < 2 ^ 16.

(* the request the fields denote, before SanitizeAnnounce; the peer's address is
   the transport source address *)
Definition fields_req (f : afields) (src : bytes) : areq :=
  {| r_event := bep15_event (f_event f); r_ih := f_ih f; r_compact := false;
     r_event_provided := true; r_numwant_provided := true; r_ip_provided := false;
     r_numwant := f_numwant f; r_left := f_left f; r_downloaded := f_downloaded f; r_uploaded := f_uploaded f;
     r_peer := {| p_id := f_pid f; p_ip := src; p_port := f_port f |}; r_af := V4 |}.

Definition empty_params : qparams := {| q_path := []; q_query := []; q_params := []; q_ihs := [] |}.

(* ---- helpers *)
Lemma sub_skip' (p r : bytes) n lo hi :
  length p = n -> (n <= lo)%nat -> sub lo hi (p ++ r) = sub (lo - n) (hi - n) r.
Proof.
  intros H L. unfold sub. replace (hi - n - (lo - n))%nat with (hi - lo)%nat by lia.
  replace lo with (n + (lo - n))%nat at 2 by lia. rewrite skipn_add_c, skipn_app_exact by exact H. reflexivity.
Qed.
Lemma sub_here' (p r : bytes) n : length p = n -> sub 0 n (p ++ r) = p.
Proof. intros H. unfold sub. cbn [skipn]. rewrite Nat.sub_0_r. apply firstn_app_exact, H. Qed.

Lemma be_enc4_small ev : 0 <= ev < 4 -> be_enc 4 ev = [0; 0; 0; ev].
Proof. intros H. assert (E : ev = 0 \/ ev = 1 \/ ev = 2 \/ ev = 3) by lia. destruct E as [->|[->|[->| ->]]]; reflexivity. Qed.
Lemma event_ids_nth ev : 0 <= ev < 4 -> nth_error event_ids (Z.to_nat ev) = Some (bep15_event ev).
Proof. intros H. assert (E : ev = 0 \/ ev = 1 \/ ev = 2 \/ ev = 3) by lia. destruct E as [->|[->|[->| ->]]]; reflexivity. Qed.
Lemma be_dec_enc_small n v : 0 <= v < 256 ^ Z.of_nat n -> be_dec (be_enc n v) = v.
Proof. intros H. rewrite be_dec_enc. apply Z.mod_small, H. Qed.

Lemma render_len v6 f : fields_ok v6 f -> length (render_bep15 f) = (ip_end v6 + 10)%nat.
Proof.
  intros (H1 & H2 & H3 & H4 & _ & _ & _ & _ & H9 & H10 & _).
  unfold render_bep15. rewrite !app_length, !be_enc_length, H1, H2, H3, H4, H9, H10. destruct v6; reflexivity.
Qed.

Ltac len := first [assumption | apply be_enc_length | lia].
Ltac skipb n := rewrite (sub_skip' _ _ n) by len; cbn [Nat.sub].

(* all fields of the packet, for either layout *)
Lemma parse_render v6 o src f tail :
  o_spoof o = false -> fields_ok v6 f ->
  parse_announce v6 o (Some src) (render_bep15 f ++ tail) =
  match handle_optional tail with
  | Panic => Panic
  | Reject e => Reject e
  | Accept q =>
    match sanitize_announce (fields_req f src) (o_max_nw o) (o_def_nw o) with
    | inl e => Reject e
    | inr r => Accept (r, q)
    end
  end.
Proof.
  intros Sp Ok. pose proof (render_len v6 f Ok) as RL.
  destruct Ok as (H1 & H2 & H3 & H4 & H5 & H6 & H7 & H8 & H9 & H10 & H11 & H12).
  set (P := render_bep15 f ++ tail).
  assert (LP : (ip_end v6 + 10 <= length P)%nat) by (unfold P; rewrite app_length; lia).
  destruct (parse_announce_total v6 o (Some src) P LP) as (ev & N & ->).
  (* the options part *)
  assert (T : sub (ip_end v6 + 10) (length P) P = tail).
  { unfold P, sub. rewrite skipn_app_exact by exact RL. apply firstn_all2. rewrite app_length. lia. }
  rewrite T. clear T.
  (* the fixed part, block by block *)
  assert (PE : P = f_connid f ++ be_enc 4 (f_action f) ++ f_txid f ++ f_ih f ++ f_pid f ++
      be_enc 8 (f_downloaded f) ++ be_enc 8 (f_left f) ++ be_enc 8 (f_uploaded f) ++
      be_enc 4 (f_event f) ++ f_ip f ++ f_key f ++ be_enc 4 (f_numwant f) ++ be_enc 2 (f_port f) ++ tail).
  { unfold P, render_bep15. rewrite <- !app_assoc. reflexivity. }
  assert (Eev : ev = f_event f).
  { rewrite PE in N. rewrite (be_enc4_small (f_event f)) in N by exact H8.
    do 8 (rewrite nth_error_app2 in N by (rewrite ?be_enc_length; lia)).
    rewrite H1, H2, H3, H4, !be_enc_length in N. cbn in N. congruence. }
  subst ev.
  assert (Sih : sub 16 36 P = f_ih f).
  { rewrite PE. skipb 8%nat. skipb 4%nat. skipb 4%nat. apply sub_here', H3. }
  assert (Spid : sub 36 56 P = f_pid f).
  { rewrite PE. skipb 8%nat. skipb 4%nat. skipb 4%nat. skipb 20%nat. apply sub_here', H4. }
  assert (Sdl : sub 56 64 P = be_enc 8 (f_downloaded f)).
  { rewrite PE. skipb 8%nat. skipb 4%nat. skipb 4%nat. skipb 20%nat. skipb 20%nat. apply sub_here', be_enc_length. }
  assert (Slf : sub 64 72 P = be_enc 8 (f_left f)).
  { rewrite PE. skipb 8%nat. skipb 4%nat. skipb 4%nat. skipb 20%nat. skipb 20%nat. skipb 8%nat. apply sub_here', be_enc_length. }
  assert (Sul : sub 72 80 P = be_enc 8 (f_uploaded f)).
  { rewrite PE. skipb 8%nat. skipb 4%nat. skipb 4%nat. skipb 20%nat. skipb 20%nat. skipb 8%nat. skipb 8%nat.
    apply sub_here', be_enc_length. }
  rewrite Sih, Spid, Sdl, Slf, Sul.
  assert (Rest : sub 84 (ip_end v6) P = f_ip f /\
                 sub (ip_end v6 + 4) (ip_end v6 + 8) P = be_enc 4 (f_numwant f) /\
                 sub (ip_end v6 + 8) (ip_end v6 + 10) P = be_enc 2 (f_port f)).
  { rewrite PE. destruct v6; cbn [ip_end Nat.add].
    - repeat split.
      + skipb 8%nat. skipb 4%nat. skipb 4%nat. skipb 20%nat. skipb 20%nat. skipb 8%nat. skipb 8%nat. skipb 8%nat. skipb 4%nat.
        apply sub_here', H9.
      + skipb 8%nat. skipb 4%nat. skipb 4%nat. skipb 20%nat. skipb 20%nat. skipb 8%nat. skipb 8%nat. skipb 8%nat. skipb 4%nat.
        skipb 16%nat. skipb 4%nat. apply sub_here', be_enc_length.
      + skipb 8%nat. skipb 4%nat. skipb 4%nat. skipb 20%nat. skipb 20%nat. skipb 8%nat. skipb 8%nat. skipb 8%nat. skipb 4%nat.
        skipb 16%nat. skipb 4%nat. skipb 4%nat. apply sub_here', be_enc_length.
    - repeat split.
      + skipb 8%nat. skipb 4%nat. skipb 4%nat. skipb 20%nat. skipb 20%nat. skipb 8%nat. skipb 8%nat. skipb 8%nat. skipb 4%nat.
        apply sub_here', H9.
      + skipb 8%nat. skipb 4%nat. skipb 4%nat. skipb 20%nat. skipb 20%nat. skipb 8%nat. skipb 8%nat. skipb 8%nat. skipb 4%nat.
        skipb 4%nat. skipb 4%nat. apply sub_here', be_enc_length.
      + skipb 8%nat. skipb 4%nat. skipb 4%nat. skipb 20%nat. skipb 20%nat. skipb 8%nat. skipb 8%nat. skipb 8%nat. skipb 4%nat.
        skipb 4%nat. skipb 4%nat. skipb 4%nat. apply sub_here', be_enc_length. }
  destruct Rest as (Sip & Snw & Sport). rewrite Sip, Snw, Sport.
  unfold announce_of_fields, choose_ip. cbn [event_ids length]. rewrite Sp. cbn [negb andb].
  destruct (Z.leb_spec (Z.of_nat 4) (f_event f)) as [C|_]; [lia|].
  destruct (handle_optional tail) as [q|e|]; try reflexivity.
  rewrite event_ids_nth by exact H8.
  rewrite !be_dec_enc_small by (cbn; lia).
  reflexivity.
Qed.

Lemma udp_announce_roundtrip_options v6 o src f os :
  o_spoof o = false -> fields_ok v6 f ->
  parse_announce v6 o (Some src) (render_bep15 f ++ render_options os) =
  match parse_url_data (concat (chunks_before_end os)) with
  | inl e => Reject e
  | inr q =>
    match sanitize_announce (fields_req f src) (o_max_nw o) (o_def_nw o) with
    | inl e => Reject e
    | inr r => Accept (r, q)
    end
  end.
Proof.
  intros Sp Ok. rewrite parse_render by assumption. rewrite udp_options_concat.
  destruct (parse_url_data _); reflexivity.
Qed.

Lemma roundtrip_plain v6 o src f :
  o_spoof o = false -> fields_ok v6 f ->
  parse_announce v6 o (Some src) (render_bep15 f) =
  match sanitize_announce (fields_req f src) (o_max_nw o) (o_def_nw o) with
  | inl e => Reject e
  | inr r => Accept (r, empty_params)
  end.
Proof.
  intros Sp Ok. rewrite <- (app_nil_r (render_bep15 f)). rewrite parse_render by assumption. reflexivity.
Qed.

Lemma udp_announce_roundtrip_v4 o src f :
  o_spoof o = false -> fields_ok false f ->
  parse_announce false o (Some src) (render_bep15 f) =
  match sanitize_announce (fields_req f src) (o_max_nw o) (o_def_nw o) with
  | inl e => Reject e
  | inr r => Accept (r, empty_params)
  end.
Proof. apply roundtrip_plain. Qed.

Lemma udp_announce_roundtrip_v6 o src f :
  o_spoof o = false -> fields_ok true f ->
  parse_announce true o (Some src) (render_bep15 f) =
  match sanitize_announce (fields_req f src) (o_max_nw o) (o_def_nw o) with
  | inl e => Reject e
  | inr r => Accept (r, empty_params)
  end.
Proof. apply roundtrip_plain. Qed.

(* the hypotheses are satisfiable, and the result is an Accept for a sane packet *)
Example roundtrip_example :
  let f := {| f_connid := [1;2;3;4;5;6;7;8]; f_action := 1; f_txid := [9;9;9;9]; f_ih := repeat 17 20; f_pid := repeat 34 20;
              f_downloaded := 5; f_left := 2 ^ 64 - 1; f_uploaded := 0; f_event := 2; f_ip := [0;0;0;0]; f_key := [1;1;1;1];
              f_numwant := 4294967295; f_port := 6881 |} in
  fields_ok false f /\
  match parse_announce false {| o_spoof := false; o_max_nw := 100; o_def_nw := 50; o_max_scrape := 50 |} (Some [10;0;0;1]) (render_bep15 f) with
  | Accept (r, _) => r_event r = EvStarted /\ r_numwant r = 100 /\ r_left r = 2 ^ 64 - 1 /\ p_port (r_peer r) = 6881 /\ r_af r = V4
  | _ => False
  end.
Proof. cbn zeta. split; [unfold fields_ok; cbn; repeat split; lia|vm_compute; repeat split]. Qed.
