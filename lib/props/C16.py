"""C16 - Stop completes, leaves nothing running, and reload keeps the swarm data."""
PROP = {
    "glue": "G16", "chk": "chk16", "explain": "explain16",
    "gotags": ["shim_httplisten"], "listen_rewrite": True,
    "n": {"quick": 50, "thorough": 300},
    "driver_timeout": {"quick": 300, "thorough": 1500},
    "rule": "cases = deterministic scenarios on the REAL code, scheduled with gates (hooks blocking on channels), never with sleeps: "
            "(a) gated hooks: a request whose pre-hook or post-response hook is blocked when Stop is called, both frontends, announce and scrape - Stop's result must not be delivered while "
            "the handler / the post-response hook is in flight and must be delivered once the gates open; (b) NewFrontend immediately followed by Stop (GOMAXPROCS 1 and all cores, n times per "
            "frontend), then a port probe and a request; (c) stop groups: every subset of 4 members failing (one or two errors each) x members completing in every order (quick: a quarter of the "
            "orders), sizes 0-3, nested groups, nil-first Done arguments, members that never complete; (d) requests, Stop, goroutine dump diff; (e) reload histories through cmd/chihaya's real Run "
            "(a child process built from the current tree with the add-only shim cmd/chihaya/zz_verif.go: stdin-driven Start/Stop), announces and scrapes over real HTTP and UDP sockets with "
            "reloads at random points; (f) Stop(everything) with a gated post-response hook, memory and Redis (miniredis) stores: the released hook must not reach a stopped store. "
            "Non-trivial = every case; distinct = distinct input JSON.",
    "tags": {"1": "group: delivered, flat members", "2": "group: a member never completes, nothing delivered", "3": "group with a nested group",
             "10-13": "gated hook: 10+2*frontend+mode (frontend 0 UDP / 1 HTTP; mode 0 pre-hook gated, 1 post-response hook gated)",
             "20/21/22": "NewFrontend;Stop race UDP/HTTP, metrics.NewServer;Stop on one processor", "30/31": "requests then Stop, goroutines UDP/HTTP", "40-43": "reload history with 0/1/2/3+ reloads",
             "50/51": "Stop(everything) with a pending post-response hook, UDP/HTTP",
             "60-62": "middleware.Logic.Stop: no JWT hook / JWT refresh idle / JWT refresh inside a fetch that never completes",
             "70-72": "HTTP Frontend.Stop with listener Close errors injected: both servers / http only / https only"},
    "trivial_tags": [], "min_tags": 10,
    "reasons": {"1": "Stop's result was delivered while a post-response hook (AfterAnnounce/AfterScrape) of an accepted request was still in flight",
                "2": "after Stop completed the listener was still open (the port accepted a connection / was still bound)",
                "3": "after everything was stopped a late post-response hook called into the stopped store: 'attempted to interact with stopped ... store' (process panic)",
                "4": "a stop group did not report exactly its members' errors", "5": "a stop group delivered although a member never completed / did not deliver although all completed",
                "6": "Stop never delivered its result (or delivered where the protocol cannot)", "7": "goroutines of the stopped component were still alive after the grace period",
                "8": "after a reload a request was not answered with the swarm contents from before the reload", "9": "a request was answered after Stop had completed",
                "10": "Stop reported errors on a clean shutdown", "11": "Stop's result was delivered while a request handler was still running", "12": "a reload failed",
                "13": "a late post-response hook panicked after Stop (other message)",
                "101": "group result differs from the model for Done arguments with nil entries (package contract, not claimed by the property)",
                "108": "a request before any reload was answered differently from the model's tiny store (C01 territory)", "109": "model could not serve the history (glue defect)"},
    "assumptions": ["goroutine scheduling, net/http.Server.Shutdown ('closes the listeners, returns when no handler is active'), Serve ('closes l before returning') and sockets are LIBRARY ACTIONS of the machines, taken from the Go documentation",
                    "every hook invocation terminates (the termination theorems are relative to that)",
                    "'goroutines have exited' is formalised as 'no goroutine of the component performs another observable action after Stop completes' (DESIGN 9.B-10); the goroutine-dump comparison allows a grace period",
                    "quiet period 300 ms: how long a stop.Result must stay undelivered to be recorded as 'not delivered while the gate was closed'"],
    "explanation": "PARTIAL. Theorems over Model/Lifecycle.v: stop groups report exactly their members' errors in member order for every subset failing with any number of errors, deliver iff every member "
                   "completed, in any completion order (group_*); UDP and HTTP Stop protocols as interleaving machines whose schedules are ARBITRARY lists of thread choices (start-up, packets/connections, "
                   "handlers, post-response hooks, the Stop goroutine): in EVERY schedule, once Stop's result is delivered the socket/listener is closed, no handler and no post-response hook is in flight "
                   "and no goroutine of the component does anything observable ever after (udp/http_stop_quiescent, _silent_after_stop); Stop never misses a server (http_stop_never_misses); Stop terminates "
                   "(no deadlock: delivery reachable from every reachable state; no livelock: a decreasing measure); in every interleaving of both frontends with Run.Stop no call reaches a stopped store; "
                   "reloads at ANY points of ANY request history change no answer and no contents (reload_transparent). The code before the fixes F6/F7 is the `false` variant of the same machines, refuted by "
                   "kernel-checked schedules (Stop misses the unassigned server; a post-response hook outlives Stop and panics on the stopped store). Tied to pkg/stop, both frontends, middleware.Logic, both "
                   "stores and cmd/chihaya's Run by gated deterministic scenarios on the real code; the model is run on the schedule each scenario forces.",
}
CLAIM = {
    "text": PROP["explanation"],
    "design_ref": "DESIGN.md section 8, C16; findings F6, F7 (section 9.A); observation 9.B-10",
    "note": "PARTIAL: goroutine scheduling, net/http's Shutdown/Serve and sockets are assumed to behave as the library actions in the model (Go documentation), and the tie to the code is a finite set of "
            "gated scenarios rather than schedule enumeration of the real goroutines. Trusted: Coq kernel+vm_compute, Glue/G16.v, Go driver c16.go (gates, port probes, goroutine dumps, child process of "
            "cmd/chihaya built with the add-only shim cmd/chihaya/zz_verif.go), miniredis. pkg/metrics.Server: modelled as the two-event machine mstate/mstep of Model/Lifecycle.v (C16_metrics_stop_closes: every schedule of the goroutine and Stop; ListenAndServe's bind + registration is ONE step - the window inside net/http between its shuttingDown test and trackListener is library-internal), compared on the schedule 'Stop before the goroutine ran' on one processor (tag 22, five rounds, reported only if the port was bound in all five) and exercised as a member of Run's stop group in the reload histories.",
    "technique": "Coq proofs (invariants over all schedules of lifecycle interleaving machines, stop-group algebra, reload transparency) + gated deterministic scenarios on the real code compared with the model",
}
