(* C06 - HTTP announce/scrape parsing is total and faithful to the query.
   This file contains only statements, each closed by [exact] of a lemma from
   Proofs/HttpParseP.v / Proofs/QueryP.v, followed by Print Assumptions. *)
From Chihaya Require Import Model.HttpParse Proofs.QueryP Proofs.HttpParseP.
Open Scope Z_scope.

(* totality: for every URI, every oracle (net.ParseIP, Header.Get, SplitHostPort),
   every remote address and every ParseOptions value the parser accepts or
   rejects with a ClientError - it never panics, never yields an internal error *)
Theorem C06_http_parse_never_panics :
  forall (parse_ip : bytes -> option bytes) (header_get split_host : bytes -> bytes) o uri remote,
    (exists a, parse_announce parse_ip header_get split_host o uri remote = Accept a) \/
    (exists msg, parse_announce parse_ip header_get split_host o uri remote = Reject (ClientErr msg)).
Proof. exact parse_announce_total. Qed.
Print Assumptions C06_http_parse_never_panics.

Theorem C06_http_scrape_never_panics : forall o uri,
    (exists a, parse_scrape o uri = Accept a) \/ (exists msg, parse_scrape o uri = Reject (ClientErr msg)).
Proof. exact parse_scrape_total. Qed.
Print Assumptions C06_http_scrape_never_panics.
