//go:build verif && shim_redisurl

package redis

// VerifParseRedisURL exposes the unexported parseRedisURL to the verification
// harness (add-only shim, compiled in through `go build -overlay`).
func VerifParseRedisURL(target string) (host, password string, db int, err error) {
	u, err := parseRedisURL(target)
	if err != nil {
		return "", "", 0, err
	}
	return u.Host, u.Password, u.DB, nil
}
