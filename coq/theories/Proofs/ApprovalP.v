(* Lemmas about Model/Approval.v (C14). *)
From Chihaya Require Import Model.Approval.
From Coq Require Import ZifyBool ZifyNat.
Open Scope Z_scope.

(* ------------------------------------------------------------ client id *)

Lemma client_id_20 pid :
  length pid = 20%nat ->
  client_id pid = if nth 0 pid 0 =? 45 then sub 1 7 pid else sub 0 6 pid.
Proof. intros H. unfold client_id. rewrite H. reflexivity. Qed.

(* bytes 1-6 for IDs starting with '-', bytes 0-5 otherwise *)
Lemma client_id_spec pid :
  length pid = 20%nat ->
  length (client_id pid) = 6%nat /\
  forall i, (i < 6)%nat ->
    nth i (client_id pid) 0 = nth (if nth 0 pid 0 =? 45 then S i else i) pid 0.
Proof.
  intros H. rewrite (client_id_20 pid H).
  do 21 (destruct pid as [|? pid]; try discriminate H). clear H.
  cbn [nth]. destruct (z =? 45); (split; [reflexivity|]);
    intros i Hi; do 6 (destruct i as [|i]; [reflexivity|]); lia.
Qed.

(* ------------------------------------------------------------ membership *)

Lemma mem_In x l : mem x l = true <-> In x l.
Proof.
  unfold mem. rewrite existsb_exists. split.
  - intros [y [Hy E]]. apply bytes_eqb_eq in E. subst. exact Hy.
  - intros H. exists x. split; [exact H|apply bytes_eqb_refl].
Qed.
Lemma mem_false x l : mem x l = false <-> ~ In x l.
Proof. rewrite <- mem_In. destruct (mem x l); split; congruence. Qed.

Lemma nonempty_true {A} (l : list A) : nonempty l = true <-> l <> [].
Proof. destruct l; cbn; split; congruence. Qed.
Lemma nonempty_false {A} (l : list A) : nonempty l = false <-> l = [].
Proof. destruct l; cbn; split; congruence. Qed.

(* the decision of a built hook, by cases on which list is in use *)
Lemma approve_whitelist a k : a <> [] -> approve {| approved := a; unapproved := [] |} k = true <-> In k a.
Proof.
  intros Ha. unfold approve. cbn [approved unapproved].
  apply nonempty_true in Ha. rewrite Ha. cbn [nonempty andb].
  rewrite <- mem_In. destruct (mem k a); cbn; split; congruence.
Qed.
Lemma approve_blacklist u k : approve {| approved := []; unapproved := u |} k = true <-> ~ In k u.
Proof.
  unfold approve. cbn [approved unapproved nonempty andb].
  rewrite <- mem_false. destruct u as [|e u]; cbn [nonempty andb].
  - cbn. split; congruence.
  - destruct (mem k (e :: u)); split; congruence.
Qed.
Lemma approve_nolist k : approve {| approved := []; unapproved := [] |} k = true.
Proof. reflexivity. Qed.

Lemma client_announce_none h pid : client_announce h pid = None <-> approve h (client_id pid) = true.
Proof. unfold client_announce. destruct (approve h (client_id pid)); split; congruence. Qed.
Lemma torrent_announce_none h ih : torrent_announce h ih = None <-> approve h ih = true.
Proof. unfold torrent_announce. destruct (approve h ih); split; congruence. Qed.

(* ------------------------------------------------------------ client NewHook *)

Definition client_entries_ok (l : list bytes) : Prop := Forall (fun e => length e = 6%nat) l.

Lemma client_forallb l : forallb client_entry_ok l = true <-> client_entries_ok l.
Proof.
  unfold client_entries_ok. rewrite forallb_forall, Forall_forall. unfold client_entry_ok.
  split; intros H x Hx; specialize (H x Hx); [apply Nat.eqb_eq|apply Nat.eqb_eq]; exact H.
Qed.

Lemma new_client_hook_inr w b :
  (w = [] \/ b = []) -> client_entries_ok w -> client_entries_ok b ->
  new_client_hook {| wl := w; bl := b |} = inr {| approved := w; unapproved := b |}.
Proof.
  intros Hwb Hw Hb. unfold new_client_hook. cbn [wl bl].
  assert (E : nonempty w && nonempty b = false)
    by (destruct Hwb; subst; cbn; [reflexivity|apply andb_false_r]).
  rewrite E. apply client_forallb in Hw, Hb. rewrite Hw, Hb. reflexivity.
Qed.

Lemma client_whitelist_iff w pid :
  w <> [] -> client_entries_ok w ->
  exists h, new_client_hook {| wl := w; bl := [] |} = inr h /\
            (client_announce h pid = None <-> In (client_id pid) w).
Proof.
  intros Hne Hw. eexists. split.
  - apply new_client_hook_inr; [right; reflexivity|exact Hw|constructor].
  - rewrite client_announce_none. apply approve_whitelist. exact Hne.
Qed.

Lemma client_blacklist_iff b pid :
  b <> [] -> client_entries_ok b ->
  exists h, new_client_hook {| wl := []; bl := b |} = inr h /\
            (client_announce h pid = None <-> ~ In (client_id pid) b).
Proof.
  intros Hne Hb. eexists. split.
  - apply new_client_hook_inr; [left; reflexivity|constructor|exact Hb].
  - rewrite client_announce_none. apply approve_blacklist.
Qed.

Lemma client_both_refused w b : w <> [] -> b <> [] -> new_client_hook {| wl := w; bl := b |} = inl RBoth.
Proof.
  intros Hw Hb. unfold new_client_hook. cbn [wl bl].
  apply nonempty_true in Hw, Hb. rewrite Hw, Hb. reflexivity.
Qed.

Lemma client_entry_len_refused w b e :
  In e (w ++ b) -> length e <> 6%nat -> exists r, new_client_hook {| wl := w; bl := b |} = inl r.
Proof.
  intros Hin Hlen. unfold new_client_hook. cbn [wl bl].
  destruct (nonempty w && nonempty b); [eexists; reflexivity|].
  destruct (forallb client_entry_ok w) eqn:Ew; cbn [negb]; [|eexists; reflexivity].
  destruct (forallb client_entry_ok b) eqn:Eb; cbn [negb]; [|eexists; reflexivity].
  exfalso. apply client_forallb in Ew, Eb. unfold client_entries_ok in *.
  rewrite Forall_forall in Ew, Eb. apply in_app_or in Hin as [H|H]; [apply Ew in H|apply Eb in H]; contradiction.
Qed.

(* ------------------------------------------------------------ encoding/hex *)

Lemma pair_ind {A} (P : list A -> Prop) :
  P [] -> (forall a, P [a]) -> (forall a b r, P r -> P (a :: b :: r)) -> forall l, P l.
Proof.
  intros H0 H1 H2.
  assert (H : forall l, P l /\ forall a, P (a :: l)).
  { induction l as [|x l [IH1 IH2]]; split; auto. }
  intros l. apply H.
Qed.

Lemma hex_digit_spec c :
  is_hex_digit c = true <-> 48 <= c <= 57 \/ 65 <= c <= 70 \/ 97 <= c <= 102.
Proof.
  unfold is_hex_digit, hex_val.
  destruct ((48 <=? c) && (c <=? 57)) eqn:E1; [split; [lia|reflexivity]|].
  destruct ((97 <=? c) && (c <=? 102)) eqn:E2; [split; [lia|reflexivity]|].
  destruct ((65 <=? c) && (c <=? 70)) eqn:E3; [split; [lia|reflexivity]|].
  split; [discriminate|lia].
Qed.

Lemma hex_val_range c v : hex_val c = Some v -> 0 <= v < 16.
Proof.
  unfold hex_val.
  destruct ((48 <=? c) && (c <=? 57)) eqn:E1; [intros [= <-]; lia|].
  destruct ((97 <=? c) && (c <=? 102)) eqn:E2; [intros [= <-]; lia|].
  destruct ((65 <=? c) && (c <=? 70)) eqn:E3; [intros [= <-]; lia|discriminate].
Qed.

Lemma hex_val_char u v : 0 <= v < 16 -> hex_val (hex_char u v) = Some v.
Proof.
  intros Hv. unfold hex_char, hex_val.
  destruct (Z.ltb_spec v 10) as [L|L].
  - replace ((48 <=? 48 + v) && (48 + v <=? 57)) with true by lia. f_equal. lia.
  - destruct u.
    + replace ((48 <=? 55 + v) && (55 + v <=? 57)) with false by lia.
      replace ((97 <=? 55 + v) && (55 + v <=? 102)) with false by lia.
      replace ((65 <=? 55 + v) && (55 + v <=? 70)) with true by lia. f_equal. lia.
    + replace ((48 <=? 87 + v) && (87 + v <=? 57)) with false by lia.
      replace ((97 <=? 87 + v) && (87 + v <=? 102)) with true by lia. f_equal. lia.
Qed.

(* decoding succeeds exactly on even-length strings of hex digits *)
Lemma hex_decode_some_iff s :
  (exists b, hex_decode s = Some b) <-> Nat.even (length s) = true /\ forallb is_hex_digit s = true.
Proof.
  induction s as [|a|a b r IH] using pair_ind.
  - cbn. split; [auto|]. intros _. eexists; reflexivity.
  - cbn. split; [intros [b H]; discriminate|intros [H _]; discriminate].
  - cbn [hex_decode length Nat.even forallb]. unfold is_hex_digit at 1 2.
    destruct (hex_val a) as [x|]; [|split; [intros [t H]; discriminate|cbn; intros [_ H]; discriminate]].
    destruct (hex_val b) as [y|]; [|split; [intros [t H]; discriminate|cbn; intros [_ H]; discriminate]].
    cbn [andb]. rewrite <- IH. destruct (hex_decode r) as [t|].
    + split; intros _; eexists; reflexivity.
    + split; intros [t H]; discriminate.
Qed.

Lemma hex_decode_length s b : hex_decode s = Some b -> length s = (2 * length b)%nat.
Proof.
  revert b. induction s as [|a|a c r IH] using pair_ind; intros b.
  - cbn. intros [= <-]. reflexivity.
  - cbn. discriminate.
  - cbn [hex_decode]. destruct (hex_val a); [|discriminate]. destruct (hex_val c); [|discriminate].
    destruct (hex_decode r) as [t|]; [|discriminate]. intros [= <-].
    cbn [length]. rewrite (IH t eq_refl). lia.
Qed.

Lemma hex_decode_wf s b : hex_decode s = Some b -> wf_bytes b = true.
Proof.
  revert b. induction s as [|a|a c r IH] using pair_ind; intros b.
  - cbn. intros [= <-]. reflexivity.
  - cbn. discriminate.
  - cbn [hex_decode]. destruct (hex_val a) as [x|] eqn:Ea; [|discriminate].
    destruct (hex_val c) as [y|] eqn:Ec; [|discriminate].
    destruct (hex_decode r) as [t|]; [|discriminate]. intros [= <-].
    apply hex_val_range in Ea, Ec. cbn [wf_bytes forallb]. fold (wf_bytes t).
    rewrite (IH t eq_refl), andb_true_r. apply is_byte_iff. lia.
Qed.

(* upper-, lower- and mixed-case hex text of a byte string decodes to it *)
Lemma hex_decode_encode cs b : wf_bytes b = true -> hex_decode (hex_encode cs b) = Some b.
Proof.
  revert cs. induction b as [|x b IH]; intros cs H; [reflexivity|].
  cbn [wf_bytes forallb] in H. apply andb_true_iff in H as [Hx Hb]. apply is_byte_iff in Hx.
  cbn [hex_encode hex_decode].
  assert (Hd : 0 <= x / 16 < 16) by (split; [apply Z.div_pos; lia|apply Z.div_lt_upper_bound; lia]).
  assert (Hm : 0 <= x mod 16 < 16) by (apply Z.mod_pos_bound; lia).
  rewrite (hex_val_char _ _ Hd), (hex_val_char _ _ Hm).
  rewrite IH by exact Hb. f_equal. f_equal.
  pose proof (Z.div_mod x 16). lia.
Qed.

(* ------------------------------------------------------------ torrent NewHook *)

(* a well-formed entry: exactly 40 hex digits, either letter case *)
Definition hash_text_ok (e : bytes) : Prop := length e = 40%nat /\ forallb is_hex_digit e = true.

Lemma torrent_entry_some_iff e : (exists k, torrent_entry e = Some k) <-> hash_text_ok e.
Proof.
  unfold torrent_entry, hash_text_ok. split.
  - intros [k H]. destruct (hex_decode e) as [h|] eqn:E; [|discriminate].
    destruct (Nat.eqb_spec (length h) 20) as [L|L]; [|discriminate].
    pose proof (hex_decode_length _ _ E) as HL.
    assert (Hs : exists b, hex_decode e = Some b) by (eexists; exact E).
    apply hex_decode_some_iff in Hs as [_ Hd]. split; [lia|exact Hd].
  - intros [HL Hd].
    assert (Hs : exists b, hex_decode e = Some b)
      by (apply hex_decode_some_iff; split; [rewrite HL; reflexivity|exact Hd]).
    destruct Hs as [h E]. rewrite E. pose proof (hex_decode_length _ _ E) as HL2.
    destruct (Nat.eqb_spec (length h) 20) as [L|L]; [eexists; reflexivity|lia].
Qed.

Lemma torrent_entry_decode e k : torrent_entry e = Some k <-> hex_decode e = Some k /\ length k = 20%nat.
Proof.
  unfold torrent_entry. destruct (hex_decode e) as [h|]; [|split; [discriminate|intros [H _]; discriminate]].
  destruct (Nat.eqb_spec (length h) 20) as [L|L]; split.
  - intros [= <-]. auto.
  - intros [[= <-] _]. reflexivity.
  - discriminate.
  - intros [[= <-] H]. contradiction.
Qed.

Lemma torrent_entries_some l :
  Forall hash_text_ok l -> exists ks, torrent_entries l = Some ks.
Proof.
  induction 1 as [|e l He _ [ks IH]]; [eexists; reflexivity|].
  apply torrent_entry_some_iff in He as [k Hk]. cbn [torrent_entries]. rewrite Hk, IH. eexists; reflexivity.
Qed.

Lemma torrent_entries_none l e :
  In e l -> ~ hash_text_ok e -> torrent_entries l = None.
Proof.
  intros Hin Hbad. induction l as [|x l IH]; [contradiction|].
  cbn [torrent_entries]. destruct (torrent_entry x) as [k|] eqn:Ex; [|reflexivity].
  destruct Hin as [->|Hin].
  - exfalso. apply Hbad. apply torrent_entry_some_iff. eexists; exact Ex.
  - rewrite (IH Hin). reflexivity.
Qed.

Lemma torrent_entries_In l ks k :
  torrent_entries l = Some ks -> (In k ks <-> exists e, In e l /\ torrent_entry e = Some k).
Proof.
  revert ks. induction l as [|x l IH]; intros ks.
  - cbn. intros [= <-]. cbn. split; [tauto|intros [e [[] _]]].
  - cbn [torrent_entries]. destruct (torrent_entry x) as [kx|] eqn:Ex; [|discriminate].
    destruct (torrent_entries l) as [t|]; [|discriminate]. intros [= <-].
    specialize (IH t eq_refl). cbn [In]. rewrite IH. split.
    + intros [<-|[e [He Hk]]]; [exists x; auto|exists e; auto].
    + intros [e [[<-|He] Hk]]; [left; congruence|right; exists e; auto].
Qed.

Lemma torrent_entries_nil l ks : torrent_entries l = Some ks -> (ks = [] <-> l = []).
Proof.
  destruct l as [|x l]; cbn [torrent_entries].
  - intros [= <-]. tauto.
  - destruct (torrent_entry x); [|discriminate]. destruct (torrent_entries l); [|discriminate].
    intros [= <-]. split; discriminate.
Qed.

(* "ih is on the list": some entry is hex text of ih *)
Definition listed (ih : bytes) (l : list bytes) : Prop := exists e, In e l /\ hex_decode e = Some ih.

Lemma torrent_whitelist_iff w ih :
  length ih = 20%nat -> w <> [] -> Forall hash_text_ok w ->
  exists h, new_torrent_hook {| wl := w; bl := [] |} = inr h /\
            (torrent_announce h ih = None <-> listed ih w).
Proof.
  intros Hih Hne Hw. destruct (torrent_entries_some w Hw) as [ks Hks].
  exists {| approved := ks; unapproved := [] |}. split.
  - unfold new_torrent_hook. cbn [wl bl nonempty]. rewrite andb_false_r, Hks. reflexivity.
  - rewrite torrent_announce_none, approve_whitelist.
    + rewrite (torrent_entries_In w ks ih Hks). unfold listed.
      split; intros [e [He Hk]]; exists e; (split; [exact He|]).
      * apply torrent_entry_decode in Hk. tauto.
      * apply torrent_entry_decode. auto.
    + intros E. apply (torrent_entries_nil w ks Hks) in E. contradiction.
Qed.

Lemma torrent_blacklist_iff b ih :
  length ih = 20%nat -> b <> [] -> Forall hash_text_ok b ->
  exists h, new_torrent_hook {| wl := []; bl := b |} = inr h /\
            (torrent_announce h ih = None <-> ~ listed ih b).
Proof.
  intros Hih Hne Hb. destruct (torrent_entries_some b Hb) as [ks Hks].
  exists {| approved := []; unapproved := ks |}. split.
  - unfold new_torrent_hook. cbn [wl bl nonempty torrent_entries andb]. rewrite Hks. reflexivity.
  - rewrite torrent_announce_none, approve_blacklist.
    rewrite (torrent_entries_In b ks ih Hks). unfold listed.
    split; intros N [e [He Hk]]; apply N; exists e; (split; [exact He|]).
    + apply torrent_entry_decode. auto.
    + apply torrent_entry_decode in Hk. tauto.
Qed.

Lemma torrent_both_refused w b : w <> [] -> b <> [] -> new_torrent_hook {| wl := w; bl := b |} = inl RBoth.
Proof.
  intros Hw Hb. unfold new_torrent_hook. cbn [wl bl].
  apply nonempty_true in Hw, Hb. rewrite Hw, Hb. reflexivity.
Qed.

Lemma torrent_entry_refused w b e :
  In e (w ++ b) -> ~ hash_text_ok e -> exists r, new_torrent_hook {| wl := w; bl := b |} = inl r.
Proof.
  intros Hin Hbad. unfold new_torrent_hook. cbn [wl bl].
  destruct (nonempty w && nonempty b); [eexists; reflexivity|].
  apply in_app_or in Hin as [H|H].
  - rewrite (torrent_entries_none w e H Hbad). eexists; reflexivity.
  - destruct (torrent_entries w); [|eexists; reflexivity].
    rewrite (torrent_entries_none b e H Hbad). eexists; reflexivity.
Qed.

(* the three ways of being malformed named by the property *)
Lemma hash_text_bad_cases e :
  (length e <> 40%nat \/ Nat.odd (length e) = true \/ (exists c, In c e /\ is_hex_digit c = false)) ->
  ~ hash_text_ok e.
Proof.
  intros H [HL Hd]. destruct H as [H|[H|[c [Hc Hn]]]].
  - contradiction.
  - rewrite HL in H. discriminate.
  - rewrite forallb_forall in Hd. rewrite (Hd c Hc) in Hn. discriminate.
Qed.

Lemma new_torrent_hook_builds w b :
  (w = [] \/ b = []) -> Forall hash_text_ok w -> Forall hash_text_ok b ->
  exists h, new_torrent_hook {| wl := w; bl := b |} = inr h.
Proof.
  intros Hwb Hw Hb. unfold new_torrent_hook. cbn [wl bl].
  assert (E : nonempty w && nonempty b = false)
    by (destruct Hwb; subst; cbn; [reflexivity|apply andb_false_r]).
  rewrite E. destruct (torrent_entries_some w Hw) as [a ->]. destruct (torrent_entries_some b Hb) as [u ->].
  eexists; reflexivity.
Qed.

(* ------------------------------------------------------------ the remaining clauses *)

Lemma no_lists_accepts_all :
  (exists h, new_client_hook {| wl := []; bl := [] |} = inr h /\ forall pid, client_announce h pid = None) /\
  (exists h, new_torrent_hook {| wl := []; bl := [] |} = inr h /\ forall ih, torrent_announce h ih = None).
Proof. split; eexists; (split; [reflexivity|]); intros x; reflexivity. Qed.

Lemma scrape_never_blocked h ihs : client_scrape h ihs = None /\ torrent_scrape h ihs = None.
Proof. split; reflexivity. Qed.

Lemma both_lists_refused w b :
  w <> [] -> b <> [] ->
  new_client_hook {| wl := w; bl := b |} = inl RBoth /\ new_torrent_hook {| wl := w; bl := b |} = inl RBoth.
Proof. intros Hw Hb. split; [apply client_both_refused|apply torrent_both_refused]; assumption. Qed.

Lemma valid_cfg_builds w b :
  (w = [] \/ b = []) ->
  (client_entries_ok (w ++ b) -> exists h, new_client_hook {| wl := w; bl := b |} = inr h) /\
  (Forall hash_text_ok (w ++ b) -> exists h, new_torrent_hook {| wl := w; bl := b |} = inr h).
Proof.
  intros Hwb. split; intros H.
  - unfold client_entries_ok in H. apply Forall_app in H as [Hw Hb].
    eexists. apply new_client_hook_inr; assumption.
  - apply Forall_app in H as [Hw Hb]. apply new_torrent_hook_builds; assumption.
Qed.

(* non-vacuity: concrete configurations that build and decide as expected,
   with a duplicate entry and mixed letter case *)
Example client_cfg_example :
  let pid := s2b "-AZ2060-abcdefghijkl" in
  exists h, new_client_hook {| wl := [s2b "AZ2060"; s2b "UT3400"; s2b "AZ2060"]; bl := [] |} = inr h /\
            client_announce h pid = None /\
            client_announce h (s2b "AZ2060-abcdefghijklm") = None /\
            client_announce h (s2b "xAZ2060-abcdefghijkl") = Some ErrClientUnapproved.
Proof. eexists. split; [reflexivity|]. repeat split; reflexivity. Qed.

Example torrent_cfg_example :
  let ih := [1;35;69;103;137;171;205;239;0;17;34;51;68;85;102;119;136;153;170;187] in
  exists h, new_torrent_hook {| wl := []; bl := [s2b "0123456789abcdef00112233445566778899aabb";
                                                  s2b "0123456789ABCDEF00112233445566778899AaBb"] |} = inr h /\
            torrent_announce h ih = Some ErrTorrentUnapproved /\
            torrent_announce h (0 :: tl ih) = None.
Proof. eexists. split; [vm_compute; reflexivity|]. split; vm_compute; reflexivity. Qed.
