(* C08 - HTTP responses are well-formed bencode carrying exactly the computed answer.
   Statements only; proofs are in Proofs/HttpWriteP.v. *)
From Chihaya Require Import Model.HttpWrite Proofs.HttpWriteP.
Open Scope Z_scope.

Theorem C08_error_body_internal_constant : forall e e',
  is_client e = false -> is_client e' = false -> http_error_body e = http_error_body e'.
Proof. exact error_body_internal_constant. Qed.
Print Assumptions C08_error_body_internal_constant.
