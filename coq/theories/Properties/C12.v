(* C12 - A pre-hook rejection discloses no peers and leaves the swarm unchanged.
   Hooks are arbitrary functions; chains of any length.  Only statements here. *)
From Chihaya Require Import Model.Logic Proofs.LogicP.
Open Scope Z_scope.

Theorem C12_prehook_reject_shortcircuits :
  forall (U R St : Type) (fill : St -> R -> R) (apply_req : St -> St)
         (pre post : list (@hook U R)) st (c : ctx U) r0 e tr,
    handle fill pre st c r0 = (inl e, tr) ->
    let s := serve fill apply_req pre post st c r0 in
    s_out s = inl e /\ s_store s = st /\
    exists k, (k < length pre)%nat /\ s_trace s = map TPre (seq 0 (S k)).
Proof. exact @prehook_reject_shortcircuits. Qed.
Print Assumptions C12_prehook_reject_shortcircuits.

Theorem C12_handle_rejects_iff :
  forall (U R St : Type) (fill : St -> R -> R) (pre : list (@hook U R)) st (c : ctx U) r0,
    (exists e tr, handle fill pre st c r0 = (inl e, tr)) <->
    (exists e tr, run_hooks TPre 0 pre c r0 [] = (inl e, tr)).
Proof. exact @handle_rejects_iff. Qed.
Print Assumptions C12_handle_rejects_iff.

Theorem C12_first_rejecting_hook_decides :
  forall (U R St : Type) (_ : St -> R -> R) mk i (hs1 : list (@hook U R)) h hs2 c r tr c1 r1 tr1 cx rx e,
    run_hooks mk i hs1 c r tr = (inr (c1, r1), tr1) -> h c1 r1 = (cx, rx, Some e) ->
    run_hooks mk i (hs1 ++ h :: hs2) c r tr = (inl e, tr1 ++ [mk (i + length hs1)%nat]).
Proof. exact @run_hooks_app_reject. Qed.
Print Assumptions C12_first_rejecting_hook_decides.

Theorem C12_prehooks_in_order :
  forall (U R St : Type) (fill : St -> R -> R) (pre : list (@hook U R)) st (c : ctx U) r0 c' r tr,
    handle fill pre st c r0 = (inr (c', r), tr) ->
    tr = map TPre (seq 0 (length pre)) ++ (if skip_response c' then [] else [TFill]).
Proof. exact @prehooks_in_order. Qed.
Print Assumptions C12_prehooks_in_order.

Theorem C12_accepted_response_from_store :
  forall (U R St : Type) (fill : St -> R -> R) (pre : list (@hook U R)) st (c : ctx U) r0 c1 r1 tr1,
    run_hooks TPre 0 pre c r0 [] = (inr (c1, r1), tr1) -> skip_response c1 = false ->
    handle fill pre st c r0 = (inr (c1, fill st r1), tr1 ++ [TFill]).
Proof. exact @accepted_response_from_store. Qed.
Print Assumptions C12_accepted_response_from_store.

Theorem C12_skip_response_untouched :
  forall (U R St : Type) (fill : St -> R -> R) (pre : list (@hook U R)) st (c : ctx U) r0 c1 r1 tr1,
    run_hooks TPre 0 pre c r0 [] = (inr (c1, r1), tr1) -> skip_response c1 = true ->
    handle fill pre st c r0 = (inr (c1, r1), tr1).
Proof. exact @skip_response_untouched. Qed.
Print Assumptions C12_skip_response_untouched.

Theorem C12_accepted_applied_once :
  forall (U R St : Type) (fill : St -> R -> R) (apply_req : St -> St)
         (pre post : list (@hook U R)) st (c : ctx U) r0 c1 r tr c2 r2 tr2,
    handle fill pre st c r0 = (inr (c1, r), tr) ->
    run_hooks TPost 0 post c1 r [] = (inr (c2, r2), tr2) -> skip_swarm c2 = false ->
    let s := serve fill apply_req pre post st c r0 in
    s_out s = inr r /\ s_store s = apply_req st /\ count_apply (s_trace s) = 1%nat /\
    s_trace s = tr ++ map TPost (seq 0 (length post)) ++ [TApply].
Proof. exact @accepted_applied_once. Qed.
Print Assumptions C12_accepted_applied_once.

Theorem C12_skip_swarm_no_update :
  forall (U R St : Type) (fill : St -> R -> R) (apply_req : St -> St)
         (pre post : list (@hook U R)) st (c : ctx U) r0 c1 r tr c2 r2 tr2,
    handle fill pre st c r0 = (inr (c1, r), tr) ->
    run_hooks TPost 0 post c1 r [] = (inr (c2, r2), tr2) -> skip_swarm c2 = true ->
    let s := serve fill apply_req pre post st c r0 in
    s_out s = inr r /\ s_store s = st /\ count_apply (s_trace s) = 0%nat.
Proof. exact @skip_swarm_no_update. Qed.
Print Assumptions C12_skip_swarm_no_update.

Theorem C12_applied_at_most_once :
  forall (U R St : Type) (fill : St -> R -> R) (apply_req : St -> St)
         (pre post : list (@hook U R)) st (c : ctx U) r0,
    (count_apply (s_trace (serve fill apply_req pre post st c r0)) <= 1)%nat.
Proof. exact @applied_at_most_once. Qed.
Print Assumptions C12_applied_at_most_once.

Theorem C12_scrape_never_writes :
  forall (U R St : Type) (fill : St -> R -> R) (pre post : list (@hook U R)) (st : St) (c : ctx U) (r0 : R),
    s_store (serve fill (fun s => s) pre post st c r0) = st.
Proof. exact @scrape_never_writes. Qed.
Print Assumptions C12_scrape_never_writes.

(* the code violates the last sentence of the property when a configured post-hook fails (F12) *)
Theorem C12_failing_posthook_suppresses_update_refuted :
  exists (pre post : list (@hook unit Z)) (st : Z) (c : ctx unit) (r0 : Z),
    let s := serve (fun _ r => r) Z.succ pre post st c r0 in
    skip_swarm c = false /\ skip_response c = false /\
    (exists r, s_out s = inr r) /\ s_store s = st /\ s_store s <> Z.succ st.
Proof. exact failing_posthook_suppresses_update_refuted. Qed.
Print Assumptions C12_failing_posthook_suppresses_update_refuted.
