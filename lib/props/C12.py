"""C12 - a pre-hook rejection discloses nothing and changes nothing."""
PROP = {
    "glue": "G12", "chk": "chk12", "explain": "explain12",
    "gotags": ["shim_memory", "shim_timecache", "shim_http", "shim_udp"],
    "n": {"quick": 900, "thorough": 20000},
    "rule": "cases = chains of 0-6 pre-hooks and 0-4 post-hooks drawn from {accept, reject with a client error, reject with an internal error, set skip-swarm mark, "
            "set skip-response mark, edit the response interval, add a context value}, for announces and scrapes, through middleware.Logic alone, through the HTTP "
            "frontend's router/handler and through the UDP frontend's handleRequest (valid connection ID); instrumented hooks and a spy store around a real memory "
            "store record the invocation trace; fixed corner chains first. Non-trivial = at least one configured hook; distinct = distinct input JSON.",
    "tags": {"10": "rejected by a pre-hook, via logic", "11": "rejected, via HTTP", "12": "rejected, via UDP", "20": "accepted, via logic", "21": "accepted, via HTTP",
             "22": "accepted, via UDP", "120": "accepted but a post-hook fails, via logic", "121": "same via HTTP", "122": "same via UDP",
             "201": "backlog of pending post-response runs, via HTTP", "202": "same via UDP"},
    "trivial_tags": [], "min_tags": 6,
    "reasons": {"902": "(trace event, not a reason) another client's pending post-response processing applied something else than its own request", "1": "after a rejection a later hook or a post-hook ran (or hooks ran out of order)", "2": "a rejected request was answered / something besides the error was disclosed",
                "3": "a rejected request read or changed the store", "4": "the client did not receive the rejecting hook's error (client text / generic internal)",
                "5": "request accepted by all pre-hooks but an error was returned or pre-hooks did not all run in order", "6": "accepted response not filled from the store",
                "7": "accepted request not applied to the swarm exactly once", "8": "a step ran although a hook marked it to be skipped",
                "9": "a failing configured post-hook suppressed the swarm update although nothing was marked to skip (F12)",
                "106": "interval differs from the model", "107": "trace differs from the model in the post-hook part"},
    "assumptions": ["hooks are deterministic functions of context and response", "the frontends' `go AfterAnnounce` is awaited by the driver through a wrapping TrackerLogic"],
    "explanation": "Theorems over Model/Logic.v quantify over ARBITRARY hook functions and chain lengths: a rejecting pre-hook short-circuits (trace = pre-hooks 0..k only, store untouched, "
                   "only the error returned), pre-hooks run in order, an accepted response is filled from the store unless marked, the request is applied exactly once after all post-hooks "
                   "unless marked, never more than once, scrapes never write; the code's deviation from the last sentence (failing post-hook) is refuted by a kernel-checked witness. "
                   "Tied to middleware/logic.go + hooks.go and to both frontends by instrumented hook chains whose observed traces, errors, responses and store effects are compared with the model.",
}
CLAIM = {
    "text": PROP["explanation"],
    "design_ref": "DESIGN.md section 8, C12",
    "note": "Trusted: Coq kernel+vm_compute, Glue/G12.v, Go driver (instrumented hooks, spy store), overlay shims VerifHandler (HTTP router) and VerifHandle (UDP handleRequest). "
            "Known finding F12 (open): a configured post-hook returning an error suppresses the swarm update.",
    "technique": "Coq proofs over a hook-chain semantics with invocation traces + differential correspondence through logic and both frontends",
}
