(* C19 - Bencode encode/decode round-trips and the decoder rejects garbage safely.
   Statements only; proofs are in Proofs/BencodeP.v.

   [bencode] emits a dictionary's entries in the order of the list that
   represents it; Go ranges over a map in arbitrary order, and the theorems
   hold for every list, i.e. for every emission order.  [canonb v]: integers
   within int64, byte strings, distinct keys in every dictionary. *)
From Chihaya Require Import Model.Bencode Proofs.BencodeP.
Open Scope Z_scope.

(* round trip: any canonical value tree (any size, any nesting), any trailing
   bytes, any fuel from the length of the encoding upwards *)
Theorem C19_bdecode_bencode : forall v rest fuel,
  canonb v = true -> (length (bencode v) <= fuel)%nat ->
  bdecode fuel (bencode v ++ rest) = Ok v rest.
Proof. exact bdecode_bencode. Qed.
Print Assumptions C19_bdecode_bencode.

(* for all input bytes: a value or an error; no panic, and no out-of-fuel
   artefact once the fuel exceeds the input length *)
Theorem C19_bdecode_total : forall fuel s,
  (length s < fuel)%nat ->
  (exists v rest, bdecode fuel s = Ok v rest) \/ bdecode fuel s = Err.
Proof. exact bdecode_total. Qed.
Print Assumptions C19_bdecode_total.

Theorem C19_bdecode_never_panics : forall fuel s, bdecode fuel s <> Panic.
Proof. exact bdecode_never_panics. Qed.
Print Assumptions C19_bdecode_never_panics.

(* allocation accounting: string storage never exceeds the bytes consumed
   (success) / the bytes supplied plus one 4096-byte reader buffer (failure) *)
Theorem C19_bdecode_alloc_bounded : forall fuel s,
  0 <= balloc fuel s <= Z.of_nat (length s) + 4096 /\
  forall v rest, bdecode fuel s = Ok v rest ->
                 balloc fuel s + Z.of_nat (length rest) <= Z.of_nat (length s).
Proof. exact bdecode_alloc_bounded. Qed.
Print Assumptions C19_bdecode_alloc_bounded.

(* decoding a canonical encoding stores exactly the value's string bytes *)
Theorem C19_balloc_bencode : forall v rest fuel,
  canonb v = true -> (length (bencode v) <= fuel)%nat ->
  balloc fuel (bencode v ++ rest) = strbytes v.
Proof. exact balloc_bencode. Qed.
Print Assumptions C19_balloc_bencode.

(* the decoder before fix F9 *)
Theorem C19_bdecode_legacy_negative_len_refuted :
  exists s fuel, (length s < fuel)%nat /\ bdecode_legacy fuel s = Panic.
Proof. exact bdecode_legacy_negative_len_refuted. Qed.
Print Assumptions C19_bdecode_legacy_negative_len_refuted.

Theorem C19_bdecode_legacy_long_string_refuted :
  exists v fuel, canonb v = true /\ (length (bencode v) < fuel)%nat /\
                 bdecode_legacy fuel (bencode v) = Err.
Proof. exact bdecode_legacy_long_string_refuted. Qed.
Print Assumptions C19_bdecode_legacy_long_string_refuted.

Theorem C19_bdecode_legacy_alloc_refuted :
  exists s fuel, (length s < fuel)%nat /\ balloc_legacy fuel s > 1000000000 * Z.of_nat (length s).
Proof. exact bdecode_legacy_alloc_refuted. Qed.
Print Assumptions C19_bdecode_legacy_alloc_refuted.
