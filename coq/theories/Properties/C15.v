(* C15 - The JWT hook admits an announce only with a currently valid token for it.
   RSA verification, JSON and base64 are oracles (the abstract token record); the
   unsynchronised access to the key map (F5) is a runtime fact outside the model.
   Only statements here. *)
From Chihaya Require Import Model.Jwt Proofs.JwtP Proofs.OverlapP.
From Chihaya Require Glue.G15.
Open Scope Z_scope.

(* accept <-> RS256 signature verifies under the key currently published under the token's kid,
   issuer and audience match, infohash claim = announced infohash in lower-case hex, within exp/nbf *)
Theorem C15_jwt_accept_iff :
  forall cfg keys now ih t,
    jwt_accept cfg keys now ih t = true <->
    structure_ok t = true /\
    (exists k key, kid t = Some k /\ kfind k keys = Some key /\ alg t = RS256 /\ sig_ok_under t key = true) /\
    iss t = Some (cfg_iss cfg) /\
    (exists l, aud t = Some l /\ In (cfg_aud cfg) l) /\
    ih_claim t = Some (hex_lower ih) /\
    ((forall e, exp t = Some e -> now <= e * 10 ^ 9) /\ (forall n, nbf t = Some n -> n * 10 ^ 9 < now)).
Proof. exact jwt_accept_iff. Qed.
Print Assumptions C15_jwt_accept_iff.

(* "currently published under kid k": the last entry of the served JWK set that carries k *)
Theorem C15_published_iff :
  forall k key jwks,
    kfind k (publish jwks) = Some key <->
    exists pre post, jwks = pre ++ (k, key) :: post /\ ~ In k (map fst post).
Proof. exact published_iff. Qed.
Print Assumptions C15_published_iff.

Theorem C15_single_change_rejects :
  forall cfg keys now ih t t',
    jwt_accept cfg keys now ih t = true -> bad_change cfg keys now ih t t' ->
    jwt_accept cfg keys now ih t' = false.
Proof. exact single_change_rejects. Qed.
Print Assumptions C15_single_change_rejects.

(* one lemma per aspect (each holds whatever the other aspects are) *)
Theorem C15_bad_structure_rejects :
  forall cfg keys now ih t, structure_ok t = false -> jwt_accept cfg keys now ih t = false.
Proof. exact bad_structure_rejects. Qed.
Print Assumptions C15_bad_structure_rejects.

Theorem C15_bad_alg_rejects :
  forall cfg keys now ih t, alg t <> RS256 -> jwt_accept cfg keys now ih t = false.
Proof. exact bad_alg_rejects. Qed.
Print Assumptions C15_bad_alg_rejects.

Theorem C15_missing_kid_rejects :
  forall cfg keys now ih t, kid t = None -> jwt_accept cfg keys now ih t = false.
Proof. exact missing_kid_rejects. Qed.
Print Assumptions C15_missing_kid_rejects.

Theorem C15_unknown_kid_rejects :
  forall cfg keys now ih t k, kid t = Some k -> kfind k keys = None -> jwt_accept cfg keys now ih t = false.
Proof. exact unknown_kid_rejects. Qed.
Print Assumptions C15_unknown_kid_rejects.

Theorem C15_bad_signature_rejects :
  forall cfg keys now ih t k key,
    kid t = Some k -> kfind k keys = Some key -> sig_ok_under t key = false ->
    jwt_accept cfg keys now ih t = false.
Proof. exact bad_signature_rejects. Qed.
Print Assumptions C15_bad_signature_rejects.

Theorem C15_bad_issuer_rejects :
  forall cfg keys now ih t, iss t <> Some (cfg_iss cfg) -> jwt_accept cfg keys now ih t = false.
Proof. exact bad_issuer_rejects. Qed.
Print Assumptions C15_bad_issuer_rejects.

Theorem C15_bad_audience_rejects :
  forall cfg keys now ih t,
    (forall l, aud t = Some l -> ~ In (cfg_aud cfg) l) -> jwt_accept cfg keys now ih t = false.
Proof. exact bad_audience_rejects. Qed.
Print Assumptions C15_bad_audience_rejects.

Theorem C15_bad_infohash_claim_rejects :
  forall cfg keys now ih t, ih_claim t <> Some (hex_lower ih) -> jwt_accept cfg keys now ih t = false.
Proof. exact bad_infohash_claim_rejects. Qed.
Print Assumptions C15_bad_infohash_claim_rejects.

Theorem C15_other_infohash_rejects :
  forall cfg keys now ih ih' t,
    wf_bytes ih = true -> wf_bytes ih' = true -> ih' <> ih ->
    jwt_accept cfg keys now ih t = true -> jwt_accept cfg keys now ih' t = false.
Proof. exact other_infohash_rejects. Qed.
Print Assumptions C15_other_infohash_rejects.

Theorem C15_uppercase_claim_rejects :
  forall cfg keys now ih t c x,
    wf_bytes ih = true -> ih_claim t = Some c -> In x c -> 65 <= x <= 70 ->
    jwt_accept cfg keys now ih t = false.
Proof. exact uppercase_claim_rejects. Qed.
Print Assumptions C15_uppercase_claim_rejects.

Theorem C15_expired_rejects :
  forall cfg keys now ih t e, exp t = Some e -> e * 10 ^ 9 < now -> jwt_accept cfg keys now ih t = false.
Proof. exact expired_rejects. Qed.
Print Assumptions C15_expired_rejects.

Theorem C15_not_yet_valid_rejects :
  forall cfg keys now ih t n, nbf t = Some n -> now <= n * 10 ^ 9 -> jwt_accept cfg keys now ih t = false.
Proof. exact not_yet_valid_rejects. Qed.
Print Assumptions C15_not_yet_valid_rejects.

(* every history: each verdict is jwt_accept under the key set of the latest successful refresh *)
Theorem C15_refresh_effective :
  forall cfg st0 pre now ih t post,
    nth_error (run cfg st0 (pre ++ Validate now ih t :: post)) (length pre) =
    Some (Some (jwt_accept cfg (latest_keys st0 pre) now ih t)).
Proof. exact refresh_effective. Qed.
Print Assumptions C15_refresh_effective.

Theorem C15_latest_keys_spec :
  forall st0 h,
    (forall pre jwks post, h = pre ++ Refresh jwks :: post -> forallb (fun o => negb (is_refresh o)) post = true ->
                           latest_keys st0 h = publish jwks) /\
    (forallb (fun o => negb (is_refresh o)) h = true -> latest_keys st0 h = st0).
Proof. exact latest_keys_spec. Qed.
Print Assumptions C15_latest_keys_spec.

(* every interleaving of one refresh with one validation: old or new key set, never a mixture *)
Theorem C15_refresh_snapshot_atomic :
  forall cfg now ih t st0 jwks sched v,
    vp (exec cfg now ih t sched (init_mach st0 [Some jwks])) = VDone v ->
    v = jwt_accept cfg st0 now ih t \/ v = jwt_accept cfg (publish jwks) now ih t.
Proof. exact refresh_snapshot_atomic. Qed.
Print Assumptions C15_refresh_snapshot_atomic.

(* ... and of any sequence of (successful or failing) refresh attempts with one validation *)
Theorem C15_refresh_snapshot_atomic_general :
  forall cfg now ih t st0 rs sched v,
    vp (exec cfg now ih t sched (init_mach st0 rs)) = VDone v ->
    exists k, (k <= length rs)%nat /\ v = jwt_accept cfg (reg_after st0 (firstn k rs)) now ih t.
Proof. exact refresh_snapshot_atomic_general. Qed.
Print Assumptions C15_refresh_snapshot_atomic_general.

(* fetches in flight (a response may be slow; the issuer may rotate meanwhile): with the ONE caller of updateKeys the
   code has, under every schedule of serve / install / rotate events the register always holds the version of the
   newest completed fetch, never more than the newest version served, and never goes back - "key-set refreshes take
   effect for later announces": a key withdrawn by a refresh that took effect is not trusted again *)
Theorem C15_serial_fetch_register :
  forall s evs, finv s -> forallb (only_fetcher 0) evs = true ->
    Forall (fun s' => f_ret s' = f_reg s' /\ (f_reg s' <= f_srv s')%nat) (ftrace s evs) /\
    nondecreasing (map f_reg (s :: ftrace s evs)) = true /\
    nondecreasing (map f_srv (s :: ftrace s evs)) = true /\
    nondecreasing (map f_ret (s :: ftrace s evs)) = true.
Proof. exact serial_fetch_register. Qed.
Print Assumptions C15_serial_fetch_register.

Theorem C15_serial_fetch_register_init : forall v, finv (finit v).
Proof. exact finv_init. Qed.
Print Assumptions C15_serial_fetch_register_init.

(* ... and the hypothesis "one caller" is needed: a second fetcher (a refresh on demand) lets a late response
   overwrite a newer key set *)
Theorem C15_two_fetchers_register_goes_back :
  exists evs, nondecreasing (map f_reg (finit 0 :: ftrace (finit 0) evs)) = false /\
              map f_reg (ftrace (finit 0) evs) = [0; 0; 0; 1; 0]%nat.
Proof. exact two_fetchers_register_goes_back. Qed.
Print Assumptions C15_two_fetchers_register_goes_back.

(* the judge of the refresh-overlap cases (Glue/G15.chk_overlap) accepts a log EXACTLY when the announces can be assigned
   key-set versions that explain every verdict, each between the newest version a returned refresh carried when the
   announce started and the newest version served when it ended, never going back from one announce to the next *)
Theorem C15_overlap_checker_decides :
  forall i a vs evs,
    snd (G15.chk15 (G15.COverlap i a vs evs)) = 0 <->
    exists assign, Explains {| cfg_iss := i; cfg_aud := a |} vs evs 0 0 0 0 assign.
Proof. exact overlap_verdict_iff. Qed.
Print Assumptions C15_overlap_checker_decides.

(* ... and every log the one-fetcher MODEL produces is accepted: run the fetch machine together with a client whose
   announces read the register at some instant between their start and end and are decided under the version read;
   under every schedule of serve / install / rotate / start / read / end events the judge answers 0.  An alarm of the
   overlap judge therefore always means behaviour the model of the code cannot show. *)
Theorem C15_serial_model_logs_accepted :
  forall cfg vs evs log assign,
    forallb serial_ev evs = true ->
    arun cfg vs (finit 0, None) evs = (log, assign, true) ->
    G15.chk_overlap cfg vs log 0 0 0 0 0 = 0.
Proof. exact serial_model_logs_accepted. Qed.
Print Assumptions C15_serial_model_logs_accepted.

(* not vacuous (a concrete serial run with five announces is accepted) and "one fetcher" is needed (a concrete run with a
   refresh on demand: every verdict is the model's under the version read, and the judge answers 22) *)
Theorem C15_serial_example_accepted :
  forallb serial_ev ex_serial = true /\
  (let '(log, assign, ok) := arun ex_cfg ex_vs (finit 0, None) ex_serial in
   ok = true /\ assign = [0; 0; 0; 1; 1]%nat /\ G15.chk_overlap ex_cfg ex_vs log 0 0 0 0 0 = 0).
Proof. exact serial_example_accepted. Qed.
Print Assumptions C15_serial_example_accepted.

Theorem C15_two_fetchers_log_rejected :
  let '(log, assign, ok) := arun ex_cfg ex_vs (finit 0, None) ex_two in
  ok = true /\ assign = [1; 0]%nat /\ G15.chk_overlap ex_cfg ex_vs log 0 0 0 0 0 = 22.
Proof. exact two_fetchers_log_rejected. Qed.
Print Assumptions C15_two_fetchers_log_rejected.

(* F4: the pre-fix hook (jws.Verify only) accepts a token that is expired / not yet valid at `now` *)
Theorem C15_jwt_legacy_ignores_exp_refuted :
  exists cfg keys now ih t e,
    exp t = Some e /\ e * 10 ^ 9 < now /\
    jwt_accept_legacy cfg keys ih t = true /\ jwt_accept cfg keys now ih t = false.
Proof. exact jwt_legacy_ignores_exp_refuted. Qed.
Print Assumptions C15_jwt_legacy_ignores_exp_refuted.

Theorem C15_jwt_legacy_ignores_nbf_refuted :
  exists cfg keys now ih t n,
    nbf t = Some n /\ now <= n * 10 ^ 9 /\
    jwt_accept_legacy cfg keys ih t = true /\ jwt_accept cfg keys now ih t = false.
Proof. exact jwt_legacy_ignores_nbf_refuted. Qed.
Print Assumptions C15_jwt_legacy_ignores_nbf_refuted.

Theorem C15_scrape_never_checked :
  forall cfg keys param, hook_scrape cfg keys param = None.
Proof. exact scrape_never_checked. Qed.
Print Assumptions C15_scrape_never_checked.

Theorem C15_missing_param_rejected :
  forall (view : bytes -> token) cfg keys now ih,
    hook_announce view cfg keys now ih None = Some ErrMissingJWT.
Proof. exact missing_param_rejected. Qed.
Print Assumptions C15_missing_param_rejected.

Theorem C15_hook_announce_decides :
  forall (view : bytes -> token) cfg keys now ih s,
    (hook_announce view cfg keys now ih (Some s) = None <-> jwt_accept cfg keys now ih (view s) = true) /\
    (hook_announce view cfg keys now ih (Some s) = Some ErrInvalidJWT <-> jwt_accept cfg keys now ih (view s) = false).
Proof. exact hook_announce_decides. Qed.
Print Assumptions C15_hook_announce_decides.
