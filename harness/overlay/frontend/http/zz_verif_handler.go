//go:build verif && shim_http

package http

import (
	nethttp "net/http"

	"github.com/chihaya/chihaya/frontend"
)

// VerifHandler builds a Frontend the way NewFrontend does (validated config), without
// listeners, and returns its request handler (the router with the announce and scrape routes).
func VerifHandler(logic frontend.TrackerLogic, provided Config) nethttp.Handler {
	f := &Frontend{logic: logic, Config: provided.Validate()}
	return f.handler()
}
