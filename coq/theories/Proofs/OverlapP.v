(* Glue/G15.chk_overlap (the judge of the refresh-overlap cases of C15) against a declarative specification: the log is
   accepted EXACTLY when the announces can be assigned key-set versions that explain every verdict, each within
   [newest version a returned refresh carried when the announce started, newest version served when it ended], and
   never going back from one announce to the next.  The checker's greedy choice (the least admissible version) loses
   nothing. *)
From Chihaya Require Import Glue.G15.
From Coq Require Import Lia.
Open Scope Z_scope.

Section Overlap.
  Variables (cfg : config) (vs : list (list (bytes * Z))).

  (* state: srv = newest version served, ret = newest version returned, prev = version of the previous announce,
     lo = lower bound fixed when the current announce started *)
  Inductive Explains : list oev -> nat -> nat -> nat -> nat -> list nat -> Prop :=
  | ExNil srv ret prev lo : Explains [] srv ret prev lo []
  | ExServed v r srv ret prev lo a : Explains r (Nat.max srv v) ret prev lo a -> Explains (OServed v :: r) srv ret prev lo a
  | ExReturned v r srv ret prev lo a : Explains r srv (Nat.max ret v) prev lo a -> Explains (OReturned v :: r) srv ret prev lo a
  | ExAnnS r srv ret prev lo a : Explains r srv ret prev (Nat.max ret prev) a -> Explains (OAnnS :: r) srv ret prev lo a
  | ExAnnE now ih param o o_msg r srv ret prev lo v a :
      (lo <= v <= srv)%nat -> ann_ok cfg vs now ih param o o_msg v = true ->
      Explains r srv ret v lo a ->
      Explains (OAnnE now ih param o o_msg :: r) srv ret prev lo (v :: a).

  (* lowering the bounds keeps an assignment valid *)
  Lemma Explains_mono evs : forall srv ret prev lo a prev' lo',
    Explains evs srv ret prev lo a -> (prev' <= prev)%nat -> (lo' <= lo)%nat -> Explains evs srv ret prev' lo' a.
  Proof.
    induction evs as [|e r IH]; intros srv ret prev lo a prev' lo' E Hp Hl; inversion E; subst.
    - constructor.
    - constructor. eapply IH; eauto.
    - constructor. eapply IH; eauto.
    - constructor. eapply IH; eauto. lia.
    - constructor; [lia|assumption|]. eapply IH; eauto.
  Qed.

  Lemma first_version_spec f lo n :
    match first_version f lo n with
    | Some v => (lo <= v < lo + n)%nat /\ f v = true /\ forall u, (lo <= u < v)%nat -> f u = false
    | None => forall u, (lo <= u < lo + n)%nat -> f u = false
    end.
  Proof.
    revert lo. induction n as [|n IH]; intros lo; cbn [first_version].
    - intros u Hu. lia.
    - destruct (f lo) eqn:F.
      + repeat split; try lia; auto.
      + specialize (IH (S lo)). destruct (first_version f (S lo) n) as [v|].
        * destruct IH as (R & Fv & Min). repeat split; try lia; auto.
          intros u Hu. destruct (Nat.eq_dec u lo) as [->|]; [exact F|apply Min; lia].
        * intros u Hu. destruct (Nat.eq_dec u lo) as [->|]; [exact F|apply IH; lia].
  Qed.

  Lemma chk_overlap_sticky evs : forall srv ret prev lo reason,
    reason <> 0 -> chk_overlap cfg vs evs srv ret prev lo reason = reason.
  Proof.
    induction evs as [|e r IH]; intros srv ret prev lo reason Hr; cbn [chk_overlap]; [reflexivity|].
    destruct e; try (apply IH; exact Hr).
    destruct (first_version _ _ _); [apply IH; exact Hr|].
    destruct (reason =? 0) eqn:Z0; [apply Z.eqb_eq in Z0; contradiction|apply IH; exact Hr].
  Qed.

  Theorem chk_overlap_iff evs : forall srv ret prev lo,
    chk_overlap cfg vs evs srv ret prev lo 0 = 0 <-> exists a, Explains evs srv ret prev lo a.
  Proof.
    induction evs as [|e r IH]; intros srv ret prev lo; cbn [chk_overlap].
    - split; [intros _; exists []; constructor|reflexivity].
    - destruct e as [v|v| |now ih param o o_msg].
      + rewrite IH. split; intros [a E]; [exists a; now constructor|inversion E; subst; eauto].
      + rewrite IH. split; intros [a E]; [exists a; now constructor|inversion E; subst; eauto].
      + rewrite IH. split; intros [a E]; [exists a; now constructor|inversion E; subst; eauto].
      + pose proof (first_version_spec (ann_ok cfg vs now ih param o o_msg) lo (S srv - lo)) as FS.
        destruct (first_version _ lo (S srv - lo)) as [v|].
        * destruct FS as (R & Ok & Min). rewrite IH. split.
          { intros [a E]. exists (v :: a). constructor; [lia|exact Ok|exact E]. }
          intros [a E]. inversion E as [| | | |? ? ? ? ? ? ? ? ? ? v' a' Rv Okv E']; subst.
          exists a'. eapply Explains_mono; [exact E'| |lia].
          (* the greedy version is the least admissible one *)
          destruct (Nat.le_gt_cases v v') as [L|G]; [exact L|]. rewrite Min in Okv by lia. discriminate.
        * split.
          { intros H. exfalso. cbn [Z.eqb] in H.
            set (rs := fst (chk_announce cfg (publish (nth srv vs [])) now ih param o o_msg)) in H.
            rewrite chk_overlap_sticky in H; destruct (rs <? 100) eqn:L; try discriminate; try lia.
            all: apply Z.ltb_ge in L; lia. }
          intros [a E]. inversion E as [| | | |? ? ? ? ? ? ? ? ? ? v' a' Rv Okv E']; subst.
          rewrite FS in Okv by lia. discriminate.
  Qed.
End Overlap.

(* the glue's verdict on an overlap case *)
Theorem overlap_verdict_iff i a vs evs :
  snd (chk15 (COverlap i a vs evs)) = 0 <->
  exists assign, Explains {| cfg_iss := i; cfg_aud := a |} vs evs 0 0 0 0 assign.
Proof. cbn [chk15 snd]. apply chk_overlap_iff. Qed.
