(* Lemmas about the sequential model of the Redis peer store
   (Model/RedisStore.v): key names, commands, refinement of the specification
   (C01), expiry (C05) and the exported totals (C17). *)
From Chihaya Require Import Model.History.
From Coq Require Import ZifyBool ZifyNat.
Open Scope Z_scope.

(* ================================================================== A. key names *)

Lemma hex_digit_inj a b : 0 <= a < 16 → 0 <= b < 16 → hex_digit a = hex_digit b → a = b.
Proof. unfold hex_digit. intros Ha Hb. destruct (a <? 10) eqn:Ea, (b <? 10) eqn:Eb; lia. Qed.

Lemma hex_byte_inj x y :
  0 <= x < 256 → 0 <= y < 256 →
  hex_digit (x / 16) = hex_digit (y / 16) → hex_digit (x mod 16) = hex_digit (y mod 16) → x = y.
Proof.
  intros Hx Hy H1 H2.
  apply hex_digit_inj in H1; [|Z.div_mod_to_equations; lia..].
  apply hex_digit_inj in H2; [|Z.div_mod_to_equations; lia..].
  Z.div_mod_to_equations; lia.
Qed.

Lemma hex_cons x b : hex (x :: b) = hex_digit (x / 16) :: hex_digit (x mod 16) :: hex b.
Proof. reflexivity. Qed.

Lemma hex_length b : length (hex b) = (2 * length b)%nat.
Proof. induction b as [|x b IH]; [done|]. rewrite hex_cons. cbn [length]. lia. Qed.

Lemma wf_bytes_cons x l : wf_bytes (x :: l) = true ↔ 0 <= x < 256 ∧ wf_bytes l = true.
Proof. unfold wf_bytes. cbn [forallb]. rewrite andb_true_iff, is_byte_iff. done. Qed.

(* injective on well-formed byte strings (the lengths are forced to agree) *)
Lemma hex_inj b b' : wf_bytes b = true → wf_bytes b' = true → hex b = hex b' → b = b'.
Proof.
  revert b'. induction b as [|x b IH]; intros [|y b'] Hb Hb' He; try done.
  rewrite !hex_cons in He. injection He as H1 H2 H3.
  apply wf_bytes_cons in Hb as [Hx Hb]. apply wf_bytes_cons in Hb' as [Hy Hb'].
  f_equal; [by apply hex_byte_inj | by apply IH].
Qed.

Lemma hex_inj_len b b' :
  length b = length b' → wf_bytes b = true → wf_bytes b' = true → hex b = hex b' → b = b'.
Proof. intros _. apply hex_inj. Qed.

Lemma k_group_eq v6 : k_group v6 = [73; 80; 118; if v6 then 54 else 52].
Proof. by destruct v6. Qed.

Lemma k_swarm_eq v6 s ih :
  k_swarm v6 s ih = 73 :: 80 :: 118 :: (if v6 then 54 else 52) :: 95 :: (if s then 83 else 76) :: 95 :: hex ih.
Proof. by destruct v6, s. Qed.

Lemma k_swarm_inj v6 s ih v6' s' ih' :
  ih_wf ih → ih_wf ih' → k_swarm v6 s ih = k_swarm v6' s' ih' → v6 = v6' ∧ s = s' ∧ ih = ih'.
Proof.
  intros [_ Hw] [_ Hw']. rewrite !k_swarm_eq. intros [= H1 H2 H3].
  split_and!.
  - by destruct v6, v6'.
  - by destruct s, s'.
  - by apply hex_inj.
Qed.

Lemma k_swarm_ne_group v6 s ih v6' : k_swarm v6 s ih ≠ k_group v6'.
Proof. rewrite k_swarm_eq, k_group_eq. discriminate. Qed.

Lemma k_group_inj v6 v6' : k_group v6 = k_group v6' → v6 = v6'.
Proof. by destruct v6, v6'. Qed.

Lemma key_is_seeder_swarm v6 s ih : key_is_seeder (k_swarm v6 s ih) = s.
Proof. rewrite k_swarm_eq. by destruct s. Qed.

(* the six counter keys are pairwise distinct *)
Lemma k_scount_inj v6 v6' : k_scount v6 = k_scount v6' → v6 = v6'.
Proof. by destruct v6, v6'. Qed.
Lemma k_lcount_inj v6 v6' : k_lcount v6 = k_lcount v6' → v6 = v6'.
Proof. by destruct v6, v6'. Qed.
Lemma k_ihcount_inj v6 v6' : k_ihcount v6 = k_ihcount v6' → v6 = v6'.
Proof. by destruct v6, v6'. Qed.
Lemma k_scount_ne_lcount v6 v6' : k_scount v6 ≠ k_lcount v6'.
Proof. by destruct v6, v6'. Qed.
Lemma k_scount_ne_ihcount v6 v6' : k_scount v6 ≠ k_ihcount v6'.
Proof. by destruct v6, v6'. Qed.
Lemma k_lcount_ne_ihcount v6 v6' : k_lcount v6 ≠ k_ihcount v6'.
Proof. by destruct v6, v6'. Qed.

(* ================================================================== B. commands *)

(* normal form of every hash write: store [h] under [k], dropping the key when
   [h] has no field *)
Definition r_put (k : list Z) (h : gmap (list Z) Z) (st : rstate) : rstate :=
  {| hs := if decide (h = ∅) then delete k (hs st) else <[k := h]> (hs st); cs := cs st |}.

Definition no_empty_hash (st : rstate) : Prop := ∀ k h, hs st !! k = Some h → h ≠ ∅.

Lemma r_hash_put k h st : r_hash k (r_put k h st) = h.
Proof.
  unfold r_hash, r_put. cbn. destruct (decide (h = ∅)) as [->|Hne].
  - by rewrite lookup_delete.
  - by rewrite lookup_insert.
Qed.

Lemma r_hash_put_ne k k' h st : k ≠ k' → r_hash k' (r_put k h st) = r_hash k' st.
Proof.
  intros Hne. unfold r_hash, r_put. cbn. destruct (decide (h = ∅)).
  - by rewrite lookup_delete_ne.
  - by rewrite lookup_insert_ne.
Qed.

Lemma cs_put k h st : cs (r_put k h st) = cs st.
Proof. done. Qed.

Lemma r_get_put c k h st : r_get c (r_put k h st) = r_get c st.
Proof. done. Qed.

Lemma no_empty_put k h st : no_empty_hash st → no_empty_hash (r_put k h st).
Proof.
  intros Hst k' h'. unfold r_put. cbn. destruct (decide (h = ∅)) as [->|Hne].
  - rewrite lookup_delete_Some. intros [_ Hl]. by eapply Hst.
  - rewrite lookup_insert_Some. intros [[_ <-]|[_ Hl]]; [done|by eapply Hst].
Qed.

Lemma hs_put_Some k h st k' :
  is_Some (hs (r_put k h st) !! k') → k' = k ∨ is_Some (hs st !! k').
Proof.
  unfold r_put. cbn. intros Hs. destruct (decide (k' = k)) as [->|Hne]; [by left|right].
  destruct (decide (h = ∅)).
  - by rewrite lookup_delete_ne in Hs.
  - by rewrite lookup_insert_ne in Hs.
Qed.

Lemma r_put_put k h1 h2 st : r_put k h2 (r_put k h1 st) = r_put k h2 st.
Proof.
  unfold r_put. cbn. f_equal.
  destruct (decide (h2 = ∅)), (decide (h1 = ∅)).
  - by rewrite delete_idemp.
  - by rewrite delete_insert_delete.
  - by rewrite insert_delete_insert.
  - by rewrite insert_insert.
Qed.

Lemma r_put_id k st : no_empty_hash st → r_put k (r_hash k st) st = st.
Proof.
  intros Hst. destruct st as [m c]. unfold r_put, r_hash. cbn. f_equal.
  destruct (m !! k) as [h|] eqn:Hk; cbn.
  - rewrite decide_False by (by eapply (Hst k h)). by rewrite insert_id.
  - rewrite decide_True by done. by rewrite delete_notin.
Qed.

Lemma r_hash_empty_None k st : no_empty_hash st → r_hash k st = ∅ ↔ hs st !! k = None.
Proof.
  intros Hst. unfold r_hash. destruct (hs st !! k) as [h|] eqn:Hk; cbn; [|done].
  split; [|done]. intros ->. by destruct (Hst k ∅).
Qed.

(* HSET *)
Lemma r_hset_eq k f v st :
  r_hset k f v st = (r_put k (<[f := v]> (r_hash k st)) st, if r_hash k st !! f then 0 else 1).
Proof.
  unfold r_hset, r_put. rewrite decide_False; [done|]. apply insert_non_empty.
Qed.

Lemma r_hset_lookup k f v st : r_hash k (r_hset k f v st).1 !! f = Some v.
Proof. rewrite r_hset_eq. cbn [fst]. by rewrite r_hash_put, lookup_insert. Qed.

Lemma r_hset_lookup_ne k f f' v st : f ≠ f' → r_hash k (r_hset k f v st).1 !! f' = r_hash k st !! f'.
Proof. intros. rewrite r_hset_eq. cbn [fst]. by rewrite r_hash_put, lookup_insert_ne. Qed.

Lemma r_hset_frame k k' f v st : k ≠ k' → r_hash k' (r_hset k f v st).1 = r_hash k' st.
Proof. intros. rewrite r_hset_eq. cbn [fst]. by rewrite r_hash_put_ne. Qed.

Lemma r_hset_reply k f v st :
  (r_hset k f v st).2 = if r_hash k st !! f then 0 else 1.
Proof. by rewrite r_hset_eq. Qed.

Lemma r_hset_no_empty k f v st : no_empty_hash st → no_empty_hash (r_hset k f v st).1.
Proof. intros. rewrite r_hset_eq. by apply no_empty_put. Qed.

(* HDEL *)
Lemma r_hdel_None k f st : r_hash k st !! f = None → r_hdel k f st = (st, 0).
Proof. unfold r_hdel. by intros ->. Qed.

Lemma r_hdel_Some k f st :
  is_Some (r_hash k st !! f) → r_hdel k f st = (r_put k (delete f (r_hash k st)) st, 1).
Proof.
  intros [v Hv]. unfold r_hdel, r_put. rewrite Hv. do 2 f_equal.
  destruct (decide (delete f (r_hash k st) = ∅)) as [He|He].
  - by rewrite He, map_size_empty.
  - apply map_size_non_empty_iff in He.
    destruct (size (delete f (r_hash k st))); [done|]. done.
Qed.

Lemma r_hdel_lookup k f st : r_hash k (r_hdel k f st).1 !! f = None.
Proof.
  destruct (r_hash k st !! f) as [v|] eqn:Hf.
  - rewrite r_hdel_Some by done. cbn [fst]. by rewrite r_hash_put, lookup_delete.
  - by rewrite r_hdel_None.
Qed.

Lemma r_hdel_hash k f st : r_hash k (r_hdel k f st).1 = delete f (r_hash k st).
Proof.
  destruct (r_hash k st !! f) as [v|] eqn:Hf.
  - rewrite r_hdel_Some by done. cbn [fst]. by rewrite r_hash_put.
  - rewrite r_hdel_None by done. by rewrite delete_notin.
Qed.

Lemma r_hdel_frame k k' f st : k ≠ k' → r_hash k' (r_hdel k f st).1 = r_hash k' st.
Proof.
  intros. destruct (r_hash k st !! f) as [v|] eqn:Hf.
  - rewrite r_hdel_Some by done. cbn [fst]. by rewrite r_hash_put_ne.
  - by rewrite r_hdel_None.
Qed.

Lemma r_hdel_reply k f st : (r_hdel k f st).2 = if r_hash k st !! f then 1 else 0.
Proof.
  destruct (r_hash k st !! f) as [v|] eqn:Hf.
  - by rewrite r_hdel_Some.
  - by rewrite r_hdel_None.
Qed.

Lemma r_hdel_no_empty k f st : no_empty_hash st → no_empty_hash (r_hdel k f st).1.
Proof.
  intros. destruct (r_hash k st !! f) as [v|] eqn:Hf.
  - rewrite r_hdel_Some by done. by apply no_empty_put.
  - by rewrite r_hdel_None.
Qed.

Lemma r_hlen_0 k st : r_hlen k st =? 0 = bool_decide (r_hash k st = ∅).
Proof.
  unfold r_hlen. case_bool_decide as He.
  - rewrite He, map_size_empty. done.
  - apply map_size_non_empty_iff in He. lia.
Qed.

Lemma no_empty_init : no_empty_hash redis_init.
Proof. intros k h. unfold redis_init. cbn. by rewrite lookup_empty. Qed.

(* counters *)
Lemma r_hash_incrby k c d st : r_hash k (r_incrby c d st) = r_hash k st.
Proof. done. Qed.
Lemma r_get_incrby c d st : r_get c (r_incrby c d st) = r_get c st + d.
Proof. unfold r_get, r_incrby. cbn. by rewrite lookup_insert. Qed.
Lemma r_get_incrby_ne c c' d st : c ≠ c' → r_get c' (r_incrby c d st) = r_get c' st.
Proof. intros. unfold r_get, r_incrby. cbn. by rewrite lookup_insert_ne. Qed.
Lemma no_empty_incrby c d st : no_empty_hash st → no_empty_hash (r_incrby c d st).
Proof. done. Qed.

(* ================================================================== swarm maps: one-role updates and weighted sums *)

Definition role (s : bool) (sw : swarm) : gmap (list Z) Z := if s then seeders sw else leechers sw.
Definition set_role (s : bool) (g : gmap (list Z) Z) (sw : swarm) : swarm :=
  if s then {| seeders := g; leechers := leechers sw |} else {| seeders := seeders sw; leechers := g |}.

Lemma swarm_eta sw : {| seeders := seeders sw; leechers := leechers sw |} = sw.
Proof. by destruct sw. Qed.
Lemma swarm_eq sw1 sw2 : seeders sw1 = seeders sw2 → leechers sw1 = leechers sw2 → sw1 = sw2.
Proof. destruct sw1, sw2. cbn. by intros -> ->. Qed.
Lemma swarm_eq_role sw1 sw2 : (∀ s, role s sw1 = role s sw2) → sw1 = sw2.
Proof. intros Hr. apply swarm_eq; [apply (Hr true)|apply (Hr false)]. Qed.

Lemma swarm_empty_true sw : swarm_empty sw = true ↔ sw = empty_swarm.
Proof.
  unfold swarm_empty. rewrite andb_true_iff, !Nat.eqb_eq, !map_size_empty_iff.
  split; [intros [Hs Hl]; by apply swarm_eq|by intros ->].
Qed.
Lemma swarm_empty_role sw : swarm_empty sw = true ↔ ∀ s, role s sw = ∅.
Proof.
  rewrite swarm_empty_true. split; [by intros -> []|].
  intros Hr. apply swarm_eq_role. intros s. rewrite Hr. by destruct s.
Qed.

Lemma role_set_role s s' g sw : role s' (set_role s g sw) = if decide (s' = s) then g else role s' sw.
Proof. by destruct s, s'. Qed.
Lemma role_empty s : role s empty_swarm = ∅.
Proof. by destruct s. Qed.

Lemma fresh_empty T : fresh T ∅ = ∅.
Proof. apply map_filter_empty. Qed.

Section SwarmMapP.
  Context {K : Type} `{Countable K}.
  Implicit Types (m : gmap K swarm) (k : K).

  Definition no_empty_swarm m : Prop := ∀ k sw, m !! k = Some sw → swarm_empty sw = false.

  (* replace one role of one swarm *)
  Definition sp_upd k (s : bool) (g : gmap (list Z) Z) m : gmap K swarm :=
    sm_set k (set_role s g (sm_get k m)) m.

  Lemma sm_get_Some k m sw : m !! k = Some sw → sm_get k m = sw.
  Proof. unfold sm_get. by intros ->. Qed.
  Lemma sm_get_None k m : m !! k = None → sm_get k m = empty_swarm.
  Proof. unfold sm_get. by intros ->. Qed.

  Lemma sm_get_sm_set k sw m : sm_get k (sm_set k sw m) = sw.
  Proof.
    unfold sm_get, sm_set. destruct (swarm_empty sw) eqn:He.
    - rewrite lookup_delete. cbn. symmetry. by apply swarm_empty_true.
    - by rewrite lookup_insert.
  Qed.
  Lemma sm_get_sm_set_ne k k' sw m : k ≠ k' → sm_get k' (sm_set k sw m) = sm_get k' m.
  Proof.
    intros Hne. unfold sm_get, sm_set. destruct (swarm_empty sw).
    - by rewrite lookup_delete_ne.
    - by rewrite lookup_insert_ne.
  Qed.
  Lemma sm_set_lookup_ne k k' sw m : k ≠ k' → sm_set k sw m !! k' = m !! k'.
  Proof.
    intros Hne. unfold sm_set. destruct (swarm_empty sw).
    - by rewrite lookup_delete_ne.
    - by rewrite lookup_insert_ne.
  Qed.
  Lemma sm_set_lookup k sw m : sm_set k sw m !! k = if swarm_empty sw then None else Some sw.
  Proof.
    unfold sm_set. destruct (swarm_empty sw).
    - by rewrite lookup_delete.
    - by rewrite lookup_insert.
  Qed.
  Lemma sm_set_set k sw1 sw2 m : sm_set k sw2 (sm_set k sw1 m) = sm_set k sw2 m.
  Proof.
    unfold sm_set. destruct (swarm_empty sw2), (swarm_empty sw1).
    - by rewrite delete_idemp.
    - by rewrite delete_insert_delete.
    - by rewrite insert_delete_insert.
    - by rewrite insert_insert.
  Qed.
  Lemma no_empty_sm_set k sw m : no_empty_swarm m → no_empty_swarm (sm_set k sw m).
  Proof.
    intros Hm k' sw'. destruct (decide (k = k')) as [<-|Hne].
    - rewrite sm_set_lookup. destruct (swarm_empty sw) eqn:He; [done|]. by intros [= <-].
    - rewrite sm_set_lookup_ne by done. apply Hm.
  Qed.

  Lemma role_sm_get_sp_upd k s g m k' s' :
    role s' (sm_get k' (sp_upd k s g m)) = if decide (k' = k ∧ s' = s) then g else role s' (sm_get k' m).
  Proof.
    unfold sp_upd. destruct (decide (k = k')) as [<-|Hne].
    - rewrite sm_get_sm_set, role_set_role.
      destruct (decide (s' = s)) as [->|Hs].
      + by rewrite decide_True.
      + rewrite decide_False; [done|]. by intros [_ ?].
    - rewrite sm_get_sm_set_ne by done. rewrite decide_False; [done|]. by intros [-> _].
  Qed.

  (* two maps without empty swarms that agree through sm_get are equal *)
  Lemma spec_ext m1 m2 :
    no_empty_swarm m1 → no_empty_swarm m2 → (∀ k, sm_get k m1 = sm_get k m2) → m1 = m2.
  Proof.
    intros H1 H2 Hg. apply map_eq. intros k. specialize (Hg k). unfold sm_get in Hg.
    destruct (m1 !! k) as [a|] eqn:E1, (m2 !! k) as [b|] eqn:E2; cbn in Hg; subst; try done.
    - apply H1 in E1. done.
    - apply H2 in E2. done.
  Qed.

  Lemma sw_expire_empty T : sw_expire T empty_swarm = empty_swarm.
  Proof. unfold sw_expire. cbn. by rewrite fresh_empty. Qed.

  Lemma sm_get_gc T k m : sm_get k (sm_gc T m) = sw_expire T (sm_get k m).
  Proof.
    unfold sm_get, sm_gc. rewrite lookup_omap. destruct (m !! k) as [sw|]; cbn.
    - destruct (swarm_empty (sw_expire T sw)) eqn:He; cbn; [|done].
      symmetry. by apply swarm_empty_true.
    - by rewrite sw_expire_empty.
  Qed.
  Lemma no_empty_gc T m : no_empty_swarm (sm_gc T m).
  Proof.
    intros k sw. unfold sm_gc. rewrite lookup_omap_Some. intros (sw0 & Hs & _).
    destruct (swarm_empty (sw_expire T sw0)) eqn:He; [done|]. by injection Hs as <-.
  Qed.
  Lemma sm_gc_lookup_None T k m : m !! k = None → sm_gc T m !! k = None.
  Proof. intros Hk. unfold sm_gc. by rewrite lookup_omap, Hk. Qed.

  (* ---- weighted sums over a swarm map *)
  Definition msum (w : K → swarm → Z) m : Z := map_fold (λ k sw acc, acc + w k sw) 0 m.

  Lemma msum_empty w : msum w ∅ = 0.
  Proof. apply map_fold_empty. Qed.
  Lemma msum_insert_None w k sw m : m !! k = None → msum w (<[k := sw]> m) = msum w m + w k sw.
  Proof.
    intros Hk. unfold msum. rewrite map_fold_insert_L; [done| |done].
    intros. lia.
  Qed.
  Lemma msum_delete w k m : msum w (delete k m) = msum w m - from_option (w k) 0 (m !! k).
  Proof.
    destruct (m !! k) as [old|] eqn:Hk; cbn.
    - rewrite <-(insert_delete m k old) at 2 by done.
      rewrite msum_insert_None by apply lookup_delete. lia.
    - rewrite delete_notin by done. lia.
  Qed.
  Lemma msum_insert w k sw m :
    msum w (<[k := sw]> m) = msum w m - from_option (w k) 0 (m !! k) + w k sw.
  Proof.
    rewrite <-insert_delete_insert. rewrite msum_insert_None by apply lookup_delete.
    by rewrite msum_delete.
  Qed.
  Lemma msum_sm_set w k sw m :
    w k empty_swarm = 0 →
    msum w (sm_set k sw m) = msum w m - w k (sm_get k m) + w k sw.
  Proof.
    intros Hw. unfold sm_set, sm_get. destruct (swarm_empty sw) eqn:He.
    - apply swarm_empty_true in He as ->. rewrite msum_delete.
      destruct (m !! k); cbn; lia.
    - rewrite msum_insert. destruct (m !! k); cbn; lia.
  Qed.
  Lemma msum_plus w1 w2 m : msum (λ k sw, w1 k sw + w2 k sw) m = msum w1 m + msum w2 m.
  Proof.
    induction m as [|k sw m Hk IH] using map_ind.
    - by rewrite !msum_empty.
    - rewrite !msum_insert_None by done. lia.
  Qed.
  Lemma msum_ext w1 w2 m : (∀ k sw, w1 k sw = w2 k sw) → msum w1 m = msum w2 m.
  Proof.
    intros Hw. induction m as [|k sw m Hk IH] using map_ind.
    - by rewrite !msum_empty.
    - rewrite !msum_insert_None by done. rewrite Hw. lia.
  Qed.
  Lemma msum_nonneg w m : (∀ k sw, 0 <= w k sw) → 0 <= msum w m.
  Proof.
    intros Hw. induction m as [|k sw m Hk IH] using map_ind.
    - by rewrite !msum_empty.
    - rewrite !msum_insert_None by done. specialize (Hw k sw). lia.
  Qed.

  Lemma sm_total_seeders_msum m : sm_total_seeders m = msum (λ _ sw, Z.of_nat (size (role true sw))) m.
  Proof. done. Qed.
  Lemma sm_total_leechers_msum m : sm_total_leechers m = msum (λ _ sw, Z.of_nat (size (role false sw))) m.
  Proof. done. Qed.
End SwarmMapP.

(* the specification's operations are one-role updates *)
Section SpecOps.
  Context {K : Type} `{Countable K}.
  Implicit Types (m : gmap K swarm) (k : K).

  Lemma swarm_nonempty_role s sw : role s sw ≠ ∅ → swarm_empty sw = false.
  Proof.
    intros Hne. destruct (swarm_empty sw) eqn:He; [|done].
    destruct Hne. by apply (proj1 (swarm_empty_role sw) He).
  Qed.

  Lemma sp_upd_nonempty k s g m : g ≠ ∅ → sp_upd k s g m = <[k := set_role s g (sm_get k m)]> m.
  Proof.
    intros Hg. unfold sp_upd, sm_set. rewrite (swarm_nonempty_role s); [done|].
    by rewrite role_set_role, decide_True.
  Qed.

  Lemma sm_put_seeder_upd k pk t m :
    (sm_put_seeder k pk t m).1 = sp_upd k true (<[pk := t]> (role true (sm_get k m))) m.
  Proof. rewrite sp_upd_nonempty by apply insert_non_empty. done. Qed.
  Lemma sm_put_leecher_upd k pk t m :
    (sm_put_leecher k pk t m).1 = sp_upd k false (<[pk := t]> (role false (sm_get k m))) m.
  Proof. rewrite sp_upd_nonempty by apply insert_non_empty. done. Qed.

  Lemma sm_del_seeder_upd k pk m :
    sm_del_seeder k pk m =
    if role true (sm_get k m) !! pk then Some (sp_upd k true (delete pk (role true (sm_get k m))) m) else None.
  Proof.
    unfold sm_del_seeder, sp_upd, sm_get. destruct (m !! k) as [sw|]; cbn; [|by rewrite lookup_empty].
    by destruct (seeders sw !! pk).
  Qed.
  Lemma sm_del_leecher_upd k pk m :
    sm_del_leecher k pk m =
    if role false (sm_get k m) !! pk then Some (sp_upd k false (delete pk (role false (sm_get k m))) m) else None.
  Proof.
    unfold sm_del_leecher, sp_upd, sm_get. destruct (m !! k) as [sw|]; cbn; [|by rewrite lookup_empty].
    by destruct (leechers sw !! pk).
  Qed.

  Lemma sm_graduate_upd k pk t m :
    (sm_graduate k pk t m).1.1 =
    sp_upd k true (<[pk := t]> (role true (sm_get k m)))
      (sp_upd k false (delete pk (role false (sm_get k m))) m).
  Proof.
    rewrite (sp_upd_nonempty k true) by apply insert_non_empty.
    unfold sp_upd at 1. rewrite sm_get_sm_set.
    unfold sp_upd, sm_set. cbn.
    destruct (swarm_empty _).
    - by rewrite insert_delete_insert.
    - by rewrite insert_insert.
  Qed.
End SpecOps.

(* ================================================================== C. the invariant *)

Definition k_cnt (v6 s : bool) : list Z := if s then k_scount v6 else k_lcount v6.
Definition fam_w (v6 s : bool) (k : list Z * bool) (sw : swarm) : Z :=
  if decide (k.2 = v6) then Z.of_nat (size (role s sw)) else 0.
Definition reg_size (G : gmap (list Z) Z) : Z :=
  Z.of_nat (size (filter (λ kv, key_is_seeder kv.1 = true) G)).
Definition reg_count (v6 : bool) (st : rstate) : Z := reg_size (r_hash (k_group v6) st).
(* number of registered seeder keys, both families *)
Definition red_registered (st : rstate) : Z := reg_count false st + reg_count true st.

Record red_inv (st : rstate) (sp : spec) : Prop := {
  ri_hash : ∀ ih v6 s, ih_wf ih → r_hash (k_swarm v6 s ih) st = role s (sm_get (ih, v6) sp);
  ri_spec_ne : no_empty_swarm sp;
  ri_spec_wf : ∀ ih v6, is_Some (sp !! (ih, v6)) → ih_wf ih;
  ri_ne : no_empty_hash st;
  ri_reg : ∀ ih v6 s, ih_wf ih → r_hash (k_swarm v6 s ih) st ≠ ∅ →
           is_Some (r_hash (k_group v6) st !! k_swarm v6 s ih);
  ri_grp : ∀ v6 k, is_Some (r_hash (k_group v6) st !! k) → ∃ s ih, ih_wf ih ∧ k = k_swarm v6 s ih;
  ri_keys : ∀ k, r_hash k st ≠ ∅ →
            (∃ v6, k = k_group v6) ∨ (∃ v6 s ih, ih_wf ih ∧ k = k_swarm v6 s ih);
  ri_cnt : ∀ v6 s, r_get (k_cnt v6 s) st = msum (fam_w v6 s) sp;
  ri_ic : ∀ v6, r_get (k_ihcount v6) st = reg_count v6 st
}.

Lemma k_cnt_inj v6 s v6' s' : k_cnt v6 s = k_cnt v6' s' → v6 = v6' ∧ s = s'.
Proof. by destruct v6, s, v6', s'. Qed.
Lemma k_cnt_ne_ihcount v6 s v6' : k_cnt v6 s ≠ k_ihcount v6'.
Proof. by destruct v6, s, v6'. Qed.

(* what one store-level step does to the keyspace when it replaces one role
   hash (family v6, role s, infohash ih) by g *)
Record role_step (st st' : rstate) (ih : list Z) (v6 s : bool) (g : gmap (list Z) Z) : Prop := {
  rs_ne : no_empty_hash st';
  rs_hash : r_hash (k_swarm v6 s ih) st' = g;
  rs_frame : ∀ k, k ≠ k_swarm v6 s ih → k ≠ k_group v6 → r_hash k st' = r_hash k st;
  rs_grp : ∀ k, k ≠ k_swarm v6 s ih → r_hash (k_group v6) st' !! k = r_hash (k_group v6) st !! k;
  rs_reg : g ≠ ∅ → is_Some (r_hash (k_group v6) st' !! k_swarm v6 s ih);
  rs_cnt : r_get (k_cnt v6 s) st' =
           r_get (k_cnt v6 s) st + Z.of_nat (size g) - Z.of_nat (size (r_hash (k_swarm v6 s ih) st));
  rs_ic : r_get (k_ihcount v6) st' = reg_count v6 st';
  rs_cs_frame : ∀ c, c ≠ k_cnt v6 s → c ≠ k_ihcount v6 → r_get c st' = r_get c st
}.

Lemma fam_w_empty v6 s k : fam_w v6 s k empty_swarm = 0.
Proof. unfold fam_w. rewrite role_empty, map_size_empty. by case_decide. Qed.

Lemma role_step_inv st sp st' ih v6 s g :
  red_inv st sp → ih_wf ih → role_step st st' ih v6 s g → red_inv st' (sp_upd (ih, v6) s g sp).
Proof.
  intros I Hwf R. split.
  - intros ih' v6' s' Hwf'. rewrite role_sm_get_sp_upd.
    destruct (decide ((ih', v6') = (ih, v6) ∧ s' = s)) as [[[= -> ->] ->]|Hne].
    + apply R.
    + rewrite (rs_frame _ _ _ _ _ _ R); [by apply I| |apply k_swarm_ne_group].
      intros Heq. apply k_swarm_inj in Heq as (-> & -> & ->); [|done..]. by apply Hne.
  - apply no_empty_sm_set, I.
  - intros ih' v6' Hs. destruct (decide ((ih, v6) = (ih', v6'))) as [[= <- <-]|Hne]; [done|].
    unfold sp_upd in Hs. rewrite sm_set_lookup_ne in Hs by done. by eapply I.
  - apply R.
  - intros ih' v6' s' Hwf' Hne.
    destruct (decide (k_swarm v6' s' ih' = k_swarm v6 s ih)) as [Heq|Hk].
    + apply k_swarm_inj in Heq as (-> & -> & ->); [|done..].
      apply R. by rewrite <-(rs_hash _ _ _ _ _ _ R).
    + rewrite (rs_frame _ _ _ _ _ _ R) in Hne by (done || apply k_swarm_ne_group).
      apply (ri_reg _ _ I) in Hne; [|done].
      destruct (decide (v6' = v6)) as [->|Hv].
      * by rewrite (rs_grp _ _ _ _ _ _ R).
      * rewrite (rs_frame _ _ _ _ _ _ R); [done| |].
        -- apply not_eq_sym, k_swarm_ne_group.
        -- by intros Heq%k_group_inj.
  - intros v6' k Hs. destruct (decide (v6' = v6)) as [->|Hv].
    + destruct (decide (k = k_swarm v6 s ih)) as [->|Hk]; [by exists s, ih|].
      rewrite (rs_grp _ _ _ _ _ _ R) in Hs by done. by eapply I.
    + rewrite (rs_frame _ _ _ _ _ _ R) in Hs; [by eapply I| |].
      * apply not_eq_sym, k_swarm_ne_group.
      * by intros Heq%k_group_inj.
  - intros k Hne.
    destruct (decide (k = k_swarm v6 s ih)) as [->|Hk]; [right; by exists v6, s, ih|].
    destruct (decide (k = k_group v6)) as [->|Hg]; [left; by exists v6|].
    rewrite (rs_frame _ _ _ _ _ _ R) in Hne by done. by eapply I.
  - intros v6' s'. unfold sp_upd. rewrite msum_sm_set by apply fam_w_empty.
    rewrite <-(ri_cnt _ _ I). unfold fam_w. cbn [snd]. rewrite role_set_role.
    destruct (decide (v6 = v6')) as [<-|Hv].
    + destruct (decide (s' = s)) as [->|Hs].
      * rewrite (rs_cnt _ _ _ _ _ _ R). rewrite (ri_hash _ _ I) by done. lia.
      * rewrite (rs_cs_frame _ _ _ _ _ _ R); [lia| |apply k_cnt_ne_ihcount].
        intros Heq%k_cnt_inj. by destruct Heq.
    + rewrite (rs_cs_frame _ _ _ _ _ _ R); [lia| |apply k_cnt_ne_ihcount].
      intros Heq%k_cnt_inj. by destruct Heq.
  - intros v6'. destruct (decide (v6' = v6)) as [->|Hv]; [apply R|].
    rewrite (rs_cs_frame _ _ _ _ _ _ R).
    + rewrite (ri_ic _ _ I). unfold reg_count. rewrite (rs_frame _ _ _ _ _ _ R); [done| |].
      * apply not_eq_sym, k_swarm_ne_group.
      * by intros Heq%k_group_inj.
    + apply not_eq_sym, k_cnt_ne_ihcount.
    + by intros Heq%k_ihcount_inj.
Qed.

(* ---- registered seeder keys under HSET / HDEL on a group hash *)
Lemma reg_size_insert k t G :
  reg_size (<[k := t]> G) = reg_size G + (if key_is_seeder k then if G !! k then 0 else 1 else 0).
Proof.
  unfold reg_size. destruct (key_is_seeder k) eqn:Hk.
  - rewrite map_filter_insert_True by done. destruct (G !! k) as [v|] eqn:HG.
    + rewrite map_size_insert_Some; [lia|]. exists v. by apply map_filter_lookup_Some.
    + rewrite map_size_insert_None; [lia|]. apply map_filter_lookup_None. by left.
  - rewrite map_filter_insert_not; [lia|]. intros y. cbn. by rewrite Hk.
Qed.
Lemma reg_size_delete k G :
  reg_size (delete k G) = reg_size G - (if key_is_seeder k then if G !! k then 1 else 0 else 0).
Proof.
  unfold reg_size. rewrite map_filter_delete.
  set (F := filter _ G).
  destruct (F !! k) as [v|] eqn:HF.
  - pose proof HF as HF'. apply map_filter_lookup_Some in HF' as [HG Hk]. cbn in Hk. rewrite Hk, HG.
    rewrite <-(insert_delete F k v) at 2 by done.
    rewrite map_size_insert_None by apply lookup_delete. lia.
  - rewrite delete_notin by done.
    destruct (key_is_seeder k) eqn:Hk; [|lia]. destruct (G !! k) as [v|] eqn:HG; [|lia].
    assert (F !! k = Some v) as Hc by (by apply map_filter_lookup_Some). congruence.
Qed.
Lemma reg_size_empty : reg_size ∅ = 0.
Proof. unfold reg_size. by rewrite map_filter_empty, map_size_empty. Qed.

(* ---- reading through conditional counter updates *)
Lemma if_incr_hash k (b : bool) c d st : r_hash k (if b then r_incrby c d st else st) = r_hash k st.
Proof. by destruct b. Qed.
Lemma r_get_incrby_full c' c d st :
  r_get c' (r_incrby c d st) = r_get c' st + (if decide (c = c') then d else 0).
Proof.
  case_decide as Hc.
  - subst. apply r_get_incrby.
  - rewrite r_get_incrby_ne by done. lia.
Qed.
Lemma if_incr_get c' (b : bool) c d st :
  r_get c' (if b then r_incrby c d st else st) = r_get c' st + (if b then if decide (c = c') then d else 0 else 0).
Proof. destruct b; [apply r_get_incrby_full|lia]. Qed.
Lemma if_incr_ne (b : bool) c d st : no_empty_hash st → no_empty_hash (if b then r_incrby c d st else st).
Proof. by destruct b. Qed.

Ltac kne := first
  [ done | apply k_swarm_ne_group | apply not_eq_sym, k_swarm_ne_group
  | apply k_cnt_ne_ihcount | apply not_eq_sym, k_cnt_ne_ihcount
  | apply k_scount_ne_lcount | apply not_eq_sym, k_scount_ne_lcount
  | apply k_scount_ne_ihcount | apply not_eq_sym, k_scount_ne_ihcount
  | apply k_lcount_ne_ihcount | apply not_eq_sym, k_lcount_ne_ihcount
  | congruence ].
Ltac rsimp := repeat first
  [ rewrite if_incr_hash | rewrite r_hash_incrby | rewrite r_hash_put
  | rewrite r_hash_put_ne by kne
  | rewrite if_incr_get | rewrite r_get_incrby_full | rewrite r_get_put ].
Ltac cdec := repeat match goal with
  | |- context [decide (?a = ?b)] =>
    first [ rewrite (decide_True (P := a = b)) by done | rewrite (decide_False (P := a = b)) by kne ]
  end.
Ltac rne := repeat first
  [ apply if_incr_ne | apply no_empty_incrby | apply no_empty_put ].

Lemma red_put_seeder_step ih v6 pk t st sp :
  red_inv st sp → ih_wf ih →
  role_step st (red_put_seeder ih v6 pk t st) ih v6 true (<[pk := t]> (r_hash (k_swarm v6 true ih) st)).
Proof.
  intros I Hwf. unfold red_put_seeder. rewrite r_hset_eq. cbv beta iota. rewrite r_hset_eq. cbv beta iota.
  rewrite r_hash_put_ne by kne.
  set (kS := k_swarm v6 true ih). set (G := r_hash (k_group v6) st). set (h := r_hash kS st).
  split.
  - rne. apply I.
  - by rsimp.
  - intros k Hk Hg. by rsimp.
  - intros k Hk. rsimp. by rewrite lookup_insert_ne.
  - intros _. rsimp. rewrite lookup_insert. eauto.
  - rsimp. change (k_cnt v6 true) with (k_scount v6).
    rewrite decide_True by done. rewrite (decide_False (P := k_ihcount v6 = k_scount v6)) by kne.
    rewrite map_size_insert. change (r_hash (k_swarm v6 true ih) st) with h.
    destruct (h !! pk); cbn; destruct (G !! kS); cbn; lia.
  - unfold reg_count. rsimp. rewrite reg_size_insert. rewrite (key_is_seeder_swarm v6 true ih : key_is_seeder kS = true).
    rewrite (decide_False (P := k_scount v6 = k_ihcount v6)) by kne. rewrite decide_True by done.
    rewrite (ri_ic _ _ I). fold G. unfold reg_count. fold G.
    destruct (h !! pk); cbn; destruct (G !! kS); cbn; lia.
  - intros c Hc1 Hc2. rsimp. change (k_cnt v6 true) with (k_scount v6) in Hc1.
    rewrite !decide_False by kne. destruct (h !! pk); cbn; destruct (G !! kS); cbn; lia.
Qed.

Lemma red_put_leecher_step ih v6 pk t st sp :
  red_inv st sp → ih_wf ih →
  role_step st (red_put_leecher ih v6 pk t st) ih v6 false (<[pk := t]> (r_hash (k_swarm v6 false ih) st)).
Proof.
  intros I Hwf. unfold red_put_leecher. rewrite r_hset_eq. cbv beta iota. rewrite r_hset_eq. cbv beta iota.
  rewrite r_hash_put_ne by kne.
  set (kL := k_swarm v6 false ih). set (G := r_hash (k_group v6) st). set (h := r_hash kL st).
  split.
  - rne. apply I.
  - by rsimp.
  - intros k Hk Hg. by rsimp.
  - intros k Hk. rsimp. by rewrite lookup_insert_ne.
  - intros _. rsimp. rewrite lookup_insert. eauto.
  - rsimp. change (k_cnt v6 false) with (k_lcount v6).
    rewrite decide_True by done.
    rewrite map_size_insert. change (r_hash (k_swarm v6 false ih) st) with h.
    destruct (h !! pk); cbn; lia.
  - unfold reg_count. rsimp. rewrite reg_size_insert. rewrite (key_is_seeder_swarm v6 false ih : key_is_seeder kL = false).
    rewrite (decide_False (P := k_lcount v6 = k_ihcount v6)) by kne.
    rewrite (ri_ic _ _ I). fold G. unfold reg_count. fold G.
    destruct (h !! pk); cbn; lia.
  - intros c Hc1 Hc2. rsimp. change (k_cnt v6 false) with (k_lcount v6) in Hc1.
    rewrite !decide_False by kne. destruct (h !! pk); cbn; lia.
Qed.

Lemma role_step_refl st sp ih v6 s :
  red_inv st sp → ih_wf ih → role_step st st ih v6 s (r_hash (k_swarm v6 s ih) st).
Proof.
  intros I Hwf. split; try done.
  - apply I.
  - intros Hne. by apply (ri_reg _ _ I).
  - lia.
  - apply I.
Qed.

Definition red_del (s : bool) := if s then red_del_seeder else red_del_leecher.

Lemma red_del_step s ih v6 pk st sp :
  red_inv st sp → ih_wf ih →
  role_step st (red_del s ih v6 pk st).1 ih v6 s (delete pk (r_hash (k_swarm v6 s ih) st)).
Proof.
  intros I Hwf.
  assert (red_del s ih v6 pk st =
          let '(st', r) := r_hdel (k_swarm v6 s ih) pk st in
          if r =? 0 then (st, false) else (r_incrby (k_cnt v6 s) (-1) st', true)) as -> by (by destruct s).
  set (k := k_swarm v6 s ih). set (h := r_hash k st).
  destruct (h !! pk) as [v|] eqn:Hpk.
  - rewrite r_hdel_Some by (by eexists). cbv beta iota. cbn [Z.eqb fst].
    assert (h ≠ ∅) as Hh by (intros He; by rewrite He, lookup_empty in Hpk).
    split.
    + rne. apply I.
    + by rsimp.
    + intros k' Hk Hg. by rsimp.
    + intros k' Hk. by rsimp.
    + intros _. rsimp. by apply (ri_reg _ _ I).
    + rsimp. rewrite decide_True by done. fold k h.
      rewrite map_size_delete, Hpk.
      assert (size h ≠ 0%nat) by (by apply map_size_non_empty_iff). lia.
    + unfold reg_count. rsimp. rewrite decide_False by kne. rewrite (ri_ic _ _ I). unfold reg_count. lia.
    + intros c Hc1 Hc2. rsimp. rewrite decide_False by kne. lia.
  - rewrite r_hdel_None by done. cbv beta iota. cbn [Z.eqb fst].
    rewrite delete_notin by done. by eapply role_step_refl.
Qed.

Lemma red_graduate_step ih v6 pk t st sp :
  red_inv st sp → ih_wf ih →
  let st1 := (red_del false ih v6 pk st).1 in
  role_step st1 (red_graduate ih v6 pk t st) ih v6 true (<[pk := t]> (r_hash (k_swarm v6 true ih) st1)).
Proof.
  intros I Hwf. cbn zeta.
  set (kL := k_swarm v6 false ih). set (hL := r_hash kL st).
  pose proof (red_del_step false ih v6 pk st sp I Hwf) as R1.
  pose proof (role_step_inv _ _ _ _ _ _ _ I Hwf R1) as I1.
  cbn [red_del] in *. unfold red_del_leecher in *. unfold red_graduate. fold kL hL in R1, I1 |- *.
  destruct (hL !! pk) as [v|] eqn:Hpk.
  - rewrite r_hdel_Some in * by (by eexists). cbv beta iota in *. cbn [Z.eqb fst] in *.
    fold hL in R1, I1 |- *.
    set (st1 := r_incrby (k_lcount v6) (-1) (r_put kL (delete pk hL) st)) in *.
    rewrite r_hset_eq. cbv beta iota. rewrite r_hset_eq. cbv beta iota.
    rewrite r_hash_put_ne by kne.
    assert (kL ≠ k_swarm v6 true ih) as HkL.
    { intros Heq. apply k_swarm_inj in Heq as (_ & ? & _); done. }
    rewrite !(r_hash_put_ne kL) by kne.
    set (kS := k_swarm v6 true ih) in *. set (G := r_hash (k_group v6) st). set (h := r_hash kS st).
    assert (r_hash kS st1 = h) as Hh1 by (unfold st1; by rsimp).
    assert (r_hash (k_group v6) st1 = G) as HG1 by (unfold st1; by rsimp).
    rewrite Hh1.
    split.
    + rne. apply I.
    + by rsimp.
    + intros k Hk Hg. unfold st1. rsimp.
      destruct (decide (k = kL)) as [->|HkL']; [by rsimp|]. by rsimp.
    + intros k Hk. rsimp. rewrite HG1. by rewrite lookup_insert_ne.
    + intros _. rsimp. rewrite lookup_insert. eauto.
    + rsimp. change (k_cnt v6 true) with (k_scount v6).
      unfold st1 at 1. rsimp. cdec.
      rewrite map_size_insert. change (r_hash (k_swarm v6 true ih) st1) with (r_hash kS st1). rewrite Hh1.
      destruct (h !! pk); cbn; destruct (G !! kS); cbn; lia.
    + unfold reg_count. rsimp. rewrite reg_size_insert.
      rewrite (key_is_seeder_swarm v6 true ih : key_is_seeder kS = true).
      cdec.
      rewrite (ri_ic _ _ I). unfold reg_count. fold G.
      destruct (h !! pk); cbn; destruct (G !! kS); cbn; lia.
    + intros c Hc1 Hc2. unfold st1. rsimp. change (k_cnt v6 true) with (k_scount v6) in Hc1.
      cdec.
      destruct (h !! pk); cbn; destruct (G !! kS); cbn; lia.
  - rewrite r_hdel_None in * by done. cbv beta iota in *. cbn [Z.eqb fst] in *.
    by apply (red_put_seeder_step ih v6 pk t st sp).
Qed.

(* ---- collectGarbage *)
Lemma gc_inner k fs st :
  no_empty_hash st → NoDup fs → (∀ f, f ∈ fs → is_Some (r_hash k st !! f)) →
  foldr (λ f '(st, c), let '(st, r) := r_hdel k f st in (st, c + r)) (st, 0) fs
  = (r_put k (foldr delete (r_hash k st) fs) st, Z.of_nat (length fs)).
Proof.
  intros Hne. induction fs as [|f fs IH]; intros Hnd Hin.
  - cbn. by rewrite r_put_id.
  - apply NoDup_cons in Hnd as [Hf Hnd]. cbn [foldr]. rewrite IH; [|done|].
    2:{ intros f' Hf'. apply Hin. by right. }
    cbv beta iota. rewrite r_hdel_Some.
    2:{ rewrite r_hash_put, lookup_foldr_delete_not_elem_of by done. apply Hin. by left. }
    rewrite r_hash_put, r_put_put. f_equal. cbn [length]. lia.
Qed.

Lemma size_stale_fresh (T : Z) (h : gmap (list Z) Z) :
  (size (filter (λ kv : list Z * Z, (kv.2 ≤ T)%Z) h) + size (fresh T h))%nat = size h.
Proof.
  unfold fresh. induction h as [|i x m Hi IH] using map_ind.
  - by rewrite !map_filter_empty, !map_size_empty.
  - rewrite !map_filter_insert, !delete_notin by done. cbn [snd].
    rewrite (map_size_insert_None _ _ m) by done.
    destruct (decide (x ≤ T)), (decide (T < x)); try lia.
    + rewrite map_size_insert_None; [lia|]. apply map_filter_lookup_None. by left.
    + rewrite map_size_insert_None; [lia|]. apply map_filter_lookup_None. by left.
Qed.

Lemma gc_key_inner T k st :
  no_empty_hash st →
  foldr (λ f '(st, c), let '(st, r) := r_hdel k f st in (st, c + r)) (st, 0)
        (map fst (map_to_list (filter (λ kv : list Z * Z, kv.2 ≤ T) (r_hash k st))))
  = (r_put k (fresh T (r_hash k st)) st,
     Z.of_nat (size (r_hash k st)) - Z.of_nat (size (fresh T (r_hash k st)))).
Proof.
  intros Hne. set (h := r_hash k st). set (stale := filter _ h).
  change (map fst (map_to_list stale)) with ((map_to_list stale).*1).
  assert (∀ f, f ∈ (map_to_list stale).*1 ↔ ∃ v, h !! f = Some v ∧ v ≤ T) as Hin.
  { intros f. rewrite elem_of_list_fmap. split.
    - intros ([f' v] & -> & Hel). apply elem_of_map_to_list in Hel.
      apply map_filter_lookup_Some in Hel. by exists v.
    - intros (v & Hv & Hle). exists (f, v). split; [done|].
      apply elem_of_map_to_list. by apply map_filter_lookup_Some. }
  rewrite gc_inner; [|done|apply NoDup_fst_map_to_list|].
  2:{ intros f (v & Hv & _)%Hin. by exists v. }
  fold h. f_equal.
  - f_equal. apply map_eq. intros j. apply option_eq. intros y.
    rewrite lookup_foldr_delete_Some. unfold fresh. rewrite map_filter_lookup_Some. cbn [snd].
    rewrite Hin. split.
    + intros [Hn Hj]. split; [done|]. destruct (decide (T < y)); [done|].
      destruct Hn. exists y. split; [done|lia].
    + intros [Hj Hlt]. split; [|done]. intros (v & Hv & Hle). simplify_eq. lia.
  - rewrite fmap_length. pose proof (size_stale_fresh T h) as Hs. fold stale in Hs.
    change (length (map_to_list stale)) with (size stale). lia.
Qed.

Lemma fresh_size_le (T : Z) (h : gmap (list Z) Z) : (size (fresh T h) ≤ size h)%nat.
Proof. pose proof (size_stale_fresh T h). lia. Qed.

Lemma red_gc_key_step T ih v6 s st sp :
  red_inv st sp → ih_wf ih →
  is_Some (r_hash (k_group v6) st !! k_swarm v6 s ih) →
  role_step st (red_gc_key T v6 (k_swarm v6 s ih) st) ih v6 s (fresh T (r_hash (k_swarm v6 s ih) st)).
Proof.
  intros I Hwf Hreg. unfold red_gc_key. cbv zeta. rewrite gc_key_inner by apply I. cbv beta iota.
  rewrite key_is_seeder_swarm. change (if s then k_scount v6 else k_lcount v6) with (k_cnt v6 s).
  set (k := k_swarm v6 s ih) in *. set (h := r_hash k st). set (g := fresh T h).
  set (G := r_hash (k_group v6) st) in *.
  pose proof (fresh_size_le T h) as Hle. fold g in Hle.
  set (removed := Z.of_nat (size h) - Z.of_nat (size g)).
  rewrite r_hlen_0. rewrite if_incr_hash, r_hash_put.
  case_bool_decide as Hg.
  - rewrite r_hdel_Some; rewrite if_incr_hash, r_hash_put_ne by kne; [|done]. cbv beta iota. fold G.
    split.
    + rne. apply I.
    + by rsimp.
    + intros k' Hk1 Hk2. by rsimp.
    + intros k' Hk'. rsimp. fold G. by rewrite lookup_delete_ne.
    + done.
    + rsimp. cdec. fold k h. destruct s, (0 <? removed) eqn:Hr; lia.
    + unfold reg_count. rsimp. cdec. rewrite reg_size_delete.
      rewrite (key_is_seeder_swarm v6 s ih : key_is_seeder k = s).
      rewrite (ri_ic _ _ I). unfold reg_count. fold G. destruct Hreg as [v ->].
      destruct s, (0 <? removed); lia.
    + intros c Hc1 Hc2. rsimp. cdec. destruct s, (0 <? removed); lia.
  - split.
    + rne. apply I.
    + by rsimp.
    + intros k' Hk1 Hk2. by rsimp.
    + intros k' Hk'. by rsimp.
    + intros _. by rsimp.
    + rsimp. cdec. fold k h. destruct (0 <? removed) eqn:Hr; lia.
    + unfold reg_count. rsimp. cdec. rewrite (ri_ic _ _ I). unfold reg_count.
      destruct (0 <? removed); lia.
    + intros c Hc1 Hc2. rsimp. cdec. destruct (0 <? removed); lia.
Qed.

Lemma role_step_grp_frame st st' ih v6 s g v6' k' :
  role_step st st' ih v6 s g → k' ≠ k_swarm v6 s ih →
  r_hash (k_group v6') st' !! k' = r_hash (k_group v6') st !! k'.
Proof.
  intros R Hk. destruct (decide (v6' = v6)) as [->|Hv].
  - by apply R.
  - rewrite (rs_frame _ _ _ _ _ _ R); [done|kne|]. by intros Heq%k_group_inj.
Qed.

(* a key whose hash is empty after its step is no longer registered *)
Lemma red_gc_key_unreg T ih v6 s st sp :
  red_inv st sp → ih_wf ih →
  is_Some (r_hash (k_group v6) st !! k_swarm v6 s ih) →
  r_hash (k_swarm v6 s ih) (red_gc_key T v6 (k_swarm v6 s ih) st) = ∅ →
  r_hash (k_group v6) (red_gc_key T v6 (k_swarm v6 s ih) st) !! k_swarm v6 s ih = None.
Proof.
  intros I Hwf Hreg. unfold red_gc_key. cbv zeta. rewrite gc_key_inner by apply I. cbv beta iota.
  rewrite key_is_seeder_swarm. change (if s then k_scount v6 else k_lcount v6) with (k_cnt v6 s).
  set (k := k_swarm v6 s ih) in *. set (h := r_hash k st). set (g := fresh T h).
  set (removed := Z.of_nat (size h) - Z.of_nat (size g)).
  rewrite r_hlen_0. rewrite if_incr_hash, r_hash_put.
  case_bool_decide as Hg.
  - rewrite r_hdel_Some; rewrite if_incr_hash, r_hash_put_ne by kne; [|done]. cbv beta iota.
    intros _. rsimp. apply lookup_delete.
  - rsimp. done.
Qed.

(* one pass over a list of registered keys of family v6 *)
Lemma red_gc_fold T v6 l : ∀ st sp,
  red_inv st sp → NoDup l → (∀ k, k ∈ l → is_Some (r_hash (k_group v6) st !! k)) →
  ∃ sp', red_inv (foldr (red_gc_key T v6) st l) sp'
    ∧ (∀ v6' k', k' ∉ l →
         r_hash (k_group v6') (foldr (red_gc_key T v6) st l) !! k' = r_hash (k_group v6') st !! k')
    ∧ (∀ ih v6' s, ih_wf ih →
         role s (sm_get (ih, v6') sp') =
         if decide (k_swarm v6' s ih ∈ l) then fresh T (role s (sm_get (ih, v6') sp))
         else role s (sm_get (ih, v6') sp))
    ∧ (∀ k', k' ∉ l → k' ≠ k_group v6 → r_hash k' (foldr (red_gc_key T v6) st l) = r_hash k' st)
    ∧ (∀ k', k' ∈ l → r_hash k' (foldr (red_gc_key T v6) st l) = ∅ →
         r_hash (k_group v6) (foldr (red_gc_key T v6) st l) !! k' = None).
Proof.
  induction l as [|k l IH]; intros st sp I Hnd Hreg.
  - exists sp. split_and!; [done|done| |done|].
    + intros ih v6' s Hwf. rewrite decide_False; [done|]. apply not_elem_of_nil.
    + intros k' Hk'. by apply not_elem_of_nil in Hk'.
  - apply NoDup_cons in Hnd as [Hk Hnd].
    destruct (IH st sp I Hnd) as (sp1 & I1 & Hfr1 & Hro1 & Hhf1 & Hun1).
    { intros k' Hk'. apply Hreg. by right. }
    cbn [foldr]. set (st1 := foldr (red_gc_key T v6) st l) in *.
    assert (is_Some (r_hash (k_group v6) st1 !! k)) as Hreg1.
    { rewrite Hfr1 by done. apply Hreg. by left. }
    destruct (ri_grp _ _ I1 _ _ Hreg1) as (s & ih & Hwf & ->).
    pose proof (red_gc_key_step T ih v6 s st1 sp1 I1 Hwf Hreg1) as R.
    eexists. split_and!.
    + eapply role_step_inv; done.
    + intros v6' k' Hk'. apply not_elem_of_cons in Hk' as [Hk1 Hk2].
      rewrite (role_step_grp_frame _ _ _ _ _ _ _ _ R) by done. by apply Hfr1.
    + intros ih' v6' s' Hwf'. rewrite role_sm_get_sp_upd.
      destruct (decide ((ih', v6') = (ih, v6) ∧ s' = s)) as [[[= -> ->] ->]|Hne].
      * rewrite decide_True by (by left). rewrite (ri_hash _ _ I1) by done.
        rewrite Hro1 by done. by rewrite decide_False.
      * rewrite Hro1 by done.
        assert (k_swarm v6' s' ih' ≠ k_swarm v6 s ih) as Hkne.
        { intros Heq. apply k_swarm_inj in Heq as (-> & -> & ->); [|done..]. by apply Hne. }
        destruct (decide (k_swarm v6' s' ih' ∈ l)) as [Hin|Hin].
        -- rewrite decide_True; [done|]. by right.
        -- rewrite decide_False; [done|]. by apply not_elem_of_cons.
    + intros k' Hk' Hg. apply not_elem_of_cons in Hk' as [Hk1 Hk2].
      rewrite (rs_frame _ _ _ _ _ _ R) by done. by apply Hhf1.
    + intros k' Hk' He. apply elem_of_cons in Hk' as [->|Hk'].
      * by eapply red_gc_key_unreg.
      * assert (k' ≠ k_swarm v6 s ih) as Hkne by (by intros ->).
        assert (k' ≠ k_group v6) as Hkg.
        { destruct (ri_grp _ _ I v6 k') as (s' & ih' & _ & ->); [|kne]. apply Hreg. by right. }
        rewrite (rs_frame _ _ _ _ _ _ R) in He by done.
        rewrite (rs_grp _ _ _ _ _ _ R) by done. by apply Hun1.
Qed.

Lemma red_gc_group_inv T v6 st sp :
  red_inv st sp →
  ∃ sp', red_inv (red_gc_group T v6 st) sp'
    ∧ (∀ ih v6' s, ih_wf ih →
         role s (sm_get (ih, v6') sp') =
         if decide (v6' = v6) then fresh T (role s (sm_get (ih, v6') sp))
         else role s (sm_get (ih, v6') sp))
    (* hashes that are not swarm hashes of this family, and the other group hash, are untouched *)
    ∧ (∀ k', (∀ s ih, ih_wf ih → k' ≠ k_swarm v6 s ih) → k' ≠ k_group v6 →
         r_hash k' (red_gc_group T v6 st) = r_hash k' st)
    (* every key still registered in this group has members *)
    ∧ (∀ k', is_Some (r_hash (k_group v6) (red_gc_group T v6 st) !! k') →
         r_hash k' (red_gc_group T v6 st) ≠ ∅).
Proof.
  intros I. unfold red_gc_group.
  set (G := r_hash (k_group v6) st).
  change (map fst (map_to_list G)) with ((map_to_list G).*1).
  assert (∀ k, k ∈ (map_to_list G).*1 ↔ is_Some (G !! k)) as Hin.
  { intros k. rewrite elem_of_list_fmap. split.
    - intros ([k' v] & -> & Hel). apply elem_of_map_to_list in Hel. by exists v.
    - intros [v Hv]. exists (k, v). split; [done|]. by apply elem_of_map_to_list. }
  destruct (red_gc_fold T v6 _ st sp I (NoDup_fst_map_to_list G)) as (sp' & I' & Hfr & Hro & Hhf & Hun).
  { intros k. by rewrite Hin. }
  exists sp'. split_and!; [done| | |].
  - intros ih v6' s Hwf. rewrite Hro by done.
    destruct (decide (v6' = v6)) as [->|Hv].
    + destruct (decide (k_swarm v6 s ih ∈ _)) as [Hel|Hel]; [done|].
      rewrite Hin in Hel.
      assert (r_hash (k_swarm v6 s ih) st = ∅) as He.
      { destruct (decide (r_hash (k_swarm v6 s ih) st = ∅)) as [|Hne]; [done|].
        destruct Hel. by apply (ri_reg _ _ I). }
      rewrite (ri_hash _ _ I) in He by done. by rewrite He, fresh_empty.
    + rewrite decide_False; [done|]. rewrite Hin. intros Hs.
      destruct (ri_grp _ _ I _ _ Hs) as (s' & ih' & Hwf' & Heq).
      apply k_swarm_inj in Heq as (-> & _); done.
  - intros k' Hk' Hg. apply Hhf; [|done]. rewrite Hin. intros Hs.
    destruct (ri_grp _ _ I _ _ Hs) as (s' & ih' & Hwf' & ->). by eapply Hk'.
  - intros k' Hs He. destruct (decide (k' ∈ (map_to_list G).*1)) as [Hel|Hel].
    + rewrite Hun in Hs by done. by destruct Hs.
    + rewrite Hfr in Hs by done. by rewrite Hin in Hel.
Qed.

Lemma red_gc_inv T st sp : red_inv st sp → red_inv (red_gc T st) (sm_gc T sp).
Proof.
  intros I. unfold red_gc.
  destruct (red_gc_group_inv T false st sp I) as (sp1 & I1 & H1 & _).
  destruct (red_gc_group_inv T true _ sp1 I1) as (sp2 & I2 & H2 & _).
  replace (sm_gc T sp) with sp2; [done|].
  apply spec_ext; [apply I2|apply no_empty_gc|].
  intros [ih v6]. rewrite sm_get_gc.
  destruct (decide (ih_wf ih)) as [Hwf|Hwf].
  - apply swarm_eq_role. intros s. rewrite H2, H1 by done.
    destruct v6; cbn; by destruct s.
  - rewrite !sm_get_None; [by rewrite sw_expire_empty| |].
    + apply eq_None_not_Some. intros Hs. by apply Hwf, (ri_spec_wf _ _ I _ v6).
    + apply eq_None_not_Some. intros Hs. by apply Hwf, (ri_spec_wf _ _ I2 _ v6).
Qed.

(* after a complete pass the registered keys are exactly the non-empty swarm hashes *)
Lemma red_gc_registered_nonempty T st sp v6 k :
  red_inv st sp → is_Some (r_hash (k_group v6) (red_gc T st) !! k) → r_hash k (red_gc T st) ≠ ∅.
Proof.
  intros I. unfold red_gc.
  destruct (red_gc_group_inv T false st sp I) as (sp1 & I1 & _ & _ & Hne1).
  destruct (red_gc_group_inv T true _ sp1 I1) as (sp2 & I2 & _ & Hhf2 & Hne2).
  destruct v6; [apply Hne2|].
  intros Hs.
  destruct (ri_grp _ _ I2 _ _ Hs) as (s & ih & Hwf & ->).
  rewrite Hhf2 in Hs; [|kne|by intros ?%k_group_inj].
  rewrite Hhf2; [by apply Hne1| |kne].
  intros s' ih' Hwf' Heq. apply k_swarm_inj in Heq as (? & _); done.
Qed.

(* ---- every store operation preserves the invariant, against the same
        operation of the specification *)
Lemma set_role_id s sw : set_role s (role s sw) sw = sw.
Proof. by destruct s, sw. Qed.
Lemma sp_upd_id (k : list Z * bool) (s : bool) (sp : spec) :
  no_empty_swarm sp → sp_upd k s (role s (sm_get k sp)) sp = sp.
Proof.
  intros Hne. unfold sp_upd. rewrite set_role_id. unfold sm_set, sm_get.
  destruct (sp !! k) as [sw|] eqn:Hk; cbn.
  - rewrite (Hne k sw Hk). by apply insert_id.
  - by apply delete_notin.
Qed.

Lemma red_put_seeder_inv ih v6 pk t st sp :
  red_inv st sp → ih_wf ih →
  red_inv (red_put_seeder ih v6 pk t st) (st_put_seeder spec_if ih v6 pk t sp).
Proof.
  intros I Hwf. cbn [st_put_seeder spec_if]. rewrite sm_put_seeder_upd.
  rewrite <-(ri_hash _ _ I) by done. eapply role_step_inv; [done..|]. by eapply red_put_seeder_step.
Qed.
Lemma red_put_leecher_inv ih v6 pk t st sp :
  red_inv st sp → ih_wf ih →
  red_inv (red_put_leecher ih v6 pk t st) (st_put_leecher spec_if ih v6 pk t sp).
Proof.
  intros I Hwf. cbn [st_put_leecher spec_if]. rewrite sm_put_leecher_upd.
  rewrite <-(ri_hash _ _ I) by done. eapply role_step_inv; [done..|]. by eapply red_put_leecher_step.
Qed.

Lemma red_del_result s ih v6 pk st :
  (red_del s ih v6 pk st).2 = bool_decide (is_Some (r_hash (k_swarm v6 s ih) st !! pk)).
Proof.
  assert (red_del s ih v6 pk st =
          let '(st', r) := r_hdel (k_swarm v6 s ih) pk st in
          if r =? 0 then (st, false) else (r_incrby (k_cnt v6 s) (-1) st', true)) as -> by (by destruct s).
  destruct (r_hash (k_swarm v6 s ih) st !! pk) as [v|] eqn:Hpk.
  - rewrite r_hdel_Some by (by eexists). cbv beta iota. cbn [Z.eqb snd]. by rewrite bool_decide_true.
  - rewrite r_hdel_None by done. cbv beta iota. cbn [Z.eqb snd].
    rewrite bool_decide_false; [done|]. by intros [? ?].
Qed.

Lemma red_del_seeder_inv ih v6 pk st sp :
  red_inv st sp → ih_wf ih →
  red_inv (red_del_seeder ih v6 pk st).1 (st_del_seeder spec_if ih v6 pk sp).1
  ∧ (red_del_seeder ih v6 pk st).2 = (st_del_seeder spec_if ih v6 pk sp).2.
Proof.
  intros I Hwf. cbn [st_del_seeder spec_if]. rewrite sm_del_seeder_upd.
  pose proof (role_step_inv _ _ _ _ _ _ _ I Hwf (red_del_step true ih v6 pk st sp I Hwf)) as I'.
  pose proof (red_del_result true ih v6 pk st) as Hres.
  rewrite (ri_hash _ _ I) in I', Hres by done. cbn [red_del] in I', Hres. rewrite Hres.
  destruct (role true (sm_get (ih, v6) sp) !! pk) as [v|] eqn:Hpk; cbn [fst snd].
  - split; [done|]. by rewrite bool_decide_true.
  - rewrite delete_notin in I' by done. rewrite sp_upd_id in I' by apply I.
    split; [done|]. rewrite bool_decide_false; [done|]. by intros [? ?].
Qed.
Lemma red_del_leecher_inv ih v6 pk st sp :
  red_inv st sp → ih_wf ih →
  red_inv (red_del_leecher ih v6 pk st).1 (st_del_leecher spec_if ih v6 pk sp).1
  ∧ (red_del_leecher ih v6 pk st).2 = (st_del_leecher spec_if ih v6 pk sp).2.
Proof.
  intros I Hwf. cbn [st_del_leecher spec_if]. rewrite sm_del_leecher_upd.
  pose proof (role_step_inv _ _ _ _ _ _ _ I Hwf (red_del_step false ih v6 pk st sp I Hwf)) as I'.
  pose proof (red_del_result false ih v6 pk st) as Hres.
  rewrite (ri_hash _ _ I) in I', Hres by done. cbn [red_del] in I', Hres. rewrite Hres.
  destruct (role false (sm_get (ih, v6) sp) !! pk) as [v|] eqn:Hpk; cbn [fst snd].
  - split; [done|]. by rewrite bool_decide_true.
  - rewrite delete_notin in I' by done. rewrite sp_upd_id in I' by apply I.
    split; [done|]. rewrite bool_decide_false; [done|]. by intros [? ?].
Qed.

Lemma red_graduate_inv ih v6 pk t st sp :
  red_inv st sp → ih_wf ih →
  red_inv (red_graduate ih v6 pk t st) (st_graduate spec_if ih v6 pk t sp).
Proof.
  intros I Hwf. cbn [st_graduate spec_if]. rewrite sm_graduate_upd.
  pose proof (role_step_inv _ _ _ _ _ _ _ I Hwf (red_del_step false ih v6 pk st sp I Hwf)) as I1.
  pose proof (red_graduate_step ih v6 pk t st sp I Hwf) as R. cbn zeta in R.
  pose proof (role_step_inv _ _ _ _ _ _ _ I1 Hwf R) as I2.
  rewrite (ri_hash _ _ I1) in I2 by done. rewrite role_sm_get_sp_upd in I2.
  rewrite decide_False in I2 by (by intros [_ ?]).
  rewrite (ri_hash _ _ I) in I2 by done. done.
Qed.

Lemma r_hash_init k : r_hash k redis_init = ∅.
Proof. unfold r_hash, redis_init. cbn. by rewrite lookup_empty. Qed.

Lemma red_inv_init : red_inv redis_init spec_init.
Proof.
  split.
  - intros ih v6 s _. rewrite r_hash_init. unfold sm_get, spec_init. rewrite lookup_empty. cbn.
    by rewrite role_empty.
  - intros k sw Hs. unfold spec_init in Hs. by rewrite lookup_empty in Hs.
  - intros ih v6 [? Hs]. unfold spec_init in Hs. by rewrite lookup_empty in Hs.
  - apply no_empty_init.
  - intros ih v6 s _ Hne. by rewrite r_hash_init in Hne.
  - intros v6 k [? Hs]. by rewrite r_hash_init, lookup_empty in Hs.
  - intros k Hne. by rewrite r_hash_init in Hne.
  - intros v6 s. unfold spec_init. rewrite msum_empty. by destruct v6, s.
  - intros v6. unfold reg_count. rewrite r_hash_init, reg_size_empty. by destruct v6.
Qed.

Lemma swarm_interaction_inv a c st sp :
  red_inv st sp → ih_wf (a_ih a) →
  red_inv (swarm_interaction red_if a c st) (swarm_interaction spec_if a c sp).
Proof.
  intros I Hwf. unfold swarm_interaction. destruct (a_event a).
  - destruct (a_left a =? 0); [by apply red_put_seeder_inv|by apply red_put_leecher_inv].
  - destruct (a_left a =? 0); [by apply red_put_seeder_inv|by apply red_put_leecher_inv].
  - apply red_del_leecher_inv; [|done]. by apply red_del_seeder_inv.
  - by apply red_graduate_inv.
Qed.

Lemma sapply_inv x y o :
  sop_wf o → x.2 = y.2 → red_inv x.1 y.1 →
  (sapply red_if x o).2 = (sapply spec_if y o).2 ∧ red_inv (sapply red_if x o).1 (sapply spec_if y o).1.
Proof.
  destruct x as [st c], y as [sp c']. cbn [fst snd]. intros Hwf <- I.
  destruct o; cbn [sapply fst snd sop_wf] in *; (split; [done|]).
  - done.
  - by apply swarm_interaction_inv.
  - by apply red_put_seeder_inv.
  - by apply red_del_seeder_inv.
  - by apply red_put_leecher_inv.
  - by apply red_del_leecher_inv.
  - by apply red_graduate_inv.
  - by apply red_gc_inv.
Qed.

Lemma srun_inv_from ops : ∀ x y,
  Forall sop_wf ops → x.2 = y.2 → red_inv x.1 y.1 →
  (fold_left (sapply red_if) ops x).2 = (fold_left (sapply spec_if) ops y).2
  ∧ red_inv (fold_left (sapply red_if) ops x).1 (fold_left (sapply spec_if) ops y).1.
Proof.
  induction ops as [|o ops IH]; intros x y Hwf Hc I; [done|].
  apply Forall_cons in Hwf as [Ho Hwf]. cbn [fold_left].
  destruct (sapply_inv x y o Ho Hc I) as [Hc' I']. by apply IH.
Qed.

(* the invariant holds after every well-formed sequential history *)
Theorem red_inv_run ops : Forall sop_wf ops → red_inv (run_redis ops) (run_spec ops).
Proof.
  intros Hwf. unfold run_redis, run_spec, srun.
  apply (srun_inv_from ops (redis_init, 0) (spec_init, 0)); [done|done|apply red_inv_init].
Qed.

Lemma red_inv_observe st sp ih v6 :
  red_inv st sp → ih_wf ih → observe red_if st ih v6 = observe spec_if sp ih v6.
Proof.
  intros I Hwf. unfold observe. cbn [st_scrape st_members red_if spec_if].
  unfold red_scrape, red_members, r_hlen, sm_scrape.
  rewrite !(ri_hash _ _ I) by done. cbn [role]. unfold sm_get.
  destruct (sp !! (ih, v6)) as [sw|] eqn:Hsw; cbn.
  - pose proof (ri_spec_ne _ _ I _ _ Hsw) as Hne. unfold swarm_empty in Hne. rewrite Hne.
    by rewrite swarm_eta.
  - by rewrite map_size_empty.
Qed.

(* C01: the Redis store refines the specification *)
Theorem redis_refines_spec : ∀ ops, Forall sop_wf ops →
  ∀ ih v6, ih_wf ih → observe red_if (run_redis ops) ih v6 = observe spec_if (run_spec ops) ih v6.
Proof. intros ops Hwf ih v6 Hih. apply red_inv_observe; [by apply red_inv_run|done]. Qed.

(* ================================================================== D. totals (C17) *)

Lemma fam_w_sum (s : bool) (sp : spec) :
  msum (fam_w false s) sp + msum (fam_w true s) sp = msum (λ _ sw, Z.of_nat (size (role s sw))) sp.
Proof.
  rewrite <-msum_plus. apply msum_ext. intros [ih v6] sw. unfold fam_w. cbn [snd].
  destruct v6; repeat case_decide; try done; lia.
Qed.

Lemma red_inv_prom st sp :
  red_inv st sp →
  red_prom st = (red_registered st, sm_total_seeders sp, sm_total_leechers sp).
Proof.
  intros I. unfold red_prom, red_registered.
  rewrite !(ri_ic _ _ I).
  change (k_scount false) with (k_cnt false true). change (k_scount true) with (k_cnt true true).
  change (k_lcount false) with (k_cnt false false). change (k_lcount true) with (k_cnt true false).
  rewrite !(ri_cnt _ _ I), !fam_w_sum. done.
Qed.

(* after every sequential history the exported totals are exact *)
Theorem redis_totals_exact : ∀ ops, Forall sop_wf ops →
  red_prom (run_redis ops) =
  (red_registered (run_redis ops), sm_total_seeders (run_spec ops), sm_total_leechers (run_spec ops)).
Proof. intros ops Hwf. by apply red_inv_prom, red_inv_run. Qed.

Lemma reg_size_nonneg G : 0 <= reg_size G.
Proof. unfold reg_size. lia. Qed.
Lemma fam_w_nonneg v6 s k sw : 0 <= fam_w v6 s k sw.
Proof. unfold fam_w. case_decide; lia. Qed.

(* every single counter is exact and non-negative, not only the exported sums *)
Theorem redis_counters_exact : ∀ ops, Forall sop_wf ops → ∀ v6,
  r_get (k_scount v6) (run_redis ops) = msum (fam_w v6 true) (run_spec ops)
  ∧ r_get (k_lcount v6) (run_redis ops) = msum (fam_w v6 false) (run_spec ops)
  ∧ r_get (k_ihcount v6) (run_redis ops) = reg_count v6 (run_redis ops).
Proof.
  intros ops Hwf v6. pose proof (red_inv_run ops Hwf) as I. split_and!.
  - apply (ri_cnt _ _ I v6 true).
  - apply (ri_cnt _ _ I v6 false).
  - apply (ri_ic _ _ I).
Qed.

Theorem redis_counters_nonnegative : ∀ ops, Forall sop_wf ops → ∀ v6,
  0 <= r_get (k_scount v6) (run_redis ops)
  ∧ 0 <= r_get (k_lcount v6) (run_redis ops)
  ∧ 0 <= r_get (k_ihcount v6) (run_redis ops).
Proof.
  intros ops Hwf v6. destruct (redis_counters_exact ops Hwf v6) as (-> & -> & ->).
  split_and!; [apply msum_nonneg, fam_w_nonneg..|apply reg_size_nonneg].
Qed.

Theorem redis_totals_nonnegative : ∀ ops, Forall sop_wf ops →
  let '(i, s, l) := red_prom (run_redis ops) in 0 <= i ∧ 0 <= s ∧ 0 <= l.
Proof.
  intros ops Hwf. rewrite redis_totals_exact by done. split_and!.
  - unfold red_registered, reg_count. pose proof (reg_size_nonneg (r_hash (k_group false) (run_redis ops))).
    pose proof (reg_size_nonneg (r_hash (k_group true) (run_redis ops))). lia.
  - rewrite sm_total_seeders_msum. apply msum_nonneg. intros. lia.
  - rewrite sm_total_leechers_msum. apply msum_nonneg. intros. lia.
Qed.

(* ================================================================== E. corollaries (C05) *)

Lemma run_redis_snoc ops o :
  run_redis (ops ++ [o]) = (sapply red_if (srun red_if redis_init ops) o).1.
Proof. unfold run_redis, srun. by rewrite fold_left_app. Qed.
Lemma run_spec_snoc ops o :
  run_spec (ops ++ [o]) = (sapply spec_if (srun spec_if spec_init ops) o).1.
Proof. unfold run_spec, srun. by rewrite fold_left_app. Qed.

Lemma run_redis_expire ops T : run_redis (ops ++ [SExpire T]) = red_gc T (run_redis ops).
Proof. rewrite run_redis_snoc. unfold run_redis. by destruct (srun red_if redis_init ops). Qed.

Lemma red_gc_hash T st sp ih v6 s :
  red_inv st sp → ih_wf ih →
  r_hash (k_swarm v6 s ih) (red_gc T st) = fresh T (r_hash (k_swarm v6 s ih) st).
Proof.
  intros I Hwf. rewrite (ri_hash _ _ (red_gc_inv T _ _ I)), (ri_hash _ _ I) by done.
  rewrite sm_get_gc. by destruct s.
Qed.

Lemma red_gc_members T st sp ih v6 :
  red_inv st sp → ih_wf ih →
  red_members ih v6 (red_gc T st) =
  match red_members ih v6 st with
  | None => None
  | Some sw => if swarm_empty (sw_expire T sw) then None else Some (sw_expire T sw)
  end.
Proof.
  intros I Hwf. unfold red_members. rewrite !(red_gc_hash T st sp) by done.
  set (hS := r_hash (k_swarm v6 true ih) st). set (hL := r_hash (k_swarm v6 false ih) st).
  destruct (Nat.eqb (size hS) 0 && Nat.eqb (size hL) 0) eqn:He; [|done].
  apply andb_true_iff in He as [HS HL]. apply Nat.eqb_eq, map_size_empty_iff in HS, HL.
  by rewrite HS, HL, fresh_empty, map_size_empty.
Qed.

(* after an expiry pass with cutoff T every swarm holds exactly the entries
   with time > T of what it held before; emptied swarms are unknown *)
Theorem redis_gc_exact : ∀ ops T, Forall sop_wf ops → ∀ ih v6, ih_wf ih →
  let st := run_redis ops in
  let st' := run_redis (ops ++ [SExpire T]) in
  (∀ s, r_hash (k_swarm v6 s ih) st' = fresh T (r_hash (k_swarm v6 s ih) st))
  ∧ st_members red_if ih v6 st' =
    match st_members red_if ih v6 st with
    | None => None
    | Some sw => if swarm_empty (sw_expire T sw) then None else Some (sw_expire T sw)
    end
  ∧ st_scrape red_if ih v6 st' =
    (wrap32 (Z.of_nat (size (fresh T (r_hash (k_swarm v6 true ih) st)))),
     wrap32 (Z.of_nat (size (fresh T (r_hash (k_swarm v6 false ih) st))))).
Proof.
  intros ops T Hwf ih v6 Hih. cbn zeta. rewrite run_redis_expire.
  pose proof (red_inv_run ops Hwf) as I. split_and!.
  - intros s. by eapply red_gc_hash.
  - by eapply red_gc_members.
  - cbn [st_scrape red_if]. unfold red_scrape, r_hlen. by rewrite !(red_gc_hash T _ _ _ _ _ I Hih).
Qed.

(* per membership: it survives the pass iff its time is after the cutoff *)
Theorem redis_gc_peer : ∀ ops T, Forall sop_wf ops → ∀ ih v6 s pk t, ih_wf ih →
  r_hash (k_swarm v6 s ih) (run_redis (ops ++ [SExpire T])) !! pk = Some t
  ↔ r_hash (k_swarm v6 s ih) (run_redis ops) !! pk = Some t ∧ T < t.
Proof.
  intros ops T Hwf ih v6 s pk t Hih. rewrite run_redis_expire.
  rewrite (red_gc_hash T _ _ _ _ _ (red_inv_run ops Hwf) Hih). unfold fresh.
  by rewrite map_filter_lookup_Some.
Qed.

(* a put / graduate at clock c stores time c, whatever was stored before *)
Theorem redis_put_refreshes : ∀ ops ih v6 pk, Forall sop_wf ops → ih_wf ih →
  let c := (srun red_if redis_init ops).2 in
  r_hash (k_swarm v6 true ih) (run_redis (ops ++ [SPutSeeder ih v6 pk])) !! pk = Some c
  ∧ r_hash (k_swarm v6 false ih) (run_redis (ops ++ [SPutLeecher ih v6 pk])) !! pk = Some c
  ∧ r_hash (k_swarm v6 true ih) (run_redis (ops ++ [SGraduate ih v6 pk])) !! pk = Some c
  ∧ r_hash (k_swarm v6 false ih) (run_redis (ops ++ [SGraduate ih v6 pk])) !! pk = None.
Proof.
  intros ops ih v6 pk Hwf Hih. cbn zeta. rewrite !run_redis_snoc.
  pose proof (red_inv_run ops Hwf) as I. unfold run_redis in I.
  destruct (srun red_if redis_init ops) as [st c]. cbn [sapply fst snd] in *.
  cbn [st_put_seeder st_put_leecher st_graduate red_if].
  split_and!.
  - rewrite (rs_hash _ _ _ _ _ _ (red_put_seeder_step ih v6 pk c _ _ I Hih)). apply lookup_insert.
  - rewrite (rs_hash _ _ _ _ _ _ (red_put_leecher_step ih v6 pk c _ _ I Hih)). apply lookup_insert.
  - rewrite (rs_hash _ _ _ _ _ _ (red_graduate_step ih v6 pk c _ _ I Hih)). apply lookup_insert.
  - pose proof (red_graduate_step ih v6 pk c _ _ I Hih) as R. cbn zeta in R.
    rewrite (rs_frame _ _ _ _ _ _ R); [|intros Heq; apply k_swarm_inj in Heq as (_ & ? & _); done|kne].
    rewrite (rs_hash _ _ _ _ _ _ (red_del_step false ih v6 pk _ _ I Hih)). apply lookup_delete.
Qed.

(* a re-announce restarts the lifetime: the entry survives any pass whose
   cutoff lies before the clock of the re-announce *)
Theorem redis_reannounce_survives : ∀ ops ih v6 pk T, Forall sop_wf ops → ih_wf ih →
  let c := (srun red_if redis_init ops).2 in
  T < c →
  r_hash (k_swarm v6 true ih) (run_redis ((ops ++ [SPutSeeder ih v6 pk]) ++ [SExpire T])) !! pk = Some c
  ∧ r_hash (k_swarm v6 false ih) (run_redis ((ops ++ [SPutLeecher ih v6 pk]) ++ [SExpire T])) !! pk = Some c
  ∧ r_hash (k_swarm v6 true ih) (run_redis ((ops ++ [SGraduate ih v6 pk]) ++ [SExpire T])) !! pk = Some c.
Proof.
  intros ops ih v6 pk T Hwf Hih c Hlt.
  destruct (redis_put_refreshes ops ih v6 pk Hwf Hih) as (H1 & H2 & H3 & _). fold c in H1, H2, H3.
  split_and!; apply redis_gc_peer; try done; apply Forall_app; (split; [done|]); by apply Forall_singleton.
Qed.

(* clause (5) of the invariant in terms of the raw keyspace: the only hashes
   that exist are the two group hashes and swarm hashes of well-formed infohashes *)
Lemma red_keyspace st sp k :
  red_inv st sp → is_Some (hs st !! k) →
  (∃ v6, k = k_group v6) ∨ (∃ v6 s ih, ih_wf ih ∧ k = k_swarm v6 s ih).
Proof.
  intros I [h Hk]. apply (ri_keys _ _ I). unfold r_hash. rewrite Hk. cbn. by apply (ri_ne _ _ I k).
Qed.
Theorem redis_keyspace : ∀ ops, Forall sop_wf ops → ∀ k h,
  hs (run_redis ops) !! k = Some h →
  h ≠ ∅ ∧ ((∃ v6, k = k_group v6) ∨ (∃ v6 s ih, ih_wf ih ∧ k = k_swarm v6 s ih)).
Proof.
  intros ops Hwf k h Hk. pose proof (red_inv_run ops Hwf) as I. split.
  - by apply (ri_ne _ _ I k).
  - by eapply red_keyspace.
Qed.

(* ================================================================== examples *)

(* the hypotheses are satisfiable: a 12-step history with the same peer ID on
   two ports, a completed, a stop after the completed, both families, an expiry *)
Definition redis_ex_ih : list Z := repeat 7 20.
Definition redis_ex_ih2 : list Z := repeat 255 20.
Definition redis_ex_pa : peer := {| p_id := repeat 65 20; p_ip := [10; 0; 0; 1]; p_port := 6881 |}.
Definition redis_ex_pb : peer := {| p_id := repeat 65 20; p_ip := [10; 0; 0; 1]; p_port := 6882 |}.
Definition redis_ex_ann (ih : list Z) (p : peer) (left : Z) (e : event) : ann :=
  {| a_ih := ih; a_v6 := false; a_peer := p; a_left := left; a_event := e; a_numwant := 50 |}.
Definition redis_ex_ops : list sop :=
  [ SClock 100; SAnnounce (redis_ex_ann redis_ex_ih redis_ex_pa 5 EvStarted);
    SAnnounce (redis_ex_ann redis_ex_ih redis_ex_pb 0 EvNone);
    SClock 200; SAnnounce (redis_ex_ann redis_ex_ih redis_ex_pa 0 EvCompleted);
    SPutLeecher redis_ex_ih2 true (peer_key redis_ex_pa);
    SAnnounce (redis_ex_ann redis_ex_ih redis_ex_pa 0 EvStopped); SClock 300;
    SPutSeeder redis_ex_ih2 true (peer_key redis_ex_pb);
    SExpire 100; SDelLeecher redis_ex_ih2 true (peer_key redis_ex_pa);
    SGraduate redis_ex_ih false (peer_key redis_ex_pa) ].

Example redis_ex_ih_wf : ih_wf redis_ex_ih ∧ ih_wf redis_ex_ih2.
Proof. by repeat split. Qed.
Example redis_ex_ops_wf : Forall sop_wf redis_ex_ops.
Proof. unfold redis_ex_ops. repeat apply Forall_cons_2; try apply Forall_nil_2; by repeat split. Qed.

Definition redis_ex_flat (o : (Z * Z) * option swarm) :=
  (o.1, option_map (λ sw, (map_to_list (seeders sw), map_to_list (leechers sw))) o.2).
Example redis_ex_observe :
  redis_ex_flat (observe red_if (run_redis redis_ex_ops) redis_ex_ih false)
    = ((1, 0), Some ([(peer_key redis_ex_pa, 300)], []))
  ∧ redis_ex_flat (observe red_if (run_redis redis_ex_ops) redis_ex_ih2 true)
    = ((1, 0), Some ([(peer_key redis_ex_pb, 300)], []))
  ∧ redis_ex_flat (observe red_if (run_redis redis_ex_ops) redis_ex_ih2 false) = ((0, 0), None)
  ∧ red_prom (run_redis redis_ex_ops) = (2, 2, 0).
Proof. by vm_compute. Qed.

(* What the Redis swarm total is NOT: it is not the number of swarms of the
   specification ([st_prom spec_if] reports [size m]).  A swarm that only has
   leechers is not counted, and a swarm whose seeders were all deleted stays
   counted until the next expiry pass unregisters its key.  Both are within the
   wording of C17 ("for Redis: swarms with a registered seeder set"); they are
   recorded here so that nobody states the stronger equation. *)
Example redis_swarm_total_skips_leecher_only :
  let ops := [SPutLeecher redis_ex_ih false [1]] in
  Forall sop_wf ops ∧ red_prom (run_redis ops) = (0, 0, 1) ∧ st_prom spec_if (run_spec ops) = (1, 0, 1).
Proof. split; [|by vm_compute]. repeat apply Forall_cons_2; try apply Forall_nil_2; by repeat split. Qed.
Example redis_swarm_total_keeps_stale_registration :
  let ops := [SPutSeeder redis_ex_ih false [1]; SDelSeeder redis_ex_ih false [1]] in
  Forall sop_wf ops ∧ red_prom (run_redis ops) = (1, 0, 0) ∧ st_prom spec_if (run_spec ops) = (0, 0, 0)
  ∧ red_prom (run_redis (ops ++ [SExpire 0])) = (0, 0, 0).
Proof. split; [|by vm_compute]. repeat apply Forall_cons_2; try apply Forall_nil_2; by repeat split. Qed.

(* ================================================================== further corollaries *)

(* right after an expiry pass a swarm key is registered iff its hash has a
   member: emptied swarms are unregistered, so the swarm total then counts
   exactly the swarms that have a seeder *)
Theorem redis_gc_registered_exact : ∀ ops T, Forall sop_wf ops → ∀ ih v6 s, ih_wf ih →
  let st' := run_redis (ops ++ [SExpire T]) in
  is_Some (r_hash (k_group v6) st' !! k_swarm v6 s ih) ↔ r_hash (k_swarm v6 s ih) st' ≠ ∅.
Proof.
  intros ops T Hwf ih v6 s Hih. cbn zeta. rewrite run_redis_expire.
  pose proof (red_inv_run ops Hwf) as I. split.
  - by eapply red_gc_registered_nonempty.
  - by apply (ri_reg _ _ (red_gc_inv T _ _ I)).
Qed.

(* in every reachable state a swarm hash with a member is registered (the
   converse can fail between passes: see redis_swarm_total_keeps_stale_registration) *)
Theorem redis_nonempty_registered : ∀ ops, Forall sop_wf ops → ∀ ih v6 s, ih_wf ih →
  r_hash (k_swarm v6 s ih) (run_redis ops) ≠ ∅ →
  is_Some (r_hash (k_group v6) (run_redis ops) !! k_swarm v6 s ih).
Proof. intros ops Hwf ih v6 s Hih. by apply (ri_reg _ _ (red_inv_run ops Hwf)). Qed.

(* DeleteSeeder / DeleteLeecher answer "resource does not exist" exactly when
   the specification does *)
Theorem redis_delete_result : ∀ ops ih v6 pk, Forall sop_wf ops → ih_wf ih →
  (st_del_seeder red_if ih v6 pk (run_redis ops)).2 = (st_del_seeder spec_if ih v6 pk (run_spec ops)).2
  ∧ (st_del_leecher red_if ih v6 pk (run_redis ops)).2 = (st_del_leecher spec_if ih v6 pk (run_spec ops)).2.
Proof.
  intros ops ih v6 pk Hwf Hih. pose proof (red_inv_run ops Hwf) as I. split.
  - by apply red_del_seeder_inv.
  - by apply red_del_leecher_inv.
Qed.

(* the two runs read the same clock *)
Lemma run_clock_eq ops : Forall sop_wf ops → (srun red_if redis_init ops).2 = (srun spec_if spec_init ops).2.
Proof.
  intros Hwf. unfold srun.
  apply (srun_inv_from ops (redis_init, 0) (spec_init, 0)); [done|done|apply red_inv_init].
Qed.

(* what the response hook may answer (Model/Hooks.v, C02) only depends on the
   observables, so it transfers from the specification to the Redis store *)
Lemma red_inv_response_verdict a st sp complete incomplete peers :
  red_inv st sp → ih_wf (a_ih a) →
  response_verdict red_if a st complete incomplete peers
  = response_verdict spec_if a sp complete incomplete peers.
Proof.
  intros I Hwf. pose proof (red_inv_observe st sp (a_ih a) (a_v6 a) I Hwf) as Ho.
  unfold observe in Ho.
  assert (st_scrape red_if (a_ih a) (a_v6 a) st = st_scrape spec_if (a_ih a) (a_v6 a) sp) as Hs
    by (by injection Ho).
  assert (st_members red_if (a_ih a) (a_v6 a) st = st_members spec_if (a_ih a) (a_v6 a) sp) as Hm
    by (by injection Ho).
  unfold response_verdict, key_lists. by rewrite Hs, Hm.
Qed.
Theorem redis_response_verdict : ∀ ops a complete incomplete peers, Forall sop_wf ops → ih_wf (a_ih a) →
  response_verdict red_if a (run_redis ops) complete incomplete peers
  = response_verdict spec_if a (run_spec ops) complete incomplete peers.
Proof. intros ops a c i peers Hwf Hih. apply red_inv_response_verdict; [by apply red_inv_run|done]. Qed.
