"""C20 - configuration defaulting, limits, start-up refusal."""
PROP = {
    "glue": "G20", "chk": "chk20", "explain": "explain20",
    "gotags": ["shim_redisurl"],
    "n": {"quick": 100, "thorough": 2000},
    "rule": "Validate(): complete product grids - http {minInt64,-1,0,1,typical,maxInt64}^3 timeouts x {0,1,typical,maxUint32}^3 limits (13824), "
            "udp 3 keys (empty, short, binary) x 6 clock skews x 4^3 limits (1152), memory 6^3 intervals x shard counts {minInt64,-1,0,1,2048,maxInt/2,maxInt/2+1,maxInt64} (1728) + shard edges, "
            "redis: thorough tier the complete 6^6 x 2 brokers product, quick tier the complete {-1,0,1,typical}^6 product + per-field sweeps through all six values; "
            "every case compares each validated field, a second Validate(), and the untouched fields. "
            "Limits: http/udp ParseAnnounce / ParseScrape run with the validated ParseOptions, numwant asked in {0,1,max-1,max,max+1,2max,2^32-2,2^32-1,random} and absent, scrapes of max-1..2max+1 infohashes; "
            "the same over real HTTP requests served by front-ends built with NewFrontend(logic, unvalidated config) for six limit triples (proto 2: the numwant / infohash list the tracker logic receives). "
            "Registries: storage.NewPeerStore / middleware.New with unknown, near-miss and known names, undecodable yaml, varinterval probability x delta grid, approval lists, redis brokers. "
            "parseRedisURL (shim) on a corpus + generated URLs with url.Parse's components shipped as oracle. "
            "redis.New against a live miniredis for read/write/connect timeouts in {-1s,-1ns,0,3s}^3 (+ minInt64, 500ms thorough): announce, scrape, delete must work. "
            "A validation case is trivial when nothing was defaulted (tags 1000, 2000, 3000, 4000); distinct = distinct input JSON",
    "tags": {"9000": "configuration surface (options per component)", "1000+b": "http Validate, b = bit set of defaulted fields (1 read, 2 write, 4 idle, 8 max_numwant, 16 default_numwant, 32 max_scrape)",
             "2000+b": "udp Validate, b = bit set (1 skew[never], 2 max_numwant, 4 default_numwant, 8 max_scrape, 16 key generated)",
             "3000+b": "memory Validate, b = bit set (1 gc, 2 prometheus, 4 lifetime, 8 shards)",
             "4000+b": "redis Validate, b = bit set (1 gc, 2 prometheus, 4 lifetime, 8 read, 16 write, 32 connect, 64 broker)",
             "5000/5010/5020+k": "numwant through http parser / udp parser / live http front-end: 0 absent, 1 within max, 2 capped", "5100/5110/5120+k": "scrape through http parser / udp parser / live http front-end: 0 within max, 1 truncated",
             "6000+s": "storage registry: 0 built, 1 unknown driver, 2 options refused", "6100+s(+10)": "hook registry (+10 interval variation)",
             "6200": "redis url refused", "6201": "redis url db 0", "6202": "redis url db != 0", "6301": "live redis store, all timeouts valid", "6302": "live redis store, some timeout defaulted"},
    "trivial_tags": [1000, 2000, 3000, 4000],
    "min_tags": 150,
    "reasons": {"120": "a component's configuration has an option the model does not list (or lacks one it lists): behaviour may now depend on configuration the model says nothing about", "1": "a governed timeout/interval/limit of the validated configuration is not positive, or the shard count is not positive / cannot be doubled without overflow",
                "2": "a value that was already valid was changed by validation",
                "3": "validating twice changed something more",
                "4": "validation changed a field it does not govern",
                "5": "numwant limit not honoured: explicit numwant above the validated maximum, or absent numwant not replaced by the validated default",
                "6": "scrape limit not honoured: more infohashes than the validated maximum",
                "7": "an unknown storage or hook name was not refused",
                "8": "hook options outside their documented range were accepted",
                "9": "the tracker built from the config does not honour the validated value: a redis store built by New() from a configuration that validation repaired does not work",
                "10": "empty UDP private key was not replaced by a non-empty generated key",
                "101": "validated field differs from the model (e.g. another default value)", "102": "redis URL parsing / broker refusal differs from model",
                "103": "a configuration the model builds was refused", "104": "parsed numwant / scrape list differs from the model beyond the limit clauses, or the probe request did not parse",
                "105": "ShardCount*2 differs from model", "106": "refusal of an unknown name is not ErrDriverDoesNotExist", "107": "glue: live case not evaluable"},
    "assumptions": ["Go int is 64 bit (math.MaxInt = 2^63-1)", "uint32 fields are shipped as non-negative integers; '<= 0' on them is '= 0'",
                    "the UDP key generator returns a non-empty key (visible hypothesis gen <> [] of the udp theorems; observed on every case)",
                    "a NaN probability (yaml .nan) is shipped as an out-of-range value: the model has no NaN, and NaN is not in the documented range (0,1] (finding F14)",
                    "url.Parse, yaml decoding of option documents and float32 parsing are oracles: their answers are computed by the driver with the Go libraries and shipped inside the case",
                    "a redis connection with a negative read/write/connect timeout fails at once (redigo sets the deadline to now+timeout); 0 means no deadline"],
    "explanation": "Theorems over Model/Config.v (the four Validate functions, memory shard doubling, redis New, parseRedisURL + strconv.Atoi, the two driver registries, hook option checks reusing the C14 and C18 models) "
                   "and over sanitize_announce / sanitize_scrape of Model/Peer.v instantiated with validated limits, proved for all values; tied to the Go code by executing the exported Validate() methods on complete product grids, "
                   "the front-end parsers with validated options, storage.NewPeerStore / middleware.New, parseRedisURL through an add-only shim, and redis.New against a live miniredis.",
    "exhaustive": False,
}

CLAIM = {
    "text": "Machine-checked proof (Coq) over an executable model that for EVERY field value each of the four Validate functions yields only positive timeouts/intervals/limits (memory: a positive shard count whose double fits an int, and ShardCount*2 does not wrap), leaves already-valid values unchanged and is idempotent (UDP: for any non-empty generated key, whatever a second generation would return); that with validated limits an explicit numwant is capped at the maximum, an absent one gets the default and a scrape is cut to the maximum; that unknown storage/hook names, interval-variation options outside (0,1] x >=1 and malformed approval lists are refused; and what parseRedisURL accepts. The model is tied to the Go code on every run by complete product grids over the Validate() methods, parser probes, registry calls and a live redis store.",
    "design_ref": "DESIGN.md section 8, C20; finding F13 (section 9.A)",
    "note": "Trusted: Coq kernel + vm_compute; Glue/G20.v; Go driver; url.Parse / yaml / float32 oracles. Finding F13 (redis backend built from the unvalidated config) is modelled as redis_new_legacy with a kernel-checked refutation; the main model follows proposed_fixes/F13.diff. Finding F14: interval variation accepts modify_response_probability: .nan (both comparisons of checkConfig are false for NaN) and then never modifies a response; proposed_fixes/F14.diff. The UDP front-end is probed at parser level only (no live socket). Not covered: max_clock_skew and jwk_set_update_interval have no documented range (DESIGN 9.B-9, 9.B-11); default_numwant may exceed max_numwant (the property caps only an explicit numwant); 'redis://host/' (empty db segment) is refused by parseRedisURL although its comment shows the form - outside the property's clauses; a shard count near maxInt/2 passes validation but cannot be allocated.",
    "technique": "Coq proof over executable Gallina model + differential correspondence check (vm_compute)",
}
