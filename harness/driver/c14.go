//go:build verif && verif_c14

package main

import (
	"context"
	"encoding/hex"
	"fmt"
	"math/rand"
	"net"
	"reflect"
	"strings"
	"time"

	yaml "gopkg.in/yaml.v2"

	"github.com/chihaya/chihaya/bittorrent"
	"github.com/chihaya/chihaya/middleware"
	"github.com/chihaya/chihaya/middleware/clientapproval"
	"github.com/chihaya/chihaya/middleware/torrentapproval"
)

func init() {
	props["C14"] = &propDef{glue: "G14", ctype: "case14", chk: "chk14", stream: c14Stream, replay: c14Replay, shard: 500}
}

type c14ctxKey struct{}

func c14StrList(l []string) (coq string, js []string) {
	items := make([]string, len(l))
	js = make([]string, len(l))
	for i, s := range l {
		items[i] = cB([]byte(s))
		js[i] = hx([]byte(s))
	}
	return cList(items), js
}

// c14Build builds the hook either directly or through the yaml driver.
// ok=false means the yaml form could not carry the lists faithfully (skip).
func c14Build(which int, viaYaml bool, wl, bl []string) (h middleware.Hook, err error, ok bool) {
	if viaYaml {
		m := map[string]interface{}{}
		if wl != nil {
			m["whitelist"] = wl
		}
		if bl != nil {
			m["blacklist"] = bl
		}
		yb, merr := yaml.Marshal(m)
		if merr != nil {
			return nil, nil, false
		}
		// the yaml decoder is outside the model: make sure the text decodes to exactly these lists
		var back struct {
			Whitelist []string `yaml:"whitelist"`
			Blacklist []string `yaml:"blacklist"`
		}
		if uerr := yaml.Unmarshal(yb, &back); uerr != nil || !c14SameList(back.Whitelist, wl) || !c14SameList(back.Blacklist, bl) {
			return nil, nil, false
		}
		name := clientapproval.Name
		if which == 1 {
			name = torrentapproval.Name
		}
		h, err = middleware.New(name, yb)
		return h, err, true
	}
	if which == 0 {
		h, err = clientapproval.NewHook(clientapproval.Config{Whitelist: wl, Blacklist: bl})
	} else {
		h, err = torrentapproval.NewHook(torrentapproval.Config{Whitelist: wl, Blacklist: bl})
	}
	return h, err, true
}

func c14SameList(a, b []string) bool {
	if len(a) != len(b) {
		return false
	}
	for i := range a {
		if a[i] != b[i] {
			return false
		}
	}
	return true
}

// c14Case executes one configuration with one probe (20 bytes: a peer ID for
// which=0, an infohash for which=1).
func c14Case(o *Out, kind string, which int, viaYaml bool, wl, bl []string, probe []byte) {
	var h middleware.Hook
	var err error
	ok, panicked := true, false
	func() {
		defer func() {
			if r := recover(); r != nil {
				panicked = true
			}
		}()
		h, err, ok = c14Build(which, viaYaml, wl, bl)
	}()
	if !ok {
		n, _ := o.notes["yaml_not_faithful_skipped"].(int)
		o.notes["yaml_not_faithful_skipped"] = n + 1
		return
	}
	built, ann, scr, same := int64(0), int64(-1), int64(-1), true
	if panicked {
		built = 2
	} else if err != nil || h == nil {
		built = 1
	} else {
		var pid bittorrent.PeerID
		var ih bittorrent.InfoHash
		other := make([]byte, 20)
		for i := range other {
			other[i] = byte(0xA0 + i)
		}
		if which == 0 {
			pid = bittorrent.PeerIDFromBytes(probe)
			ih = bittorrent.InfoHashFromBytes(other)
		} else {
			pid = bittorrent.PeerIDFromBytes(other)
			ih = bittorrent.InfoHashFromBytes(probe)
		}
		mk := func() (*bittorrent.AnnounceRequest, *bittorrent.AnnounceResponse) {
			// the decision is about the client ID / infohash only: every other request field varies with the probe
			// (event incl. stopped and completed, left, numwant, compact, port, address family)
			v := int(probe[0]) + int(probe[len(probe)-1]) + len(probe)
			ip := bittorrent.IP{IP: net.IP{10, 0, 0, 1}, AddressFamily: bittorrent.IPv4}
			if v%3 == 0 {
				ip = bittorrent.IP{IP: net.ParseIP("2001:db8::7"), AddressFamily: bittorrent.IPv6}
			}
			req := &bittorrent.AnnounceRequest{InfoHash: ih, Left: uint64(v % 2), NumWant: uint32(v % 7), Compact: v%5 != 0,
				Event: []bittorrent.Event{bittorrent.None, bittorrent.Started, bittorrent.Stopped, bittorrent.Completed}[v%4],
				Peer:  bittorrent.Peer{ID: pid, Port: uint16(6881 + v%3), IP: ip}}
			resp := &bittorrent.AnnounceResponse{Compact: true, Interval: 30 * time.Minute, MinInterval: 15 * time.Minute}
			return req, resp
		}
		req, resp := mk()
		req0, resp0 := mk()
		ctx := context.WithValue(context.Background(), c14ctxKey{}, 1)
		// the measured request is not the hook's first: it has decided a few dozen others before (other clients / torrents,
		// approved and refused alike) - the decision is about THIS request's key alone
		if len(probe) > 2 && probe[1]%4 == 0 {
			for i := 0; i < 40; i++ {
				wid := make([]byte, 20)
				copy(wid, probe)
				wid[i%20] ^= byte(1 + i)
				wreq := &bittorrent.AnnounceRequest{InfoHash: bittorrent.InfoHashFromBytes(wid), Peer: bittorrent.Peer{ID: bittorrent.PeerIDFromBytes(wid), Port: 1,
					IP: bittorrent.IP{IP: net.IP{10, 0, 0, 2}, AddressFamily: bittorrent.IPv4}}}
				_, _ = h.HandleAnnounce(context.Background(), wreq, &bittorrent.AnnounceResponse{})
				_, _ = h.HandleScrape(context.Background(), &bittorrent.ScrapeRequest{InfoHashes: []bittorrent.InfoHash{wreq.InfoHash}}, &bittorrent.ScrapeResponse{})
			}
		}
		var nctx context.Context
		var aerr error
		apanic := false
		func() {
			defer func() {
				if r := recover(); r != nil {
					apanic = true
				}
			}()
			nctx, aerr = h.HandleAnnounce(ctx, req, resp)
		}()
		switch {
		case apanic:
			ann = 2 // crashed: neither accepted nor refused with the package's error
		case aerr == nil:
			ann = 0
		case which == 0 && aerr == error(clientapproval.ErrClientUnapproved), which == 1 && aerr == error(torrentapproval.ErrTorrentUnapproved):
			ann = 1
		default:
			ann = 2
		}
		same = nctx == ctx && reflect.DeepEqual(req, req0) && reflect.DeepEqual(resp, resp0)
		// scrape naming the same infohash (and another one)
		sreq := &bittorrent.ScrapeRequest{AddressFamily: bittorrent.IPv4, InfoHashes: []bittorrent.InfoHash{ih, bittorrent.InfoHashFromBytes(other)}}
		sresp := &bittorrent.ScrapeResponse{}
		var sctx context.Context
		var serr error
		spanic := false
		func() {
			defer func() {
				if r := recover(); r != nil {
					spanic = true
				}
			}()
			sctx, serr = h.HandleScrape(ctx, sreq, sresp)
		}()
		scr = 0
		if spanic {
			scr = 3 // the scrape crashed request handling: not answered at all
		} else if serr != nil {
			scr = 1
		} else if len(sreq.InfoHashes) != 2 || sreq.InfoHashes[0] != ih || sreq.InfoHashes[1] != bittorrent.InfoHashFromBytes(other) {
			scr = 2 // the scrape goes on, but without some of the infohashes it named: blocked in part
		}
		same = same && sctx == ctx && len(sreq.InfoHashes) == 2 && sreq.InfoHashes[0] == ih && len(sresp.Files) == 0
	}
	wc, wj := c14StrList(wl)
	bc, bj := c14StrList(bl)
	coq := fmt.Sprintf("CAppr %d %s %s %s %s %s %s %s %s", which, cBool(viaYaml), wc, bc, cZ(built), cB(probe), cZ(ann), cZ(scr), cBool(same))
	o.add(Case{Coq: coq, Kind: kind,
		In:  map[string]interface{}{"which": which, "yaml": viaYaml, "wl": wj, "bl": bj, "probe": hx(probe)},
		Obs: map[string]interface{}{"built": built, "announce": ann, "scrape": scr, "untouched": same}})
}

func c14Replay(o *Out, in map[string]interface{}) error {
	lst := func(v interface{}) []string {
		a, _ := v.([]interface{})
		if a == nil {
			return nil
		}
		out := make([]string, len(a))
		for i, x := range a {
			out[i] = string(unhx(x))
		}
		return out
	}
	c14Case(o, "replay", int(jInt(in["which"])), jBool(in["yaml"]), lst(in["wl"]), lst(in["bl"]), unhx(in["probe"]))
	return nil
}

// ---- generators

var c14Clients = []string{"AZ2060", "UT3400", "TR2940", "lt0D60", "qB4250", "DE13F0", "M4-3-6", "S58B--", "exbc\x00\x00", "-AZ206", "------", "Mbrst1", "AZ2061", "aZ2060", "\x00\x00\x00\x00\x00\x00", "\xff\xfe\x80\x81\x00-"}

func c14RandClient(rng *rand.Rand) string {
	switch rng.Intn(4) {
	case 0:
		b := make([]byte, 6)
		rng.Read(b)
		return string(b)
	case 1:
		const al = "ABCDEFGHIJKLMNOPQRSTUVWXYZabcdefghijklmnopqrstuvwxyz0123456789-"
		b := make([]byte, 6)
		for i := range b {
			b[i] = al[rng.Intn(len(al))]
		}
		return string(b)
	default:
		return c14Clients[rng.Intn(len(c14Clients))]
	}
}

// peer IDs near a listed client ID
func c14ClientProbes(rng *rand.Rand, listed []string) [][]byte {
	fill := func(prefix []byte) []byte {
		b := make([]byte, 20)
		rng.Read(b)
		copy(b, prefix)
		return b[:20]
	}
	var out [][]byte
	out = append(out, fill(nil))
	zero := make([]byte, 20)
	out = append(out, zero)
	dashes := []byte("--------------------")
	out = append(out, dashes)
	for _, id := range listed {
		if len(id) == 0 {
			continue
		}
		e := []byte(id)
		out = append(out,
			fill(e),                                  // bytes 0..5 = id
			fill(append([]byte("-"), e...)),          // '-' then id: bytes 1..6
			fill(append([]byte("x"), e...)),          // id at 1..6 but no dash
			fill(append([]byte("--"), e...)),         // shifted by two, dash first
			fill(append([]byte{0}, e...)),            // NUL instead of dash
			fill(append([]byte{'-' + 1}, e...)),      // '.' instead of dash
			fill(append([]byte{'-' - 1}, e...)),      // ',' instead of dash
		)
		if len(e) > 1 {
			out = append(out, fill(e[1:]), fill(append([]byte("-"), e[1:]...))) // shifted left by one
			cut := append([]byte{}, e[:len(e)-1]...)
			out = append(out, fill(cut), fill(append([]byte("-"), cut...))) // last byte random
		}
		// one byte changed / case flipped
		f := append([]byte{}, e...)
		i := rng.Intn(len(f))
		if (f[i] >= 'a' && f[i] <= 'z') || (f[i] >= 'A' && f[i] <= 'Z') {
			f[i] ^= 0x20
		} else {
			f[i] ^= 1 << uint(rng.Intn(8))
		}
		out = append(out, fill(f), fill(append([]byte("-"), f...)))
		// the id placed at the very end
		t := fill(nil)
		if len(e) <= 20 {
			copy(t[20-len(e):], e)
		}
		out = append(out, t)
	}
	return out
}

func c14HexCase(rng *rand.Rand, h []byte, mode int) string {
	s := hex.EncodeToString(h)
	switch mode {
	case 0:
		return s
	case 1:
		return strings.ToUpper(s)
	default:
		b := []byte(s)
		for i := range b {
			if b[i] >= 'a' && b[i] <= 'f' && rng.Intn(2) == 0 {
				b[i] -= 0x20
			}
		}
		return string(b)
	}
}

func c14BadHash(rng *rand.Rand, h []byte) string {
	s := c14HexCase(rng, h, rng.Intn(3))
	switch rng.Intn(14) {
	case 0:
		return s[:39]
	case 1:
		return s[:38]
	case 2:
		return s + "0"
	case 3:
		return s + "00"
	case 4:
		return ""
	case 5:
		b := []byte(s)
		b[rng.Intn(40)] = "gGzZ xX-_:/@`"[rng.Intn(13)]
		return string(b)
	case 6:
		return "0x" + s[:38]
	case 7:
		return "0x" + s
	case 8:
		return string(h) // raw 20 bytes instead of hex text
	case 9:
		return s + " "
	case 10:
		return " " + s
	case 11:
		b := []byte(s)
		b[rng.Intn(40)] = byte(rng.Intn(256))
		if _, err := hex.DecodeString(string(b)); err == nil {
			b[0] = 'g'
		}
		return string(b)
	case 12:
		return s[:20]
	default:
		return s + s
	}
}

func c14TorrentProbes(rng *rand.Rand, listed [][]byte, texts []string) [][]byte {
	var out [][]byte
	r := make([]byte, 20)
	rng.Read(r)
	out = append(out, r, make([]byte, 20))
	for _, h := range listed {
		out = append(out, append([]byte{}, h...))
		f := append([]byte{}, h...)
		f[rng.Intn(20)] ^= 1 << uint(rng.Intn(8))
		out = append(out, f)
		g := append([]byte{}, h...)
		g[0]++
		out = append(out, g)
		l := append([]byte{}, h...)
		l[19]--
		out = append(out, l)
		rot := append(append([]byte{}, h[1:]...), h[0])
		out = append(out, rot)
		rot2 := append([]byte{h[19]}, h[:19]...)
		out = append(out, rot2)
		// nibble-swapped first byte
		n := append([]byte{}, h...)
		n[0] = n[0]<<4 | n[0]>>4
		out = append(out, n)
	}
	for _, t := range texts {
		if len(t) >= 20 {
			out = append(out, []byte(t[:20]), []byte(t[len(t)-20:])) // the hex *text* taken as bytes
		}
	}
	return out
}

func c14Stream(o *Out, rng *rand.Rand, n int) {
	per := func(kind string, which int, wl, bl []string, probes [][]byte, limit int) {
		if limit > 0 && len(probes) > limit {
			rng.Shuffle(len(probes), func(i, j int) { probes[i], probes[j] = probes[j], probes[i] })
			probes = probes[:limit]
		}
		for i, p := range probes {
			c14Case(o, kind, which, i%4 == 3, wl, bl, p)
		}
	}
	randProbe := func() []byte { b := make([]byte, 20); rng.Read(b); return b }

	// ---- corpus: every real client id singly, white and black, all near-miss probes
	for _, id := range c14Clients {
		per("client-single-white", 0, []string{id}, nil, c14ClientProbes(rng, []string{id}), 0)
		per("client-single-black", 0, nil, []string{id}, c14ClientProbes(rng, []string{id}), 0)
	}
	// no lists at all (nil and empty slices), directly and through yaml
	for _, y := range []bool{false, true} {
		for _, p := range c14ClientProbes(rng, []string{"AZ2060"}) {
			c14Case(o, "client-nolist", 0, y, nil, nil, p)
			c14Case(o, "client-nolist", 0, y, []string{}, []string{}, p)
		}
		for _, p := range c14TorrentProbes(rng, [][]byte{randProbe()}, nil) {
			c14Case(o, "torrent-nolist", 1, y, nil, nil, p)
			c14Case(o, "torrent-nolist", 1, y, []string{}, []string{}, p)
		}
	}
	// malformed client entries
	for _, bad := range []string{"", "A", "AZ206", "AZ20600", "-AZ2060", "AZ2060-", "AZ2060\x00", "\x00", "AZ 2060", "ＡＺ", "é2060", "AZ2060AZ2060", strings.Repeat("A", 20),
		// the way a client ID appears inside a peer ID (dashes around it), and other lengths around 6 with dashes
		"-AZ2060-", "-UT2300-", "--------", "-AZ206-", "-AZ20600-", "--AZ2060", "AZ2060--", "-\x00\x01\x02\x03\x04\x05-", "-AZ2060-ABCDEFGHIJKL", "-AZ20"} {
		for _, y := range []bool{false, true} {
			c14Case(o, "client-malformed", 0, y, []string{bad}, nil, randProbe())
			c14Case(o, "client-malformed", 0, y, nil, []string{bad}, randProbe())
			c14Case(o, "client-malformed", 0, y, []string{"AZ2060", bad}, nil, randProbe())
			c14Case(o, "client-malformed", 0, y, nil, []string{"AZ2060", "UT3400", bad}, randProbe())
			c14Case(o, "client-malformed", 0, y, []string{bad, "AZ2060"}, nil, randProbe())
			c14Case(o, "client-both-malformed", 0, y, []string{bad}, []string{"AZ2060"}, randProbe())
			c14Case(o, "client-both-malformed", 0, y, []string{"AZ2060"}, []string{bad}, randProbe())
		}
	}
	// both lists
	for i := 0; i < 12; i++ {
		a, b := c14RandClient(rng), c14RandClient(rng)
		c14Case(o, "client-both", 0, i%2 == 0, []string{a}, []string{b}, randProbe())
		c14Case(o, "client-both", 0, i%2 == 1, []string{a, b}, []string{a}, append([]byte(a), make([]byte, 14)...))
		h1, h2 := randProbe(), randProbe()
		c14Case(o, "torrent-both", 1, i%2 == 0, []string{hex.EncodeToString(h1)}, []string{hex.EncodeToString(h2)}, h1)
		c14Case(o, "torrent-both", 1, i%2 == 1, []string{hex.EncodeToString(h1)}, []string{hex.EncodeToString(h1)}, h1)
		c14Case(o, "torrent-both-malformed", 1, i%2 == 0, []string{c14BadHash(rng, h1)}, []string{hex.EncodeToString(h2)}, h1)
	}

	// ---- LARGE lists: membership must be decided on the whole key.  A store keyed by a digest of the key (a 32-bit hash,
	// a truncated key) approves or blocks keys that are not listed; with N listed keys and M probes such a collision shows
	// with probability about N*M/2^bits - the sizes below find digests of up to ~35 bits.  A wrong verdict is narrowed down
	// (bisection over the list) to ONE listed key and ONE probe, and that pair is judged as an ordinary small case.
	{
		nl, np := 150000, 150000
		if n >= 2000 {
			nl, np = 400000, 400000
		}
		c14Bulk(o, rng, 1, nl, np)
		c14Bulk(o, rng, 0, nl/3, np)
	}

	// ---- generated configurations
	for i := 0; i < n; i++ {
		which := i % 2
		white := rng.Intn(2) == 0
		shape := rng.Intn(10) // 0 singleton, 1-4 many, 5-6 duplicates, 7-8 malformed, 9 many large
		size := 1
		switch {
		case shape >= 1 && shape <= 4:
			size = 2 + rng.Intn(6)
		case shape == 5 || shape == 6:
			size = 2 + rng.Intn(5)
		case shape == 7 || shape == 8:
			size = 1 + rng.Intn(4)
		case shape == 9:
			size = 10 + rng.Intn(25)
		}
		var list []string
		kind := [...]string{"single", "many", "many", "many", "many", "dup", "dup", "malformed", "malformed", "large"}[shape]
		if which == 0 {
			for len(list) < size {
				list = append(list, c14RandClient(rng))
			}
			if shape == 5 || shape == 6 {
				for k := 0; k < 1+rng.Intn(3); k++ {
					list = append(list, list[rng.Intn(len(list))])
				}
				rng.Shuffle(len(list), func(a, b int) { list[a], list[b] = list[b], list[a] })
			}
			if shape == 7 || shape == 8 {
				e := []byte(c14RandClient(rng))
				switch rng.Intn(5) {
				case 0:
					e = e[:5]
				case 1:
					e = append(e, byte(rng.Intn(256)))
				case 2:
					e = nil
				case 3:
					e = append([]byte("-"), e...)
				default:
					e = e[:rng.Intn(6)]
				}
				list[rng.Intn(len(list))] = string(e)
			}
			wl, bl := list, []string(nil)
			if !white {
				wl, bl = nil, list
			}
			pick := list
			if len(pick) > 3 {
				pick = []string{list[0], list[len(list)-1], list[rng.Intn(len(list))]}
			}
			lim := 6
			if shape == 7 || shape == 8 {
				lim = 1
			}
			per("client-"+kind, 0, wl, bl, c14ClientProbes(rng, pick), lim)
		} else {
			var hashes [][]byte
			for len(list) < size {
				h := randProbe()
				hashes = append(hashes, h)
				list = append(list, c14HexCase(rng, h, rng.Intn(3)))
			}
			if shape == 5 || shape == 6 {
				for k := 0; k < 1+rng.Intn(3); k++ {
					j := rng.Intn(len(hashes))
					list = append(list, c14HexCase(rng, hashes[j], rng.Intn(3))) // same hash, maybe other letter case
				}
				rng.Shuffle(len(list), func(a, b int) { list[a], list[b] = list[b], list[a] })
			}
			if shape == 7 || shape == 8 {
				j := rng.Intn(len(list))
				list[j] = c14BadHash(rng, hashes[j])
			}
			wl, bl := list, []string(nil)
			if !white {
				wl, bl = nil, list
			}
			pick := hashes
			if len(pick) > 2 {
				pick = [][]byte{hashes[0], hashes[len(hashes)-1], hashes[rng.Intn(len(hashes))]}
			}
			lim := 6
			if shape == 7 || shape == 8 {
				lim = 1
			}
			per("torrent-"+kind, 1, wl, bl, c14TorrentProbes(rng, pick, list[:1]), lim)
		}
	}
}


// c14Bulk: see c14Stream.  which 1: torrent approval over random infohashes; which 0: client approval over random 6-byte IDs.
func c14Bulk(o *Out, rng *rand.Rand, which, nl, np int) {
	listed := map[string]bool{}
	var list []string
	key := func() []byte {
		if which == 1 {
			b := make([]byte, 20)
			rng.Read(b)
			return b
		}
		b := make([]byte, 6)
		rng.Read(b)
		return b
	}
	text := func(k []byte) string {
		if which == 1 {
			return hex.EncodeToString(k)
		}
		return string(k)
	}
	for len(list) < nl {
		k := key()
		if !listed[string(k)] {
			listed[string(k)] = true
			list = append(list, text(k))
		}
	}
	verdict := func(h middleware.Hook, k []byte) bool { // true = the announce passes the hook
		req := &bittorrent.AnnounceRequest{}
		if which == 1 {
			req.InfoHash = bittorrent.InfoHashFromBytes(k)
		} else {
			pid := append(append([]byte{'-'}, k...), []byte("-abcdefghijkl")...)
			req.Peer.ID = bittorrent.PeerIDFromBytes(pid)
		}
		_, err := h.HandleAnnounce(context.Background(), req, &bittorrent.AnnounceResponse{})
		return err == nil
	}
	probeBytes := func(k []byte) []byte {
		if which == 1 {
			return k
		}
		return append(append([]byte{'-'}, k...), []byte("-abcdefghijkl")...)
	}
	found := 0
	for _, white := range []bool{true, false} {
		var wl, bl []string
		if white {
			wl = list
		} else {
			bl = list
		}
		h, err, _ := c14Build(which, false, wl, bl)
		if err != nil || h == nil {
			// a list of well-formed entries must be accepted: judge the first entry alone
			c14Case(o, "bulk-refused", which, false, firstOf(wl), firstOf(bl), probeBytes(key()))
			continue
		}
		for i := 0; i < np && found < 3; i++ {
			k := key()
			if listed[string(k)] {
				continue
			}
			if verdict(h, k) == white { // an unlisted key approved by a whitelist / blocked by a blacklist
				// narrow the list down to one entry
				lo, hi := 0, len(list)
				for hi-lo > 1 {
					mid := (lo + hi) / 2
					var w2, b2 []string
					if white {
						w2 = list[lo:mid]
					} else {
						b2 = list[lo:mid]
					}
					h2, err2, _ := c14Build(which, false, w2, b2)
					if err2 == nil && h2 != nil && verdict(h2, k) == white {
						hi = mid
					} else {
						lo = mid
					}
				}
				var w1, b1 []string
				if white {
					w1 = list[lo:hi]
				} else {
					b1 = list[lo:hi]
				}
				c14Case(o, "bulk-collision", which, false, w1, b1, probeBytes(k))
				found++
			}
		}
		// and every listed key is decided as listed (a sample)
		for i := 0; i < 2000; i++ {
			e := list[rng.Intn(len(list))]
			var k []byte
			if which == 1 {
				k, _ = hex.DecodeString(e)
			} else {
				k = []byte(e)
			}
			if verdict(h, k) != white {
				var w1, b1 []string
				if white {
					w1 = []string{e}
				} else {
					b1 = []string{e}
				}
				c14Case(o, "bulk-listed", which, false, w1, b1, probeBytes(k))
				break
			}
		}
	}
	o.notes[fmt.Sprintf("bulk_%d", which)] = map[string]interface{}{"listed": nl, "probes": np, "wrong_verdicts": found}
}

func firstOf(l []string) []string {
	if len(l) == 0 {
		return l
	}
	return l[:1]
}
