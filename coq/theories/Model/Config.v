(* Model of configuration defaulting and start-up refusal:
   frontend/http/frontend.go, frontend/udp/frontend.go (Config.Validate),
   storage/memory/peer_store.go, storage/redis/peer_store.go (Config.Validate, New),
   storage/redis/redis.go (parseRedisURL, strconv.Atoi),
   storage/storage.go and middleware/middleware.go (driver registries).
   Durations are int64 nanoseconds, uint32 fields are Z in 0..2^32-1 (for those
   "<= 0" is "= 0").   Definitions only. *)
From Chihaya Require Export Model.Peer Model.VarInterval Model.Approval.
Open Scope Z_scope.

Definition second := 1000000000.
Definition minute := 60 * second.
Definition max_int64 := 2 ^ 63 - 1.

(* `if v <= 0 { v = d }` *)
Definition dflt (v d : Z) : Z := if v <=? 0 then d else v.

(* ---------------------------------------------------------------- HTTP *)
Record http_cfg := { h_read : Z; h_write : Z; h_idle : Z;
                     h_max_nw : Z; h_def_nw : Z; h_max_scrape : Z }.

Definition http_validate (c : http_cfg) : http_cfg :=
  {| h_read := dflt (h_read c) (2 * second);
     h_write := dflt (h_write c) (2 * second);
     h_idle := dflt (h_idle c) (30 * second);
     h_max_nw := dflt (h_max_nw c) 100;
     h_def_nw := dflt (h_def_nw c) 50;
     h_max_scrape := dflt (h_max_scrape c) 50 |}.

(* every governed value is positive *)
Definition http_ok (c : http_cfg) : Prop :=
  0 < h_read c /\ 0 < h_write c /\ 0 < h_idle c /\ 0 < h_max_nw c /\ 0 < h_def_nw c /\ 0 < h_max_scrape c.

(* ---------------------------------------------------------------- UDP *)
(* max_clock_skew is not governed by Validate (DESIGN 9.B-9): carried through *)
Record udp_cfg := { u_key : bytes; u_skew : Z;
                    u_max_nw : Z; u_def_nw : Z; u_max_scrape : Z }.

(* [gen] is the key the random generator would produce (64 characters from a
   fixed alphabet in the Go code); it is consulted only when no key is set *)
Definition udp_validate (gen : bytes) (c : udp_cfg) : udp_cfg :=
  {| u_key := match u_key c with [] => gen | _ => u_key c end;
     u_skew := u_skew c;
     u_max_nw := dflt (u_max_nw c) 100;
     u_def_nw := dflt (u_def_nw c) 50;
     u_max_scrape := dflt (u_max_scrape c) 50 |}.

Definition udp_ok (c : udp_cfg) : Prop :=
  u_key c <> [] /\ 0 < u_max_nw c /\ 0 < u_def_nw c /\ 0 < u_max_scrape c.

(* ---------------------------------------------------------------- memory store *)
Record mem_cfg := { m_gc : Z; m_prom : Z; m_life : Z; m_shards : Z }.

Definition mem_validate (c : mem_cfg) : mem_cfg :=
  {| m_gc := dflt (m_gc c) (3 * minute);
     m_prom := dflt (m_prom c) second;
     m_life := dflt (m_life c) (30 * minute);
     m_shards := if (m_shards c <=? 0) || (m_shards c >? max_int64 / 2) then 1024 else m_shards c |}.

(* intervals positive, shard count positive and doublable without overflow *)
Definition mem_ok (c : mem_cfg) : Prop :=
  0 < m_gc c /\ 0 < m_prom c /\ 0 < m_life c /\ 0 < m_shards c /\ 2 * m_shards c <= max_int64.

(* New: make([]*peerShard, cfg.ShardCount*2); the product is an int *)
Definition mem_shard_slots (c : mem_cfg) : Z := to_int64 (wrap64 (m_shards (mem_validate c) * 2)).

(* ---------------------------------------------------------------- redis store *)
Record redis_cfg := { r_gc : Z; r_prom : Z; r_life : Z; r_broker : bytes;
                      r_read : Z; r_write : Z; r_connect : Z }.

Definition default_broker : bytes := s2b "redis://myRedis@127.0.0.1:6379/0".

Definition redis_validate (c : redis_cfg) : redis_cfg :=
  {| r_gc := dflt (r_gc c) (3 * minute);
     r_prom := dflt (r_prom c) second;
     r_life := dflt (r_life c) (30 * minute);
     r_broker := match r_broker c with [] => default_broker | _ => r_broker c end;
     r_read := dflt (r_read c) (15 * second);
     r_write := dflt (r_write c) (15 * second);
     r_connect := dflt (r_connect c) (15 * second) |}.

Definition redis_ok (c : redis_cfg) : Prop :=
  r_broker c <> [] /\ 0 < r_gc c /\ 0 < r_prom c /\ 0 < r_life c /\
  0 < r_read c /\ 0 < r_write c /\ 0 < r_connect c.

(* strconv.Atoi (base 10, optional sign, at least one digit, int64 range) *)
Definition is_digit (c : Z) : bool := (48 <=? c) && (c <=? 57).
Definition dec_val (ds : bytes) : Z := fold_left (fun acc c => acc * 10 + (c - 48)) ds 0.
(* the digits after an optional sign; whether the sign is '-' *)
Definition atoi_digits (s : bytes) : bytes :=
  match s with c :: r => if (c =? 45) || (c =? 43) then r else s | [] => [] end.
Definition atoi_neg (s : bytes) : bool :=
  match s with c :: _ => c =? 45 | [] => false end.
Definition atoi (s : bytes) : option Z :=
  let ds := atoi_digits s in
  if nonempty ds && forallb is_digit ds then
    let v := if atoi_neg s then - dec_val ds else dec_val ds in
    if (- 2 ^ 63 <=? v) && (v <=? max_int64) then Some v else None
  else None.

(* strings.Split(path, "/"): the part before the first '/' and, if there is a
   '/', the part between the first and the second *)
Fixpoint until_slash (s : bytes) : bytes :=
  match s with [] => [] | c :: r => if c =? 47 then [] else c :: until_slash r end.
Fixpoint after_slash (s : bytes) : option bytes :=
  match s with [] => None | c :: r => if c =? 47 then Some r else after_slash r end.

(* what url.Parse returned for the broker string (oracle) *)
Record url_parts := { up_err : bool; up_scheme : bytes; up_path : bytes;
                      up_host : bytes; up_user : bytes }.
Record redis_url := { ru_host : bytes; ru_password : bytes; ru_db : Z }.

Definition parse_redis_parts (u : url_parts) : option redis_url :=
  if up_err u then None
  else if negb (bytes_eqb (up_scheme u) (s2b "redis")) then None
  else match after_slash (up_path u) with
       | None => Some {| ru_host := up_host u; ru_password := up_user u; ru_db := 0 |}
       | Some rest =>
         match atoi (until_slash rest) with
         | None => None
         | Some db => Some {| ru_host := up_host u; ru_password := up_user u; ru_db := db |}
         end
       end.

(* the three connection timeouts handed to the connection pool *)
Record redis_timeouts := { t_read : Z; t_write : Z; t_connect : Z }.

Inductive start := Built | UnknownDriver | OptionsRefused.

Inductive storage_driver := DMemory | DRedis.
Inductive hook_driver := DClient | DTorrent | DVarInterval | DJwt.

Fixpoint lookup {D} (name : bytes) (reg : list (bytes * D)) : option D :=
  match reg with
  | [] => None
  | (n, d) :: r => if bytes_eqb name n then Some d else lookup name r
  end.

Definition storage_registry : list (bytes * storage_driver) :=
  [(s2b "memory", DMemory); (s2b "redis", DRedis)].
Definition hook_registry : list (bytes * hook_driver) :=
  [(s2b "client approval", DClient); (s2b "torrent approval", DTorrent);
   (s2b "interval variation", DVarInterval); (s2b "jwt", DJwt)].

(* what yaml decoding of the option bytes yields for the selected driver's
   Config type (oracle); None = the yaml does not decode *)
Record hook_opts := { o_appr : option acfg; o_var : option vcfg; o_jwt_ok : bool }.

Definition is_inr {A B} (x : A + B) : bool := match x with inr _ => true | inl _ => false end.

Section WithURL.
  Variable url_parse : bytes -> url_parts.

  Definition parse_redis_url (target : bytes) : option redis_url := parse_redis_parts (url_parse target).

  (* redis.New after "fix: build the redis backend from the validated config":
     the stored config AND the connection timeouts come from Validate() *)
  Definition redis_new (c : redis_cfg) : option (redis_cfg * redis_url * redis_timeouts) :=
    let v := redis_validate c in
    match parse_redis_url (r_broker v) with
    | None => None
    | Some u => Some (v, u, {| t_read := r_read v; t_write := r_write v; t_connect := r_connect v |})
    end.

  (* as it was: newRedisBackend(&provided, ...) *)
  Definition redis_new_legacy (c : redis_cfg) : option (redis_cfg * redis_url * redis_timeouts) :=
    let v := redis_validate c in
    match parse_redis_url (r_broker v) with
    | None => None
    | Some u => Some (v, u, {| t_read := r_read c; t_write := r_write c; t_connect := r_connect c |})
    end.

  (* storage.NewPeerStore(name, cfg) *)
  Definition new_peer_store (name : bytes) (mem_opts : option mem_cfg) (redis_opts : option redis_cfg) : start :=
    match lookup name storage_registry with
    | None => UnknownDriver
    | Some DMemory => match mem_opts with Some _ => Built | None => OptionsRefused end
    | Some DRedis =>
      match redis_opts with
      | None => OptionsRefused
      | Some c => match redis_new c with Some _ => Built | None => OptionsRefused end
      end
    end.
End WithURL.

(* middleware.New(name, optionBytes) *)
Definition new_hook (name : bytes) (o : hook_opts) : start :=
  match lookup name hook_registry with
  | None => UnknownDriver
  | Some DClient =>
    match o_appr o with Some c => if is_inr (new_client_hook c) then Built else OptionsRefused | None => OptionsRefused end
  | Some DTorrent =>
    match o_appr o with Some c => if is_inr (new_torrent_hook c) then Built else OptionsRefused | None => OptionsRefused end
  | Some DVarInterval =>
    match o_var o with Some c => if check_config c =? 0 then Built else OptionsRefused | None => OptionsRefused end
  | Some DJwt => if o_jwt_ok o then Built else OptionsRefused
  end.

(* middleware.HooksFromHookConfigs(cfgs): the hooks are built in order; the FIRST entry that does not build
   aborts start-up with its error, whatever follows it *)
Fixpoint hooks_from_configs (l : list (bytes * hook_opts)) : start :=
  match l with
  | [] => Built
  | (n, o) :: r => match new_hook n o with Built => hooks_from_configs r | e => e end
  end.

(* a connection whose read/write/connect deadline lies in the past fails at once;
   0 means "no deadline" *)
Definition timeouts_usable (t : redis_timeouts) : bool :=
  (0 <=? t_read t) && (0 <=? t_write t) && (0 <=? t_connect t).

(* ---- the configuration surface the model covers: per component, its options (Go field name : yaml key) in declaration
   order.  An option that is not listed here is an option whose effect the model says nothing about. *)
Definition config_surface : list (bytes * list bytes) := [
  (s2b "http", [s2b "Addr:addr"; s2b "HTTPSAddr:https_addr"; s2b "ReadTimeout:read_timeout"; s2b "WriteTimeout:write_timeout"; s2b "IdleTimeout:idle_timeout"; s2b "EnableKeepAlive:enable_keepalive"; s2b "TLSCertPath:tls_cert_path"; s2b "TLSKeyPath:tls_key_path"; s2b "AnnounceRoutes:announce_routes"; s2b "ScrapeRoutes:scrape_routes"; s2b "EnableRequestTiming:enable_request_timing"; s2b "<ParseOptions>:,inline"]);
  (s2b "http.parse", [s2b "AllowIPSpoofing:allow_ip_spoofing"; s2b "RealIPHeader:real_ip_header"; s2b "MaxNumWant:max_numwant"; s2b "DefaultNumWant:default_numwant"; s2b "MaxScrapeInfoHashes:max_scrape_infohashes"]);
  (s2b "udp", [s2b "Addr:addr"; s2b "PrivateKey:private_key"; s2b "MaxClockSkew:max_clock_skew"; s2b "EnableRequestTiming:enable_request_timing"; s2b "<ParseOptions>:,inline"]);
  (s2b "udp.parse", [s2b "AllowIPSpoofing:allow_ip_spoofing"; s2b "MaxNumWant:max_numwant"; s2b "DefaultNumWant:default_numwant"; s2b "MaxScrapeInfoHashes:max_scrape_infohashes"]);
  (s2b "memory", [s2b "GarbageCollectionInterval:gc_interval"; s2b "PrometheusReportingInterval:prometheus_reporting_interval"; s2b "PeerLifetime:peer_lifetime"; s2b "ShardCount:shard_count"]);
  (s2b "redis", [s2b "GarbageCollectionInterval:gc_interval"; s2b "PrometheusReportingInterval:prometheus_reporting_interval"; s2b "PeerLifetime:peer_lifetime"; s2b "RedisBroker:redis_broker"; s2b "RedisReadTimeout:redis_read_timeout"; s2b "RedisWriteTimeout:redis_write_timeout"; s2b "RedisConnectTimeout:redis_connect_timeout"]);
  (s2b "varinterval", [s2b "ModifyResponseProbability:modify_response_probability"; s2b "MaxIncreaseDelta:max_increase_delta"; s2b "ModifyMinInterval:modify_min_interval"]);
  (s2b "clientapproval", [s2b "Whitelist:whitelist"; s2b "Blacklist:blacklist"]);
  (s2b "torrentapproval", [s2b "Whitelist:whitelist"; s2b "Blacklist:blacklist"]);
  (s2b "jwt", [s2b "Issuer:issuer"; s2b "Audience:audience"; s2b "JWKSetURL:jwk_set_url"; s2b "JWKUpdateInterval:jwk_set_update_interval"]);
  (s2b "response", [s2b "AnnounceInterval:announce_interval"; s2b "MinAnnounceInterval:min_announce_interval"])
].
