(* Correspondence glue for C12 (hook chains through the logic and both frontends). *)
From Chihaya Require Export Glue.Pack Model.Logic.
Open Scope Z_scope.

Inductive hk := KAccept | KRejC (msg : bytes) | KRejI | KSkipSwarm | KSkipResp | KBump (d : Z) | KTag (t : Z).

(* response as far as the instrumented hooks and the store can influence it:
   interval in seconds, and whether counts/peers were filled from the store *)
Definition resp := (Z * bool)%type.

Definition sem (k : hk) : @hook (list Z) resp :=
  fun c r =>
    match k with
    | KAccept => (c, r, None)
    | KRejC m => (c, r, Some (ClientErr m))
    | KRejI => (c, r, Some InternalErr)
    | KSkipSwarm => ({| skip_swarm := true; skip_response := skip_response c; user := user c |}, r, None)
    | KSkipResp => ({| skip_swarm := skip_swarm c; skip_response := true; user := user c |}, r, None)
    | KBump d => (c, (fst r + d, snd r), None)
    | KTag t => ({| skip_swarm := skip_swarm c; skip_response := skip_response c; user := t :: user c |}, r, None)
    end.

Definition enc (t : tev) : Z :=
  match t with TPre i => Z.of_nat i | TPost j => 100 + Z.of_nat j | TFill => 900 | TApply => 901 end.

(* via: 0 logic alone, 1 HTTP frontend, 2 UDP frontend.
   o_err: 0 none, 1 client error (text o_msg), 3 internal.
   o_trace: hook invocations and (collapsed) store reads 900 / writes 901, in order.
   o_applied: number of memberships the request added to the store.
   o_disclosed: on an error, did anything besides the error reach the client? *)
Inductive case12 :=
| CChain (via : Z) (scrape : bool) (pre post : list hk) (base_interval : Z)
         (o_err : Z) (o_msg : bytes) (o_trace : list Z) (o_interval : Z) (o_filled : bool)
         (o_applied : Z) (o_disclosed : bool)
  (* n accepted announces of n different peers (no configured pre-hook, one post-hook that blocks until all n have been
     answered): how many were answered, how many memberships the swarm holds after the release *)
| CBacklog (via n o_answered o_applied : Z).

Definition is_store_ev (z : Z) : bool := (z =? 900) || (z =? 901).
Fixpoint zlist_eqb (a b : list Z) : bool :=
  match a, b with
  | [], [] => true
  | x :: a', y :: b' => (x =? y) && zlist_eqb a' b'
  | _, _ => false
  end.

Definition has_skip_swarm (l : list hk) : bool := existsb (fun k => match k with KSkipSwarm => true | _ => false end) l.
Definition rejects (k : hk) : bool := match k with KRejC _ | KRejI => true | _ => false end.

(* the model: n requests served one after the other through `serve`, each applied once (s_store counts the updates) *)
Definition backlog_applied (n : Z) : Z :=
  let c0 := {| skip_swarm := false; skip_response := false; user := [] |} in
  Nat.iter (Z.to_nat n)
    (fun st : Z => s_store (serve (fun (_ : Z) (r : resp) => (fst r, true)) Z.succ [] [sem KAccept] st c0 (1800, false))) 0.
Definition chk12 (c : case12) : verdict :=
  match c with
  | CBacklog via n o_answered o_applied =>
    (200 + via,
     let m := backlog_applied n in
     if negb (o_answered =? n) then 5
     else if o_applied <? m then 8 else if m <? o_applied then 7 else 0)
  | CChain via scrape pre post base o_err o_msg o_trace o_interval o_filled o_applied o_disclosed =>
    let c0 := {| skip_swarm := false; skip_response := false; user := [] |} in
    let s := serve (fun (_ : Z) (r : resp) => (fst r, true)) Z.succ (map sem pre) (map sem post) 0 c0 (base, false) in
    let mtrace := List.filter (fun z => negb (scrape && (z =? 901))) (map enc (s_trace s)) in
    let mapplied := if scrape then 0 else s_store s in
    match s_out s with
    | inl e =>
      (10 + via,
       if o_err =? 0 then 2                                   (* answered although a pre-hook rejected *)
       else if existsb is_store_ev o_trace || existsb (Z.eqb 902) o_trace then 3   (* store read or written (902: through another request's pending post-processing) *)
       else if negb (o_applied =? 0) then 3
       else if o_disclosed then 2
       else if negb (zlist_eqb o_trace mtrace) then 1          (* a later hook / a post-hook ran, or order *)
       else match e with
            | ClientErr m => if (o_err =? 1) && bytes_eqb m o_msg then 0 else 4
            | InternalErr => if o_err =? 3 then 0 else 4
            end)
    | inr (iv, filled) =>
      let post_fails := existsb rejects post in
      (20 + via + (if post_fails then 100 else 0),
       if negb (o_err =? 0) then 5                             (* accepted by all pre-hooks but an error was returned *)
       else if existsb (Z.eqb 902) o_trace then 7               (* another client's pending update was replaced by this request's: applied twice *)
       else if negb (zlist_eqb (List.filter (fun z => z <? 100) o_trace) (List.filter (fun z => z <? 100) mtrace)) then 5
       else if negb (Bool.eqb o_filled filled) then (if filled then 6 else 8)
       else if negb scrape && negb (o_interval =? iv) then 106
       else if negb (o_applied =? mapplied) then (if mapplied =? 0 then 8 else 7)
       else if negb (zlist_eqb o_trace mtrace) then 107
       (* the code agrees with its model; but the property wants the update unless explicitly skipped *)
       else if negb scrape && post_fails && negb (has_skip_swarm pre) && negb (has_skip_swarm post) && (o_applied =? 0) then 9
       else 0)
    end
  end.

Definition explain12 (c : case12) :=
  match c with
  | CChain via scrape pre post base _ _ _ _ _ _ _ =>
    let c0 := {| skip_swarm := false; skip_response := false; user := [] |} in
    let s := serve (fun (_ : Z) (r : resp) => (fst r, true)) Z.succ (map sem pre) (map sem post) 0 c0 (base, false) in
    (s_out s, s_store s, map enc (s_trace s))
  | CBacklog _ n _ _ => (inr (0, false), backlog_applied n, [])
  end.
