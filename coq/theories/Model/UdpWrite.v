(* Model of frontend/udp/writer.go (WriteAnnounce, WriteScrape, WriteConnectionID,
   WriteError, writeHeader), of the scrape part of middleware/hooks.go
   (responseHook.HandleScrape) and an independent reference decoder written
   from the BEP 15 tables.   Definitions only. *)
From Chihaya Require Export Model.Peer.
Open Scope Z_scope.

Definition be32 (v : Z) : bytes := be_enc 4 v.
Definition be16 (v : Z) : bytes := be_enc 2 v.

(* BEP 15 action codes *)
Definition act_connect : Z := 0.
Definition act_announce : Z := 1.
Definition act_scrape : Z := 2.
Definition act_error : Z := 3.
Definition act_announce_v6 : Z := 4.   (* opentracker's "old" IPv6 announce *)

(* writeHeader: action, then the transaction ID as received *)
Definition write_header (txid : bytes) (action : Z) : bytes := be32 action ++ txid.

(* ---- announce *)
(* bittorrent.AnnounceResponse; durations are int64 nanoseconds *)
Record aresp := {
  a_interval : Z; a_min_interval : Z; a_complete : Z; a_incomplete : Z;
  a_v4 : list peer; a_v6 : list peer
}.

(* uint32(resp.Interval / time.Second): int64 division truncates toward zero,
   the conversion to uint32 keeps the low 32 bits *)
Definition interval_field (ns : Z) : Z := wrap32 (Z.quot ns 1000000000).

(* buf.Write(peer.IP.IP); binary.Write(port) *)
Definition write_peer (p : peer) : bytes := p_ip p ++ be16 (p_port p).

Definition write_announce (txid : bytes) (r : aresp) (v6action v6peers : bool) : bytes :=
  write_header txid (if v6action then act_announce_v6 else act_announce)
  ++ be32 (interval_field (a_interval r))
  ++ be32 (a_incomplete r)
  ++ be32 (a_complete r)
  ++ flat_map write_peer (if v6peers then a_v6 r else a_v4 r).

(* ---- scrape *)
Record scrape := { sc_complete : Z; sc_snatches : Z; sc_incomplete : Z }.
Definition write_scrape_entry (s : scrape) : bytes :=
  be32 (sc_complete s) ++ be32 (sc_snatches s) ++ be32 (sc_incomplete s).
Definition write_scrape (txid : bytes) (files : list scrape) : bytes :=
  write_header txid act_scrape ++ flat_map write_scrape_entry files.

(* responseHook.HandleScrape: one Scrape per requested infohash, in request
   order, repeats included.  The store is abstract. *)
Section HandleScrape.
  Variable St : Type.
  Variable scrape_of : St -> bytes -> family -> scrape.
  Definition handle_scrape (st : St) (req : sreq) : list scrape :=
    map (fun ih => scrape_of st ih (s_af req)) (s_ihs req).
End HandleScrape.

(* ---- connect *)
Definition write_connection_id (txid connid : bytes) : bytes :=
  write_header txid act_connect ++ connid.

(* ---- errors *)
(* A Go error value as WriteError sees it: the result of
   errors.As(err, &bittorrent.ClientError) (the text of the first ClientError in
   the chain, if any) and err.Error(). *)
Record goerr := { ge_client : option bytes; ge_text : bytes }.

Definition generic_internal : bytes := s2b "internal error occurred".
Definition legacy_internal_prefix : bytes := s2b "internal error occurred: ".

(* the fixed code: a client error travels with its text, anything else as one
   constant message *)
Definition error_message (e : goerr) : bytes :=
  match ge_client e with Some _ => ge_text e | None => generic_internal end.
(* the code before "fix:" wrapped the internal error and sent its text *)
Definition error_message_legacy (e : goerr) : bytes :=
  match ge_client e with Some _ => ge_text e | None => legacy_internal_prefix ++ ge_text e end.

Definition write_error_msg (txid msg : bytes) : bytes :=
  write_header txid act_error ++ msg ++ [0].
Definition write_error (txid : bytes) (e : goerr) : bytes := write_error_msg txid (error_message e).
Definition write_error_legacy (txid : bytes) (e : goerr) : bytes := write_error_msg txid (error_message_legacy e).

(* the shared error type of Model/Peer.v as a Go error value *)
Definition goerr_of (e : err) : goerr :=
  match e with
  | ClientErr m => {| ge_client := Some m; ge_text := m |}
  | InternalErr => {| ge_client := None; ge_text := [] |}
  end.

(* ================================================================ reference
   decoder, written from the tables of BEP 15 ("UDP Tracker Protocol").

   announce response             scrape response          connect response   error response
   0   32-bit action (1)         0  32-bit action (2)     0  32-bit action 0  0 32-bit action 3
   4   32-bit transaction_id     4  32-bit transaction_id 4  32-bit tx id     4 32-bit tx id
   8   32-bit interval           8+12n  seeders           8  64-bit conn id   8 string message
   12  32-bit leechers           12+12n completed         16
   16  32-bit seeders            16+12n leechers
   20+6n  32-bit IP address      8+12N
   24+6n  16-bit TCP port
   (IPv6: 128-bit address, stride 18; which one is decided by the family of
   the UDP packet, BEP 15 "IPv6")                                            *)

Definition u32_at (off : nat) (b : bytes) : Z := be_dec (sub off (off + 4) b).

Record dec_announce := {
  da_action : Z; da_txid : bytes; da_interval : Z; da_leechers : Z; da_seeders : Z;
  da_peers : list (bytes * Z)      (* address bytes, port *)
}.

(* [w] = address width (4 or 16); entries are w+2 bytes; leftover bytes that do
   not form an entry make the datagram undecodable *)
Fixpoint bep15_peers (w : nat) (fuel : nat) (b : bytes) : option (list (bytes * Z)) :=
  match b with
  | [] => Some []
  | _ =>
    match fuel with
    | O => None
    | S fuel' =>
      if Nat.ltb (length b) (w + 2) then None else
      match bep15_peers w fuel' (skipn (w + 2) b) with
      | Some r => Some ((firstn w b, be_dec (sub w (w + 2) b)) :: r)
      | None => None
      end
    end
  end.

Definition bep15_decode_announce (v6peers : bool) (b : bytes) : option dec_announce :=
  if Nat.ltb (length b) 20 then None else
  match bep15_peers (if v6peers then 16 else 4)%nat (length b) (skipn 20 b) with
  | None => None
  | Some ps =>
    Some {| da_action := u32_at 0 b; da_txid := sub 4 8 b; da_interval := u32_at 8 b;
            da_leechers := u32_at 12 b; da_seeders := u32_at 16 b; da_peers := ps |}
  end.

Record dec_triple := { dt_seeders : Z; dt_completed : Z; dt_leechers : Z }.
Fixpoint bep15_triples (fuel : nat) (b : bytes) : option (list dec_triple) :=
  match b with
  | [] => Some []
  | _ =>
    match fuel with
    | O => None
    | S fuel' =>
      if Nat.ltb (length b) 12 then None else
      match bep15_triples fuel' (skipn 12 b) with
      | Some r => Some ({| dt_seeders := u32_at 0 b; dt_completed := u32_at 4 b; dt_leechers := u32_at 8 b |} :: r)
      | None => None
      end
    end
  end.

(* (action, transaction id, triples) *)
Definition bep15_decode_scrape (b : bytes) : option (Z * bytes * list dec_triple) :=
  if Nat.ltb (length b) 8 then None else
  match bep15_triples (length b) (skipn 8 b) with
  | None => None
  | Some ts => Some (u32_at 0 b, sub 4 8 b, ts)
  end.

(* (action, transaction id, connection id) *)
Definition bep15_decode_connect (b : bytes) : option (Z * bytes * bytes) :=
  if Nat.eqb (length b) 16 then Some (u32_at 0 b, sub 4 8 b, sub 8 16 b) else None.

(* (action, transaction id, message = the rest of the datagram) *)
Definition bep15_decode_error (b : bytes) : option (Z * bytes * bytes) :=
  if Nat.ltb (length b) 8 then None else Some (u32_at 0 b, sub 4 8 b, skipn 8 b).
