(* C01 - Swarm membership and counts follow the announce history exactly.
   The specification (Model/Swarm.v, `spec`) is one swarm map keyed by
   infohash x family; its clauses are the sentences of the property.  Both
   stores refine it for every history.  Only statements here. *)
From Chihaya Require Import Model.History Proofs.SwarmP Proofs.SpecP Proofs.MemP.
Open Scope Z_scope.

(* ---- the memory store refines the specification, for every history and shard count *)
Theorem C01_mem_refines_spec : forall n ops ih v6, (0 < n)%nat ->
  observe (mem_if n) (run_mem n ops) ih v6 = observe spec_if (run_spec ops) ih v6.
Proof. exact mem_refines_spec. Qed.
Print Assumptions C01_mem_refines_spec.

Theorem C01_mem_shard_count_irrelevant : forall n m ops ih v6, (0 < n)%nat -> (0 < m)%nat ->
  observe (mem_if n) (run_mem n ops) ih v6 = observe (mem_if m) (run_mem m ops) ih v6.
Proof. exact mem_shard_count_irrelevant. Qed.
Print Assumptions C01_mem_shard_count_irrelevant.

(* the announce response (counts, peers) is allowed against the store iff it is allowed against the specification *)
Theorem C01_mem_response_verdict : forall n ops a c i peers, (0 < n)%nat ->
  response_verdict (mem_if n) a (run_mem n ops) c i peers =
  response_verdict spec_if a (run_spec ops) c i peers.
Proof. exact mem_response_verdict. Qed.
Print Assumptions C01_mem_response_verdict.

(* ---- the clauses, on the specification *)
Theorem C01_seeder_listed : forall a clock sp, plain_event (a_event a) -> a_left a = 0 ->
  seeders (swarm_of (swarm_interaction spec_if a clock sp) (a_ih a) (a_v6 a)) !! a_key a = Some clock.
Proof. exact seeder_listed. Qed.
Print Assumptions C01_seeder_listed.

Theorem C01_leecher_listed : forall a clock sp, plain_event (a_event a) -> a_left a <> 0 ->
  leechers (swarm_of (swarm_interaction spec_if a clock sp) (a_ih a) (a_v6 a)) !! a_key a = Some clock.
Proof. exact leecher_listed. Qed.
Print Assumptions C01_leecher_listed.

Theorem C01_completed_moves : forall a clock sp, a_event a = EvCompleted ->
  let sw := swarm_of (swarm_interaction spec_if a clock sp) (a_ih a) (a_v6 a) in
  seeders sw !! a_key a = Some clock /\ leechers sw !! a_key a = None.
Proof. exact completed_moves. Qed.
Print Assumptions C01_completed_moves.

Theorem C01_stopped_removes : forall a clock sp, a_event a = EvStopped ->
  let sw := swarm_of (swarm_interaction spec_if a clock sp) (a_ih a) (a_v6 a) in
  seeders sw !! a_key a = None /\ leechers sw !! a_key a = None /\
  forall pk, pk <> a_key a ->
        seeders sw !! pk = seeders (swarm_of sp (a_ih a) (a_v6 a)) !! pk /\
        leechers sw !! pk = leechers (swarm_of sp (a_ih a) (a_v6 a)) !! pk.
Proof. exact stopped_removes. Qed.
Print Assumptions C01_stopped_removes.

Theorem C01_expiry_removes : forall (T : Z) sp ih v6 (pk : list Z),
  seeders (swarm_of (sm_gc T sp) ih v6) !! pk =
    (match seeders (swarm_of sp ih v6) !! pk with Some t => if decide (T < t) then Some t else None | None => None end) /\
  leechers (swarm_of (sm_gc T sp) ih v6) !! pk =
    (match leechers (swarm_of sp ih v6) !! pk with Some t => if decide (T < t) then Some t else None | None => None end).
Proof. exact expiry_exact. Qed.
Print Assumptions C01_expiry_removes.

(* an announce changes its own swarm only *)
Theorem C01_other_swarms_untouched : forall a clock sp ih v6,
  (ih, v6) <> (a_ih a, a_v6 a) -> swarm_interaction spec_if a clock sp !! (ih, v6) = sp !! (ih, v6).
Proof. exact announce_frame. Qed.
Print Assumptions C01_other_swarms_untouched.

Theorem C01_counts_reported : forall sp ih v6,
  st_scrape spec_if ih v6 sp =
  (wrap32 (Z.of_nat (size (seeders (swarm_of sp ih v6)))), wrap32 (Z.of_nat (size (leechers (swarm_of sp ih v6))))).
Proof. exact counts_reported. Qed.
Print Assumptions C01_counts_reported.

(* a swarm without members is unknown, after every history *)
Theorem C01_no_empty_swarm : forall ops, no_empty (run_spec ops).
Proof. exact run_spec_no_empty. Qed.
Print Assumptions C01_no_empty_swarm.

(* ---- the Redis store (sequential model) refines the same specification, for every history;
   all state lives in Redis, the model has no per-instance component, so any number of
   tracker instances issuing these operations one after the other behaves identically *)
From Chihaya Require Import Proofs.RedisP.
Theorem C01_redis_refines_spec : forall ops, Forall sop_wf ops ->
  forall ih v6, ih_wf ih -> observe red_if (run_redis ops) ih v6 = observe spec_if (run_spec ops) ih v6.
Proof. exact redis_refines_spec. Qed.
Print Assumptions C01_redis_refines_spec.

Theorem C01_redis_response_verdict : forall ops a complete incomplete peers,
  Forall sop_wf ops -> ih_wf (a_ih a) ->
  response_verdict red_if a (run_redis ops) complete incomplete peers =
  response_verdict spec_if a (run_spec ops) complete incomplete peers.
Proof. exact redis_response_verdict. Qed.
Print Assumptions C01_redis_response_verdict.

(* the Redis keyspace after any history: only group hashes and swarm hashes, none empty *)
Theorem C01_redis_keyspace : forall ops, Forall sop_wf ops ->
  forall k h, hs (run_redis ops) !! k = Some h ->
    h <> ∅ /\ ((exists v6, k = k_group v6) \/ (exists v6 s ih, ih_wf ih /\ k = k_swarm v6 s ih)).
Proof. exact redis_keyspace. Qed.
Print Assumptions C01_redis_keyspace.

(* ---- on the wire (Model/Tracker.v): an accepted UDP announce, in ANY state reached by a history of sane
   operations, leaves the swarm of its infohash and family listing the announcing peer exactly as the announce
   implies, and leaves the other family's swarms alone *)
From Chihaya Require Import Model.Tracker Proofs.TrackerP Proofs.FamilyP.
Theorem C01_udp_announce_membership : forall mac t u ops clock ip packet txid v6a r q,
  Forall sop_sane ops -> wf_bytes packet = true -> wf_bytes ip = true -> (length ip = 4 \/ length ip = 16)%nat ->
  UdpParse.handle_udp mac (uc_key u) (uc_skew u) clock (uc_opts u) ip packet = UdpParse.UAnnounce txid v6a r q ->
  let a := ann_of_areq r in
  exists sp' d, udp_step spec_if mac t u (run_spec ops) clock ip packet = Some (sp', [d]) /\
    let sw := swarm_of sp' (a_ih a) (a_v6 a) in
    (plain_event (a_event a) -> a_left a = 0 -> seeders sw !! a_key a = Some clock) /\
    (plain_event (a_event a) -> a_left a <> 0 -> leechers sw !! a_key a = Some clock) /\
    (a_event a = EvCompleted -> seeders sw !! a_key a = Some clock /\ leechers sw !! a_key a = None) /\
    (a_event a = EvStopped -> seeders sw !! a_key a = None /\ leechers sw !! a_key a = None) /\
    (forall ih, sp' !! (ih, negb (a_v6 a)) = run_spec ops !! (ih, negb (a_v6 a))).
Proof. exact udp_announce_membership. Qed.
Print Assumptions C01_udp_announce_membership.
