(* C04 / C17 (memory store): the store's operations as programs of the lock machine.
   The generic theorems of Proofs/LocksP.v instantiated; the step functions keep the
   per-shard counters exact; the one-at-a-time execution the linearization refers to
   is the sequential model of Model/MemStore.v. *)
From Chihaya Require Import Model.MemLocks Proofs.SwarmP Proofs.SpecP Proofs.MemP Proofs.ConcP Proofs.LocksP.
From Coq Require Import ZifyBool ZifyNat Lia.
Open Scope Z_scope.

(* ---- every step function keeps a shard's counters equal to a recount *)
Lemma shard_put_seeder_counts ih pk t sh : counts_ok sh → counts_ok (shard_put_seeder ih pk t sh).
Proof.
  intros [Hs Hl]. unfold shard_put_seeder, sm_put_seeder, with_swarms. split; cbn [numS numL swarms].
  - rewrite Hs, wrap_add_l, total_seeders_insert. cbn [seeders]. rewrite size_insert_Z.
    unfold sm_get, o_sw. f_equal. lia.
  - rewrite Hl, wrap_add_l, total_leechers_insert. cbn [leechers]. unfold sm_get, o_sw. f_equal. lia.
Qed.
Lemma shard_put_leecher_counts ih pk t sh : counts_ok sh → counts_ok (shard_put_leecher ih pk t sh).
Proof.
  intros [Hs Hl]. unfold shard_put_leecher, sm_put_leecher, with_swarms. split; cbn [numS numL swarms].
  - rewrite Hs, wrap_add_l, total_seeders_insert. cbn [seeders]. unfold sm_get, o_sw. f_equal. lia.
  - rewrite Hl, wrap_add_l, total_leechers_insert. cbn [leechers]. rewrite size_insert_Z.
    unfold sm_get, o_sw. f_equal. lia.
Qed.
Lemma shard_graduate_counts ih pk t sh : counts_ok sh → counts_ok (shard_graduate ih pk t sh).
Proof.
  intros [Hs Hl]. unfold shard_graduate, sm_graduate, with_swarms. split; cbn [numS numL swarms].
  - rewrite Hs, wrap_add_l, total_seeders_insert. cbn [seeders]. rewrite size_insert_Z.
    unfold sm_get, o_sw. f_equal. lia.
  - rewrite Hl, wrap_add_l, total_leechers_insert. cbn [leechers]. rewrite size_delete_Z.
    unfold sm_get, o_sw. f_equal.
    destruct (leechers (default empty_swarm (swarms sh !! ih)) !! pk); lia.
Qed.
Lemma shard_del_seeder_counts ih pk sh : counts_ok sh → counts_ok (shard_del_seeder ih pk sh).1.
Proof.
  intros [Hs Hl]. unfold shard_del_seeder. destruct (sm_del_seeder ih pk (swarms sh)) as [m|] eqn:E1; [|done].
  unfold sm_del_seeder in E1. destruct (swarms sh !! ih) as [sw|] eqn:Es; [|done].
  destruct (seeders sw !! pk) eqn:Ep; [|done]. injection E1 as <-.
  unfold with_swarms. split; cbn [fst numS numL swarms].
  - rewrite Hs, wrap_add_l, total_seeders_set, Es. cbn [seeders o_sw default id].
    rewrite size_delete_Z, Ep. f_equal. lia.
  - rewrite Hl, wrap_add_l, total_leechers_set, Es. cbn [leechers o_sw default id]. f_equal. lia.
Qed.
Lemma shard_del_leecher_counts ih pk sh : counts_ok sh → counts_ok (shard_del_leecher ih pk sh).1.
Proof.
  intros [Hs Hl]. unfold shard_del_leecher. destruct (sm_del_leecher ih pk (swarms sh)) as [m|] eqn:E1; [|done].
  unfold sm_del_leecher in E1. destruct (swarms sh !! ih) as [sw|] eqn:Es; [|done].
  destruct (leechers sw !! pk) eqn:Ep; [|done]. injection E1 as <-.
  unfold with_swarms. split; cbn [fst numS numL swarms].
  - rewrite Hs, wrap_add_l, total_seeders_set, Es. cbn [seeders o_sw default id]. f_equal. lia.
  - rewrite Hl, wrap_add_l, total_leechers_set, Es. cbn [leechers o_sw default id].
    rewrite size_delete_Z, Ep. f_equal. lia.
Qed.

Lemma cop_fun_counts o sh : counts_ok sh → counts_ok (cop_fun o sh).1.
Proof.
  intros H. destruct o; cbn [cop_fun fst].
  - by apply shard_put_seeder_counts.
  - by apply shard_put_leecher_counts.
  - pose proof (shard_del_seeder_counts ih pk sh H). by destruct (shard_del_seeder ih pk sh).
  - pose proof (shard_del_leecher_counts ih pk sh H). by destruct (shard_del_leecher ih pk sh).
  - by apply shard_graduate_counts.
  - by destruct (sm_scrape ih (swarms sh)).
  - done.
Qed.

(* ---- the programs are well-locked and made of counter-keeping steps *)
Lemma cops_prog_well_locked n os : held_after None (cops_prog n os) = Some None.
Proof.
  unfold cops_prog. induction os as [|o os IH]; [done|]. cbn [map concat].
  rewrite held_after_app, held_after_script. exact IH.
Qed.
Lemma gc_prog_well_locked n T : held_after None (gc_prog n T) = Some None.
Proof.
  unfold gc_prog. induction (seq 0 (2 * n)) as [|j l IH]; [done|]. cbn [map concat].
  rewrite held_after_app, held_after_gc_script. exact IH.
Qed.
Lemma mprog_well_locked n p : held_after None (mprog_acts n p) = Some None.
Proof. destruct p; [apply cops_prog_well_locked|apply gc_prog_well_locked]. Qed.

Lemma cops_prog_keeps n os : Forall (act_keeps counts_ok) (cops_prog n os).
Proof.
  unfold cops_prog. induction os as [|o os IH]; [constructor|]. cbn [map concat].
  apply Forall_app. split; [|exact IH]. apply script_keeps. intros s Hs. by apply cop_fun_counts.
Qed.
Lemma gc_prog_keeps n T : Forall (act_keeps counts_ok) (gc_prog n T).
Proof.
  unfold gc_prog. induction (seq 0 (2 * n)) as [|j l IH]; [constructor|]. cbn [map concat].
  apply Forall_app. split; [|exact IH]. unfold gc_script. repeat constructor.
  cbn [act_keeps]. intros s. unfold gc_plan. apply Forall_forall. intros o Ho.
  apply elem_of_list_In in Ho. apply in_map_iff in Ho as [ih [<- _]].
  intros s' Hs'. cbn [op_fun fst]. by apply shard_gc_one_counts.
Qed.
Lemma mprog_keeps n p : Forall (act_keeps counts_ok) (mprog_acts n p).
Proof. destruct p; [apply cops_prog_keeps|apply gc_prog_keeps]. Qed.

Lemma mprogs_well_locked n (ps : list mprog) :
  Forall (λ p, held_after None p = Some None) (map (mprog_acts n) ps).
Proof. apply Forall_fmap, Forall_forall. intros p _. apply mprog_well_locked. Qed.

(* ---- C17: per-shard counters are exact at EVERY instant of EVERY schedule of request threads and
   expiry passes, from any store whose counters are exact (in particular any store reached by a
   sequential history, C17_mem_totals_exact) - fine-grained semantics *)
Theorem mem_conc_totals_exact n (st : mstore) (ps : list mprog) sched :
  Forall counts_ok st →
  Forall counts_ok (shards (run (msem false) sched (msh_init st, map mthread_of (map (mprog_acts n) ps))).1).
Proof.
  intros Hst. apply shard_pred_invariant; [exact Hst|].
  apply Forall_fmap, Forall_forall. intros p _. apply mprog_keeps.
Qed.

(* ---- C04: mutual exclusion and atomicity of the lock-delimited steps, for the store's programs *)
Theorem mem_store_mutual_exclusion n (st : mstore) (ps : list mprog) sched :
  let m := run (msem false) sched (msh_init st, map mthread_of (map (mprog_acts n) ps)) in
  ∀ i k t tk j w w', i ≠ k → m.2 !! i = Some t → m.2 !! k = Some tk →
    holds j w t = true → holds j w' tk = true → w = false ∧ w' = false.
Proof. apply mem_mutual_exclusion, mprogs_well_locked. Qed.

Theorem mem_store_linearizable n (st : mstore) (ps : list mprog) sched :
  let m0 := (msh_init st, map mthread_of (map (mprog_acts n) ps)) in
  let final := run (msem false) sched m0 in
  let x := seq_apply (commits (trace (msem false) sched m0)) st in
  shards final.1 = x.1 ∧ ∀ i t, final.2 !! i = Some t → results (loc t) = results_of i x.2.
Proof. apply fine_linearizable, mprogs_well_locked. Qed.

(* ---- the one-at-a-time execution of a store step IS the sequential model of Model/MemStore.v *)
Lemma alter_eq_insert {A} (f : A → A) (l : list A) j s : l !! j = Some s → alter f j l = <[j := f s]> l.
Proof.
  intros Hj. apply list_eq. intros k. destruct (decide (k = j)) as [->|Hne].
  - rewrite list_lookup_alter, Hj, list_lookup_insert by (by eapply lookup_lt_Some). done.
  - by rewrite list_lookup_alter_ne, list_lookup_insert_ne.
Qed.

Lemma cop_seq_step n o st rs i : (0 < n)%nat → length st = (2 * n)%nat →
  seq_step (st, rs) (i, op_shard (cop_mop n o), op_write (cop_mop n o), op_fun (cop_mop n o)) =
  ((cop_apply n o st).1, rs ++ [(i, (cop_apply n o st).2)]).
Proof.
  intros Hn Hl. unfold seq_step, cop_mop. cbn [op_shard op_write op_fun fst snd].
  pose proof (the_shard_in n (cop_key o).1 (cop_key o).2 st Hn Hl) as Hsh. rewrite Hsh.
  destruct o; cbn [cop_key fst snd cop_fun cop_write cop_apply] in *.
  - unfold mem_put_seeder, at_shard. by rewrite (alter_eq_insert _ _ _ _ Hsh).
  - unfold mem_put_leecher, at_shard. by rewrite (alter_eq_insert _ _ _ _ Hsh).
  - unfold mem_del_seeder, shard_del_seeder.
    destruct (sm_del_seeder ih pk (swarms (the_shard n ih v6 st))) as [m|]; cbn [fst snd].
    + unfold at_shard. by rewrite (alter_eq_insert _ _ _ _ Hsh).
    + by rewrite list_insert_id.
  - unfold mem_del_leecher, shard_del_leecher.
    destruct (sm_del_leecher ih pk (swarms (the_shard n ih v6 st))) as [m|]; cbn [fst snd].
    + unfold at_shard. by rewrite (alter_eq_insert _ _ _ _ Hsh).
    + by rewrite list_insert_id.
  - unfold mem_graduate, at_shard. by rewrite (alter_eq_insert _ _ _ _ Hsh).
  - unfold mem_scrape. by destruct (sm_scrape ih (swarms (the_shard n ih v6 st))).
  - done.
Qed.

Lemma cop_apply_length n o st : length (cop_apply n o st).1 = length st.
Proof.
  destruct o; cbn [cop_apply fst]; unfold mem_put_seeder, mem_put_leecher, mem_graduate, mem_del_seeder, mem_del_leecher, at_shard;
    rewrite ?alter_length; try done.
  - destruct (sm_del_seeder ih pk (swarms (the_shard n ih v6 st))); cbn; by rewrite ?alter_length.
  - destruct (sm_del_leecher ih pk (swarms (the_shard n ih v6 st))); cbn; by rewrite ?alter_length.
  - by destruct (mem_scrape n ih v6 st).
Qed.

(* sequential execution of (thread, operation) pairs with the functions of Model/MemStore.v *)
Definition cops_step (n : nat) (x : mstore * list (nat * mres)) (io : nat * cop) : mstore * list (nat * mres) :=
  ((cop_apply n io.2 x.1).1, x.2 ++ [(io.1, (cop_apply n io.2 x.1).2)]).
Definition cops_run (n : nat) (los : list (nat * cop)) (st : mstore) : mstore * list (nat * mres) :=
  fold_left (cops_step n) los (st, []).

(* request threads only: every action still to run comes from the script of a store operation *)
Definition req_act (n : nat) (a : mact shard mres) : Prop :=
  match a with
  | MCommit j w f => ∃ o, j = op_shard (cop_mop n o) ∧ w = op_write (cop_mop n o) ∧ f = op_fun (cop_mop n o)
  | MPlan _ _ => False
  | _ => True
  end.
Definition req_inv (n : nat) (m : msh shard * list (thread (mact shard mres) (mlo shard mres))) : Prop :=
  length (shards m.1) = (2 * n)%nat ∧
  ∀ i t, m.2 !! i = Some t → Forall (req_act n) (todo t) ∧ plan (loc t) = [].

Lemma cops_prog_req n os : Forall (req_act n) (cops_prog n os).
Proof.
  unfold cops_prog. induction os as [|o os IH]; [constructor|]. cbn [map concat].
  apply Forall_app. split; [|exact IH]. unfold mop_script. repeat constructor. cbn [req_act]. by exists o.
Qed.

Lemma req_inv_step n i m : (0 < n)%nat → req_inv n m →
  let r := mstep (msem true) i m in
  req_inv n r.1 ∧
  match r.2 ≫= commit_of with
  | Some c => ∃ o, c = (i, op_shard (cop_mop n o), op_write (cop_mop n o), op_fun (cop_mop n o))
  | None => True
  end.
Proof.
  intros Hn [Hlen Hts].
  destruct (mstep_cases (msem true) i m) as [->|(t & a & rest & sh' & lo' & more & Ht & Htd & Hsem & ->)]; [done|].
  cbn [fst snd mbind option_bind]. destruct m as [sh ts]. cbn [fst snd] in *.
  destruct (Hts i t Ht) as [Hacts Hplan]. rewrite Htd in Hacts. apply Forall_cons in Hacts as [Ha Hrest].
  assert (∀ shs lks lo'', length shs = (2 * n)%nat → plan lo'' = [] →
            req_inv n (MSh shs lks, <[i := Thread ([] ++ rest) lo'']> ts)) as Hgen.
  { intros shs lks lo'' H1 H2. split; [exact H1|]. intros k tk Hk. cbn [snd] in Hk.
    destruct (decide (k = i)) as [->|Hne].
    - rewrite list_lookup_insert in Hk by (by eapply lookup_lt_Some). injection Hk as <-. by split.
    - rewrite list_lookup_insert_ne in Hk by done. by apply (Hts k). }
  destruct a as [j w|j|j w f|j g|j w]; cbn [msem] in Hsem; cbn [commit_of fst snd].
  - destruct (locks sh !! j) as [l|]; [|done]. destruct (can_acquire w l); [|done]. injection Hsem as <- <- <-.
    split; [|done]. by apply Hgen.
  - injection Hsem as <- <- <-. split; [|done]. destruct sh as [shs lks]. by apply Hgen.
  - destruct Ha as (o & -> & -> & ->). split; [|by exists o].
    destruct (shards sh !! op_shard (cop_mop n o)) as [s|] eqn:Es.
    + destruct (op_fun (cop_mop n o) s) as [s' r]. injection Hsem as <- <- <-.
      apply Hgen; [|done]. match goal with |- context [if ?b then _ else _] => destruct b end; [by rewrite insert_length|done].
    + injection Hsem as <- <- <-. destruct sh as [shs lks]. apply (Hgen shs lks (loc t)); done.
  - done.
  - injection Hsem as <- <- <-. rewrite Hplan. cbn [map concat]. split; [|done]. by apply Hgen.
Qed.

Lemma req_lin_gen n sched : (0 < n)%nat → ∀ m rs, req_inv n m →
  ∃ los, fold_left seq_step (commits (trace (msem true) sched m)) (shards m.1, rs) =
         fold_left (cops_step n) los (shards m.1, rs).
Proof.
  intros Hn. induction sched as [|i sched IH]; intros m rs Hinv; [by exists []|].
  cbn [trace]. unfold commits. rewrite omap_app. fold (commits (trace (msem true) sched (mstep (msem true) i m).1)).
  rewrite fold_left_app.
  destruct (req_inv_step n i m Hn Hinv) as [Hinv' Hc]. cbn zeta in Hinv', Hc.
  pose proof (lin_step_shards i m rs) as Hsh. cbn zeta in Hsh.
  assert (length (shards m.1) = (2 * n)%nat) as Hl by apply Hinv.
  destruct (mstep (msem true) i m) as [m' oe] eqn:Em. cbn [fst snd] in *.
  assert (fold_left seq_step (omap commit_of (match oe with Some e => [e] | None => [] end)) (shards m.1, rs) =
          match oe ≫= commit_of with Some c => seq_step (shards m.1, rs) c | None => (shards m.1, rs) end) as ->.
  { destruct oe as [e|]; [|done]. cbn. by destruct (commit_of e). }
  destruct (oe ≫= commit_of) as [c|].
  - destruct Hc as [o ->].
    destruct (seq_step (shards m.1, rs) (i, op_shard (cop_mop n o), op_write (cop_mop n o), op_fun (cop_mop n o))) as [ss1 rs1] eqn:E1.
    cbn [fst] in Hsh. subst ss1.
    destruct (IH m' rs1 Hinv') as [los Hlos]. exists ((i, o) :: los).
    cbn [fold_left]. rewrite Hlos. f_equal. unfold cops_step. cbn [fst snd].
    by rewrite <-(cop_seq_step n o (shards m.1) rs i Hn Hl), E1.
  - cbn [fst] in Hsh. rewrite Hsh. destruct (IH m' rs Hinv') as [los Hlos]. by exists los.
Qed.

(* C04, memory store, request threads (announces = three store steps, scrapes, direct store calls): under
   EVERY schedule of the fine-grained machine the final store and every thread's results are those of
   executing some sequence of (thread, operation) pairs ONE AT A TIME with the sequential model of
   Model/MemStore.v - the model the histories of C01/C02/C17 are checked against *)
Theorem mem_requests_linearizable n (st : mstore) (oss : list (list cop)) sched :
  (0 < n)%nat → length st = (2 * n)%nat →
  let m0 := (msh_init st, map mthread_of (map (cops_prog n) oss)) in
  let final := run (msem false) sched m0 in
  ∃ los : list (nat * cop),
    shards final.1 = (cops_run n los st).1 ∧
    ∀ i t, final.2 !! i = Some t → results (loc t) = results_of i (cops_run n los st).2.
Proof.
  intros Hn Hl m0 final.
  assert (Forall (λ p, held_after None p = Some None) (map (cops_prog n) oss)) as Hwl.
  { apply Forall_fmap, Forall_forall. intros os _. apply cops_prog_well_locked. }
  destruct (fine_linearizable st (map (cops_prog n) oss) sched Hwl) as [H1 H2]. fold m0 final in H1, H2.
  destruct (fine_refines_atomic st (map (cops_prog n) oss) sched Hwl) as [_ Etr]. fold m0 in Etr.
  rewrite Etr in H1, H2.
  destruct (req_lin_gen n sched Hn m0 []) as [los Hlos].
  { split; [exact Hl|]. intros i t Ht. cbn [m0 snd] in Ht. rewrite !list_lookup_fmap in Ht.
    destruct (oss !! i) as [os|]; [|done]. injection Ht as <-. split; [apply cops_prog_req|done]. }
  exists los. unfold seq_apply in H1, H2. cbn [m0 fst msh_init shards] in Hlos. unfold cops_run.
  rewrite Hlos in H1, H2. by split.
Qed.

(* ---- C05, memory store, concurrent clause: a per-swarm step of an expiry pass, applied to the shard
   AS IT IS at the step's linearization point (whatever ran since the pass snapshotted the shard),
   removes from that swarm exactly the memberships announced at or before the cutoff - never one
   announced after it - and touches no other swarm *)
Theorem gc_step_exact T ih ih' pk (sh : shard) :
  let sw := sm_get ih' (swarms sh) in
  let sw' := sm_get ih' (swarms (shard_gc_one T ih sh)) in
  seeders sw' !! pk =
    (if decide (ih' = ih)
     then match seeders sw !! pk with Some t => if decide (T < t) then Some t else None | None => None end
     else seeders sw !! pk) ∧
  leechers sw' !! pk =
    (if decide (ih' = ih)
     then match leechers sw !! pk with Some t => if decide (T < t) then Some t else None | None => None end
     else leechers sw !! pk).
Proof.
  cbn zeta. unfold sm_get. rewrite shard_gc_one_swarms, sm_gc_one_lookup.
  destruct (decide (ih' = ih)) as [->|Hne]; [|done]. unfold g_expire.
  destruct (swarms sh !! ih) as [sw|]; cbn.
  - rewrite o_sw_norm_seeders, o_sw_norm_leechers. cbn. by rewrite !fresh_lookup.
  - by rewrite !lookup_empty.
Qed.

(* ---- the machine runs: one shard pair (n = 1); thread 0 = an announce of a new leecher (count read,
   selection, update), thread 1 = an expiry pass, thread 2 = a seeder's delete; a schedule in which the
   pass snapshots the shard, the other threads run inside, and the pass's step then finds the swarm changed *)
Definition ml_ih : list Z := repeat 7 20.
Definition ml_st0 : mstore := (cop_apply 1 (CPutSeeder ml_ih false [1] 10) (mem_init 1)).1.
Definition ml_progs : list mprog :=
  [PReq [CScrape ml_ih false; CMembers ml_ih false; CPutLeecher ml_ih false [2] 100]; PGc 50; PReq [CDelSeeder ml_ih false [1]]].
Definition ml_sched : list nat :=
  [1; 1; 1; 1;            (* pass: RLock, read, plan, RUnlock on shard 0 *)
   0; 0; 0; 0;            (* announce: scrape *)
   2; 2;                  (* delete: Lock, read ... *)
   1;                     (* pass: its step blocks on the lock (skipped choice) *)
   2; 2;                  (* ... commit, Unlock *)
   0; 0; 0; 0; 0; 0; 0; 0; (* announce: selection, update *)
   1; 1; 1; 1;            (* pass: the step for the snapshotted infohash *)
   1; 1; 1; 1]%nat.       (* pass: shard 1 *)
Example mem_conc_example :
  let m0 := (msh_init ml_st0, map mthread_of (map (mprog_acts 1) ml_progs)) in
  let final := run (msem false) ml_sched m0 in
  finishedb final = true ∧
  (* the count read saw the seeder, the selection ran after the delete: unknown swarm *)
  map (λ t, results (loc t)) final.2 = [[RCounts 1 0; RMembers None; RUnit]; [RUnit]; [RBool true]] ∧
  (* the pass's step found the swarm changed since the snapshot and kept the fresh leecher *)
  map (λ sh, (map (λ kv : list Z * swarm, (kv.1, map_to_list (seeders kv.2), map_to_list (leechers kv.2))) (map_to_list (swarms sh)),
              numS sh, numL sh)) (shards final.1) =
    [([(ml_ih, [], [([2], 100)])], 0, 1); ([], 0, 0)] ∧
  locks final.1 = [lock_free; lock_free].
Proof. by vm_compute. Qed.

(* ---- program order for request threads: the steps thread i has committed are the first steps of its
   operation list, in order (as shard / mode / step-function triples); all of them once it has finished *)
Lemma cops_prog_commits n os :
  prog_commits (cops_prog n os) = map (λ o, (op_shard (cop_mop n o), op_write (cop_mop n o), op_fun (cop_mop n o))) os.
Proof. unfold cops_prog, prog_commits. induction os as [|o os IH]; [done|]. cbn [map concat mop_script app omap list_omap act_commit]. by rewrite IH. Qed.
Lemma cops_prog_no_plan n os : Forall no_plan (cops_prog n os).
Proof.
  unfold cops_prog. induction os as [|o os IH]; [constructor|]. cbn [map concat].
  apply Forall_app. split; [|exact IH]. unfold mop_script. repeat constructor.
Qed.

Theorem mem_requests_program_order n (st : mstore) (oss : list (list cop)) sched i os :
  oss !! i = Some os →
  let m0 := (msh_init st, map mthread_of (map (cops_prog n) oss)) in
  ∃ t k, (run (msem false) sched m0).2 !! i = Some t ∧
    thread_commits i (trace (msem false) sched m0) =
      map (λ o, (op_shard (cop_mop n o), op_write (cop_mop n o), op_fun (cop_mop n o))) (firstn k os) ∧
    (todo t = [] → k = length os).
Proof.
  intros Hi m0.
  assert (map (cops_prog n) oss !! i = Some (cops_prog n os)) as Hp by (by rewrite list_lookup_fmap, Hi).
  destruct (commits_in_program_order false st (map (cops_prog n) oss) sched i (cops_prog n os) Hp (cops_prog_no_plan n os))
    as (t & Ht & Hsplit & Hfin). fold m0 in Ht, Hsplit, Hfin.
  rewrite cops_prog_commits in Hsplit, Hfin.
  set (done_ := thread_commits i (trace (msem false) sched m0)) in *.
  exists t, (length done_). split; [done|]. split.
  - rewrite <-firstn_map, <-Hsplit. symmetry. apply take_app.
  - intros Hd. rewrite (Hfin Hd), map_length. done.
Qed.
