#!/bin/bash
# usage: reeval.sh <seed dir name> <props...>: apply seeded patch to a scratch worktree, run checks
export GOFLAGS=-mod=mod GOPROXY=off GOSUMDB=off GOTOOLCHAIN=local
s=$1; shift
wt=/tmp/re-$s
git -C /repo worktree remove --force $wt >/dev/null 2>&1
git -C /repo worktree add -q --detach $wt HEAD || exit 2
(cd $wt && git apply /verif/seeded/$s/patch.diff) || { echo "PATCH DOES NOT APPLY: $s"; git -C /repo worktree remove --force $wt; exit 3; }
for p in "$@"; do
  o=$(cd ${VERIFDIR:-/verif} && VERIF_REPO=$wt timeout 1500 ./check $p --tier ${TIER:-quick} 2>&1 | grep -E "^VIOLATION|^KNOWN" | head -4)
  echo "[$s] check $p: ${o:-silent}"
done
git -C /repo worktree remove --force $wt
