(* C03 - IPv4 and IPv6 swarms never mix, in storage or on the wire. *)
From Chihaya Require Import Model.History Proofs.SwarmP Proofs.SpecP Proofs.MemP.
Open Scope Z_scope.

(* an announce of one family never changes the swarm of the other family, whatever the infohash *)
Theorem C03_other_family_untouched : forall a clock sp ih,
  swarm_interaction spec_if a clock sp !! (ih, negb (a_v6 a)) = sp !! (ih, negb (a_v6 a)).
Proof. exact announce_other_family_untouched. Qed.
Print Assumptions C03_other_family_untouched.

(* memory store: the first half of the shards holds IPv4 swarms, the second half IPv6 swarms *)
Theorem C03_mem_shard_halves : forall n ih, (0 < n)%nat ->
  (shard_index n ih false < n)%nat /\ (n <= shard_index n ih true < 2 * n)%nat.
Proof. exact shard_index_halves. Qed.
Print Assumptions C03_mem_shard_halves.
