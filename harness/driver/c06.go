//go:build verif && (verif_c06 || verif_c11)

package main

import (
	"context"
	"errors"
	"fmt"
	"io"
	"math/rand"
	"net"
	nethttp "net/http"
	"net/url"
	"os"
	"sort"
	"strconv"
	"strings"
	"sync"
	"time"
	"unicode/utf8"

	"github.com/chihaya/chihaya/bittorrent"
	chttp "github.com/chihaya/chihaya/frontend/http"
)

func init() {
	props["C06"] = &propDef{glue: "G06", ctype: "case06", chk: "chk06", stream: c06Stream, replay: c06Replay, shard: 250}
}

// ---------------------------------------------------------------- executors

type c06Opts struct {
	Spoof   bool
	HdrName string
	MaxNW   uint32
	DefNW   uint32
	MaxIH   uint32
}

// c06Hdr is one header line as stored in the http.Header map (key is used verbatim).
type c06Hdr struct {
	Key  string
	Vals []string
}

func c06ErrObs(err error, panicked bool) (string, map[string]interface{}) {
	if panicked {
		return "OPanic", map[string]interface{}{"class": "panic"}
	}
	var ce bittorrent.ClientError
	if errors.As(err, &ce) {
		return "(OCli " + cB([]byte(ce.Error())) + ")", map[string]interface{}{"class": "client_error", "msg": ce.Error()}
	}
	return "OOther", map[string]interface{}{"class": "other_error", "msg": err.Error()}
}

// c06IPCandidates lists every string the model may hand to net.ParseIP:
// the values of all parameters whose key lower-cases to ip/ipv4/ipv6 (split
// with the standard library only, independent of chihaya's own parser), the
// header value and the host part of RemoteAddr.
func c06IPCandidates(uri, hdrval, host string) []string {
	set := map[string]bool{hdrval: true, host: true}
	if i := strings.IndexByte(uri, '?'); i >= 0 {
		q := uri[i+1:]
		for _, seg := range strings.FieldsFunc(q, func(r rune) bool { return r == '&' || r == ';' }) {
			k, v := seg, ""
			if j := strings.IndexByte(seg, '='); j >= 0 {
				k, v = seg[:j], seg[j+1:]
			}
			ku, err1 := url.QueryUnescape(k)
			vu, err2 := url.QueryUnescape(v)
			if err1 != nil || err2 != nil {
				continue
			}
			switch strings.ToLower(ku) {
			case "ip", "ipv4", "ipv6":
				set[vu] = true
			}
		}
	}
	var out []string
	for s := range set {
		out = append(out, s)
	}
	sort.Strings(out)
	return out
}

func c06Announce(o *Out, kind string, uri string, opt c06Opts, hdrs []c06Hdr, remote string) {
	h := nethttp.Header{}
	jh := []interface{}{}
	for _, x := range hdrs {
		h[x.Key] = append(h[x.Key], x.Vals...)
		var vs []interface{}
		for _, v := range x.Vals {
			vs = append(vs, hx([]byte(v)))
		}
		jh = append(jh, map[string]interface{}{"k": hx([]byte(x.Key)), "v": vs})
	}
	in := map[string]interface{}{"t": "ann", "uri": hx([]byte(uri)), "spoof": opt.Spoof, "hdrname": hx([]byte(opt.HdrName)),
		"maxnw": opt.MaxNW, "defnw": opt.DefNW, "headers": jh, "remote": hx([]byte(remote))}
	r := &nethttp.Request{RequestURI: uri, Header: h, RemoteAddr: remote}
	po := chttp.ParseOptions{AllowIPSpoofing: opt.Spoof, RealIPHeader: opt.HdrName, MaxNumWant: opt.MaxNW, DefaultNumWant: opt.DefNW}
	var req *bittorrent.AnnounceRequest
	var err error
	panicked := false
	func() {
		defer func() {
			if rec := recover(); rec != nil {
				panicked = true
			}
		}()
		req, err = chttp.ParseAnnounce(r, po)
	}()
	// oracle answers, from the standard library
	hdrval := ""
	if opt.HdrName != "" {
		hdrval = h.Get(opt.HdrName)
	}
	host, _, _ := net.SplitHostPort(remote)
	var ips []string
	jips := map[string]interface{}{}
	for _, s := range c06IPCandidates(uri, hdrval, host) {
		ip := net.ParseIP(s)
		ips = append(ips, "("+cB([]byte(s))+", "+cOpt(ip != nil, cB(ip))+")")
		if ip != nil {
			jips[hx([]byte(s))] = hx(ip)
		} else {
			jips[hx([]byte(s))] = nil
		}
	}
	var obs string
	var jobs map[string]interface{}
	if panicked || err != nil {
		obs, jobs = c06ErrObs(err, panicked)
	} else if req == nil {
		obs, jobs = "OOther", map[string]interface{}{"class": "nil_request"}
	} else {
		path, query := "", ""
		if req.Params != nil {
			path, query = req.Params.RawPath(), req.Params.RawQuery()
		}
		obs = fmt.Sprintf("(OAcc (Build_oreq %d %s %s %s %s %s %d %s %s %s %s %s %d %d %s %s))",
			uint8(req.Event), cB(req.InfoHash[:]), cBool(req.Compact), cBool(req.EventProvided), cBool(req.NumWantProvided), cBool(req.IPProvided),
			req.NumWant, cU(req.Left), cU(req.Downloaded), cU(req.Uploaded),
			cB(req.Peer.ID[:]), cB(req.Peer.IP.IP), req.Peer.Port, int(req.Peer.IP.AddressFamily), cB([]byte(path)), cB([]byte(query)))
		jobs = map[string]interface{}{"class": "accept", "event": uint8(req.Event), "ih": hx(req.InfoHash[:]), "compact": req.Compact,
			"event_provided": req.EventProvided, "numwant_provided": req.NumWantProvided, "ip_provided": req.IPProvided,
			"numwant": req.NumWant, "left": fmt.Sprint(req.Left), "downloaded": fmt.Sprint(req.Downloaded), "uploaded": fmt.Sprint(req.Uploaded),
			"pid": hx(req.Peer.ID[:]), "ip": hx(req.Peer.IP.IP), "port": req.Peer.Port, "af": int(req.Peer.IP.AddressFamily),
			"path": hx([]byte(path)), "query": hx([]byte(query))}
	}
	jobs["oracle"] = map[string]interface{}{"hdrval": hx([]byte(hdrval)), "host": hx([]byte(host)), "parse_ip": jips}
	coq := fmt.Sprintf("CAnn %s %s %s %d %d %s %s %s %s %s", cB([]byte(uri)), cBool(opt.Spoof), cB([]byte(opt.HdrName)), opt.MaxNW, opt.DefNW,
		cB([]byte(hdrval)), cB([]byte(remote)), cB([]byte(host)), cList(ips), obs)
	o.add(Case{Coq: coq, In: in, Obs: jobs, Kind: kind})
}

func c06Scrape(o *Out, kind string, uri string, maxih uint32) {
	in := map[string]interface{}{"t": "scr", "uri": hx([]byte(uri)), "maxih": maxih}
	r := &nethttp.Request{RequestURI: uri, Header: nethttp.Header{}, RemoteAddr: "192.0.2.1:1234"}
	var req *bittorrent.ScrapeRequest
	var err error
	panicked := false
	func() {
		defer func() {
			if rec := recover(); rec != nil {
				panicked = true
			}
		}()
		req, err = chttp.ParseScrape(r, chttp.ParseOptions{MaxScrapeInfoHashes: maxih})
	}()
	var obs string
	var jobs map[string]interface{}
	if panicked || err != nil {
		obs, jobs = c06ErrObs(err, panicked)
	} else if req == nil {
		obs, jobs = "OOther", map[string]interface{}{"class": "nil_request"}
	} else {
		var items []string
		var jih []interface{}
		for _, ih := range req.InfoHashes {
			ih := ih
			items = append(items, cB(ih[:]))
			jih = append(jih, hx(ih[:]))
		}
		path, query := "", ""
		if req.Params != nil {
			path, query = req.Params.RawPath(), req.Params.RawQuery()
		}
		obs = fmt.Sprintf("(OAcc (%s, %s, %s))", cList(items), cB([]byte(path)), cB([]byte(query)))
		jobs = map[string]interface{}{"class": "accept", "ihs": jih, "path": hx([]byte(path)), "query": hx([]byte(query))}
	}
	o.add(Case{Coq: fmt.Sprintf("CScr %s %d %s", cB([]byte(uri)), maxih, obs), In: in, Obs: jobs, Kind: kind})
}

// c06Lower re-checks, against the running toolchain, the fact the key / event
// normalisation of the model rests on: among all non-ASCII runes exactly
// U+0130 and U+212A are folded into ASCII by strings.ToLower, ASCII is folded
// bytewise, and invalid UTF-8 never becomes ASCII.
func c06Lower(o *Out) {
	var unexpected []string
	var junexp []interface{}
	hasASCII := func(s string) bool {
		for i := 0; i < len(s); i++ {
			if s[i] < 0x80 {
				return true
			}
		}
		return false
	}
	iOK, kOK := false, false
	for r := rune(0x80); r <= utf8.MaxRune; r++ {
		if !utf8.ValidRune(r) {
			continue
		}
		l := strings.ToLower(string(r))
		switch {
		case r == 0x130:
			iOK = l == "i"
		case r == 0x212A:
			kOK = l == "k"
		case hasASCII(l):
			unexpected = append(unexpected, fmt.Sprint(int(r)))
			junexp = append(junexp, int(r))
		}
	}
	// ASCII bytes fold bytewise (inside a non-ASCII string too: the slow path of ToLower)
	for b := 0; b < 0x80; b++ {
		want := byte(b)
		if 'A' <= want && want <= 'Z' {
			want += 32
		}
		if strings.ToLower(string([]byte{byte(b)})) != string([]byte{want}) || strings.ToLower(string([]byte{byte(b)})+"é") != string([]byte{want})+"é" {
			unexpected = append(unexpected, fmt.Sprint(b))
			junexp = append(junexp, b)
		}
	}
	// invalid UTF-8 bytes never turn into ASCII
	for b := 0x80; b < 0x100; b++ {
		if hasASCII(strings.ToLower(string([]byte{byte(b)}))) || hasASCII(strings.ToLower(string([]byte{0xe2, byte(b)}))) {
			unexpected = append(unexpected, fmt.Sprint(0x110000+b))
			junexp = append(junexp, 0x110000+b)
		}
	}
	o.notes["tolower_check"] = map[string]interface{}{"runes_checked": "U+0080..U+10FFFF, all ASCII bytes, all single invalid bytes",
		"U+0130_to_i": iOK, "U+212A_to_k": kOK, "unexpected_ascii_folds": junexp}
	o.add(Case{Coq: fmt.Sprintf("CLower %s %s %s", cList(unexpected), cBool(iOK), cBool(kOK)),
		In:  map[string]interface{}{"t": "lower"},
		Obs: map[string]interface{}{"i_ok": iOK, "k_ok": kOK, "unexpected": junexp}, Kind: "tolower-toolchain"})
}

func c06Replay(o *Out, in map[string]interface{}) error {
	switch jStr(in["t"]) {
	case "ann":
		var hdrs []c06Hdr
		if l, ok := in["headers"].([]interface{}); ok {
			for _, e := range l {
				m := e.(map[string]interface{})
				x := c06Hdr{Key: string(unhx(m["k"]))}
				if vs, ok := m["v"].([]interface{}); ok {
					for _, v := range vs {
						x.Vals = append(x.Vals, string(unhx(v)))
					}
				}
				hdrs = append(hdrs, x)
			}
		}
		c06Announce(o, "replay", string(unhx(in["uri"])), c06Opts{Spoof: jBool(in["spoof"]), HdrName: string(unhx(in["hdrname"])),
			MaxNW: uint32(jU64(in["maxnw"])), DefNW: uint32(jU64(in["defnw"]))}, hdrs, string(unhx(in["remote"])))
	case "scr":
		c06Scrape(o, "replay", string(unhx(in["uri"])), uint32(jU64(in["maxih"])))
	case "lower":
		c06Lower(o)
	case "sock":
		return c06Sock(o, "replay", jBool(in["scrape"]), string(unhx(in["uri"])), jBool(in["spoof"]), jBool(in["hdr_present"]), string(unhx(in["hdr"])))
	default:
		return fmt.Errorf("unknown case type")
	}
	return nil
}

// ---------------------------------------------------------------- generators

type c06KV struct{ K, V string }

// escByte renders one byte in a randomly chosen escaping style.
func c06EscByte(rng *rand.Rand, b byte, pEsc int) string {
	safeRaw := b != '%' && b != '+' && b != '&' && b != ';' && b != '=' && b != '?' && b != '#'
	alnum := (b >= '0' && b <= '9') || (b >= 'a' && b <= 'z') || (b >= 'A' && b <= 'Z') || b == '-' || b == '_' || b == '.' || b == '~'
	if b == ' ' && rng.Intn(2) == 0 {
		return "+"
	}
	raw := safeRaw && (alnum || rng.Intn(4) == 0)
	if raw && rng.Intn(100) >= pEsc {
		return string([]byte{b})
	}
	if rng.Intn(2) == 0 {
		return fmt.Sprintf("%%%02X", b)
	}
	if rng.Intn(8) == 0 { // mixed-case hex digits
		s := fmt.Sprintf("%02x", b)
		return "%" + strings.ToUpper(s[:1]) + s[1:]
	}
	return fmt.Sprintf("%%%02x", b)
}

func c06Esc(rng *rand.Rand, s string) string {
	pEsc := []int{0, 0, 10, 50, 100}[rng.Intn(5)]
	var sb strings.Builder
	for i := 0; i < len(s); i++ {
		sb.WriteString(c06EscByte(rng, s[i], pEsc))
	}
	return sb.String()
}

// c06CaseKey spells a key in random case, sometimes using the two non-ASCII
// runes that strings.ToLower folds into 'i' and 'k'.
func c06CaseKey(rng *rand.Rand, k string) string {
	mode := rng.Intn(6)
	if mode < 3 {
		return k
	}
	var sb strings.Builder
	for i := 0; i < len(k); i++ {
		c := k[i]
		switch {
		case mode == 5 && c == 'i' && rng.Intn(2) == 0:
			sb.WriteString("İ")
		case mode == 5 && c == 'k' && rng.Intn(2) == 0:
			sb.WriteString("K")
		case c >= 'a' && c <= 'z' && (mode == 3 || rng.Intn(2) == 0):
			sb.WriteByte(c - 32)
		default:
			sb.WriteByte(c)
		}
	}
	return sb.String()
}

func c06Render(rng *rand.Rand, path string, kvs []c06KV) string {
	var sb strings.Builder
	sb.WriteString(path)
	sb.WriteByte('?')
	for i, kv := range kvs {
		if i > 0 {
			if rng.Intn(5) == 0 {
				sb.WriteByte(';')
			} else {
				sb.WriteByte('&')
			}
			if rng.Intn(25) == 0 { // empty segment
				sb.WriteByte('&')
			}
		}
		sb.WriteString(c06Esc(rng, kv.K))
		if kv.V == "" && rng.Intn(3) == 0 {
			continue // "key" without '='
		}
		sb.WriteByte('=')
		sb.WriteString(c06Esc(rng, kv.V))
	}
	return sb.String()
}

var c06Pool [][]byte

func c06ID(rng *rand.Rand) string {
	if c06Pool == nil {
		c06Pool = [][]byte{
			[]byte("aaaaaaaaaaaaaaaaaaaa"), []byte("-TR2940-k8hj0wgej6ch"), []byte("%&;=+ ?#/\\\x00\xff\x80\xc4\xb0\xe2\x84\xaa'\""),
			make([]byte, 20), []byte("++++++++++++++++++++"), []byte("%41%41%41%41%41%41%4"), []byte("                    "),
		}
	}
	if rng.Intn(3) == 0 {
		return string(c06Pool[rng.Intn(len(c06Pool))])
	}
	b := make([]byte, 20)
	rng.Read(b)
	return string(b)
}

func c06Num(rng *rand.Rand, bits uint) string {
	switch rng.Intn(8) {
	case 0:
		return "0"
	case 1:
		return fmt.Sprint(uint64(1)<<(bits-1)<<1 - 1) // max
	case 2:
		return fmt.Sprint(rng.Intn(10))
	case 3:
		return "000" + fmt.Sprint(rng.Intn(1000)) // leading zeros are legal
	default:
		v := rng.Uint64()
		if bits < 64 {
			v &= uint64(1)<<bits - 1
		}
		if rng.Intn(2) == 0 {
			v >>= uint(rng.Intn(int(bits)))
		}
		return fmt.Sprint(v)
	}
}

var c06Events = []string{"", "none", "started", "stopped", "completed", "STARTED", "Stopped", "cOmPlEtEd", "NONE",
	// letters that Unicode CASE FOLDING (not lower-casing) identifies with ASCII ones: U+017F long s, U+212A Kelvin sign; look-alikes
	"\u017ftopped", "\u017ftarted", "\u017fTARTED", "\u017fTOPPED", "\uff53tarted", "\u0455topped", "\u00dftarted", "completed\u212a", "n\u00f6ne"}
var c06Unrelated = []string{"key", "trackerid", "no_peer_id", "supportcrypto", "corrupt", "redundant", "INFO_HASH", "Info_Hash", "x", "", "passkey",
	"Key", "İnfo_hash", "k\xc4\xb0\xe2\x84\xaa", "\xff\xfe", "Event\x00", "port ", " port", "ıp", "numwantİ", "peer-id", "ip4", "left[]"}

type c06Gen struct {
	kvs    []c06KV
	remote string
	hdrs   []c06Hdr
	opt    c06Opts
}

var c06Remotes = []string{"192.0.2.7:6881", "10.1.2.3:1", "[2001:db8::1]:6881", "[::1]:80", "[::ffff:192.0.2.9]:443", "[::ffff:c000:0209]:443",
	"127.0.0.1:65535", "[fe80::1]:1234", "0.0.0.0:0", "[::]:0", "255.255.255.255:1",
	"[64:ff9b::c633:6404]:6881", "[2002:c633:6404::1]:1", "[::198.51.100.4]:80", "[64:ff9b:1::c633:6404]:80"}
var c06BadRemotes = []string{"", "garbage", "192.0.2.7", "[::1]", "::1:80", "[fe80::1%eth0]:80", "host.example:80", "192.0.2.7:", ":80", "1.2.3.4:5:6",
	"[1.2.3.4]:80", "010.1.2.3:80", "1.2.3:80", "@", "[2001:db8::1]:x", "192.0.2.7:80 "}
var c06IPTexts = []string{"64:ff9b::c633:6404", "2002:c633:6404::1", "::198.51.100.4", "192.0.2.33", "2001:db8::2", "::ffff:10.0.0.1", "::ffff:a00:1", "0.0.0.0", "::", "::1", "1.2.3.4", "255.255.255.255",
	"fe80::1", "2001:DB8:0:0:0:0:0:FFFF", "0:0:0:0:0:ffff:102:304"}
var c06BadIPTexts = []string{"", "garbage", "1.2.3", "1.2.3.4.5", "256.1.1.1", "01.2.3.4", "1.2.3.4 ", " 1.2.3.4", "fe80::1%eth0", "::g", "1.2.3.4:80", "[::1]",
	"2001:db8::1::2", "12345::", "0x1.2.3.4", "1.2.3.-4", "١.2.3.4",
	// one and two bytes of punctuation: brackets, separators, what is left of a literal that was cut
	"[", "]", "[]", "[[", "[x", "[::1", "::1]", ":", ".", "%", "/", "-", "0", "a", "::ffff:", "1.", ".1", "[:"}

func c06Pick(rng *rand.Rand, l []string) string { return l[rng.Intn(len(l))] }

// c06Valid builds a well-formed announce: every mandatory field present.
func c06Valid(rng *rand.Rand) *c06Gen {
	g := &c06Gen{}
	g.kvs = []c06KV{{"info_hash", c06ID(rng)}, {"peer_id", c06ID(rng)}, {"port", fmt.Sprint(1 + rng.Intn(65535))},
		{"left", c06Num(rng, 64)}, {"downloaded", c06Num(rng, 64)}, {"uploaded", c06Num(rng, 64)}}
	if rng.Intn(3) != 0 {
		g.kvs = append(g.kvs, c06KV{"event", c06Pick(rng, c06Events)})
	}
	if rng.Intn(3) != 0 {
		g.kvs = append(g.kvs, c06KV{"numwant", c06Num(rng, 32)})
	}
	if rng.Intn(3) != 0 {
		g.kvs = append(g.kvs, c06KV{"compact", c06Pick(rng, []string{"1", "0", "", "true", "00", "2", " ", "0 "})})
	}
	g.remote = c06Pick(rng, c06Remotes)
	g.opt = c06Opts{MaxNW: []uint32{100, 50, 1, 0, 4294967295, 200}[rng.Intn(6)], DefNW: []uint32{50, 25, 0, 100, 4294967295, 300}[rng.Intn(6)]}
	return g
}

func c06Shuffle(rng *rand.Rand, kvs []c06KV) {
	rng.Shuffle(len(kvs), func(i, j int) { kvs[i], kvs[j] = kvs[j], kvs[i] })
}

// c06Decorate adds unrelated parameters, earlier duplicates, key spelling.
func c06Decorate(rng *rand.Rand, g *c06Gen) {
	c06Shuffle(rng, g.kvs)
	// duplicates: a second occurrence of an existing key with another value, at a random position
	for d := rng.Intn(3); d > 0 && len(g.kvs) > 0; d-- {
		src := g.kvs[rng.Intn(len(g.kvs))]
		if src.K == "info_hash" {
			continue
		}
		var v string
		switch src.K {
		case "peer_id":
			v = c06ID(rng)
		case "event":
			v = c06Pick(rng, c06Events)
		case "compact":
			v = c06Pick(rng, []string{"0", "1", ""})
		case "port":
			v = fmt.Sprint(1 + rng.Intn(65535))
		default:
			v = c06Num(rng, 32)
		}
		pos := rng.Intn(len(g.kvs) + 1)
		g.kvs = append(g.kvs[:pos], append([]c06KV{{src.K, v}}, g.kvs[pos:]...)...)
	}
	for u := rng.Intn(4); u > 0; u-- {
		k := c06Pick(rng, c06Unrelated)
		v := c06Pick(rng, []string{"", "1", "abc def", c06ID(rng), "%", "a=b", "a&b;c"})
		pos := rng.Intn(len(g.kvs) + 1)
		g.kvs = append(g.kvs[:pos], append([]c06KV{{k, v}}, g.kvs[pos:]...)...)
	}
	for i := range g.kvs {
		if g.kvs[i].K != "info_hash" {
			g.kvs[i].K = c06CaseKey(rng, g.kvs[i].K)
		}
	}
}

func c06Paths(rng *rand.Rand) string {
	return c06Pick(rng, []string{"/announce", "/announce", "/", "", "/a/b%20c", "/announce/", "http://tracker.example/announce", "/ann#x", "*"})
}

func (g *c06Gen) run(o *Out, rng *rand.Rand, kind string) {
	c06Announce(o, kind, c06Render(rng, c06Paths(rng), g.kvs), g.opt, g.hdrs, g.remote)
}

func c06SetKV(g *c06Gen, k, v string) {
	for i := range g.kvs {
		if g.kvs[i].K == k {
			g.kvs[i].V = v
			return
		}
	}
	g.kvs = append(g.kvs, c06KV{k, v})
}
func c06DelKV(g *c06Gen, k string) {
	var out []c06KV
	for _, kv := range g.kvs {
		if kv.K != k {
			out = append(out, kv)
		}
	}
	g.kvs = out
}

var c06BadNums = []string{"", "-1", "+1", "-0", "1_000", "1e3", "0x10", " 1", "1 ", "1.0", "١", "18446744073709551616", "99999999999999999999999999",
	"4294967296", "65536", "０", "1\x00", "abc", "--1", "0b1", "1,000"}

func c06Stream(o *Out, rng *rand.Rand, n int) {
	c06Lower(o)

	// ---- boundary stream: constants around every comparison in the code
	type bnd struct{ k, v string }
	var bnds []bnd
	for _, v := range []string{"0", "1", "65535", "65536", "00065535", "065536", "000000000000000000000000000000000000000000000000000000000000000000001"} {
		bnds = append(bnds, bnd{"port", v})
	}
	for _, v := range []string{"0", "99", "100", "101", "4294967295", "4294967296", "49", "50", "51"} {
		bnds = append(bnds, bnd{"numwant", v})
	}
	for _, k := range []string{"left", "downloaded", "uploaded"} {
		for _, v := range []string{"0", "1", "18446744073709551615", "18446744073709551616", "9223372036854775807", "9223372036854775808", "4294967296"} {
			bnds = append(bnds, bnd{k, v})
		}
	}
	for _, b := range bnds {
		for _, max := range []uint32{100, 0, 4294967295} {
			g := c06Valid(rng)
			c06SetKV(g, b.k, b.v)
			g.opt.MaxNW, g.opt.DefNW = max, 50
			g.run(o, rng, "boundary-"+b.k)
		}
	}
	for _, l := range []int{0, 1, 19, 20, 21, 40} {
		for _, k := range []string{"info_hash", "peer_id"} {
			g := c06Valid(rng)
			b := make([]byte, l)
			rng.Read(b)
			c06SetKV(g, k, string(b))
			g.run(o, rng, "boundary-idlen")
		}
	}
	// "plus-only" escaping: values whose only escape is '+' for a space (no '%' in the whole
	// value, or none in the whole query) - in ids, in the event name, in unrelated parameters
	for i := 0; i < 24; i++ {
		mk := func() string {
			alpha := "abcdefghijklmnopqrstuvwxyzABCDEFGHIJKLMNOPQRSTUVWXYZ0123456789-_.~"
			b := make([]byte, 20)
			for j := range b {
				b[j] = alpha[rng.Intn(len(alpha))]
			}
			for k := rng.Intn(4) + 1; k > 0; k-- {
				b[rng.Intn(20)] = '+'
			}
			return string(b)
		}
		ih, pid := mk(), mk()
		if i%3 == 1 { // one of the two ids percent-escaped, the other plus-only
			ih = strings.ReplaceAll(ih, "+", "%20")
		}
		uri := "/announce?info_hash=" + ih + "&peer_id=" + pid + "&port=6881&left=1&downloaded=0&uploaded=0&extra=a+b"
		if i%4 == 3 {
			uri += "&event=+started"
		}
		c06Announce(o, "plus-only", uri, c06Opts{MaxNW: 100, DefNW: 50, MaxIH: 50}, nil, "192.0.2.7:6881")
		c06Scrape(o, "plus-only", "/scrape?info_hash="+ih+"&info_hash="+pid, 50)
	}
	// MANY unrelated parameters (distinct keys, far more than any client sends) before, after and between the parameters
	// the tracker reads: the request is the same request wherever they stand and however many they are
	for _, cnt := range []int{7, 31, 32, 33, 64, 129, 300} {
		for pos := 0; pos < 3; pos++ {
			g := c06Valid(rng)
			c06SetKV(g, "numwant", "7")
			c06SetKV(g, "compact", "1")
			c06SetKV(g, "event", "completed")
			var junk []c06KV
			for j := 0; j < cnt; j++ {
				junk = append(junk, c06KV{fmt.Sprintf("x%d_%s", j, c06Pick(rng, c06Unrelated)), c06Pick(rng, []string{"", "1", "v", "a+b"})})
			}
			switch pos {
			case 0:
				g.kvs = append(junk, g.kvs...)
			case 1:
				g.kvs = append(g.kvs, junk...)
			default:
				c06Shuffle(rng, g.kvs)
				half := len(g.kvs) / 2
				g.kvs = append(append(append([]c06KV{}, g.kvs[:half]...), junk...), g.kvs[half:]...)
			}
			g.opt = c06Opts{MaxNW: 100, DefNW: 50}
			c06Announce(o, "many-unrelated", c06Render(rng, "/announce", g.kvs), g.opt, g.hdrs, g.remote)
		}
		// ... and for a scrape: info_hash values after many other keys
		uri := "/scrape?"
		for j := 0; j < cnt; j++ {
			uri += fmt.Sprintf("k%d=v&", j)
		}
		c06Scrape(o, "many-unrelated-scrape", uri+"info_hash=aaaaaaaaaaaaaaaaaaaa&info_hash=bbbbbbbbbbbbbbbbbbbb", 50)
	}
	// LONG request strings: one unrelated value of 4 .. 16 KiB before / after the tracker's own parameters, a long path
	// (the value is sent as it is, not escaped at random: the model's evaluation of a case grows faster than linearly in its size)
	for _, l := range []int{4096, 8191, 16384} {
		for pos := 0; pos < 2; pos++ {
			g := c06Valid(rng)
			uri := c06Render(rng, "/announce", g.kvs)
			pad := "pad=" + strings.Repeat("x", l)
			if pos == 0 {
				uri = strings.Replace(uri, "?", "?"+pad+"&", 1)
			} else {
				uri += "&" + pad
			}
			c06Announce(o, "long-uri", uri, g.opt, g.hdrs, g.remote)
		}
		c06Scrape(o, "long-uri-scrape", "/scrape/"+strings.Repeat("p", l)+"?info_hash=aaaaaaaaaaaaaaaaaaaa", 50)
	}
	// fixed corner URIs
	for _, u := range []string{"", "?", "/announce", "/announce?", "/announce??", "/announce?&&;;", "/announce?=", "/announce?=&=", "/announce?%", "/announce?a=%",
		"/announce?a=%4", "/announce?a=%4g", "/announce?%zz=1", "/announce?a=%%41", "/announce?info_hash", "/announce?info_hash=", "/announce?info_hash=%41",
		"/announce?a?b=c?d", "?info_hash=aaaaaaaaaaaaaaaaaaaa", "/announce?info%5Fhash=aaaaaaaaaaaaaaaaaaaa&peer_id=bbbbbbbbbbbbbbbbbbbb&port=1&left=0&downloaded=0&uploaded=0",
		"/announce?info_hash=aaaaaaaaaaaaaaaaaaaa&peer_id=bbbbbbbbbbbbbbbbbbbb&port=1&left=0&downloaded=0&uploaded=0&event",
		"/announce?INFO_HASH=aaaaaaaaaaaaaaaaaaaa&peer_id=bbbbbbbbbbbbbbbbbbbb&port=1&left=0&downloaded=0&uploaded=0",
		"/announce?info_hash=aaaaaaaaaaaaaaaaaaaa&peer_id=bbbbbbbbbbbbbbbbbbbb&port=1&left=0&downloaded=0&uploaded=0&event=stoppedİ",
		"/announce?info_hash=aaaaaaaaaaaaaaaaaaaa&peer_id=bbbbbbbbbbbbbbbbbbbb&port=1&left=0&downloaded=0&uploaded=0&event=K",
		"/announce?info_hash=aaaaaaaaaaaaaaaaaaaa&peer_id=bbbbbbbbbbbbbbbbbbbb&port=1&left=0&downloaded=0&uploaded=0&event=started%ff",
		"/announce?info_hash=aaaaaaaaaaaaaaaaaaaa&peer_%C4%B0d=bbbbbbbbbbbbbbbbbbbb&port=1&left=0&downloaded=0&uploaded=0",
		"/announce?info_hash=aaaaaaaaaaaaaaaaaaaa&peer_id=bbbbbbbbbbbbbbbbbbbb&p%6Frt=1&LEFT=0&Downloaded=0&uploadeD=0&Compact=1&NUMWANT=7",
		"/announce?info_hash=aaaaaaaaaaaaaaaaaaaa&info_hash=bbbbbbbbbbbbbbbbbbbb&peer_id=bbbbbbbbbbbbbbbbbbbb&port=1&left=0&downloaded=0&uploaded=0",
		"/announce?info_hash=aaaaaaaaaaaaaaaaaaaa&peer_id=bbbbbbbbbbbbbbbbbbbb&port=1&left=0&downloaded=0&uploaded=0&port=0",
		"/announce?port=0&info_hash=aaaaaaaaaaaaaaaaaaaa&peer_id=bbbbbbbbbbbbbbbbbbbb&port=1&left=0&downloaded=0&uploaded=0",
	} {
		for _, rem := range []string{"192.0.2.7:6881", "[2001:db8::1]:6881"} {
			c06Announce(o, "corner-uri", u, c06Opts{MaxNW: 100, DefNW: 50}, nil, rem)
		}
		c06Scrape(o, "corner-uri-scrape", u, 50)
	}

	// ---- structured, mostly valid stream
	for i := 0; i < n/2; i++ {
		g := c06Valid(rng)
		if rng.Intn(4) == 0 {
			g.opt.Spoof = true
			if rng.Intn(2) == 0 {
				g.kvs = append(g.kvs, c06KV{c06Pick(rng, []string{"ip", "ipv4", "ipv6"}), c06Pick(rng, c06IPTexts)})
			}
		}
		c06Decorate(rng, g)
		g.run(o, rng, "structured")
	}

	// ---- malformed stream
	for i := 0; i < n/4; i++ {
		g := c06Valid(rng)
		kind := "malformed"
		switch rng.Intn(12) {
		case 0:
			c06DelKV(g, c06Pick(rng, []string{"info_hash", "peer_id", "port", "left", "downloaded", "uploaded"}))
			kind = "malformed-missing"
		case 1:
			c06SetKV(g, c06Pick(rng, []string{"port", "left", "downloaded", "uploaded", "numwant"}), c06Pick(rng, c06BadNums))
			kind = "malformed-number"
		case 2:
			b := make([]byte, []int{19, 21, 0, 40, 1}[rng.Intn(5)])
			rng.Read(b)
			c06SetKV(g, c06Pick(rng, []string{"info_hash", "peer_id"}), string(b))
			kind = "malformed-idlen"
		case 3:
			for k := rng.Intn(3); k >= 0; k-- {
				g.kvs = append(g.kvs, c06KV{"info_hash", c06ID(rng)})
			}
			kind = "malformed-multi-ih"
		case 4:
			c06SetKV(g, "event", c06Pick(rng, []string{"paused", "start", "stopped ", " ", "STOPPEDİ", "K", "complete", "none\x00", "startedstarted", "\xff", "stoppeD\xc4"}))
			kind = "malformed-event"
		case 5, 6, 7:
			// damage the rendered URI: bad escapes, stray bytes
			c06Decorate(rng, g)
			u := []byte(c06Render(rng, c06Paths(rng), g.kvs))
			for k := rng.Intn(3); k >= 0 && len(u) > 0; k-- {
				pos := rng.Intn(len(u))
				switch rng.Intn(5) {
				case 0:
					u[pos] = '%'
				case 1:
					u = append(u[:pos], append([]byte(c06Pick(rng, []string{"%", "%g1", "%1", "%%", "&", ";", "=", "?", "+", "%00", "%zz"})), u[pos:]...)...)
				case 2:
					u = append(u[:pos], u[pos+1:]...)
				case 3:
					u = u[:pos]
				case 4:
					u[pos] = byte(rng.Intn(256))
				}
			}
			c06Announce(o, "malformed-damaged-uri", string(u), g.opt, g.hdrs, g.remote)
			continue
		case 8:
			c06SetKV(g, "port", c06Pick(rng, []string{"0", "00", "65536", "70000", "-1"}))
			kind = "malformed-port"
		case 9:
			// fully random bytes as URI
			b := make([]byte, rng.Intn(60))
			rng.Read(b)
			c06Announce(o, "malformed-random-uri", "/announce?"+string(b), g.opt, nil, g.remote)
			continue
		case 10:
			c06DelKV(g, "numwant")
			c06SetKV(g, "numwant", c06Pick(rng, c06BadNums))
			kind = "malformed-numwant"
		case 11:
			g.kvs = nil
			kind = "malformed-empty"
		}
		if rng.Intn(2) == 0 {
			c06Decorate(rng, g)
		}
		g.run(o, rng, kind)
	}

	// ---- IP sources
	for i := 0; i < n/8; i++ {
		g := c06Valid(rng)
		switch rng.Intn(4) {
		case 0:
			g.remote = c06Pick(rng, c06BadRemotes)
		case 1:
			g.remote = fmt.Sprintf("%d.%d.%d.%d:%d", rng.Intn(256), rng.Intn(256), rng.Intn(256), rng.Intn(256), rng.Intn(65536))
		}
		switch rng.Intn(5) {
		case 0, 1:
			g.opt.HdrName = c06Pick(rng, []string{"X-Real-IP", "x-real-ip", "X-Forwarded-For", "X-REAL-IP"})
			key := c06Pick(rng, []string{"X-Real-Ip", "X-Real-Ip", "X-Forwarded-For", "x-real-ip", "X-Other"})
			val := c06Pick(rng, append(append([]string{}, c06IPTexts...), c06BadIPTexts...))
			g.hdrs = []c06Hdr{{Key: key, Vals: []string{val}}}
			if rng.Intn(4) == 0 {
				g.hdrs[0].Vals = append(g.hdrs[0].Vals, c06Pick(rng, c06IPTexts))
			}
		case 2:
			g.opt.HdrName = "X-Real-IP" // configured but absent
		}
		if rng.Intn(2) == 0 {
			g.opt.Spoof = rng.Intn(4) != 0
			for _, k := range []string{"ip", "ipv4", "ipv6"} {
				if rng.Intn(2) == 0 {
					if rng.Intn(4) == 0 {
						g.kvs = append(g.kvs, c06KV{k, c06Pick(rng, c06BadIPTexts)})
					} else {
						g.kvs = append(g.kvs, c06KV{k, c06Pick(rng, c06IPTexts)})
					}
				}
			}
		}
		if rng.Intn(2) == 0 {
			c06Decorate(rng, g)
		}
		g.run(o, rng, "ip-source")
	}

	// ---- scrape
	for i := 0; i < n/8; i++ {
		max := []uint32{50, 1, 0, 2, 3, 4294967295, 10}[rng.Intn(7)]
		cnt := []int{0, 1, 1, 2, 3, 4, 10, 51, int(max), int(max) + 1}[rng.Intn(10)]
		if cnt > 80 || cnt < 0 {
			cnt = 5
		}
		var kvs []c06KV
		for k := 0; k < cnt; k++ {
			kvs = append(kvs, c06KV{"info_hash", c06ID(rng)})
		}
		kind := "scrape"
		switch rng.Intn(8) {
		case 0:
			b := make([]byte, []int{19, 21, 0}[rng.Intn(3)])
			rng.Read(b)
			kvs = append(kvs, c06KV{"info_hash", string(b)})
			kind = "scrape-bad-ih"
		case 1:
			kvs = append(kvs, c06KV{c06Pick(rng, c06Unrelated), "x"})
		case 2:
			kvs = append(kvs, c06KV{"INFO_HASH", c06ID(rng)})
		}
		c06Shuffle(rng, kvs)
		u := c06Render(rng, c06Pick(rng, []string{"/scrape", "/scrape", "/", ""}), kvs)
		if rng.Intn(10) == 0 && len(u) > 0 {
			pos := rng.Intn(len(u))
			u = u[:pos] + "%" + u[pos:]
			kind = "scrape-damaged"
		}
		c06Scrape(o, kind, u, max)
	}

	// ---- real sockets (thorough tier): route glue, real RemoteAddr and header handling
	if os.Getenv("VERIF_TIER") == "thorough" || os.Getenv("VERIF_C06_SOCK") != "" {
		c06SockStream(o, rng, 400)
	}
}

// ---------------------------------------------------------------- real sockets

// c06Logic is a TrackerLogic that records the parsed request and then fails
// with a recognisable client error, so that no response has to be produced.
type c06Logic struct {
	mu  sync.Mutex
	ann *bittorrent.AnnounceRequest
	scr *bittorrent.ScrapeRequest
}

const c06Stub = "verif-stub-accepted"

func (l *c06Logic) HandleAnnounce(ctx context.Context, r *bittorrent.AnnounceRequest) (context.Context, *bittorrent.AnnounceResponse, error) {
	l.mu.Lock()
	cp := *r
	l.ann = &cp
	l.mu.Unlock()
	return ctx, nil, bittorrent.ClientError(c06Stub)
}
func (l *c06Logic) AfterAnnounce(context.Context, *bittorrent.AnnounceRequest, *bittorrent.AnnounceResponse) {
}
func (l *c06Logic) HandleScrape(ctx context.Context, r *bittorrent.ScrapeRequest) (context.Context, *bittorrent.ScrapeResponse, error) {
	l.mu.Lock()
	cp := *r
	l.scr = &cp
	l.mu.Unlock()
	return ctx, nil, bittorrent.ClientError(c06Stub)
}
func (l *c06Logic) AfterScrape(context.Context, *bittorrent.ScrapeRequest, *bittorrent.ScrapeResponse) {}

type c06Server struct {
	logic *c06Logic
	addr  string
	opts  chttp.ParseOptions
}

var c06Servers = map[bool]*c06Server{}

func c06StartServer(spoof bool) (*c06Server, error) {
	if s, ok := c06Servers[spoof]; ok {
		return s, nil
	}
	var lastErr error
	for try := 0; try < 5; try++ {
		l, err := net.Listen("tcp", "127.0.0.1:0")
		if err != nil {
			return nil, err
		}
		addr := l.Addr().String()
		l.Close()
		lg := &c06Logic{}
		f, err := chttp.NewFrontend(lg, chttp.Config{Addr: addr, AnnounceRoutes: []string{"/announce"}, ScrapeRoutes: []string{"/scrape"},
			ReadTimeout: 5 * time.Second, WriteTimeout: 5 * time.Second, IdleTimeout: 5 * time.Second,
			ParseOptions: chttp.ParseOptions{AllowIPSpoofing: spoof, RealIPHeader: "X-Real-IP", MaxNumWant: 80, DefaultNumWant: 30, MaxScrapeInfoHashes: 3}})
		if err != nil {
			lastErr = err
			continue
		}
		s := &c06Server{logic: lg, addr: addr, opts: f.Config.ParseOptions}
		c06Servers[spoof] = s
		return s, nil
	}
	return nil, lastErr
}

// c06WireSafe percent-escapes the bytes net/http's request-line parser refuses
// (controls, space, DEL) and non-ASCII bytes.
func c06WireSafe(u string) string {
	var sb strings.Builder
	for i := 0; i < len(u); i++ {
		if u[i] <= 0x20 || u[i] >= 0x7f {
			fmt.Fprintf(&sb, "%%%02X", u[i])
		} else {
			sb.WriteByte(u[i])
		}
	}
	return sb.String()
}

func c06FailureReason(body string) (string, bool) {
	const key = "14:failure reason"
	i := strings.Index(body, key)
	if i < 0 {
		return "", false
	}
	rest := body[i+len(key):]
	j := strings.IndexByte(rest, ':')
	if j < 0 {
		return "", false
	}
	n, err := strconv.Atoi(rest[:j])
	if err != nil || j+1+n > len(rest) {
		return "", false
	}
	return rest[j+1 : j+1+n], true
}

// c06Sock sends one request over TCP to a real frontend and compares what the
// route handed to the tracker logic (or the failure reason in the body).
func c06Sock(o *Out, kind string, scrape bool, uri string, spoof, hdrPresent bool, hdr string) error {
	srv, err := c06StartServer(spoof)
	if err != nil {
		return err
	}
	var conn net.Conn
	for try := 0; try < 50; try++ {
		conn, err = net.Dial("tcp", srv.addr)
		if err == nil {
			break
		}
		time.Sleep(20 * time.Millisecond)
	}
	if err != nil {
		return err
	}
	defer conn.Close()
	remote := conn.LocalAddr().String()
	srv.logic.mu.Lock()
	srv.logic.ann, srv.logic.scr = nil, nil
	srv.logic.mu.Unlock()
	reqText := "GET " + uri + " HTTP/1.1\r\nHost: tracker\r\nConnection: close\r\n"
	if hdrPresent {
		reqText += "x-real-ip: " + hdr + "\r\n"
	}
	reqText += "\r\n"
	conn.SetDeadline(time.Now().Add(5 * time.Second))
	if _, err := io.WriteString(conn, reqText); err != nil {
		return err
	}
	raw, _ := io.ReadAll(conn)
	resp := string(raw)
	in := map[string]interface{}{"t": "sock", "scrape": scrape, "uri": hx([]byte(uri)), "spoof": spoof, "hdr_present": hdrPresent, "hdr": hx([]byte(hdr))}
	msg, ok := c06FailureReason(resp)
	if !ok {
		// not a tracker answer (400 from net/http, 404 from the router): outside the modelled code
		o.dist["sock-not-routed"]++
		return nil
	}
	host, _, _ := net.SplitHostPort(remote)
	// net/http trims optional whitespace around header values
	hdrval := ""
	if hdrPresent {
		hdrval = strings.Trim(hdr, " \t")
	}
	srv.logic.mu.Lock()
	ann, scr := srv.logic.ann, srv.logic.scr
	srv.logic.mu.Unlock()
	var obs string
	jobs := map[string]interface{}{"remote": remote, "failure_reason": msg}
	if scrape {
		switch {
		case msg == c06Stub && scr != nil:
			var items []string
			for _, ih := range scr.InfoHashes {
				ih := ih
				items = append(items, cB(ih[:]))
			}
			obs = fmt.Sprintf("(OAcc (%s, %s, %s))", cList(items), cB([]byte(scr.Params.RawPath())), cB([]byte(scr.Params.RawQuery())))
			jobs["class"], jobs["n_ihs"] = "accept", len(scr.InfoHashes)
		case msg == "internal server error" || msg == c06Stub:
			obs = "OOther"
			jobs["class"] = "other_error"
		default:
			obs = "(OCli " + cB([]byte(msg)) + ")"
			jobs["class"] = "client_error"
		}
		o.add(Case{Coq: fmt.Sprintf("CScr %s %d %s", cB([]byte(uri)), srv.opts.MaxScrapeInfoHashes, obs), In: in, Obs: jobs, Kind: kind})
		return nil
	}
	switch {
	case msg == c06Stub && ann != nil:
		req := ann
		obs = fmt.Sprintf("(OAcc (Build_oreq %d %s %s %s %s %s %d %s %s %s %s %s %d %d %s %s))",
			uint8(req.Event), cB(req.InfoHash[:]), cBool(req.Compact), cBool(req.EventProvided), cBool(req.NumWantProvided), cBool(req.IPProvided),
			req.NumWant, cU(req.Left), cU(req.Downloaded), cU(req.Uploaded),
			cB(req.Peer.ID[:]), cB(req.Peer.IP.IP), req.Peer.Port, int(req.Peer.IP.AddressFamily), cB([]byte(req.Params.RawPath())), cB([]byte(req.Params.RawQuery())))
		jobs["class"], jobs["ip"], jobs["port"], jobs["numwant"] = "accept", hx(req.Peer.IP.IP), req.Peer.Port, req.NumWant
	case msg == "internal server error" || msg == c06Stub:
		obs = "OOther"
		jobs["class"] = "other_error"
	default:
		obs = "(OCli " + cB([]byte(msg)) + ")"
		jobs["class"] = "client_error"
	}
	var ips []string
	for _, s := range c06IPCandidates(uri, hdrval, host) {
		ip := net.ParseIP(s)
		ips = append(ips, "("+cB([]byte(s))+", "+cOpt(ip != nil, cB(ip))+")")
	}
	coq := fmt.Sprintf("CAnn %s %s %s %d %d %s %s %s %s %s", cB([]byte(uri)), cBool(srv.opts.AllowIPSpoofing), cB([]byte(srv.opts.RealIPHeader)),
		srv.opts.MaxNumWant, srv.opts.DefaultNumWant, cB([]byte(hdrval)), cB([]byte(remote)), cB([]byte(host)), cList(ips), obs)
	o.add(Case{Coq: coq, In: in, Obs: jobs, Kind: kind})
	return nil
}

func c06SockStream(o *Out, rng *rand.Rand, n int) {
	fails := 0
	for i := 0; i < n; i++ {
		g := c06Valid(rng)
		spoof := rng.Intn(3) == 0
		if spoof && rng.Intn(2) == 0 {
			g.kvs = append(g.kvs, c06KV{c06Pick(rng, []string{"ip", "ipv4", "ipv6"}), c06Pick(rng, append(append([]string{}, c06IPTexts...), "garbage", ""))})
		}
		switch rng.Intn(8) {
		case 0:
			c06SetKV(g, c06Pick(rng, []string{"port", "left", "numwant"}), c06Pick(rng, c06BadNums))
		case 1:
			c06DelKV(g, c06Pick(rng, []string{"info_hash", "peer_id", "port", "left"}))
		case 2:
			c06SetKV(g, "port", "0")
		}
		c06Decorate(rng, g)
		hdrPresent := rng.Intn(3) == 0
		hdr := c06Pick(rng, append(append([]string{}, c06IPTexts...), "garbage", "1.2.3", " 198.51.100.4 "))
		uri := c06WireSafe(c06Render(rng, "/announce", g.kvs))
		if rng.Intn(12) == 0 {
			uri += "&x=%zz"
		}
		if err := c06Sock(o, "socket-announce", false, uri, spoof, hdrPresent, hdr); err != nil {
			fails++
			o.notes["socket_stream_error"] = err.Error()
			if fails > 3 {
				return
			}
		}
		if i%4 == 0 {
			var kvs []c06KV
			for k := rng.Intn(6); k > 0; k-- {
				kvs = append(kvs, c06KV{"info_hash", c06ID(rng)})
			}
			if rng.Intn(4) == 0 {
				kvs = append(kvs, c06KV{"x", "y"})
			}
			if err := c06Sock(o, "socket-scrape", true, c06WireSafe(c06Render(rng, "/scrape", kvs)), false, false, ""); err != nil {
				fails++
				o.notes["socket_stream_error"] = err.Error()
			}
		}
	}
}
