//go:build verif && (verif_c07 || verif_c10 || verif_c11)

package main

// Helpers shared by the UDP frontend properties that go through handleRequest
// (C07, C10): HMAC oracle answers, a spy TrackerLogic, offline frontends.

import (
	"context"
	"crypto/hmac"
	"crypto/sha256"
	"encoding/binary"
	"fmt"
	"net"
	"sync"
	"time"

	"github.com/chihaya/chihaya/bittorrent"
	"github.com/chihaya/chihaya/frontend/udp"
)

const sec = int64(time.Second)

// ---- HMAC oracle answers (Go standard library, not the minio implementation the tracker uses)

type macEntry struct{ k, m []byte }

func c10Mac(k, m []byte) []byte {
	h := hmac.New(sha256.New, k)
	h.Write(m)
	return h.Sum(nil)
}

func c10Macs(es []macEntry) string {
	var items []string
	seen := map[string]bool{}
	for _, e := range es {
		id := hx(e.k) + "|" + hx(e.m)
		if seen[id] {
			continue
		}
		seen[id] = true
		items = append(items, fmt.Sprintf("(%s, %s, %s)", cB(e.k), cB(e.m), cB(c10Mac(e.k, e.m))))
	}
	return cList(items)
}

func cat(a []byte, b ...[]byte) []byte {
	r := append([]byte{}, a...)
	for _, x := range b {
		r = append(r, x...)
	}
	return r
}

func ts4(ns int64) []byte {
	b := make([]byte, 4)
	binary.BigEndian.PutUint32(b, uint32(time.Unix(0, ns).Unix()))
	return b
}

type spyLogic struct {
	mu      sync.Mutex
	handles int
	afters  chan struct{}
	lastAnn *bittorrent.AnnounceRequest // copy of the last request handed to HandleAnnounce
	lastScr *bittorrent.ScrapeRequest
}

func (s *spyLogic) HandleAnnounce(ctx context.Context, r *bittorrent.AnnounceRequest) (context.Context, *bittorrent.AnnounceResponse, error) {
	s.mu.Lock()
	s.handles++
	cp := *r
	cp.Peer.IP.IP = append(net.IP{}, r.Peer.IP.IP...)
	s.lastAnn = &cp
	s.mu.Unlock()
	return ctx, &bittorrent.AnnounceResponse{Interval: 30 * time.Minute, MinInterval: 15 * time.Minute, Complete: 1, Incomplete: 2}, nil
}
func (s *spyLogic) AfterAnnounce(context.Context, *bittorrent.AnnounceRequest, *bittorrent.AnnounceResponse) {
	s.afters <- struct{}{}
}
func (s *spyLogic) HandleScrape(ctx context.Context, r *bittorrent.ScrapeRequest) (context.Context, *bittorrent.ScrapeResponse, error) {
	s.mu.Lock()
	s.handles++
	cp := *r
	cp.InfoHashes = append([]bittorrent.InfoHash{}, r.InfoHashes...)
	s.lastScr = &cp
	s.mu.Unlock()
	resp := &bittorrent.ScrapeResponse{}
	for _, ih := range r.InfoHashes {
		resp.Files = append(resp.Files, bittorrent.Scrape{InfoHash: ih, Complete: 1, Incomplete: 2})
	}
	return ctx, resp, nil
}
func (s *spyLogic) AfterScrape(context.Context, *bittorrent.ScrapeRequest, *bittorrent.ScrapeResponse) {
	s.afters <- struct{}{}
}

type c10Front struct {
	f   *udp.Frontend
	spy *spyLogic
}

var c10Fronts = map[string]*c10Front{}

// c10Frontend returns the offline frontend named inst with the given key and skew.
func c10Frontend(inst string, key []byte, skew int64) *c10Front {
	return udpFrontend(inst, key, skew, udp.ParseOptions{MaxNumWant: 100, DefaultNumWant: 50, MaxScrapeInfoHashes: 50})
}

func udpFrontend(inst string, key []byte, skew int64, po udp.ParseOptions) *c10Front {
	id := fmt.Sprintf("%s|%x|%d|%v", inst, key, skew, po)
	if fr, ok := c10Fronts[id]; ok {
		return fr
	}
	spy := &spyLogic{afters: make(chan struct{}, 16)}
	f := udp.VerifNewOffline(spy, udp.Config{PrivateKey: string(key), MaxClockSkew: time.Duration(skew),
		ParseOptions: po})
	fr := &c10Front{f, spy}
	c10Fronts[id] = fr
	return fr
}
