//go:build verif && shim_redis

package redis

import (
	"time"

	"github.com/chihaya/chihaya/storage"
)

func VerifGC(ps storage.PeerStore, cutoffNs int64) error {
	return ps.(*peerStore).collectGarbage(time.Unix(0, cutoffNs))
}

func VerifPopulateProm(ps storage.PeerStore) { ps.(*peerStore).populateProm() }
