(* Hook chains (C12): a pre-hook rejection short-circuits everything; an accepted
   request is filled from the store and applied exactly once unless skipped. *)
From Chihaya Require Import Model.Logic.
From Coq Require Import ZifyBool ZifyNat.
Open Scope Z_scope.

Section Chains.
  Context {U R St : Type} (fill : St -> R -> R) (apply_req : St -> St).
  Notation hook := (@hook U R).

  (* the invocation trace of a chain is always the hooks 0, 1, ..., k in order:
     all of them when the chain accepts, up to the rejecting one otherwise *)
  Lemma run_hooks_accept mk i (hs : list hook) c r tr c' r' tr' :
    run_hooks mk i hs c r tr = (inr (c', r'), tr') ->
    tr' = tr ++ map mk (seq i (length hs)).
  Proof.
    revert i c r tr. induction hs as [|h hs IH]; intros i c r tr H; cbn in H.
    - injection H as _ _ <-. cbn. now rewrite app_nil_r.
    - destruct (h c r) as [[c1 r1] [e|]]; [discriminate|].
      apply IH in H. rewrite H. cbn [length seq map]. now rewrite <- app_assoc.
  Qed.

  Lemma run_hooks_reject mk i (hs : list hook) c r tr e tr' :
    run_hooks mk i hs c r tr = (inl e, tr') ->
    exists k, (k < length hs)%nat /\ tr' = tr ++ map mk (seq i (S k)).
  Proof.
    revert i c r tr. induction hs as [|h hs IH]; intros i c r tr H; cbn in H; [discriminate|].
    destruct (h c r) as [[c1 r1] [e1|]].
    - injection H as _ <-. exists 0%nat. cbn. split; [lia|reflexivity].
    - apply IH in H as [k [Hk ->]]. exists (S k). split; [cbn; lia|].
      cbn [seq map]. now rewrite <- app_assoc.
  Qed.

  (* a chain whose first rejecting hook is number |hs1| : the hooks after it are never consulted *)
  Lemma run_hooks_app_reject mk i (hs1 : list hook) h hs2 c r tr c1 r1 tr1 cx rx e :
    run_hooks mk i hs1 c r tr = (inr (c1, r1), tr1) -> h c1 r1 = (cx, rx, Some e) ->
    run_hooks mk i (hs1 ++ h :: hs2) c r tr = (inl e, tr1 ++ [mk (i + length hs1)%nat]).
  Proof.
    revert i c r tr. induction hs1 as [|h1 hs1 IH]; intros i c r tr H1 H2; cbn in H1 |- *.
    - injection H1 as <- <- <-. rewrite H2. now rewrite Nat.add_0_r.
    - destruct (h1 c r) as [[c0 r0] [e0|]]; [discriminate|].
      rewrite (IH _ _ _ _ H1 H2). cbn [length]. replace (S i + length hs1)%nat with (i + S (length hs1))%nat by lia. reflexivity.
  Qed.

  Definition only_pre (tr : list tev) : Prop := forall t, In t tr -> exists i, t = TPre i.

  Lemma map_pre_only l : only_pre (map TPre l).
  Proof. intros t Ht. apply in_map_iff in Ht as [i [<- _]]. now exists i. Qed.

  (* C12, first sentence: as soon as a pre-hook rejects, the client receives only
     that error, no later hook runs (trace = pre-hooks 0..k), nothing is read from or
     applied to the store, no post-hook runs *)
  Theorem prehook_reject_shortcircuits (pre post : list hook) st (c : ctx U) r0 e tr :
    handle fill pre st c r0 = (inl e, tr) ->
    let s := serve fill apply_req pre post st c r0 in
    s_out s = inl e /\ s_store s = st /\
    exists k, (k < length pre)%nat /\ s_trace s = map TPre (seq 0 (S k)).
  Proof.
    intros H. unfold serve. rewrite H. cbn. split; [reflexivity|]. split; [reflexivity|].
    unfold handle in H. destruct (run_hooks TPre 0 pre c r0 []) as [[e1|[c' r']] tr1] eqn:E.
    - injection H as _ <-. apply run_hooks_reject in E as [k [Hk ->]]. now exists k.
    - destruct (skip_response c'); discriminate.
  Qed.

  (* ... and a rejection happens exactly when some configured pre-hook returns an error *)
  Theorem handle_rejects_iff (pre : list hook) st (c : ctx U) r0 :
    (exists e tr, handle fill pre st c r0 = (inl e, tr)) <->
    (exists e tr, run_hooks TPre 0 pre c r0 [] = (inl e, tr)).
  Proof.
    unfold handle. destruct (run_hooks TPre 0 pre c r0 []) as [[e1|[c' r']] tr1].
    - split; intros _; now exists e1, tr1.
    - split; intros [e [tr H]]; [|discriminate]. destruct (skip_response c'); discriminate.
  Qed.

  (* pre-hooks run in configured order, all of them, before the store is read *)
  Theorem prehooks_in_order (pre : list hook) st (c : ctx U) r0 c' r tr :
    handle fill pre st c r0 = (inr (c', r), tr) ->
    tr = map TPre (seq 0 (length pre)) ++ (if skip_response c' then [] else [TFill]).
  Proof.
    unfold handle. destruct (run_hooks TPre 0 pre c r0 []) as [[e1|[c1 r1]] tr1] eqn:E; [discriminate|].
    apply run_hooks_accept in E. cbn in E. subst tr1.
    destruct (skip_response c1) eqn:Es; intros H; injection H as <- _ <-; rewrite Es; [now rewrite app_nil_r|reflexivity].
  Qed.

  (* a request accepted by all pre-hooks gets a response filled from the store
     (unless a hook set the skip-response mark) *)
  Theorem accepted_response_from_store (pre : list hook) st (c : ctx U) r0 c1 r1 tr1 :
    run_hooks TPre 0 pre c r0 [] = (inr (c1, r1), tr1) -> skip_response c1 = false ->
    handle fill pre st c r0 = (inr (c1, fill st r1), tr1 ++ [TFill]).
  Proof. intros H Hs. unfold handle. now rewrite H, Hs. Qed.
  Theorem skip_response_untouched (pre : list hook) st (c : ctx U) r0 c1 r1 tr1 :
    run_hooks TPre 0 pre c r0 [] = (inr (c1, r1), tr1) -> skip_response c1 = true ->
    handle fill pre st c r0 = (inr (c1, r1), tr1).
  Proof. intros H Hs. unfold handle. now rewrite H, Hs. Qed.

  Fixpoint count_apply (tr : list tev) : nat :=
    match tr with
    | [] => 0
    | TApply :: r => S (count_apply r)
    | _ :: r => count_apply r
    end.
  Lemma count_apply_app a b : count_apply (a ++ b) = (count_apply a + count_apply b)%nat.
  Proof. induction a as [|t a IH]; [reflexivity|]. destruct t; cbn; now rewrite ?IH. Qed.
  Lemma count_apply_map_pre l : count_apply (map TPre l) = 0%nat.
  Proof. induction l; cbn; auto. Qed.
  Lemma count_apply_map_post l : count_apply (map TPost l) = 0%nat.
  Proof. induction l; cbn; auto. Qed.

  (* ... and is then applied to the swarm exactly once, after all post-hooks, when every
     configured post-hook accepts and none set the skip mark *)
  Theorem accepted_applied_once (pre post : list hook) st (c : ctx U) r0 c1 r tr c2 r2 tr2 :
    handle fill pre st c r0 = (inr (c1, r), tr) ->
    run_hooks TPost 0 post c1 r [] = (inr (c2, r2), tr2) -> skip_swarm c2 = false ->
    let s := serve fill apply_req pre post st c r0 in
    s_out s = inr r /\ s_store s = apply_req st /\ count_apply (s_trace s) = 1%nat /\
    s_trace s = tr ++ map TPost (seq 0 (length post)) ++ [TApply].
  Proof.
    intros H Hp Hs. unfold serve, after. rewrite H, Hp, Hs. cbn.
    pose proof (run_hooks_accept _ _ _ _ _ _ _ _ _ Hp) as ->. cbn [app].
    split; [reflexivity|]. split; [reflexivity|]. split; [|reflexivity].
    apply prehooks_in_order in H. subst tr.
    rewrite !count_apply_app, count_apply_map_pre, count_apply_map_post.
    destruct (skip_response c1); reflexivity.
  Qed.

  Theorem skip_swarm_no_update (pre post : list hook) st (c : ctx U) r0 c1 r tr c2 r2 tr2 :
    handle fill pre st c r0 = (inr (c1, r), tr) ->
    run_hooks TPost 0 post c1 r [] = (inr (c2, r2), tr2) -> skip_swarm c2 = true ->
    let s := serve fill apply_req pre post st c r0 in
    s_out s = inr r /\ s_store s = st /\ count_apply (s_trace s) = 0%nat.
  Proof.
    intros H Hp Hs. unfold serve, after. rewrite H, Hp, Hs. cbn.
    pose proof (run_hooks_accept _ _ _ _ _ _ _ _ _ Hp) as ->. cbn [app].
    split; [reflexivity|]. split; [reflexivity|].
    apply prehooks_in_order in H. subst tr.
    rewrite !count_apply_app, count_apply_map_pre, count_apply_map_post.
    destruct (skip_response c1); reflexivity.
  Qed.

  (* the store is never touched more than once, whatever the chains do *)
  Theorem applied_at_most_once (pre post : list hook) st (c : ctx U) r0 :
    (count_apply (s_trace (serve fill apply_req pre post st c r0)) <= 1)%nat.
  Proof.
    unfold serve. destruct (handle fill pre st c r0) as [[e|[c1 r]] tr] eqn:H.
    - cbn. unfold handle in H. destruct (run_hooks TPre 0 pre c r0 []) as [[e1|[c' r']] tr1] eqn:E.
      + injection H as _ <-. apply run_hooks_reject in E as [k [_ ->]]. cbn [app]. rewrite count_apply_map_pre. lia.
      + destruct (skip_response c'); discriminate.
    - apply prehooks_in_order in H. subst tr. unfold after.
      destruct (run_hooks TPost 0 post c1 r []) as [[e|[c2 r2]] tr2] eqn:Hp.
      + cbn. apply run_hooks_reject in Hp as [k [_ ->]]. cbn [app].
        rewrite !count_apply_app, count_apply_map_pre, count_apply_map_post.
        destruct (skip_response c1); cbn; lia.
      + apply run_hooks_accept in Hp. cbn [app] in Hp. subst tr2.
        destruct (skip_swarm c2); cbn; rewrite !count_apply_app, count_apply_map_pre, ?count_apply_app, count_apply_map_post;
          destruct (skip_response c1); cbn; lia.
  Qed.
End Chains.

(* scrapes: the swarm-interaction hook does nothing for a scrape (apply_req = id), so a
   scrape never changes the store, whatever the chains do *)
Theorem scrape_never_writes {U R St : Type} (fill : St -> R -> R) (pre post : list (@hook U R)) (st : St) (c : ctx U) (r0 : R) :
  s_store (serve fill (fun s => s) pre post st c r0) = st.
Proof.
  unfold serve. destruct (handle fill pre st c r0) as [[e|[c1 r]] tr]; [reflexivity|].
  unfold after. destruct (run_hooks TPost 0 post c1 r []) as [[e|[c2 r2]] tr2]; [reflexivity|].
  destruct (skip_swarm c2); reflexivity.
Qed.

(* The last sentence of C12 - "applied exactly once unless a hook explicitly marked it to
   skip" - is FALSE of the code as it is: a configured post-hook that returns an error
   suppresses the swarm update although nothing was marked (finding F12). *)
Theorem failing_posthook_suppresses_update_refuted :
  exists (pre post : list (@hook unit Z)) (st : Z) (c : ctx unit) (r0 : Z),
    let s := serve (fun _ r => r) Z.succ pre post st c r0 in
    skip_swarm c = false /\ skip_response c = false /\
    (exists r, s_out s = inr r) /\ s_store s = st /\ s_store s <> Z.succ st.
Proof.
  exists [], [fun c r => (c, r, Some InternalErr)], 0,
         {| skip_swarm := false; skip_response := false; user := tt |}, 5.
  cbn. repeat split; try reflexivity. - now exists 5. - discriminate.
Qed.

(* non-vacuity: a chain of two accepting pre-hooks (one of which edits the response), one
   accepting post-hook; the request is filled and applied once *)
Example accepted_example :
  let pre : list (@hook unit Z) := [fun c r => (c, r + 1, None); fun c r => (c, r, None)] in
  let post : list (@hook unit Z) := [fun c r => (c, r, None)] in
  let s := serve (fun st r => r + 100 * st) Z.succ pre post 7 {| skip_swarm := false; skip_response := false; user := tt |} 0 in
  s_out s = inr 701 /\ s_store s = 8 /\ s_trace s = [TPre 0; TPre 1; TFill; TPost 0; TApply].
Proof. cbn. repeat split. Qed.
