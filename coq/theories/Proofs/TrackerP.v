(* C13 - no request can crash or wedge the tracker: the end-to-end model of
   Model/Tracker.v never reaches its panic outcome (None / HPanic), for every
   datagram / request line, every configuration and every reachable store, and
   the store invariant the handlers rely on (every stored key is the
   serialisation of a sanitised peer of the swarm's own family) is preserved. *)
From Coq Require Import ZifyBool ZifyNat.
From Chihaya Require Proofs.SelectP Proofs.SourceIPP Proofs.UdpParseP Proofs.ConnIDP.
From Chihaya Require Import Proofs.SwarmP Proofs.SpecP.
From Chihaya Require Import Model.Tracker.
Open Scope Z_scope.

Implicit Types (sp : spec) (a : ann) (p : peer).

Definition fam_of (v6 : bool) : family := if v6 then V6 else V4.

(* ------------------------------------------------------------------ 1. keys decode *)
Lemma decode_key_sane v6 p :
  sane_peer v6 p → decode_key (peer_key p) = Some (p, if v6 then V6 else V4).
Proof.
  intros (Hid & _ & Hport & _ & Hip).
  destruct (SourceIPP.registered_address_is_request_address p Hid Hport) as (af & Hd & Haf).
  { destruct v6; [right; exact Hip|left; exact Hip]. }
  rewrite Hd. destruct v6.
  - destruct Hip as [H16 _]. destruct af; [|done]. destruct Haf as [Haf _]. specialize (Haf eq_refl). lia.
  - destruct af; [done|]. destruct Haf as [_ Haf]. specialize (Haf Hip). done.
Qed.

Lemma key_ok_decode v6 pk : key_ok v6 pk → ∃ p, decode_key pk = Some (p, fam_of v6) ∧ sane_peer v6 p.
Proof. intros (p & -> & Hs). exists p. split; [apply decode_key_sane, Hs|exact Hs]. Qed.

(* ------------------------------------------------------------------ 2. the invariant *)
Lemma keys_ok_init : keys_ok spec_init.
Proof. intros ih v6 sw pk E. unfold spec_init in E. rewrite lookup_empty in E. done. Qed.

(* the invariant, swarm by swarm *)
Definition sw_ok (v6 : bool) (o : option swarm) : Prop :=
  ∀ sw pk, o = Some sw → (is_Some (seeders sw !! pk) ∨ is_Some (leechers sw !! pk)) → key_ok v6 pk.

Lemma keys_ok_sw sp : keys_ok sp ↔ ∀ ih v6, sw_ok v6 (sp !! (ih, v6)).
Proof.
  split.
  - intros H ih v6 sw pk E. apply (H ih v6 sw pk E).
  - intros H ih v6 sw pk E. apply (H ih v6 sw pk E).
Qed.

Lemma sw_ok_o_sw v6 o pk : sw_ok v6 o →
  (is_Some (seeders (o_sw o) !! pk) ∨ is_Some (leechers (o_sw o) !! pk)) → key_ok v6 pk.
Proof.
  intros H. destruct o as [sw|]; cbn.
  - apply (H sw pk eq_refl).
  - rewrite !lookup_empty. intros [[? ?]|[? ?]]; done.
Qed.

Lemma sw_ok_norm v6 sw : (∀ pk, is_Some (seeders sw !! pk) ∨ is_Some (leechers sw !! pk) → key_ok v6 pk) →
  sw_ok v6 (norm sw).
Proof.
  intros H sw' pk. unfold norm. destruct (swarm_empty sw); [done|]. intros [= <-]. apply H.
Qed.

Lemma sw_ok_put_seeder v6 pk t o : key_ok v6 pk → sw_ok v6 o → sw_ok v6 (g_put_seeder pk t o).
Proof.
  intros Hk Ho sw pk' [= <-]. cbn [seeders leechers].
  destruct (decide (pk' = pk)) as [->|Hne]; [done|]. rewrite lookup_insert_ne by done.
  apply sw_ok_o_sw, Ho.
Qed.
Lemma sw_ok_put_leecher v6 pk t o : key_ok v6 pk → sw_ok v6 o → sw_ok v6 (g_put_leecher pk t o).
Proof.
  intros Hk Ho sw pk' [= <-]. cbn [seeders leechers].
  destruct (decide (pk' = pk)) as [->|Hne]; [done|]. rewrite lookup_insert_ne by done.
  apply sw_ok_o_sw, Ho.
Qed.
Lemma sw_ok_graduate v6 pk t o : key_ok v6 pk → sw_ok v6 o → sw_ok v6 (g_graduate pk t o).
Proof.
  intros Hk Ho sw pk' [= <-]. cbn [seeders leechers].
  destruct (decide (pk' = pk)) as [->|Hne]; [done|].
  rewrite lookup_insert_ne, lookup_delete_ne by done.
  apply sw_ok_o_sw, Ho.
Qed.
Lemma sw_ok_del_seeder v6 pk o : sw_ok v6 o → sw_ok v6 (g_del_seeder pk o).
Proof.
  intros Ho. unfold g_del_seeder. destruct (has_seeder pk o); [|exact Ho].
  apply sw_ok_norm. intros pk'. cbn [seeders leechers]. intros Hm. apply (sw_ok_o_sw v6 o pk' Ho).
  destruct Hm as [Hm|Hm]; [left|right; exact Hm].
  destruct (decide (pk' = pk)) as [->|Hne]; [rewrite lookup_delete in Hm; destruct Hm; done|].
  rewrite lookup_delete_ne in Hm by done. exact Hm.
Qed.
Lemma sw_ok_del_leecher v6 pk o : sw_ok v6 o → sw_ok v6 (g_del_leecher pk o).
Proof.
  intros Ho. unfold g_del_leecher. destruct (has_leecher pk o); [|exact Ho].
  apply sw_ok_norm. intros pk'. cbn [seeders leechers]. intros Hm. apply (sw_ok_o_sw v6 o pk' Ho).
  destruct Hm as [Hm|Hm]; [left; exact Hm|right].
  destruct (decide (pk' = pk)) as [->|Hne]; [rewrite lookup_delete in Hm; destruct Hm; done|].
  rewrite lookup_delete_ne in Hm by done. exact Hm.
Qed.

Lemma fresh_is_Some (T : Z) (g : gmap (list Z) Z) (pk : list Z) : is_Some (fresh T g !! pk) → is_Some (g !! pk).
Proof.
  rewrite fresh_lookup. destruct (g !! pk); [eauto|]. intros [? ?]; done.
Qed.
Lemma sw_ok_expire v6 T o : sw_ok v6 o → sw_ok v6 (g_expire T o).
Proof.
  intros Ho. unfold g_expire. destruct o as [sw|]; cbn; [|done].
  apply sw_ok_norm. intros pk. cbn [sw_expire seeders leechers]. intros Hm.
  apply (Ho sw pk eq_refl). destruct Hm as [Hm|Hm]; [left|right]; eapply fresh_is_Some; exact Hm.
Qed.

Lemma a_key_ok a : sane_peer (a_v6 a) (a_peer a) → key_ok (a_v6 a) (a_key a).
Proof. intros H. exists (a_peer a). done. Qed.

Lemma sw_ok_announce a clock o :
  sane_peer (a_v6 a) (a_peer a) → sw_ok (a_v6 a) o → sw_ok (a_v6 a) (g_announce a clock o).
Proof.
  intros Hs Ho. apply a_key_ok in Hs. unfold g_announce. destruct (a_event a).
  1,2: destruct (a_left a =? 0); [apply sw_ok_put_seeder|apply sw_ok_put_leecher]; done.
  - apply sw_ok_del_leecher, sw_ok_del_seeder, Ho.
  - apply sw_ok_graduate; done.
Qed.

Theorem keys_ok_announce a clock sp :
  keys_ok sp → sane_peer (a_v6 a) (a_peer a) → keys_ok (swarm_interaction spec_if a clock sp).
Proof.
  intros Hk Hs. apply keys_ok_sw. intros ih v6. rewrite announce_lookup.
  destruct (decide _) as [[= -> ->]|Hne].
  - apply sw_ok_announce; [exact Hs|]. apply keys_ok_sw, Hk.
  - apply keys_ok_sw, Hk.
Qed.

Theorem keys_ok_gc T sp : keys_ok sp → keys_ok (sm_gc T sp).
Proof.
  intros Hk. apply keys_ok_sw. intros ih v6. rewrite sm_gc_lookup. apply sw_ok_expire, keys_ok_sw, Hk.
Qed.

(* ------------------------------------------------------------------ 3. the response hook *)
Lemma select_ref_In S L ann seeder nw k :
  In k (select_ref S L ann seeder nw) → In k S ∨ In k L.
Proof.
  unfold select_ref, ztake. destruct seeder.
  - intros H. right. eapply In_firstn_in, H.
  - intros H. apply in_app_or in H as [H|H].
    + left. eapply In_firstn_in, H.
    + right. apply In_firstn_in in H. apply SelectP.kremove_In in H. tauto.
Qed.

Lemma decode_all_ok v6 ks :
  (∀ k, In k ks → key_ok v6 k) →
  ∃ ps, decode_all ks = Some ps ∧ length ps = length ks ∧ Forall (sane_peer v6) ps.
Proof.
  induction ks as [|k ks IH]; intros H.
  - exists []. done.
  - destruct IH as (ps & E & L & F); [intros k' Hk'; apply H; by right|].
    destruct (key_ok_decode v6 k) as (p & Ed & Hs); [apply H; by left|].
    exists (p :: ps). cbn [decode_all]. rewrite Ed, E. cbn [length]. split; [done|]. split; [lia|].
    constructor; done.
Qed.

Lemma key_lists_spec_ok sp ih v6 Sk Lk k :
  keys_ok sp → key_lists spec_if sp ih v6 = (Sk, Lk) → In k Sk ∨ In k Lk → key_ok v6 k.
Proof.
  intros Hk. unfold key_lists. cbn [st_members spec_if].
  destruct (sp !! (ih, v6)) as [sw|] eqn:E.
  - intros [= <- <-] Hin. apply (Hk ih v6 sw k E).
    destruct Hin as [Hin|Hin]; [left|right];
      apply elem_of_list_In, elem_of_list_fmap in Hin as ([k' t] & -> & Hin);
      apply elem_of_map_to_list in Hin; cbn; eauto.
  - intros [= <- <-] [[]|[]].
Qed.

Theorem respond_no_panic a sp :
  keys_ok sp → sane_peer (a_v6 a) (a_peer a) →
  ∃ c i ps, respond spec_if a sp = Some (c, i, ps) ∧ ps ≠ [] ∧ Forall (sane_peer (a_v6 a)) ps.
Proof.
  intros Hk Hs. unfold respond.
  destruct (st_scrape spec_if (a_ih a) (a_v6 a) sp) as [c i].
  destruct (key_lists spec_if sp (a_ih a) (a_v6 a)) as [Sk Lk] eqn:EK.
  destruct (decode_all_ok (a_v6 a) (select_ref Sk Lk (a_key a) (a_left a =? 0) (a_numwant a)))
    as (ps & -> & _ & F).
  { intros k Hin. apply select_ref_In in Hin. eapply key_lists_spec_ok; eauto. }
  destruct ps as [|p ps].
  - eexists _, _, _. split; [reflexivity|]. split; [done|]. constructor; [exact Hs|constructor].
  - eexists _, _, _. split; [reflexivity|]. split; [done|exact F].
Qed.

(* ------------------------------------------------------------------ 4. the request peer is sane *)
Definition v6_of (af : family) : bool := match af with V6 => true | V4 => false end.

Lemma to4_some_shape ip ip4 : to4 ip = Some ip4 → wf_bytes ip = true → length ip4 = 4%nat ∧ wf_bytes ip4 = true.
Proof.
  unfold to4. destruct (Nat.eqb_spec (length ip) 4) as [E|E].
  - intros [= <-] Hw. done.
  - destruct (Nat.eqb_spec (length ip) 16) as [E16|E16]; cbn [andb]; [|done].
    destruct (bytes_eqb _ _); [|done]. intros [= <-] Hw. split; [rewrite skipn_length; lia|].
    apply wf_bytes_skipn, Hw.
Qed.

Lemma sanitize_sane r mx df r' :
  sanitize_announce r mx df = inr r' →
  length (p_id (r_peer r)) = 20%nat → wf_bytes (p_id (r_peer r)) = true →
  0 <= p_port (r_peer r) < 65536 → wf_bytes (p_ip (r_peer r)) = true →
  sane_peer (v6_of (r_af r')) (r_peer r').
Proof.
  intros Hs Hid Hidw Hport Hipw. unfold sanitize_announce in Hs.
  destruct (p_port (r_peer r) =? 0); [done|].
  destruct (to4 (p_ip (r_peer r))) as [ip4|] eqn:E4.
  - injection Hs as <-. destruct (to4_some_shape _ _ E4 Hipw) as [L4 W4].
    unfold sane_peer. cbn. done.
  - destruct (Nat.eqb_spec (length (p_ip (r_peer r))) 16) as [E16|E16]; [|done].
    injection Hs as <-. unfold sane_peer. cbn. done.
Qed.

Theorem udp_request_peer_sane v6a o ip packet r q :
  UdpParse.parse_announce v6a o (Some ip) packet = UdpParse.Accept (r, q) →
  wf_bytes packet = true → wf_bytes ip = true → (length ip = 4 ∨ length ip = 16)%nat →
  sane_peer (match r_af r with V6 => true | V4 => false end) (r_peer r).
Proof.
  intros H Hpw Hipw Hiplen.
  destruct (Nat.ltb_spec (length packet) (UdpParse.ip_end v6a + 10)) as [C|C].
  { rewrite UdpParseP.udp_short_rejected in H by exact C. discriminate. }
  destruct (UdpParseP.parse_announce_total v6a o (Some ip) packet C) as (ev & _ & E). rewrite E in H. clear E.
  assert (E : (88 <= UdpParse.ip_end v6a <= 100)%nat) by (destruct v6a; cbn; lia).
  unfold UdpParse.announce_of_fields in H.
  destruct (_ <=? ev); [discriminate|].
  destruct (UdpParse.choose_ip o (Some ip) _) as [oip pr] eqn:Ec.
  destruct (negb (UdpParse.o_spoof o) && _); [discriminate|].
  destruct (UdpParse.handle_optional _) as [q'|e|]; try discriminate.
  destruct (nth_error UdpParse.event_ids (Z.to_nat ev)) as [e|]; [|discriminate].
  destruct (sanitize_announce _ _ _) as [e'|r'] eqn:S; [discriminate|].
  injection H as <- <-.
  apply sanitize_sane in S; [exact S|cbn [r_peer p_id p_ip p_port]..].
  - rewrite sub_length by lia. lia.
  - apply wf_bytes_sub, Hpw.
  - pose proof (be_dec_bounds (sub (UdpParse.ip_end v6a + 8) (UdpParse.ip_end v6a + 10) packet)) as B.
    rewrite sub_length in B by lia. specialize (B (wf_bytes_sub _ _ _ Hpw)).
    replace (UdpParse.ip_end v6a + 10 - (UdpParse.ip_end v6a + 8))%nat with 2%nat in B by lia.
    change (256 ^ Z.of_nat 2) with 65536 in B. exact B.
  - unfold UdpParse.choose_ip in Ec. destruct (_ && _); injection Ec as <- <-; [apply wf_bytes_sub, Hpw|exact Hipw].
Qed.

(* ------------------------------------------------------------------ 5. UDP: the headline *)
Lemma ip_family_some ip : (length ip = 4 ∨ length ip = 16)%nat → ∃ af, ConnID.ip_family ip = Some af.
Proof.
  intros [H|H]; unfold ConnID.ip_family, to4; rewrite H; cbn [Nat.eqb andb].
  - eauto.
  - destruct (bytes_eqb _ _); eauto.
Qed.

Lemma handle_udp_no_panic mac k skew now o ip packet :
  (length ip = 4 ∨ length ip = 16)%nat → UdpParse.handle_udp mac k skew now o ip packet ≠ UdpParse.UPanic.
Proof.
  intros Hip. destruct (ip_family_some ip Hip) as (af & Haf).
  unfold UdpParse.handle_udp.
  destruct (ConnID.dispatch_request mac k skew now ip packet) as [|d| |act txid] eqn:D; try done.
  - unfold ConnID.dispatch_request in D. rewrite Haf in D.
    repeat match type of D with (if ?c then _ else _) = _ => destruct c end; done.
  - destruct (act =? UdpWrite.act_scrape).
    + pose proof (UdpParseP.parse_scrape_no_panic o packet) as N.
      destruct (UdpParse.parse_scrape o packet); [|done|done]. rewrite Haf. done.
    + pose proof (UdpParseP.parse_announce_no_panic (act =? UdpWrite.act_announce_v6) o (Some ip) packet) as N.
      destruct (UdpParse.parse_announce _ o (Some ip) packet) as [[r q]|e|]; done.
Qed.

Theorem udp_step_no_panic mac t u sp clock ip packet :
  keys_ok sp → wf_bytes packet = true → wf_bytes ip = true → (length ip = 4 ∨ length ip = 16)%nat →
  ∃ sp' out, udp_step spec_if mac t u sp clock ip packet = Some (sp', out) ∧ keys_ok sp' ∧ (length out <= 1)%nat.
Proof.
  intros Hk Hpw Hipw Hip. unfold udp_step.
  pose proof (handle_udp_no_panic mac (uc_key u) (uc_skew u) clock (uc_opts u) ip packet Hip) as NP.
  destruct (UdpParse.handle_udp _ _ _ _ _ _ _) as [|d| |txid v6a r q|txid af ihs] eqn:E; [| |done| |].
  - exists sp, []. cbn. auto.
  - exists sp, [d]. cbn. auto.
  - apply UdpParseP.udp_logic_only_after_parse in E.
    pose proof (udp_request_peer_sane _ _ _ _ _ _ E Hpw Hipw Hip) as Hs.
    destruct (respond_no_panic (ann_of_areq r) sp Hk Hs) as (c & i & ps & -> & _ & _).
    eexists _, _. split; [reflexivity|]. split; [|cbn; lia].
    apply keys_ok_announce; [exact Hk|exact Hs].
  - eexists _, _. split; [reflexivity|]. split; [exact Hk|cbn; lia].
Qed.

(* a history of datagrams: (clock, source address, datagram); the store and every response *)
Definition udp_req_wf (x : Z * list Z * list Z) : Prop :=
  let '(_, ip, packet) := x in
  wf_bytes packet = true ∧ wf_bytes ip = true ∧ (length ip = 4 ∨ length ip = 16)%nat.

Definition udp_run_step (mac : list Z → list Z → list Z) (t : tcfg) (u : ucfg)
           (acc : option (spec * list (list (list Z)))) (x : Z * list Z * list Z) :=
  match acc with
  | None => None
  | Some (sp, outs) =>
    let '(clock, ip, packet) := x in
    match udp_step spec_if mac t u sp clock ip packet with
    | None => None
    | Some (sp', out) => Some (sp', outs ++ [out])
    end
  end.

Definition udp_run (mac : list Z → list Z → list Z) (t : tcfg) (u : ucfg)
           (init : spec) (reqs : list (Z * list Z * list Z)) : option (spec * list (list (list Z))) :=
  fold_left (udp_run_step mac t u) reqs (Some (init, [])).

Lemma udp_run_no_panic_from mac t u reqs : ∀ sp outs,
  keys_ok sp → Forall udp_req_wf reqs → Forall (λ out, (length out <= 1)%nat) outs →
  ∃ sp' outs',
    fold_left (udp_run_step mac t u) reqs (Some (sp, outs)) = Some (sp', outs') ∧
    keys_ok sp' ∧ length outs' = (length outs + length reqs)%nat ∧
    Forall (λ out, (length out <= 1)%nat) outs'.
Proof.
  induction reqs as [|[[clock ip] packet] reqs IH]; intros sp outs Hk Hw Ho.
  - exists sp, outs. cbn. split; [done|]. split; [done|]. split; [lia|done].
  - inversion Hw as [|x l (Hpw & Hipw & Hip) Hw']; subst. cbn [fold_left udp_run_step].
    destruct (udp_step_no_panic mac t u sp clock ip packet Hk Hpw Hipw Hip) as (sp1 & out & -> & Hk1 & L1).
    destruct (IH sp1 (outs ++ [out]) Hk1 Hw') as (sp' & outs' & -> & Hk' & L' & F').
    { apply Forall_app. split; [exact Ho|]. constructor; [exact L1|constructor]. }
    exists sp', outs'. split; [done|]. split; [done|].
    rewrite app_length in L'. cbn [length] in L' |- *. split; [lia|exact F'].
Qed.

(* every history of datagrams, from the empty store: no step panics, one entry of at most
   one datagram per request, and the invariant holds at the end *)
Theorem udp_history_no_panic mac t u (reqs : list (Z * list Z * list Z)) :
  Forall udp_req_wf reqs →
  ∃ sp outs, udp_run mac t u spec_init reqs = Some (sp, outs) ∧ keys_ok sp ∧
             length outs = length reqs ∧ Forall (λ out, (length out <= 1)%nat) outs.
Proof.
  intros Hw. destruct (udp_run_no_panic_from mac t u reqs spec_init [] keys_ok_init Hw) as (sp & outs & E & Hk & L & F).
  { constructor. }
  exists sp, outs. done.
Qed.
