(* C14 - Client and torrent approval decide exactly by list membership.
   Only statements, each closed by [exact] of a lemma from Proofs/ApprovalP.v. *)
From Chihaya Require Import Model.Approval Proofs.ApprovalP.
Open Scope Z_scope.

(* the client ID of a 20-byte peer ID is bytes 1-6 when byte 0 is '-', bytes 0-5 otherwise *)
Theorem C14_client_id_spec : forall pid,
  length pid = 20%nat ->
  length (client_id pid) = 6%nat /\
  forall i, (i < 6)%nat ->
    nth i (client_id pid) 0 = nth (if nth 0 pid 0 =? 45 then S i else i) pid 0.
Proof. exact client_id_spec. Qed.
Print Assumptions C14_client_id_spec.

(* whitelist (any non-empty list of 6-byte entries, duplicates allowed): the hook
   is built and an announce passes iff its client ID is on the list *)
Theorem C14_client_whitelist_iff : forall w pid,
  w <> [] -> Forall (fun e => length e = 6%nat) w ->
  exists h, new_client_hook {| wl := w; bl := [] |} = inr h /\
            (client_announce h pid = None <-> In (client_id pid) w).
Proof. exact client_whitelist_iff. Qed.
Print Assumptions C14_client_whitelist_iff.

Theorem C14_client_blacklist_iff : forall b pid,
  b <> [] -> Forall (fun e => length e = 6%nat) b ->
  exists h, new_client_hook {| wl := []; bl := b |} = inr h /\
            (client_announce h pid = None <-> ~ In (client_id pid) b).
Proof. exact client_blacklist_iff. Qed.
Print Assumptions C14_client_blacklist_iff.

(* torrent lists hold hex text; an infohash is on the list when some entry decodes to it *)
Theorem C14_torrent_whitelist_iff : forall w ih,
  length ih = 20%nat -> w <> [] ->
  Forall (fun e => length e = 40%nat /\ forallb is_hex_digit e = true) w ->
  exists h, new_torrent_hook {| wl := w; bl := [] |} = inr h /\
            (torrent_announce h ih = None <-> exists e, In e w /\ hex_decode e = Some ih).
Proof. exact torrent_whitelist_iff. Qed.
Print Assumptions C14_torrent_whitelist_iff.

Theorem C14_torrent_blacklist_iff : forall b ih,
  length ih = 20%nat -> b <> [] ->
  Forall (fun e => length e = 40%nat /\ forallb is_hex_digit e = true) b ->
  exists h, new_torrent_hook {| wl := []; bl := b |} = inr h /\
            (torrent_announce h ih = None <-> ~ exists e, In e b /\ hex_decode e = Some ih).
Proof. exact torrent_blacklist_iff. Qed.
Print Assumptions C14_torrent_blacklist_iff.

(* what "hex text of ih" means: digits 0-9, a-f, A-F; every letter-case rendering
   of a byte string decodes back to it *)
Theorem C14_hex_digit_spec : forall c,
  is_hex_digit c = true <-> 48 <= c <= 57 \/ 65 <= c <= 70 \/ 97 <= c <= 102.
Proof. exact hex_digit_spec. Qed.
Print Assumptions C14_hex_digit_spec.

Theorem C14_hex_any_case_accepted : forall cs b,
  wf_bytes b = true -> hex_decode (hex_encode cs b) = Some b.
Proof. exact hex_decode_encode. Qed.
Print Assumptions C14_hex_any_case_accepted.

Theorem C14_no_lists_accepts_all :
  (exists h, new_client_hook {| wl := []; bl := [] |} = inr h /\ forall pid, client_announce h pid = None) /\
  (exists h, new_torrent_hook {| wl := []; bl := [] |} = inr h /\ forall ih, torrent_announce h ih = None).
Proof. exact no_lists_accepts_all. Qed.
Print Assumptions C14_no_lists_accepts_all.

Theorem C14_scrape_never_blocked : forall h ihs,
  client_scrape h ihs = None /\ torrent_scrape h ihs = None.
Proof. exact scrape_never_blocked. Qed.
Print Assumptions C14_scrape_never_blocked.

Theorem C14_both_lists_refused : forall w b,
  w <> [] -> b <> [] ->
  new_client_hook {| wl := w; bl := b |} = inl RBoth /\ new_torrent_hook {| wl := w; bl := b |} = inl RBoth.
Proof. exact both_lists_refused. Qed.
Print Assumptions C14_both_lists_refused.

(* one entry of the wrong length anywhere in either list: refused *)
Theorem C14_client_entry_len_refused : forall w b e,
  In e (w ++ b) -> length e <> 6%nat -> exists r, new_client_hook {| wl := w; bl := b |} = inl r.
Proof. exact client_entry_len_refused. Qed.
Print Assumptions C14_client_entry_len_refused.

(* one entry that is not exactly 40 hex digits anywhere in either list: refused *)
Theorem C14_torrent_entry_refused : forall w b e,
  In e (w ++ b) -> ~ (length e = 40%nat /\ forallb is_hex_digit e = true) ->
  exists r, new_torrent_hook {| wl := w; bl := b |} = inl r.
Proof. exact torrent_entry_refused. Qed.
Print Assumptions C14_torrent_entry_refused.

(* wrong length (19/21 bytes ...), odd length, a non-hex character: each is "not 40 hex digits" *)
Theorem C14_torrent_entry_bad_cases : forall e,
  (length e <> 40%nat \/ Nat.odd (length e) = true \/ (exists c, In c e /\ is_hex_digit c = false)) ->
  ~ (length e = 40%nat /\ forallb is_hex_digit e = true).
Proof. exact hash_text_bad_cases. Qed.
Print Assumptions C14_torrent_entry_bad_cases.

(* non-vacuity: every configuration with at most one list in use and well-formed entries builds *)
Theorem C14_valid_cfg_builds : forall w b,
  (w = [] \/ b = []) ->
  (Forall (fun e => length e = 6%nat) (w ++ b) -> exists h, new_client_hook {| wl := w; bl := b |} = inr h) /\
  (Forall (fun e => length e = 40%nat /\ forallb is_hex_digit e = true) (w ++ b) ->
   exists h, new_torrent_hook {| wl := w; bl := b |} = inr h).
Proof. exact valid_cfg_builds. Qed.
Print Assumptions C14_valid_cfg_builds.
