(* C13 - no request can crash or wedge the tracker: the end-to-end model of
   Model/Tracker.v never reaches its panic outcome (None / HPanic), for every
   datagram / request line, every configuration and every reachable store, and
   the store invariant the handlers rely on (every stored key is the
   serialisation of a sanitised peer of the swarm's own family) is preserved. *)
From Coq Require Import ZifyBool ZifyNat.
From Chihaya Require Proofs.SelectP Proofs.SourceIPP Proofs.UdpParseP Proofs.ConnIDP Proofs.MemP Proofs.RedisP
  Proofs.QueryP Proofs.HttpParseP Proofs.HttpWriteP.
From Chihaya Require Import Proofs.SwarmP Proofs.SpecP.
From Chihaya Require Import Model.Tracker.
Open Scope Z_scope.

Implicit Types (sp : spec) (a : ann) (p : peer).

Definition fam_of (v6 : bool) : family := if v6 then V6 else V4.

(* ------------------------------------------------------------------ 1. keys decode *)
Lemma decode_key_sane v6 p :
  sane_peer v6 p → decode_key (peer_key p) = Some (p, if v6 then V6 else V4).
Proof.
  intros (Hid & _ & Hport & _ & Hip).
  destruct (SourceIPP.registered_address_is_request_address p Hid Hport) as (af & Hd & Haf).
  { destruct v6; [right; exact Hip|left; exact Hip]. }
  rewrite Hd. destruct v6.
  - destruct Hip as [H16 _]. destruct af; [|done]. destruct Haf as [Haf _]. specialize (Haf eq_refl). lia.
  - destruct af; [done|]. destruct Haf as [_ Haf]. specialize (Haf Hip). done.
Qed.

Lemma key_ok_decode v6 pk : key_ok v6 pk → ∃ p, decode_key pk = Some (p, fam_of v6) ∧ sane_peer v6 p.
Proof. intros (p & -> & Hs). exists p. split; [apply decode_key_sane, Hs|exact Hs]. Qed.

(* ------------------------------------------------------------------ 2. the invariant *)
Lemma keys_ok_init : keys_ok spec_init.
Proof. intros ih v6 sw pk E. unfold spec_init in E. rewrite lookup_empty in E. done. Qed.

(* the invariant, swarm by swarm *)
Definition sw_ok (v6 : bool) (o : option swarm) : Prop :=
  ∀ sw pk, o = Some sw → (is_Some (seeders sw !! pk) ∨ is_Some (leechers sw !! pk)) → key_ok v6 pk.

Lemma keys_ok_sw sp : keys_ok sp ↔ ∀ ih v6, sw_ok v6 (sp !! (ih, v6)).
Proof.
  split.
  - intros H ih v6 sw pk E. apply (H ih v6 sw pk E).
  - intros H ih v6 sw pk E. apply (H ih v6 sw pk E).
Qed.

Lemma sw_ok_o_sw v6 o pk : sw_ok v6 o →
  (is_Some (seeders (o_sw o) !! pk) ∨ is_Some (leechers (o_sw o) !! pk)) → key_ok v6 pk.
Proof.
  intros H. destruct o as [sw|]; cbn.
  - apply (H sw pk eq_refl).
  - rewrite !lookup_empty. intros [[? ?]|[? ?]]; done.
Qed.

Lemma sw_ok_norm v6 sw : (∀ pk, is_Some (seeders sw !! pk) ∨ is_Some (leechers sw !! pk) → key_ok v6 pk) →
  sw_ok v6 (norm sw).
Proof.
  intros H sw' pk. unfold norm. destruct (swarm_empty sw); [done|]. intros [= <-]. apply H.
Qed.

Lemma sw_ok_put_seeder v6 pk t o : key_ok v6 pk → sw_ok v6 o → sw_ok v6 (g_put_seeder pk t o).
Proof.
  intros Hk Ho sw pk' [= <-]. cbn [seeders leechers].
  destruct (decide (pk' = pk)) as [->|Hne]; [done|]. rewrite lookup_insert_ne by done.
  apply sw_ok_o_sw, Ho.
Qed.
Lemma sw_ok_put_leecher v6 pk t o : key_ok v6 pk → sw_ok v6 o → sw_ok v6 (g_put_leecher pk t o).
Proof.
  intros Hk Ho sw pk' [= <-]. cbn [seeders leechers].
  destruct (decide (pk' = pk)) as [->|Hne]; [done|]. rewrite lookup_insert_ne by done.
  apply sw_ok_o_sw, Ho.
Qed.
Lemma sw_ok_graduate v6 pk t o : key_ok v6 pk → sw_ok v6 o → sw_ok v6 (g_graduate pk t o).
Proof.
  intros Hk Ho sw pk' [= <-]. cbn [seeders leechers].
  destruct (decide (pk' = pk)) as [->|Hne]; [done|].
  rewrite lookup_insert_ne, lookup_delete_ne by done.
  apply sw_ok_o_sw, Ho.
Qed.
Lemma sw_ok_del_seeder v6 pk o : sw_ok v6 o → sw_ok v6 (g_del_seeder pk o).
Proof.
  intros Ho. unfold g_del_seeder. destruct (has_seeder pk o); [|exact Ho].
  apply sw_ok_norm. intros pk'. cbn [seeders leechers]. intros Hm. apply (sw_ok_o_sw v6 o pk' Ho).
  destruct Hm as [Hm|Hm]; [left|right; exact Hm].
  destruct (decide (pk' = pk)) as [->|Hne]; [rewrite lookup_delete in Hm; destruct Hm; done|].
  rewrite lookup_delete_ne in Hm by done. exact Hm.
Qed.
Lemma sw_ok_del_leecher v6 pk o : sw_ok v6 o → sw_ok v6 (g_del_leecher pk o).
Proof.
  intros Ho. unfold g_del_leecher. destruct (has_leecher pk o); [|exact Ho].
  apply sw_ok_norm. intros pk'. cbn [seeders leechers]. intros Hm. apply (sw_ok_o_sw v6 o pk' Ho).
  destruct Hm as [Hm|Hm]; [left; exact Hm|right].
  destruct (decide (pk' = pk)) as [->|Hne]; [rewrite lookup_delete in Hm; destruct Hm; done|].
  rewrite lookup_delete_ne in Hm by done. exact Hm.
Qed.

Lemma fresh_is_Some (T : Z) (g : gmap (list Z) Z) (pk : list Z) : is_Some (fresh T g !! pk) → is_Some (g !! pk).
Proof.
  rewrite fresh_lookup. destruct (g !! pk); [eauto|]. intros [? ?]; done.
Qed.
Lemma sw_ok_expire v6 T o : sw_ok v6 o → sw_ok v6 (g_expire T o).
Proof.
  intros Ho. unfold g_expire. destruct o as [sw|]; cbn; [|done].
  apply sw_ok_norm. intros pk. cbn [sw_expire seeders leechers]. intros Hm.
  apply (Ho sw pk eq_refl). destruct Hm as [Hm|Hm]; [left|right]; eapply fresh_is_Some; exact Hm.
Qed.

Lemma a_key_ok a : sane_peer (a_v6 a) (a_peer a) → key_ok (a_v6 a) (a_key a).
Proof. intros H. exists (a_peer a). done. Qed.

Lemma sw_ok_announce a clock o :
  sane_peer (a_v6 a) (a_peer a) → sw_ok (a_v6 a) o → sw_ok (a_v6 a) (g_announce a clock o).
Proof.
  intros Hs Ho. apply a_key_ok in Hs. unfold g_announce. destruct (a_event a).
  1,2: destruct (a_left a =? 0); [apply sw_ok_put_seeder|apply sw_ok_put_leecher]; done.
  - apply sw_ok_del_leecher, sw_ok_del_seeder, Ho.
  - apply sw_ok_graduate; done.
Qed.

Theorem keys_ok_announce a clock sp :
  keys_ok sp → sane_peer (a_v6 a) (a_peer a) → keys_ok (swarm_interaction spec_if a clock sp).
Proof.
  intros Hk Hs. apply keys_ok_sw. intros ih v6. rewrite announce_lookup.
  destruct (decide _) as [[= -> ->]|Hne].
  - apply sw_ok_announce; [exact Hs|]. apply keys_ok_sw, Hk.
  - apply keys_ok_sw, Hk.
Qed.

Theorem keys_ok_gc T sp : keys_ok sp → keys_ok (sm_gc T sp).
Proof.
  intros Hk. apply keys_ok_sw. intros ih v6. rewrite sm_gc_lookup. apply sw_ok_expire, keys_ok_sw, Hk.
Qed.

(* every store reachable by sane operations satisfies the invariant *)
Definition sop_sane (o : sop) : Prop :=
  match o with
  | SClock _ | SExpire _ | SDelSeeder _ _ _ | SDelLeecher _ _ _ => True
  | SAnnounce a => sane_peer (a_v6 a) (a_peer a)
  | SPutSeeder _ v6 pk | SPutLeecher _ v6 pk | SGraduate _ v6 pk => key_ok v6 pk
  end.

Lemma sapply_keys_ok x o : sop_sane o → keys_ok x.1 → keys_ok (sapply spec_if x o).1.
Proof.
  destruct x as [sp c]. cbn [fst]. intros Hs Hk. destruct o; cbn [sapply fst sop_sane] in *; try done.
  - apply keys_ok_announce; done.
  - apply keys_ok_sw. intros ih' v6'. cbn [st_put_seeder spec_if]. rewrite sm_put_seeder_lookup.
    destruct (decide _) as [[= -> ->]|]; [|apply keys_ok_sw, Hk]. apply sw_ok_put_seeder; [done|apply keys_ok_sw, Hk].
  - apply keys_ok_sw. intros ih' v6'. cbn [st_del_seeder spec_if].
    replace (match sm_del_seeder (ih, v6) pk sp with Some m' => (m', true) | None => (sp, false) end).1
      with (default sp (sm_del_seeder (ih, v6) pk sp)) by (destruct (sm_del_seeder (ih, v6) pk sp); done).
    rewrite sm_del_seeder_lookup.
    destruct (decide _) as [[= -> ->]|]; [|apply keys_ok_sw, Hk]. apply sw_ok_del_seeder, keys_ok_sw, Hk.
  - apply keys_ok_sw. intros ih' v6'. cbn [st_put_leecher spec_if]. rewrite sm_put_leecher_lookup.
    destruct (decide _) as [[= -> ->]|]; [|apply keys_ok_sw, Hk]. apply sw_ok_put_leecher; [done|apply keys_ok_sw, Hk].
  - apply keys_ok_sw. intros ih' v6'. cbn [st_del_leecher spec_if].
    replace (match sm_del_leecher (ih, v6) pk sp with Some m' => (m', true) | None => (sp, false) end).1
      with (default sp (sm_del_leecher (ih, v6) pk sp)) by (destruct (sm_del_leecher (ih, v6) pk sp); done).
    rewrite sm_del_leecher_lookup.
    destruct (decide _) as [[= -> ->]|]; [|apply keys_ok_sw, Hk]. apply sw_ok_del_leecher, keys_ok_sw, Hk.
  - apply keys_ok_sw. intros ih' v6'. cbn [st_graduate spec_if]. rewrite sm_graduate_lookup.
    destruct (decide _) as [[= -> ->]|]; [|apply keys_ok_sw, Hk]. apply sw_ok_graduate; [done|apply keys_ok_sw, Hk].
  - cbn [st_gc spec_if]. apply keys_ok_gc, Hk.
Qed.

Theorem run_spec_keys_ok ops : Forall sop_sane ops → keys_ok (run_spec ops).
Proof.
  unfold run_spec, srun.
  assert (G : ∀ x, Forall sop_sane ops → keys_ok x.1 → keys_ok (fold_left (sapply spec_if) ops x).1).
  { induction ops as [|o ops IH]; intros x Hs Hx; [done|]. apply Forall_cons in Hs as [Ho Hs].
    cbn [fold_left]. apply IH; [exact Hs|]. apply sapply_keys_ok; done. }
  intros Hs. apply G; [exact Hs|]. apply keys_ok_init.
Qed.

(* ------------------------------------------------------------------ 3. the response hook *)
Lemma select_ref_In S L ann seeder nw k :
  In k (select_ref S L ann seeder nw) → In k S ∨ In k L.
Proof.
  unfold select_ref, ztake. destruct seeder.
  - intros H. right. eapply In_firstn_in, H.
  - intros H. apply in_app_or in H as [H|H].
    + left. eapply In_firstn_in, H.
    + right. apply In_firstn_in in H. apply SelectP.kremove_In in H. tauto.
Qed.

Lemma decode_all_ok v6 ks :
  (∀ k, In k ks → key_ok v6 k) →
  ∃ ps, decode_all ks = Some ps ∧ length ps = length ks ∧ Forall (sane_peer v6) ps.
Proof.
  induction ks as [|k ks IH]; intros H.
  - exists []. done.
  - destruct IH as (ps & E & L & F); [intros k' Hk'; apply H; by right|].
    destruct (key_ok_decode v6 k) as (p & Ed & Hs); [apply H; by left|].
    exists (p :: ps). cbn [decode_all]. rewrite Ed, E. cbn [length]. split; [done|]. split; [lia|].
    constructor; done.
Qed.

Lemma key_lists_spec_ok sp ih v6 Sk Lk k :
  keys_ok sp → key_lists spec_if sp ih v6 = (Sk, Lk) → In k Sk ∨ In k Lk → key_ok v6 k.
Proof.
  intros Hk. unfold key_lists. cbn [st_members spec_if].
  destruct (sp !! (ih, v6)) as [sw|] eqn:E.
  - intros [= <- <-] Hin. apply (Hk ih v6 sw k E).
    destruct Hin as [Hin|Hin]; [left|right];
      apply elem_of_list_In, elem_of_list_fmap in Hin as ([k' t] & -> & Hin);
      apply elem_of_map_to_list in Hin; cbn; eauto.
  - intros [= <- <-] [[]|[]].
Qed.

Theorem respond_no_panic a sp :
  keys_ok sp → sane_peer (a_v6 a) (a_peer a) →
  ∃ c i ps, respond spec_if a sp = Some (c, i, ps) ∧ ps ≠ [] ∧ Forall (sane_peer (a_v6 a)) ps.
Proof.
  intros Hk Hs. unfold respond.
  destruct (st_scrape spec_if (a_ih a) (a_v6 a) sp) as [c i].
  destruct (key_lists spec_if sp (a_ih a) (a_v6 a)) as [Sk Lk] eqn:EK.
  destruct (decode_all_ok (a_v6 a) (select_ref Sk Lk (a_key a) (a_left a =? 0) (a_numwant a)))
    as (ps & -> & _ & F).
  { intros k Hin. apply select_ref_In in Hin. eapply key_lists_spec_ok; eauto. }
  destruct ps as [|p ps].
  - eexists _, _, _. split; [reflexivity|]. split; [done|]. constructor; [exact Hs|constructor].
  - eexists _, _, _. split; [reflexivity|]. split; [done|exact F].
Qed.

(* ------------------------------------------------------------------ 4. the request peer is sane *)
Definition v6_of (af : family) : bool := match af with V6 => true | V4 => false end.

Lemma to4_some_shape ip ip4 : to4 ip = Some ip4 → wf_bytes ip = true → length ip4 = 4%nat ∧ wf_bytes ip4 = true.
Proof.
  unfold to4. destruct (Nat.eqb_spec (length ip) 4) as [E|E].
  - intros [= <-] Hw. done.
  - destruct (Nat.eqb_spec (length ip) 16) as [E16|E16]; cbn [andb]; [|done].
    destruct (bytes_eqb _ _); [|done]. intros [= <-] Hw. split; [rewrite skipn_length; lia|].
    apply wf_bytes_skipn, Hw.
Qed.

Lemma sanitize_sane r mx df r' :
  sanitize_announce r mx df = inr r' →
  length (p_id (r_peer r)) = 20%nat → wf_bytes (p_id (r_peer r)) = true →
  0 <= p_port (r_peer r) < 65536 → wf_bytes (p_ip (r_peer r)) = true →
  sane_peer (v6_of (r_af r')) (r_peer r').
Proof.
  intros Hs Hid Hidw Hport Hipw. unfold sanitize_announce in Hs.
  destruct (p_port (r_peer r) =? 0); [done|].
  destruct (to4 (p_ip (r_peer r))) as [ip4|] eqn:E4.
  - injection Hs as <-. destruct (to4_some_shape _ _ E4 Hipw) as [L4 W4].
    unfold sane_peer. cbn. done.
  - destruct (Nat.eqb_spec (length (p_ip (r_peer r))) 16) as [E16|E16]; [|done].
    injection Hs as <-. unfold sane_peer. cbn. done.
Qed.

(* (SanitizeAnnounce itself rejects an address that is neither 4 nor 16 bytes long, so the
   length of the source address is not needed here) *)
Lemma udp_request_peer_sane_strong v6a o ip packet r q :
  UdpParse.parse_announce v6a o (Some ip) packet = UdpParse.Accept (r, q) →
  wf_bytes packet = true → wf_bytes ip = true →
  sane_peer (match r_af r with V6 => true | V4 => false end) (r_peer r).
Proof.
  intros H Hpw Hipw.
  destruct (Nat.ltb_spec (length packet) (UdpParse.ip_end v6a + 10)) as [C|C].
  { rewrite UdpParseP.udp_short_rejected in H by exact C. discriminate. }
  destruct (UdpParseP.parse_announce_total v6a o (Some ip) packet C) as (ev & _ & E). rewrite E in H. clear E.
  assert (E : (88 <= UdpParse.ip_end v6a <= 100)%nat) by (destruct v6a; cbn; lia).
  unfold UdpParse.announce_of_fields in H.
  destruct (_ <=? ev); [discriminate|].
  destruct (UdpParse.choose_ip o (Some ip) _) as [oip pr] eqn:Ec.
  destruct (negb (UdpParse.o_spoof o) && _); [discriminate|].
  destruct (UdpParse.handle_optional _) as [q'|e|]; try discriminate.
  destruct (nth_error UdpParse.event_ids (Z.to_nat ev)) as [e|]; [|discriminate].
  destruct (sanitize_announce _ _ _) as [e'|r'] eqn:S; [discriminate|].
  injection H as <- <-.
  apply sanitize_sane in S; [exact S|cbn [r_peer p_id p_ip p_port]..].
  - rewrite sub_length by lia. lia.
  - apply wf_bytes_sub, Hpw.
  - pose proof (be_dec_bounds (sub (UdpParse.ip_end v6a + 8) (UdpParse.ip_end v6a + 10) packet)) as B.
    rewrite sub_length in B by lia. specialize (B (wf_bytes_sub _ _ _ Hpw)).
    replace (UdpParse.ip_end v6a + 10 - (UdpParse.ip_end v6a + 8))%nat with 2%nat in B by lia.
    change (256 ^ Z.of_nat 2) with 65536 in B. exact B.
  - unfold UdpParse.choose_ip in Ec. destruct (_ && _); injection Ec as <- <-; [apply wf_bytes_sub, Hpw|exact Hipw].
Qed.

Theorem udp_request_peer_sane v6a o ip packet r q :
  UdpParse.parse_announce v6a o (Some ip) packet = UdpParse.Accept (r, q) →
  wf_bytes packet = true → wf_bytes ip = true → (length ip = 4 ∨ length ip = 16)%nat →
  sane_peer (match r_af r with V6 => true | V4 => false end) (r_peer r).
Proof. intros H Hpw Hipw _. eapply udp_request_peer_sane_strong; eauto. Qed.

(* the infohashes the UDP parsers hand to the logic are 20 well-formed bytes *)
Lemma udp_request_ih_wf v6a o src packet r q :
  UdpParse.parse_announce v6a o src packet = UdpParse.Accept (r, q) → wf_bytes packet = true → ih_wf (r_ih r).
Proof.
  intros H Hpw.
  destruct (Nat.ltb_spec (length packet) (UdpParse.ip_end v6a + 10)) as [C|C].
  { rewrite UdpParseP.udp_short_rejected in H by exact C. discriminate. }
  destruct (UdpParseP.parse_announce_total v6a o src packet C) as (ev & _ & E). rewrite E in H. clear E.
  assert (E : (88 <= UdpParse.ip_end v6a <= 100)%nat) by (destruct v6a; cbn; lia).
  unfold UdpParse.announce_of_fields in H.
  destruct (_ <=? ev); [discriminate|].
  destruct (UdpParse.choose_ip o src _) as [oip pr].
  destruct (negb (UdpParse.o_spoof o) && _); [discriminate|].
  destruct (UdpParse.handle_optional _) as [q'|e|]; try discriminate.
  destruct (nth_error UdpParse.event_ids (Z.to_nat ev)) as [e|]; [|discriminate].
  destruct (sanitize_announce _ _ _) as [e'|r'] eqn:S; [discriminate|].
  injection H as <- <-. apply UdpParseP.sanitize_keeps in S as (_ & -> & _). cbn [r_ih].
  split; [rewrite sub_length by lia; lia|apply wf_bytes_sub, Hpw].
Qed.

Lemma chunks20_wf k : ∀ b, (20 * k <= length b)%nat → wf_bytes b = true → Forall ih_wf (UdpParse.chunks20 k b).
Proof.
  induction k as [|k IH]; intros b L Hw; cbn [UdpParse.chunks20]; constructor.
  - split; [rewrite firstn_length; lia|apply wf_bytes_firstn, Hw].
  - apply IH; [rewrite skipn_length; lia|apply wf_bytes_skipn, Hw].
Qed.

Lemma udp_scrape_ihs_wf o packet ihs :
  UdpParse.parse_scrape o packet = UdpParse.Accept ihs → wf_bytes packet = true → Forall ih_wf ihs.
Proof.
  unfold UdpParse.parse_scrape. destruct (Nat.ltb_spec (length packet) 36) as [C|C]; [done|].
  rewrite slice_some by lia. destruct (negb _); [done|]. intros [= <-] Hw.
  assert (F : Forall ih_wf (UdpParse.chunks20 (length (sub 16 (length packet) packet) / 20) (sub 16 (length packet) packet))).
  { apply chunks20_wf; [|apply wf_bytes_sub, Hw]. apply Nat.mul_div_le. lia. }
  unfold sanitize_scrape. destruct (_ >? _); [apply Forall_take, F|exact F].
Qed.

(* ------------------------------------------------------------------ 5. UDP: the headline *)
Lemma ip_family_some ip : (length ip = 4 ∨ length ip = 16)%nat → ∃ af, ConnID.ip_family ip = Some af.
Proof.
  intros [H|H]; unfold ConnID.ip_family, to4; rewrite H; cbn [Nat.eqb andb].
  - eauto.
  - destruct (bytes_eqb _ _); eauto.
Qed.

Lemma handle_udp_no_panic mac k skew now o ip packet :
  (length ip = 4 ∨ length ip = 16)%nat → UdpParse.handle_udp mac k skew now o ip packet ≠ UdpParse.UPanic.
Proof.
  intros Hip. destruct (ip_family_some ip Hip) as (af & Haf).
  unfold UdpParse.handle_udp.
  destruct (ConnID.dispatch_request mac k skew now ip packet) as [|d| |act txid] eqn:D; try done.
  - unfold ConnID.dispatch_request in D. rewrite Haf in D.
    repeat match type of D with (if ?c then _ else _) = _ => destruct c end; done.
  - destruct (act =? UdpWrite.act_scrape).
    + pose proof (UdpParseP.parse_scrape_no_panic o packet) as N.
      destruct (UdpParse.parse_scrape o packet); [|done|done]. rewrite Haf. done.
    + pose proof (UdpParseP.parse_announce_no_panic (act =? UdpWrite.act_announce_v6) o (Some ip) packet) as N.
      destruct (UdpParse.parse_announce _ o (Some ip) packet) as [[r q]|e|]; done.
Qed.

Theorem udp_step_no_panic mac t u sp clock ip packet :
  keys_ok sp → wf_bytes packet = true → wf_bytes ip = true → (length ip = 4 ∨ length ip = 16)%nat →
  ∃ sp' out, udp_step spec_if mac t u sp clock ip packet = Some (sp', out) ∧ keys_ok sp' ∧ (length out <= 1)%nat.
Proof.
  intros Hk Hpw Hipw Hip. unfold udp_step.
  pose proof (handle_udp_no_panic mac (uc_key u) (uc_skew u) clock (uc_opts u) ip packet Hip) as NP.
  destruct (UdpParse.handle_udp _ _ _ _ _ _ _) as [|d| |txid v6a r q|txid af ihs] eqn:E; [| |done| |].
  - exists sp, []. cbn. auto.
  - exists sp, [d]. cbn. auto.
  - apply UdpParseP.udp_logic_only_after_parse in E.
    pose proof (udp_request_peer_sane _ _ _ _ _ _ E Hpw Hipw Hip) as Hs.
    destruct (respond_no_panic (ann_of_areq r) sp Hk Hs) as (c & i & ps & -> & _ & _).
    eexists _, _. split; [reflexivity|]. split; [|cbn; lia].
    apply keys_ok_announce; [exact Hk|exact Hs].
  - eexists _, _. split; [reflexivity|]. split; [exact Hk|cbn; lia].
Qed.

(* a history of datagrams: (clock, source address, datagram); the store and every response *)
Definition udp_req_wf (x : Z * list Z * list Z) : Prop :=
  let '(_, ip, packet) := x in
  wf_bytes packet = true ∧ wf_bytes ip = true ∧ (length ip = 4 ∨ length ip = 16)%nat.

Definition udp_run_step (mac : list Z → list Z → list Z) (t : tcfg) (u : ucfg)
           (acc : option (spec * list (list (list Z)))) (x : Z * list Z * list Z) :=
  match acc with
  | None => None
  | Some (sp, outs) =>
    let '(clock, ip, packet) := x in
    match udp_step spec_if mac t u sp clock ip packet with
    | None => None
    | Some (sp', out) => Some (sp', outs ++ [out])
    end
  end.

Definition udp_run (mac : list Z → list Z → list Z) (t : tcfg) (u : ucfg)
           (init : spec) (reqs : list (Z * list Z * list Z)) : option (spec * list (list (list Z))) :=
  fold_left (udp_run_step mac t u) reqs (Some (init, [])).

Lemma udp_run_no_panic_from mac t u reqs : ∀ sp outs,
  keys_ok sp → Forall udp_req_wf reqs → Forall (λ out, (length out <= 1)%nat) outs →
  ∃ sp' outs',
    fold_left (udp_run_step mac t u) reqs (Some (sp, outs)) = Some (sp', outs') ∧
    keys_ok sp' ∧ length outs' = (length outs + length reqs)%nat ∧
    Forall (λ out, (length out <= 1)%nat) outs'.
Proof.
  induction reqs as [|[[clock ip] packet] reqs IH]; intros sp outs Hk Hw Ho.
  - exists sp, outs. cbn. split; [done|]. split; [done|]. split; [lia|done].
  - apply Forall_cons in Hw as [(Hpw & Hipw & Hip) Hw']. cbn [fold_left udp_run_step].
    destruct (udp_step_no_panic mac t u sp clock ip packet Hk Hpw Hipw Hip) as (sp1 & out & -> & Hk1 & L1).
    destruct (IH sp1 (outs ++ [out]) Hk1 Hw') as (sp' & outs' & -> & Hk' & L' & F').
    { apply Forall_app. split; [exact Ho|]. constructor; [exact L1|constructor]. }
    exists sp', outs'. split; [done|]. split; [done|].
    rewrite app_length in L'. cbn [length] in L' |- *. split; [lia|exact F'].
Qed.

(* every history of datagrams, from the empty store: no step panics, one entry of at most
   one datagram per request, and the invariant holds at the end *)
Theorem udp_history_no_panic mac t u (reqs : list (Z * list Z * list Z)) :
  Forall udp_req_wf reqs →
  ∃ sp outs, udp_run mac t u spec_init reqs = Some (sp, outs) ∧ keys_ok sp ∧
             length outs = length reqs ∧ Forall (λ out, (length out <= 1)%nat) outs.
Proof.
  intros Hw. destruct (udp_run_no_panic_from mac t u reqs spec_init [] keys_ok_init Hw) as (sp & outs & E & Hk & L & F).
  { constructor. }
  exists sp, outs. done.
Qed.

(* ------------------------------------------------------------------ 7. exactly one response *)
(* a datagram that carries a valid connection ID and parses (the dispatcher and the parser
   hand it to the logic) is answered by exactly one datagram *)
Theorem udp_wellformed_one_response mac t u sp clock ip packet :
  keys_ok sp → wf_bytes packet = true → wf_bytes ip = true → (length ip = 4 ∨ length ip = 16)%nat →
  (∃ txid v6a r q, UdpParse.handle_udp mac (uc_key u) (uc_skew u) clock (uc_opts u) ip packet
                   = UdpParse.UAnnounce txid v6a r q) ∨
  (∃ txid af ihs, UdpParse.handle_udp mac (uc_key u) (uc_skew u) clock (uc_opts u) ip packet
                  = UdpParse.UScrape txid af ihs) →
  ∃ sp' d, udp_step spec_if mac t u sp clock ip packet = Some (sp', [d]) ∧ keys_ok sp'.
Proof.
  intros Hk Hpw Hipw Hip [(txid & v6a & r & q & E)|(txid & af & ihs & E)]; unfold udp_step; rewrite E.
  - apply UdpParseP.udp_logic_only_after_parse in E.
    pose proof (udp_request_peer_sane _ _ _ _ _ _ E Hpw Hipw Hip) as Hs.
    destruct (respond_no_panic (ann_of_areq r) sp Hk Hs) as (c & i & ps & -> & _ & _).
    eexists _, _. split; [reflexivity|]. apply keys_ok_announce; [exact Hk|exact Hs].
  - eexists _, _. split; [reflexivity|exact Hk].
Qed.

(* ------------------------------------------------------------------ 8. transfer to the real stores *)
Section Transfer.
  Context {S : Type} (I : store_if S).

  Lemma respond_observe_at a (st : S) sp :
    observe I st (a_ih a) (a_v6 a) = observe spec_if sp (a_ih a) (a_v6 a) →
    respond I a st = respond spec_if a sp.
  Proof.
    unfold observe. intros [= Hs Hm]. unfold respond, key_lists. rewrite Hs, Hm. done.
  Qed.

  Lemma respond_observe a (st : S) sp :
    (∀ ih v6, observe I st ih v6 = observe spec_if sp ih v6) → respond I a st = respond spec_if a sp.
  Proof. intros H. apply respond_observe_at, H. Qed.

  Lemma udp_scrape_datagram_observe txid v6 ihs (st : S) sp :
    (∀ ih, In ih ihs → observe I st ih v6 = observe spec_if sp ih v6) →
    udp_scrape_datagram I txid v6 ihs st = udp_scrape_datagram spec_if txid v6 ihs sp.
  Proof.
    intros H. unfold udp_scrape_datagram. f_equal. apply map_ext_in. intros ih Hin.
    specialize (H ih Hin). unfold observe in H. injection H as Hs _. rewrite Hs. done.
  Qed.

  (* the datagrams sent depend on the store only through what can be observed of it *)
  Lemma udp_step_observe mac t u (st : S) sp clock ip packet :
    (∀ ih v6, observe I st ih v6 = observe spec_if sp ih v6) →
    option_map snd (udp_step I mac t u st clock ip packet) =
    option_map snd (udp_step spec_if mac t u sp clock ip packet).
  Proof.
    intros H. unfold udp_step.
    destruct (UdpParse.handle_udp _ _ _ _ _ _ _) as [|d| |txid v6a r q|txid af ihs]; try done.
    - rewrite (respond_observe _ st sp H).
      destruct (respond spec_if (ann_of_areq r) sp) as [[[c i] ps]|]; done.
    - cbn [option_map snd]. rewrite (udp_scrape_datagram_observe _ _ _ st sp); [done|]. intros ih _. apply H.
  Qed.
End Transfer.

(* the memory store (any shard count) answers every datagram exactly as the specification *)
Corollary udp_step_mem_spec n ops mac t u clock ip packet : (0 < n)%nat →
  option_map snd (udp_step (mem_if n) mac t u (run_mem n ops) clock ip packet) =
  option_map snd (udp_step spec_if mac t u (run_spec ops) clock ip packet).
Proof. intros Hn. apply udp_step_observe. intros ih v6. apply MemP.mem_refines_spec, Hn. Qed.

(* ------------------------------------------------------------------ 4b. HTTP: the request peer is sane *)
(* bytes stay bytes through url.QueryUnescape and the query splitter *)
Lemma unhex_range c : 0 <= Query.unhex c < 16.
Proof.
  unfold Query.unhex.
  destruct ((48 <=? c) && (c <=? 57)) eqn:E1; [lia|].
  destruct ((97 <=? c) && (c <=? 102)) eqn:E2; [lia|].
  destruct ((65 <=? c) && (c <=? 70)) eqn:E3; lia.
Qed.

Lemma wf_bytes_cons x l : wf_bytes (x :: l) = true ↔ 0 <= x < 256 ∧ wf_bytes l = true.
Proof. cbn [wf_bytes forallb]. fold (wf_bytes l). rewrite andb_true_iff, is_byte_iff. done. Qed.

Lemma unescape_wf s : ∀ s', Query.unescape s = Some s' → wf_bytes s = true → wf_bytes s' = true.
Proof.
  induction s as [s IH] using (induction_ltof1 _ (@length Z)); unfold ltof in IH. intros s' H Hw.
  destruct s as [|c r]; cbn [Query.unescape] in H; [by injection H as <-|].
  apply wf_bytes_cons in Hw as [Hc Hr].
  destruct (c =? 37).
  - destruct r as [|x [|y r']]; try done.
    destruct (Query.is_hex x && Query.is_hex y); [|done].
    apply wf_bytes_cons in Hr as [_ Hr]. apply wf_bytes_cons in Hr as [_ Hr].
    destruct (Query.unescape r') as [t|] eqn:E; [|done]. injection H as <-.
    apply wf_bytes_cons. split.
    + pose proof (unhex_range x). pose proof (unhex_range y). lia.
    + apply (IH r'); [cbn [length]; lia|done|done].
  - destruct (Query.unescape r) as [t|] eqn:E; [|done]. injection H as <-.
    apply wf_bytes_cons. split.
    + destruct (c =? 43); lia.
    + apply (IH r); [cbn [length]; lia|done|done].
Qed.

Lemma cut_at_wf c s (pre : list Z) (post : option (list Z)) : Query.cut_at c s = (pre, post) → wf_bytes s = true →
  wf_bytes pre = true ∧ wf_bytes (default [] post) = true.
Proof.
  revert pre post. induction s as [|x s IH]; intros pre post H Hw; cbn [Query.cut_at] in H.
  - by injection H as <- <-.
  - apply wf_bytes_cons in Hw as [Hx Hs]. destruct (x =? c).
    + injection H as <- <-. done.
    + destruct (Query.cut_at c s) as [pre' post'] eqn:E. injection H as <- <-.
      destruct (IH pre' post' eq_refl Hs) as [Ha Hb]. split; [|done]. apply wf_bytes_cons. done.
Qed.

Lemma split_on_wf sep s : ∀ cur, wf_bytes s = true → wf_bytes cur = true →
  Forall (λ seg, wf_bytes seg = true) (Query.split_on sep s cur).
Proof.
  assert (R : ∀ l, wf_bytes l = true → wf_bytes (rev l) = true).
  { intros l. rewrite !wf_bytes_forall. apply Forall_rev. }
  induction s as [|x s IH]; intros cur Hw Hc; cbn [Query.split_on].
  - constructor; [apply R, Hc|constructor].
  - apply wf_bytes_cons in Hw as [Hx Hs]. destruct (sep x).
    + constructor; [apply R, Hc|]. apply IH; done.
    + apply IH; [done|]. apply wf_bytes_cons. done.
Qed.

Definition acc_wf (acc : list (list Z * list Z) * list (list Z)) : Prop :=
  Forall (λ kv, wf_bytes kv.2 = true) acc.1 ∧ Forall (λ ih, wf_bytes ih = true) acc.2.

Lemma parse_segment_wf seg acc acc' :
  Query.parse_segment seg acc = inr acc' → wf_bytes seg = true → acc_wf acc → acc_wf acc'.
Proof.
  unfold Query.parse_segment. destruct seg as [|c s]; [by intros [= <-]|].
  destruct (Query.cut_at 61 (c :: s)) as [k v] eqn:EC. intros H Hw [Ha1 Ha2].
  destruct (cut_at_wf _ _ _ _ EC Hw) as [Hk Hv].
  destruct (Query.unescape k) as [k'|] eqn:Ek; [|done].
  destruct (Query.unescape (match v with Some v0 => v0 | None => [] end)) as [v'|] eqn:Ev; [|done].
  assert (Hv' : wf_bytes v' = true).
  { eapply unescape_wf; [exact Ev|]. destruct v; exact Hv. }
  destruct (bytes_eqb k' Query.info_hash_key).
  - destruct (Nat.eqb (length v') 20); [|done]. injection H as <-. split; cbn [fst snd]; [done|].
    apply Forall_app. split; [done|]. constructor; [done|constructor].
  - injection H as <-. split; cbn [fst snd]; [|done]. constructor; done.
Qed.

Lemma parse_segments_wf segs : ∀ acc acc',
  Query.parse_segments segs acc = inr acc' → Forall (λ seg, wf_bytes seg = true) segs → acc_wf acc → acc_wf acc'.
Proof.
  induction segs as [|s segs IH]; intros acc acc' H Hw Ha; cbn [Query.parse_segments] in H.
  - by injection H as <-.
  - apply Forall_cons in Hw as [Hs Hw].
    destruct (Query.parse_segment s acc) as [e|acc1] eqn:E; [done|].
    eapply IH; [exact H|exact Hw|]. eapply parse_segment_wf; eauto.
Qed.

Lemma parse_url_data_wf uri q : Query.parse_url_data uri = inr q → wf_bytes uri = true →
  Forall (λ kv, wf_bytes kv.2 = true) (Query.q_params q) ∧ Forall (λ ih, wf_bytes ih = true) (Query.q_ihs q).
Proof.
  unfold Query.parse_url_data. destruct (Query.cut_at 63 uri) as [path qq] eqn:EC. intros H Hw.
  destruct (cut_at_wf _ _ _ _ EC Hw) as [_ Hq].
  unfold Query.parse_query in H.
  destruct (Query.parse_segments _ _) as [e|[ps ihs]] eqn:E; [done|]. injection H as <-. cbn [Query.q_params Query.q_ihs].
  apply (parse_segments_wf _ _ _ E).
  - apply split_on_wf; [destruct qq; exact Hq|done].
  - split; constructor.
Qed.

Lemma q_string_wf q name s : Forall (λ kv, wf_bytes kv.2 = true) (Query.q_params q) →
  Query.q_string q name = Some s → wf_bytes s = true.
Proof.
  intros F H. unfold Query.q_string in H. apply QueryP.q_lookup_some_in in H.
  rewrite Forall_forall in F. apply elem_of_list_In in H. apply (F _ H).
Qed.

Section HttpSane.
  Variable parse_ip : list Z → option (list Z).
  Variable header_get split_host : list Z → list Z.
  (* what the handlers need of net.ParseIP: it returns a byte slice *)
  Hypothesis parse_ip_wf : ∀ s ip, parse_ip s = Some ip → wf_bytes ip = true.

  Lemma http_request_peer_sane_wf o uri remote r q :
    HttpParse.parse_announce parse_ip header_get split_host o uri remote = HttpParse.Accept (r, q) →
    wf_bytes uri = true →
    sane_peer (match r_af r with V6 => true | V4 => false end) (r_peer r).
  Proof.
    intros H Hw. unfold HttpParse.parse_announce in H.
    destruct (Query.parse_url_data uri) as [e|q'] eqn:EU; [done|].
    destruct (HttpParse.announce_of_params _ _ _ o q' remote) as [r'| |] eqn:EA; try done.
    injection H as <- <-.
    destruct (parse_url_data_wf _ _ EU Hw) as [Hps _].
    apply HttpParseP.announce_of_params_accept in EA
      as (event & ih & pid & nleft & dl & ul & nw & port & ip & ipp & CK & ES).
    destruct CK as (_ & _ & Hpid & Hlen & _ & _ & _ & _ & _ & Hport & Hip).
    apply sanitize_sane in ES; [exact ES|unfold HttpParseP.raw_req; cbn [r_peer p_id p_ip p_port]..].
    - exact Hlen.
    - eapply q_string_wf; eauto.
    - unfold HttpParse.q_uint in Hport. destruct (Query.q_string q' HttpParse.k_port) as [s|]; [|done].
      destruct (Decimal.parse_uint 16 s) as [v|] eqn:EP; [|done]. injection Hport as <-.
      apply Decimal.parse_uint_some in EP as (_ & _ & R). change (2 ^ 16) with 65536 in R. exact R.
    - unfold HttpParse.requested_ip in Hip.
      destruct (HttpParse.ip_source _ _ o q' remote) as [s pr]. injection Hip as Hp _.
      eapply parse_ip_wf, Hp.
  Qed.
End HttpSane.

Theorem http_request_peer_sane parse_ip header_get split_host o uri remote r q :
  (∀ s ip, parse_ip s = Some ip → wf_bytes ip = true ∧ (length ip = 4 ∨ length ip = 16)%nat) →
  HttpParse.parse_announce parse_ip header_get split_host o uri remote = HttpParse.Accept (r, q) →
  wf_bytes uri = true →
  sane_peer (match r_af r with V6 => true | V4 => false end) (r_peer r).
Proof.
  intros Ho. apply http_request_peer_sane_wf. intros s ip Hp. apply (Ho s ip Hp).
Qed.

(* ------------------------------------------------------------------ 6. HTTP *)
Lemma compact4_sane ps : Forall (sane_peer false) ps → ∃ c, HttpWrite.compact_all HttpWrite.compact4 ps = Some c.
Proof.
  induction ps as [|p ps IH]; intros F; [by exists []|].
  apply Forall_cons in F as [(_ & _ & _ & _ & L4) F]. destruct (IH F) as (c & E).
  cbn [HttpWrite.compact_all]. unfold HttpWrite.compact4 at 1. rewrite (HttpParseP.to4_of_4 _ L4), E. eauto.
Qed.
Lemma compact6_sane ps : Forall (sane_peer true) ps → ∃ c, HttpWrite.compact_all HttpWrite.compact6 ps = Some c.
Proof.
  induction ps as [|p ps IH]; intros F; [by exists []|].
  apply Forall_cons in F as [(_ & _ & _ & _ & L16 & _) F]. destruct (IH F) as (c & E).
  cbn [HttpWrite.compact_all]. unfold HttpWrite.compact6 at 1, to16. rewrite L16, E. cbn. eauto.
Qed.

Lemma http_announce_value_sane t compact a c i ps :
  Forall (sane_peer (a_v6 a)) ps → ∃ v, http_announce_value t compact a c i ps = Some v.
Proof.
  intros F. unfold http_announce_value, HttpWrite.announce_value.
  cbn [HttpWrite.a_compact HttpWrite.a_v4 HttpWrite.a_v6].
  destruct compact; [|eauto]. destruct (a_v6 a).
  - destruct (compact6_sane ps F) as (c6 & ->). cbn. eauto.
  - destruct (compact4_sane ps F) as (c4 & ->). cbn. eauto.
Qed.

Section HttpStep.
  Variable parse_ip : list Z → option (list Z).
  Variable header_get split_host : list Z → list Z.
  Hypothesis parse_ip_wf : ∀ s ip, parse_ip s = Some ip → wf_bytes ip = true.

  Lemma http_announce_no_panic_wf t o sp clock uri remote :
    keys_ok sp → wf_bytes uri = true →
    ∃ sp' v, http_announce_step spec_if parse_ip header_get split_host t o sp clock uri remote = (sp', HBody v) ∧
             keys_ok sp'.
  Proof.
    intros Hk Hw. unfold http_announce_step.
    destruct (HttpParseP.parse_announce_total parse_ip header_get split_host o uri remote) as [[[r q] E]|[msg E]];
      rewrite E.
    - pose proof (http_request_peer_sane_wf _ _ _ parse_ip_wf _ _ _ _ _ E Hw) as Hs.
      destruct (respond_no_panic (ann_of_areq r) sp Hk Hs) as (c & i & ps & -> & _ & F).
      destruct (http_announce_value_sane t (r_compact r) (ann_of_areq r) c i ps F) as (v & ->).
      eexists _, _. split; [reflexivity|]. apply keys_ok_announce; [exact Hk|exact Hs].
    - eexists _, _. split; [reflexivity|exact Hk].
  Qed.

  (* the scrape route reads the store only; no hypothesis at all *)
  Lemma http_scrape_no_panic_any {S : Type} (I : store_if S) split_ok o (st : S) uri remote :
    ∃ v, http_scrape_step I parse_ip split_host split_ok o st uri remote = HBody v.
  Proof.
    unfold http_scrape_step.
    destruct (HttpParseP.parse_scrape_total o uri) as [[[ihs q] E]|[msg E]]; rewrite E; [|eauto].
    unfold HttpParse.scrape_route_af. destruct (negb split_ok); [eauto|].
    destruct (parse_ip (split_host remote)) as [ip|]; [|eauto].
    destruct (to4 ip); [eauto|]. destruct (Nat.eqb (length ip) 16); eauto.
  Qed.
End HttpStep.

Theorem http_announce_no_panic parse_ip header_get split_host t o sp clock uri remote :
  (∀ s ip, parse_ip s = Some ip → wf_bytes ip = true ∧ (length ip = 4 ∨ length ip = 16)%nat) →
  keys_ok sp → wf_bytes uri = true →
  ∃ sp' v, http_announce_step spec_if parse_ip header_get split_host t o sp clock uri remote = (sp', HBody v) ∧
           keys_ok sp'.
Proof.
  intros Ho. apply http_announce_no_panic_wf. intros s ip Hp. apply (Ho s ip Hp).
Qed.

Corollary http_announce_not_HPanic parse_ip header_get split_host t o sp clock uri remote :
  (∀ s ip, parse_ip s = Some ip → wf_bytes ip = true ∧ (length ip = 4 ∨ length ip = 16)%nat) →
  keys_ok sp → wf_bytes uri = true →
  (http_announce_step spec_if parse_ip header_get split_host t o sp clock uri remote).2 ≠ HPanic ∧
  keys_ok (http_announce_step spec_if parse_ip header_get split_host t o sp clock uri remote).1.
Proof.
  intros Ho Hk Hw.
  destruct (http_announce_no_panic parse_ip header_get split_host t o sp clock uri remote Ho Hk Hw) as (sp' & v & -> & Hk').
  done.
Qed.

Theorem http_scrape_no_panic parse_ip split_host split_ok o sp uri remote :
  http_scrape_step spec_if parse_ip split_host split_ok o sp uri remote ≠ HPanic.
Proof.
  destruct (http_scrape_no_panic_any parse_ip split_host spec_if split_ok o sp uri remote) as (v & ->). done.
Qed.

(* ------------------------------------------------------------------ 8b. whole histories on the real memory store *)
Section RunOn.
  Context {S : Type} (I : store_if S).
  Definition udp_run_step_on (mac : list Z → list Z → list Z) (t : tcfg) (u : ucfg)
             (acc : option (S * list (list (list Z)))) (x : Z * list Z * list Z) :=
    match acc with
    | None => None
    | Some (st, outs) =>
      let '(clock, ip, packet) := x in
      match udp_step I mac t u st clock ip packet with
      | None => None
      | Some (st', out) => Some (st', outs ++ [out])
      end
    end.
  Definition udp_run_on (mac : list Z → list Z → list Z) (t : tcfg) (u : ucfg)
             (init : S) (reqs : list (Z * list Z * list Z)) : option (S * list (list (list Z))) :=
    fold_left (udp_run_step_on mac t u) reqs (Some (init, [])).

  (* the store operation a datagram amounts to *)
  Definition udp_ops (mac : list Z → list Z → list Z) (u : ucfg) (clock : Z) (ip packet : list Z) : list sop :=
    match UdpParse.handle_udp mac (uc_key u) (uc_skew u) clock (uc_opts u) ip packet with
    | UdpParse.UAnnounce _ _ r _ => [SClock clock; SAnnounce (ann_of_areq r)]
    | _ => []
    end.

  Lemma udp_step_state mac t u (st st' : S) clock ip packet out c0 :
    udp_step I mac t u st clock ip packet = Some (st', out) →
    st' = (fold_left (sapply I) (udp_ops mac u clock ip packet) (st, c0)).1.
  Proof.
    unfold udp_step, udp_ops.
    destruct (UdpParse.handle_udp _ _ _ _ _ _ _) as [|d| |txid v6a r q|txid af ihs]; try (by intros [= <- _]); try done.
    destruct (respond I (ann_of_areq r) st) as [[[c i] ps]|]; [|done]. by intros [= <- _].
  Qed.
End RunOn.

Lemma udp_run_is_on mac t u init reqs : udp_run mac t u init reqs = udp_run_on spec_if mac t u init reqs.
Proof. reflexivity. Qed.

Lemma srun_app {S : Type} (I : store_if S) init ops ops' :
  srun I init (ops ++ ops') = fold_left (sapply I) ops' (srun I init ops).
Proof. unfold srun. apply fold_left_app. Qed.

Lemma udp_ops_sane mac u clock ip packet :
  wf_bytes packet = true → wf_bytes ip = true →
  Forall sop_sane (udp_ops mac u clock ip packet) ∧ Forall sop_wf (udp_ops mac u clock ip packet).
Proof.
  intros Hpw Hipw. unfold udp_ops.
  destruct (UdpParse.handle_udp _ _ _ _ _ _ _) as [|d| |txid v6a r q|txid af ihs] eqn:E;
    try (by split; constructor).
  apply UdpParseP.udp_logic_only_after_parse in E. split.
  - constructor; [done|]. constructor; [|constructor].
    cbn [sop_sane]. eapply udp_request_peer_sane_strong; eauto.
  - constructor; [done|]. constructor; [|constructor].
    cbn [sop_wf ann_of_areq a_ih]. eapply udp_request_ih_wf; eauto.
Qed.

(* the datagrams sent depend on the store only through what can be observed of it at
   well-formed infohashes - all the UDP parsers ever produce *)
Lemma udp_step_observe_wf {S : Type} (I : store_if S) mac t u (st : S) sp clock ip packet :
  wf_bytes packet = true →
  (∀ ih v6, ih_wf ih → observe I st ih v6 = observe spec_if sp ih v6) →
  option_map snd (udp_step I mac t u st clock ip packet) =
  option_map snd (udp_step spec_if mac t u sp clock ip packet).
Proof.
  intros Hpw H. unfold udp_step.
  destruct (UdpParse.handle_udp _ _ _ _ _ _ _) as [|d| |txid v6a r q|txid af ihs] eqn:E; try done.
  - apply UdpParseP.udp_logic_only_after_parse in E.
    rewrite (respond_observe_at I (ann_of_areq r) st sp).
    + destruct (respond spec_if (ann_of_areq r) sp) as [[[c i] ps]|]; done.
    + apply H. cbn [ann_of_areq a_ih]. eapply udp_request_ih_wf; eauto.
  - cbn [option_map snd]. rewrite (udp_scrape_datagram_observe I _ _ _ st sp); [done|].
    intros ih Hin. apply H.
    assert (F : Forall ih_wf ihs).
    { unfold UdpParse.handle_udp in E. destruct (ConnID.dispatch_request _ _ _ _ _ _) as [|d| |act tx]; try done.
      destruct (act =? UdpWrite.act_scrape).
      - destruct (UdpParse.parse_scrape (uc_opts u) packet) as [l|e|] eqn:EP; try done.
        destruct (ConnID.ip_family ip); [|done]. injection E as _ _ <-. eapply udp_scrape_ihs_wf; eauto.
      - destruct (UdpParse.parse_announce _ _ _ _) as [[r q]|e|]; done. }
    rewrite Forall_forall in F. apply F, elem_of_list_In, Hin.
Qed.

(* any store that refines the specification on well-formed histories serves every history
   of datagrams without a panic, with exactly the datagrams the specification sends *)
Section StoreHistory.
  Context {S : Type} (I : store_if S) (init : S).
  Hypothesis refines : ∀ ops, Forall sop_wf ops → ∀ ih v6, ih_wf ih →
    observe I (srun I init ops).1 ih v6 = observe spec_if (run_spec ops) ih v6.

  Theorem udp_history_store_no_panic mac t u (reqs : list (Z * list Z * list Z)) :
    Forall udp_req_wf reqs →
    ∃ st sp outs ops,
      udp_run_on I mac t u init reqs = Some (st, outs) ∧
      udp_run mac t u spec_init reqs = Some (sp, outs) ∧
      st = (srun I init ops).1 ∧ sp = run_spec ops ∧ keys_ok sp ∧
      length outs = length reqs ∧ Forall (λ out, (length out <= 1)%nat) outs.
  Proof.
    intros Hw.
    destruct (udp_history_no_panic mac t u reqs Hw) as (sp0 & outs0 & E0 & _ & L0 & F0).
    unfold udp_run, udp_run_on in *.
    assert (G : ∀ ops outs, Forall sop_sane ops → Forall sop_wf ops →
      ∃ st sp outs' ops',
        fold_left (udp_run_step_on I mac t u) reqs (Some ((srun I init ops).1, outs)) = Some (st, outs') ∧
        fold_left (udp_run_step mac t u) reqs (Some (run_spec ops, outs)) = Some (sp, outs') ∧
        st = (srun I init ops').1 ∧ sp = run_spec ops' ∧ keys_ok sp).
    { clear E0 L0 F0. induction reqs as [|[[clock ip] packet] reqs IH]; intros ops outs Hs Hwf.
      - exists (srun I init ops).1, (run_spec ops), outs, ops. cbn. repeat split; try done. by apply run_spec_keys_ok.
      - apply Forall_cons in Hw as [(Hpw & Hipw & Hip) Hw']. cbn [fold_left udp_run_step udp_run_step_on].
        pose proof (run_spec_keys_ok ops Hs) as Hk.
        destruct (udp_step_no_panic mac t u (run_spec ops) clock ip packet Hk Hpw Hipw Hip) as (sp1 & out & Es & _ & _).
        pose proof (udp_step_observe_wf I mac t u (srun I init ops).1 (run_spec ops) clock ip packet Hpw
                      (refines ops Hwf)) as Eo.
        rewrite Es in Eo.
        destruct (udp_step I mac t u (srun I init ops).1 clock ip packet) as [[st1 out1]|] eqn:Em; [|done].
        cbn in Eo. injection Eo as ->. rewrite Es.
        set (ops1 := ops ++ udp_ops mac u clock ip packet).
        assert (E1 : st1 = (srun I init ops1).1).
        { unfold ops1. rewrite srun_app. destruct (srun I init ops) as [s0 c0] eqn:E0.
          rewrite (udp_step_state _ _ _ _ _ _ _ _ _ _ c0 Em). done. }
        assert (E2 : sp1 = run_spec ops1).
        { unfold ops1, run_spec. rewrite srun_app. destruct (srun spec_if spec_init ops) as [s0 c0] eqn:E0.
          rewrite (udp_step_state _ _ _ _ _ _ _ _ _ _ c0 Es). unfold run_spec. rewrite E0. done. }
        rewrite E1, E2. destruct (udp_ops_sane mac u clock ip packet Hpw Hipw) as [Os Ow].
        apply (IH Hw'); unfold ops1; apply Forall_app; done. }
    destruct (G [] [] (List.Forall_nil _) (List.Forall_nil _)) as (st & sp & outs & ops & E1 & E2 & H).
    change (run_spec []) with spec_init in E2. rewrite E0 in E2. injection E2 as <- <-.
    destruct H as (H1 & H2 & H3).
    exists st, sp0, outs0, ops. change (srun I init []).1 with init in E1. repeat split; assumption.
  Qed.
End StoreHistory.

(* the memory store, any shard count *)
Theorem udp_history_mem_no_panic n mac t u (reqs : list (Z * list Z * list Z)) :
  (0 < n)%nat → Forall udp_req_wf reqs →
  ∃ st sp outs ops,
    udp_run_on (mem_if n) mac t u (mem_init n) reqs = Some (st, outs) ∧
    udp_run mac t u spec_init reqs = Some (sp, outs) ∧
    st = run_mem n ops ∧ sp = run_spec ops ∧ keys_ok sp ∧
    length outs = length reqs ∧ Forall (λ out, (length out <= 1)%nat) outs.
Proof.
  intros Hn. apply (udp_history_store_no_panic (mem_if n) (mem_init n)).
  intros ops _ ih v6 _. apply (MemP.mem_refines_spec n ops ih v6 Hn).
Qed.

(* the Redis store *)
Corollary udp_step_redis_spec ops mac t u clock ip packet :
  Forall sop_wf ops → wf_bytes packet = true →
  option_map snd (udp_step red_if mac t u (run_redis ops) clock ip packet) =
  option_map snd (udp_step spec_if mac t u (run_spec ops) clock ip packet).
Proof.
  intros Hwf Hpw. apply udp_step_observe_wf; [exact Hpw|]. intros ih v6 Hih. by apply RedisP.redis_refines_spec.
Qed.

Theorem udp_history_redis_no_panic mac t u (reqs : list (Z * list Z * list Z)) :
  Forall udp_req_wf reqs →
  ∃ st sp outs ops,
    udp_run_on red_if mac t u redis_init reqs = Some (st, outs) ∧
    udp_run mac t u spec_init reqs = Some (sp, outs) ∧
    st = run_redis ops ∧ sp = run_spec ops ∧ keys_ok sp ∧
    length outs = length reqs ∧ Forall (λ out, (length out <= 1)%nat) outs.
Proof.
  apply (udp_history_store_no_panic red_if redis_init).
  intros ops Hwf ih v6 Hih. by apply RedisP.redis_refines_spec.
Qed.

(* ------------------------------------------------------------------ 8c. HTTP on the real stores *)
Section HttpTransfer.
  Context {S : Type} (I : store_if S).

  Lemma http_announce_step_observe parse_ip header_get split_host t o (st : S) sp clock uri remote :
    (∀ ih v6, observe I st ih v6 = observe spec_if sp ih v6) →
    (http_announce_step I parse_ip header_get split_host t o st clock uri remote).2 =
    (http_announce_step spec_if parse_ip header_get split_host t o sp clock uri remote).2.
  Proof.
    intros H. unfold http_announce_step.
    destruct (HttpParse.parse_announce _ _ _ _ _ _) as [[r q]|e|]; try done.
    rewrite (respond_observe I _ st sp H).
    destruct (respond spec_if (ann_of_areq r) sp) as [[[c i] ps]|]; [|done].
    destruct (http_announce_value _ _ _ _ _ _); done.
  Qed.

  Lemma http_scrape_step_observe parse_ip split_host split_ok o (st : S) sp uri remote :
    (∀ ih v6, observe I st ih v6 = observe spec_if sp ih v6) →
    http_scrape_step I parse_ip split_host split_ok o st uri remote =
    http_scrape_step spec_if parse_ip split_host split_ok o sp uri remote.
  Proof.
    intros H. unfold http_scrape_step.
    destruct (HttpParse.parse_scrape _ _) as [[ihs q]|e|]; try done.
    destruct (HttpParse.scrape_route_af _ _ _ _) as [af|e|]; try done.
    do 2 f_equal. apply map_ext. intros ih. specialize (H ih (match af with V6 => true | V4 => false end)).
    unfold observe in H. injection H as Hs _. rewrite Hs. done.
  Qed.
End HttpTransfer.

(* the memory store behind the HTTP announce route: same body as the specification, never a panic,
   in every state reachable by sane store operations *)
Theorem http_announce_mem_no_panic n ops parse_ip header_get split_host t o clock uri remote :
  (0 < n)%nat → Forall sop_sane ops →
  (∀ s ip, parse_ip s = Some ip → wf_bytes ip = true ∧ (length ip = 4 ∨ length ip = 16)%nat) →
  wf_bytes uri = true →
  ∃ v, (http_announce_step (mem_if n) parse_ip header_get split_host t o (run_mem n ops) clock uri remote).2 = HBody v ∧
       (http_announce_step spec_if parse_ip header_get split_host t o (run_spec ops) clock uri remote).2 = HBody v.
Proof.
  intros Hn Hs Ho Hw.
  rewrite (http_announce_step_observe (mem_if n) _ _ _ _ _ (run_mem n ops) (run_spec ops));
    [|intros ih v6; apply MemP.mem_refines_spec, Hn].
  destruct (http_announce_no_panic parse_ip header_get split_host t o (run_spec ops) clock uri remote Ho
              (run_spec_keys_ok ops Hs) Hw) as (sp' & v & -> & _).
  exists v. done.
Qed.

(* a toy keyed hash (32 bytes) standing in for HMAC-SHA256 *)
Definition toy_mac (k m : list Z) : list Z :=
  let s := fold_left Z.add (k ++ m) 17 in
  [s mod 256; (s / 256) mod 256; (s * 7) mod 256; (s * 13 + 5) mod 256] ++ replicate 28 0.

(* ------------------------------------------------------------------ the hypotheses are needed *)
(* a source address that is neither 4 nor 16 bytes long reaches the explicit
   panic("IP is neither v4 nor v6") of the connect path (net.UDPAddr never yields one) *)
Example udp_bad_source_address_panics :
  let t := {| t_interval := 0; t_min_interval := 0 |} in
  let u := {| uc_key := []; uc_skew := 0;
              uc_opts := {| UdpParse.o_spoof := false; UdpParse.o_max_nw := 100;
                            UdpParse.o_def_nw := 50; UdpParse.o_max_scrape := 50 |} |} in
  udp_step spec_if toy_mac t u spec_init 0 [1; 2; 3; 4; 5]
           (ConnID.initial_connection_id ++ [0; 0; 0; 0] ++ [0; 0; 0; 1]) = None.
Proof. vm_compute. done. Qed.

(* a store holding a key that is not a serialised peer makes the response hook panic
   (decodePeerKey): the invariant is needed, and announces alone never break it *)
Example udp_bad_key_panics :
  let a := {| a_ih := replicate 20 7; a_v6 := false;
              a_peer := {| p_id := replicate 20 1; p_ip := [10; 0; 0; 1]; p_port := 6881 |};
              a_left := 0; a_event := EvNone; a_numwant := 50 |} in
  respond spec_if a (run_spec [SPutLeecher (replicate 20 7) false [1; 2; 3]]) = None.
Proof. vm_compute. done. Qed.

(* ------------------------------------------------------------------ 9. non-vacuity *)
Example udp_three_datagrams :
  let t := {| t_interval := 1800 * 1000000000; t_min_interval := 900 * 1000000000 |} in
  let u := {| uc_key := [1; 2; 3; 4]; uc_skew := 10 * 1000000000;
              uc_opts := {| UdpParse.o_spoof := false; UdpParse.o_max_nw := 100;
                            UdpParse.o_def_nw := 50; UdpParse.o_max_scrape := 50 |} |} in
  let ip := [10; 0; 0; 1] in
  let now := 1700000000 * 1000000000 in
  let ih := replicate 20 7 in
  let pid := replicate 20 1 in
  let garbage := [1; 2; 3] in
  let connect := ConnID.initial_connection_id ++ UdpWrite.be32 0 ++ [0; 0; 0; 1] in
  match udp_step spec_if toy_mac t u spec_init now ip garbage with
  | Some (sp1, []) =>
    match udp_step spec_if toy_mac t u sp1 now ip connect with
    | Some (sp2, [d2]) =>
      let connid := skipn 8 d2 in
      let announce := connid ++ UdpWrite.be32 1 ++ [0; 0; 0; 2] ++ ih ++ pid ++
                      be_enc 8 0 ++ be_enc 8 5 ++ be_enc 8 0 ++ UdpWrite.be32 2 ++ [0; 0; 0; 0] ++
                      [0; 0; 0; 0] ++ UdpWrite.be32 50 ++ UdpWrite.be16 6881 in
      firstn 8 d2 = UdpWrite.be32 0 ++ [0; 0; 0; 1] ∧
      connid = ConnID.generate toy_mac [1; 2; 3; 4] ip now ∧
      match udp_step spec_if toy_mac t u sp2 (now + 1000000000) ip announce with
      | Some (sp3, [d3]) =>
        (* the first leecher of an empty swarm gets itself back, counted *)
        d3 = UdpWrite.be32 1 ++ [0; 0; 0; 2] ++ UdpWrite.be32 1800 ++ UdpWrite.be32 1 ++ UdpWrite.be32 0 ++
             [10; 0; 0; 1] ++ UdpWrite.be16 6881 ∧
        st_scrape spec_if ih false sp3 = (0, 1) ∧
        (* and the whole history through the fold *)
        option_map snd (udp_run toy_mac t u spec_init
                                [(now, ip, garbage); (now, ip, connect); (now + 1000000000, ip, announce)])
        = Some [[]; [d2]; [d3]]
      | _ => False
      end
    | _ => False
    end
  | _ => False
  end.
Proof. vm_compute. done. Qed.
