(* Model of middleware/hooks.go over an abstract store interface: what the
   swarm-interaction hook applies to the store, and which announce responses
   the response hook may produce (relational: peer selection is not
   deterministic).  Instances for the memory and the Redis store.
   Definitions only. *)
From Chihaya Require Export Model.Select Model.MemStore Model.RedisStore.
Open Scope Z_scope.

Record store_if (S : Type) := {
  st_put_seeder : list Z → bool → list Z → Z → S → S;
  st_put_leecher : list Z → bool → list Z → Z → S → S;
  st_del_seeder : list Z → bool → list Z → S → S * bool;
  st_del_leecher : list Z → bool → list Z → S → S * bool;
  st_graduate : list Z → bool → list Z → Z → S → S;
  st_scrape : list Z → bool → S → Z * Z;
  st_members : list Z → bool → S → option swarm;
  st_gc : Z → S → S;
  st_prom : S → Z * Z * Z
}.
Arguments st_put_seeder {S}. Arguments st_put_leecher {S}. Arguments st_del_seeder {S}.
Arguments st_del_leecher {S}. Arguments st_graduate {S}. Arguments st_scrape {S}.
Arguments st_members {S}. Arguments st_gc {S}. Arguments st_prom {S}.

Definition mem_if (n : nat) : store_if mstore := {|
  st_put_seeder := mem_put_seeder n; st_put_leecher := mem_put_leecher n;
  st_del_seeder := mem_del_seeder n; st_del_leecher := mem_del_leecher n;
  st_graduate := mem_graduate n; st_scrape := mem_scrape n; st_members := mem_members n;
  st_gc := mem_gc; st_prom := mem_prom |}.
Definition red_if : store_if rstate := {|
  st_put_seeder := red_put_seeder; st_put_leecher := red_put_leecher;
  st_del_seeder := red_del_seeder; st_del_leecher := red_del_leecher;
  st_graduate := red_graduate; st_scrape := red_scrape; st_members := red_members;
  st_gc := red_gc; st_prom := red_prom |}.
(* the specification is itself a store: one unsharded swarm map *)
Definition spec_if : store_if spec := {|
  st_put_seeder := λ ih v6 pk t m, (sm_put_seeder (ih, v6) pk t m).1;
  st_put_leecher := λ ih v6 pk t m, (sm_put_leecher (ih, v6) pk t m).1;
  st_del_seeder := λ ih v6 pk m, match sm_del_seeder (ih, v6) pk m with Some m' => (m', true) | None => (m, false) end;
  st_del_leecher := λ ih v6 pk m, match sm_del_leecher (ih, v6) pk m with Some m' => (m', true) | None => (m, false) end;
  st_graduate := λ ih v6 pk t m, (sm_graduate (ih, v6) pk t m).1.1;
  st_scrape := λ ih v6 m, let '(c, i) := sm_scrape (ih, v6) m in (wrap32 c, wrap32 i);
  st_members := λ ih v6 m, m !! (ih, v6);
  st_gc := sm_gc;
  st_prom := λ m, (Z.of_nat (size m), sm_total_seeders m, sm_total_leechers m) |}.

(* an announce as the logic sees it, after the frontend sanitised it *)
Record ann := {
  a_ih : list Z; a_v6 : bool; a_peer : peer; a_left : Z; a_event : event; a_numwant : Z
}.
Definition a_key (a : ann) : list Z := peer_key (a_peer a).

Section Logic.
  Context {S : Type} (I : store_if S).

  (* swarmInteractionHook.HandleAnnounce (ErrResourceDoesNotExist is swallowed) *)
  Definition swarm_interaction (a : ann) (clock : Z) (st : S) : S :=
    match a_event a with
    | EvStopped =>
      let st := (st_del_seeder I (a_ih a) (a_v6 a) (a_key a) st).1 in
      (st_del_leecher I (a_ih a) (a_v6 a) (a_key a) st).1
    | EvCompleted => st_graduate I (a_ih a) (a_v6 a) (a_key a) clock st
    | _ => if a_left a =? 0 then st_put_seeder I (a_ih a) (a_v6 a) (a_key a) clock st
           else st_put_leecher I (a_ih a) (a_v6 a) (a_key a) clock st
    end.

  Definition key_lists (st : S) (ih : list Z) (v6 : bool) : list (list Z) * list (list Z) :=
    match st_members I ih v6 st with
    | None => ([], [])
    | Some sw => (map fst (map_to_list (seeders sw)), map fst (map_to_list (leechers sw)))
    end.

  (* responseHook.HandleAnnounce: is (complete, incomplete, peers) an allowed response?
     0 = yes; otherwise the violated clause (numbering of Glue/GH.v) *)
  Definition response_verdict (a : ann) (st : S) (complete incomplete : Z) (peers : list (list Z)) : Z :=
    let '(c, i) := st_scrape I (a_ih a) (a_v6 a) st in
    let '(Sk, Lk) := key_lists st (a_ih a) (a_v6 a) in
    let seeding := a_left a =? 0 in
    let nw := a_numwant a in
    let plain := (complete =? c) && (incomplete =? i) in
    let bumped := (complete =? wrap32 (c + (if seeding then 1 else 0))) &&
                  (incomplete =? wrap32 (i + (if seeding then 0 else 1))) in
    let self_only := match peers with [k] => bytes_eqb k (a_key a) | _ => false end in
    let empty_ok := ok_selection Sk Lk (a_key a) seeding nw [] in
    if negb (Nat.eqb (length peers) 0) && ok_selection Sk Lk (a_key a) seeding nw peers && plain then 0
    else if empty_ok && self_only && bumped then 0
    else (* say which clause failed *)
      if Nat.eqb (length peers) 0 then 26
      else if empty_ok && self_only then
        (* nothing could be offered and the response is just the announcer, but the counts are not the bumped ones *)
        (if plain && negb seeding && kmem (a_key a) Lk then 24 else 11)
      else if negb (sel_size_ok nw peers) then 21
      else if negb (sel_members_ok Sk Lk seeding peers) then
        (if seeding && existsb (λ k, kmem k Sk && negb (kmem k Lk)) peers then 25 else 22)
      else if negb (sel_no_self Sk (a_key a) seeding peers) then 24
      else if negb (sel_split_ok Sk Lk (a_key a) seeding nw peers) then (if empty_ok then 26 else 23)
      else 11.
End Logic.
