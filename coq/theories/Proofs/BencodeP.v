(* Lemmas about Model/Bencode.v (C19). *)
From Chihaya Require Import Model.Bencode.
From Coq Require Import ZifyBool ZifyNat.
Open Scope Z_scope.

(* ------------------------------------------------------------ the decoder before fix F9 *)

(* "-1:" : make([]byte, -1) panics *)
Lemma bdecode_legacy_negative_len_refuted :
  exists s fuel, (length s < fuel)%nat /\ bdecode_legacy fuel s = Panic.
Proof. exists [45; 49; 58], 4%nat. split; [cbn; lia | vm_compute; reflexivity]. Qed.

(* a 5000-byte string does not survive the round trip: "short read" *)
Lemma bdecode_legacy_long_string_refuted :
  exists v fuel, canonb v = true /\ (length (bencode v) < fuel)%nat /\
                 bdecode_legacy fuel (bencode v) = Err.
Proof.
  exists (BStr (repeat 97 (Z.to_nat 5000))), (Z.to_nat 6000).
  split; [vm_compute; reflexivity|]. split; [|vm_compute; reflexivity].
  apply Nat.ltb_lt. vm_compute. reflexivity.
Qed.

(* twelve bytes of input make the decoder allocate 10^11 bytes *)
Lemma bdecode_legacy_alloc_refuted :
  exists s fuel, (length s < fuel)%nat /\ balloc_legacy fuel s > 1000000000 * Z.of_nat (length s).
Proof.
  exists [57;57;57;57;57;57;57;57;57;57;57;58], 13%nat. split; [cbn; lia | vm_compute; reflexivity].
Qed.
