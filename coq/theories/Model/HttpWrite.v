(* Model of frontend/http/writer.go on top of Bencode.v.   Definitions only.

   Every response is ONE bencoded dictionary.  Go ranges over the dictionary
   in arbitrary order, so the model gives each response as a VALUE
   ([announce_value], [scrape_value], [error_value]: a [bval] whose dictionaries
   list their entries in some reference order) and the set of bodies the
   implementation may write as { bencode v' | same_value v v' }: the encodings
   of that value for every order of every dictionary in it (DESIGN 9.B-5: key
   order is not constrained). *)
From Chihaya Require Export Model.Peer Model.Bencode.
Open Scope Z_scope.

(* ------------------------------------------------------------ response values *)

Record aresp := {
  a_compact : bool;
  a_complete : Z;        (* uint32 *)
  a_incomplete : Z;      (* uint32 *)
  a_interval : Z;        (* time.Duration: int64 nanoseconds *)
  a_min_interval : Z;
  a_v4 : list peer;
  a_v6 : list peer
}.

Record sfile := { f_ih : bytes; f_complete : Z; f_incomplete : Z }.

(* case time.Duration: marshalInt(w, int64(v/time.Second)) - Go's integer
   division truncates toward zero *)
Definition dur_secs (ns : Z) : Z := Z.quot ns 1000000000.

(* ------------------------------------------------------------ net.IP.String *)

Definition hexd (d : Z) : Z := if d <? 10 then 48 + d else 87 + d.
Fixpoint uhex (f : nat) (n : Z) : bytes :=
  match f with
  | O => []
  | S f' => if n <? 16 then [hexd n] else uhex f' (n / 16) ++ [hexd (n mod 16)]
  end.

Definition dotted (ip4 : bytes) : bytes :=
  match ip4 with
  | [a; b; c; d] => fmt_uint a ++ 46 :: fmt_uint b ++ 46 :: fmt_uint c ++ 46 :: fmt_uint d
  | _ => []
  end.

Fixpoint groups (ip : bytes) : list Z :=
  match ip with
  | a :: b :: r => (a * 256 + b) :: groups r
  | _ => []
  end.
Fixpoint zrun (gs : list Z) : nat :=
  match gs with
  | g :: r => if g =? 0 then S (zrun r) else O
  | [] => O
  end.
(* longest run of zero groups of length >= 2, the leftmost among equals *)
Fixpoint best_run (i : nat) (gs : list Z) (bs bl : nat) : nat * nat :=
  match gs with
  | [] => (bs, bl)
  | _ :: r => let l := zrun gs in
              if Nat.leb 2 l && Nat.ltb bl l then best_run (S i) r i l else best_run (S i) r bs bl
  end.
Fixpoint emit6 (i : nat) (gs : list Z) (zs zl skip : nat) (sep : bool) : bytes :=
  match gs with
  | [] => []
  | g :: r =>
    match skip with
    | S k => emit6 (S i) r zs zl k false
    | O => if Nat.eqb i zs && Nat.leb 2 zl
           then 58 :: 58 :: emit6 (S i) r zs zl (zl - 1) false
           else (if sep then [58] else []) ++ uhex 4 g ++ emit6 (S i) r zs zl O true
    end
  end.
Definition ipv6_string (ip : bytes) : bytes :=
  let gs := groups ip in
  let '(zs, zl) := best_run 0 gs 0 0 in
  emit6 0 gs zs zl 0 false.

Fixpoint hex_string (b : bytes) : bytes :=
  match b with
  | [] => []
  | x :: r => hexd (x / 16) :: hexd (x mod 16) :: hex_string r
  end.

(* net.IP.String: "<nil>" for the empty slice, dotted quad for 4 bytes and for
   IPv4-mapped 16 bytes, RFC 5952 text for other 16-byte values, "?"+hex for
   any other length *)
Definition ip_string (ip : bytes) : bytes :=
  match ip with
  | [] => s2b "<nil>"
  | _ :: _ =>
    match to4 ip with
    | Some ip4 => dotted ip4
    | None => if Nat.eqb (length ip) 16 then ipv6_string ip else 63 :: hex_string ip
    end
  end.

(* ------------------------------------------------------------ peers *)

(* compact4 / compact6: None models the explicit panic *)
Definition compact4 (p : peer) : option bytes :=
  match to4 (p_ip p) with Some ip => Some (ip ++ be_enc 2 (p_port p)) | None => None end.
Definition compact6 (p : peer) : option bytes :=
  match to16 (p_ip p) with Some ip => Some (ip ++ be_enc 2 (p_port p)) | None => None end.

Fixpoint compact_all (f : peer -> option bytes) (ps : list peer) : option bytes :=
  match ps with
  | [] => Some []
  | p :: r => match f p, compact_all f r with
              | Some a, Some b => Some (a ++ b)
              | _, _ => None
              end
  end.

Definition k_complete := s2b "complete".
Definition k_incomplete := s2b "incomplete".
Definition k_interval := s2b "interval".
Definition k_min_interval := s2b "min interval".
Definition k_peers := s2b "peers".
Definition k_peers6 := s2b "peers6".
Definition k_peer_id := s2b "peer id".
Definition k_ip := s2b "ip".
Definition k_port := s2b "port".
Definition k_files := s2b "files".
Definition k_failure := s2b "failure reason".

(* dict(peer) *)
Definition peer_dict (p : peer) : bval :=
  BDict [(k_peer_id, BStr (p_id p)); (k_ip, BStr (ip_string (p_ip p))); (k_port, BInt (p_port p))].

Definition opt_entry (k : bytes) (s : bytes) : list (bytes * bval) :=
  match s with [] => [] | _ :: _ => [(k, BStr s)] end.

Definition base_entries (r : aresp) : list (bytes * bval) :=
  [(k_complete, BInt (a_complete r)); (k_incomplete, BInt (a_incomplete r));
   (k_interval, BInt (dur_secs (a_interval r))); (k_min_interval, BInt (dur_secs (a_min_interval r)))].

(* WriteAnnounceResponse: the dictionary handed to the encoder; None = panic *)
Definition announce_value (r : aresp) : option bval :=
  if a_compact r then
    match compact_all compact4 (a_v4 r) with
    | None => None
    | Some c4 =>
      match compact_all compact6 (a_v6 r) with
      | None => None
      | Some c6 => Some (BDict (base_entries r ++ opt_entry k_peers c4 ++ opt_entry k_peers6 c6))
      end
    end
  else
    Some (BDict (base_entries r ++ [(k_peers, BList (map peer_dict (a_v4 r ++ a_v6 r)))])).

(* WriteScrapeResponse: filesDict[string(infohash)] = {...}; a repeated
   infohash overwrites the earlier entry *)
Definition file_dict (f : sfile) : bval :=
  BDict [(k_complete, BInt (f_complete f)); (k_incomplete, BInt (f_incomplete f))].
Definition files_dict (fs : list sfile) : list (bytes * bval) :=
  fold_left (fun d f => dict_put (f_ih f) (file_dict f) d) fs [].
Definition scrape_value (fs : list sfile) : bval := BDict [(k_files, BDict (files_dict fs))].

(* WriteError: errors.As(err, &ClientError) ? its text : the constant *)
Definition internal_msg := s2b "internal server error".
Definition error_msg (e : err) : bytes :=
  match e with ClientErr m => m | InternalErr => internal_msg end.
Definition error_value (e : err) : bval := BDict [(k_failure, BStr (error_msg e))].

(* ------------------------------------------------------------ bodies *)

(* v' is v with the entries of some dictionaries in another order *)
Definition same_value (v v' : bval) : bool := bequiv v v' && bequiv v' v && canonb v'.

(* the body written for the reference order *)
Definition http_announce_body (r : aresp) : option bytes := option_map bencode (announce_value r).
Definition http_scrape_body (fs : list sfile) : bytes := bencode (scrape_value fs).
Definition http_error_body (e : err) : bytes := bencode (error_value e).

(* ------------------------------------------------------------ what a client reads back *)

Definition get (k : bytes) (v : bval) : option bval :=
  match v with BDict d => lookup k d | _ => None end.

(* split a compact peer string into (address, port) entries of n+2 bytes *)
Fixpoint decode_compact (n : nat) (fuel : nat) (s : bytes) : list (bytes * Z) :=
  match fuel with
  | O => []
  | S f => match s with
           | [] => []
           | _ :: _ => (firstn n s, be_dec (firstn 2 (skipn n s))) :: decode_compact n f (skipn (n + 2) s)
           end
  end.

Definition endpoint4 (p : peer) : bytes * Z :=
  (match to4 (p_ip p) with Some ip => ip | None => [] end, p_port p).
Definition endpoint6 (p : peer) : bytes * Z :=
  (match to16 (p_ip p) with Some ip => ip | None => [] end, p_port p).

(* well-formed response values: what the Go types guarantee *)
Definition peer_wf (p : peer) : bool :=
  wf_bytes (p_id p) && wf_bytes (p_ip p) && (0 <=? p_port p) && (p_port p <? 65536).
Definition resp_wf (r : aresp) : bool :=
  (0 <=? a_complete r) && (a_complete r <? 2 ^ 32) && (0 <=? a_incomplete r) && (a_incomplete r <? 2 ^ 32) &&
  (- 2 ^ 63 <=? a_interval r) && (a_interval r <? 2 ^ 63) &&
  (- 2 ^ 63 <=? a_min_interval r) && (a_min_interval r <? 2 ^ 63) &&
  forallb peer_wf (a_v4 r) && forallb peer_wf (a_v6 r).
Definition file_wf (f : sfile) : bool :=
  wf_bytes (f_ih f) && (0 <=? f_complete f) && (f_complete f <? 2 ^ 32) &&
  (0 <=? f_incomplete f) && (f_incomplete f <? 2 ^ 32).
