"""C19 - bencode codec."""
PROP = {
    "glue": "G19", "chk": "chk19", "explain": "explain19",
    "n": {"quick": 500, "thorough": 12000},
    "rule": "cases = (a) value trees (int64 edges and random, byte strings 0..100000 incl. lengths around the reader's 4096-byte buffer and at every "
            "offset inside it, lists/dictionaries to depth 6, binary/empty/prefix keys), each rendered with a random choice among ALL Go types the "
            "encoder's type switch accepts (int/int16/int32/int64/uint*/Duration, string/[]byte, []interface{}/List/[]string/[]Dict, map/Dict), "
            "Marshal'ed, and the bytes Unmarshal'ed again; (b) decoder inputs: table of boundary strings, mutated encodings (truncated, flipped, "
            "inserted, deleted bytes), crafted length prefixes (negative, signed, zero padded, empty, 2^31, 2^32, 2^48, 2^63, > 2^64, 10^7..10^26) bare and "
            "nested in lists/dict keys/dict values, lengths off by -2..2 around 4096, nesting bombs to 20000 levels, duplicate / non-string keys, "
            "number fields of 4093..5000 digits; (c) several values decoded from one stream with a Decoder; (d) uint64 above int64 (encoding only). "
            "Inputs containing a run of >= 8 digits are executed in a child process with a capped address space.  Trivial = none; distinct = distinct input JSON",
    "tags": {"1": "round trip: integer", "2": "round trip: string", "3": "round trip: list", "4": "round trip: dictionary",
             "10": "decode: model accepts, input is a canonical encoding", "11": "decode: model accepts a non-canonical input (sign, zero padding, repeated key, trailing bytes are canonical though)",
             "12": "decode: model refuses", "20": "uint64 beyond int64: encoding only",
             "30": "stream: 0 values", "31": "stream: 1 value", "32": "stream: 2 values", "33": "stream: 3 values", "34": "stream: 4 values",
             "35": "stream: 5 values", "36": "stream: 6 values", "37": "stream: 7 values", "38": "stream: 8 values"},
    "trivial_tags": [],
    "min_tags": 8,
    "reasons": {"1": "Marshal refused a supported value", "2": "Marshal's output is not an encoding of the value (model decoder)",
                "3": "Marshal's output has a different length than the canonical encoding", "4": "Unmarshal(Marshal(v)) differs from v",
                "5": "Unmarshal(Marshal(v)) returned an error", "6": "Unmarshal(Marshal(v)) panicked",
                "7": "Unmarshal allocated out of proportion to its input (round trip)",
                "10": "the decoder panicked / crashed the process", "11": "the decoder allocated out of proportion to the bytes it received",
                "12": "a canonical encoding was decoded to a different value", "13": "a canonical encoding was refused",
                "14": "stream: a canonical encoding was decoded to a different value", "15": "stream: a canonical encoding was refused",
                "20": "encoding of an unsigned integer differs",
                "112": "non-canonical input decoded to a different value than the model's", "113": "non-canonical input refused, model accepts",
                "114": "input accepted, model refuses", "115": "stream: value differs on non-canonical input", "116": "stream: value where the model refuses",
                "117": "stream: refused where the model accepts non-canonical input",
                "900": "harness: generated tree not canonical", "901": "harness: model out of fuel", "902": "harness: stream too long"},
    "assumptions": ["the byte source delivers everything asked for (bytes.Buffer / bytes.Reader), as in Unmarshal(buf)",
                    "bufio.Reader default buffer = 4096 bytes (a number field longer than that is refused: ErrBufferFull)",
                    "allocation clause checked as TotalAlloc(Unmarshal) <= 256*len(input) + 1 MiB",
                    "Go's recursion depth (one stack frame pair per nesting level) is not modelled; nesting is exercised to 20000 levels"],
    "explanation": "Theorems over Model/Bencode.v (encoder for any dictionary emission order, ParseInt/FormatInt, fuel-indexed decoder with allocation "
                   "accounting, pre-fix decoder with the bufio buffer fill level) proved for all values / all byte strings; the model is tied to "
                   "frontend/http/bencode by running Marshal/Unmarshal/Decoder.Decode on the generated cases and evaluating bdecode/bencode on the same bytes by "
                   "vm_compute; dictionaries are compared as finite maps so key order never alarms.",
    "driver_timeout": {"quick": 300, "thorough": 1500},
}

CLAIM = {
    "text": "Machine-checked proof (Coq) over an executable model of the bencode encoder and decoder that for EVERY value tree (int64, arbitrary byte strings, arbitrary nesting, dictionaries with distinct keys in any emission order) decoding the encoding followed by any trailing bytes returns the value and exactly those trailing bytes; that for EVERY byte string the decoder returns a value or an error (never a panic) and accounts storage only for string bytes actually present; the pre-fix decoder is refuted by kernel-checked witnesses ('-1:' panics, a 5000-byte string fails, an 12-byte input allocates 10^11 bytes). The model is tied to the Go code on every run by differential execution of Marshal/Unmarshal on generated trees and malformed inputs, with allocation measured by runtime.MemStats.",
    "design_ref": "DESIGN.md section 8, C19",
    "note": "Trusted: Coq kernel + vm_compute; Glue/G19.v; Go driver. The allocation theorem is about the model's accounting (string storage); the real allocator is only observed (TotalAlloc <= 256*len + 1 MiB). Go stack depth for deeply nested input is not modelled. Integers above int64 (uint64) can be encoded but are refused by the decoder: outside the property's quantifier (int64), observed and agreed with the model.",
    "technique": "Coq proof over executable Gallina model + differential correspondence check (vm_compute)",
}
