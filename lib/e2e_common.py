E2E_REASONS = {
    "1": "request handling panicked", "2": "number of responses differs from what the request calls for (exactly one for a well-formed request; none for a short or magic-less packet)",
    "3": "tracker logic invoked (or not invoked) contrary to the request's validity", "4": "error / connect response bytes differ from the BEP 15 encoding",
    "5": "UDP response bytes are not the BEP 15 encoding of the computed answer (action, transaction id, interval, counts, entry width, order)",
    "6": "HTTP body does not decode to the computed answer / the failure reason", "11": "announce response counts differ from the swarm state the history implies",
    "12": "scrape counts differ from the swarm state the history implies", "13": "stored memberships differ from what the requests imply", "14": "interval / min interval differ from the configuration",
    "21": "more than numwant peers", "22": "returned peer is not a current member", "23": "fewer peers than the swarm can offer / leechers before seeders", "24": "leecher received its own leecher entry",
    "25": "seeder was offered a seeder", "26": "empty selection but response is not just the announcer", "31": "returned peer of the other address family", "32": "wrong family list populated",
    "33": "membership stored in a swarm of the other family", "198": "the MODEL panics on this input (cannot happen by theorem; glue or model defect)", "199": "driver did not ship a needed oracle answer",
}
E2E_RULE = ("end-to-end histories (25-65 requests each): clock steps; UDP announces with either action code whatever the source family, random/zero/mapped IP fields, BEP 41 options; UDP scrapes with repeats; "
            "connects; garbage of boundary and random lengths carrying a VALID connection ID with every action code; pure garbage; HTTP announces (compact and dictionary form, events, numwant, ip= params, "
            "trusted header, named route parameters) and scrapes; malformed HTTP requests; membership dumps - through the real udp handleRequest, the real http router, middleware.Logic and a memory store, "
            "with spoofing/limits/intervals/clock skew varied per history; every history is non-trivial; distinct = distinct input JSON.")
E2E_PART_TAGS = ["verif_e2e", "shim_udp", "shim_http", "shim_memory", "shim_timecache"]
def e2e_part(chk, quick, thorough):
    return {"name": "e2e", "driver_prop": "E2E", "glue": "GE", "chk": chk, "explain": "explainE", "prelude": "From Chihaya Require Import Glue.G06 Glue.G10.",
            "n": {"quick": quick, "thorough": thorough}, "reasons": E2E_REASONS, "gotags": E2E_PART_TAGS}
