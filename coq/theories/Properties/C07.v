(* C07 - UDP (BEP 15/41) request parsing is total and faithful to the packet.
   Statements only, each closed by [exact] of a lemma from Proofs/UdpParseP.v
   (and Proofs/UdpRoundtripP.v for the field-offset round trips). *)
From Chihaya Require Import Model.UdpParse Proofs.UdpParseP Proofs.UdpRoundtripP.
Open Scope Z_scope.

(* every packet, both actions, every ParseOptions value, nil or any source IP *)
Theorem C07_udp_parse_never_panics :
  (forall v6 o src packet, parse_announce v6 o src packet <> Panic) /\
  (forall o packet, parse_scrape o packet <> Panic).
Proof. exact udp_parse_never_panics. Qed.
Print Assumptions C07_udp_parse_never_panics.

(* a packet laid out as the BEP 15 announce table says parses to exactly those
   fields (then SanitizeAnnounce); source address = transport address *)
Theorem C07_udp_announce_roundtrip_v4 : forall o src f,
  o_spoof o = false -> fields_ok false f ->
  parse_announce false o (Some src) (render_bep15 f) =
  match sanitize_announce (fields_req f src) (o_max_nw o) (o_def_nw o) with
  | inl e => Reject e
  | inr r => Accept (r, empty_params)
  end.
Proof. exact udp_announce_roundtrip_v4. Qed.
Print Assumptions C07_udp_announce_roundtrip_v4.

(* the opentracker IPv6 layout: 16-byte IP field, everything after it shifted by 12 *)
Theorem C07_udp_announce_roundtrip_v6 : forall o src f,
  o_spoof o = false -> fields_ok true f ->
  parse_announce true o (Some src) (render_bep15 f) =
  match sanitize_announce (fields_req f src) (o_max_nw o) (o_def_nw o) with
  | inl e => Reject e
  | inr r => Accept (r, empty_params)
  end.
Proof. exact udp_announce_roundtrip_v6. Qed.
Print Assumptions C07_udp_announce_roundtrip_v6.

(* with BEP 41 options appended: same fields, URL data from the options *)
Theorem C07_udp_announce_roundtrip_options : forall v6 o src f os,
  o_spoof o = false -> fields_ok v6 f ->
  parse_announce v6 o (Some src) (render_bep15 f ++ render_options os) =
  match parse_url_data (concat (chunks_before_end os)) with
  | inl e => Reject e
  | inr q =>
    match sanitize_announce (fields_req f src) (o_max_nw o) (o_def_nw o) with
    | inl e => Reject e
    | inr r => Accept (r, q)
    end
  end.
Proof. exact udp_announce_roundtrip_options. Qed.
Print Assumptions C07_udp_announce_roundtrip_options.

(* 0 none, 1 completed, 2 started, 3 stopped (low byte of the field, DESIGN 9.B-2) *)
Theorem C07_udp_event_mapping : forall v6 o src packet r q,
  parse_announce v6 o src packet = Accept (r, q) ->
  exists ev, nth_error packet 83 = Some ev /\ ev < 4 /\ r_event r = bep15_event ev.
Proof. exact udp_event_mapping. Qed.
Print Assumptions C07_udp_event_mapping.

Theorem C07_udp_event_rejected : forall v6 o src packet ev,
  (ip_end v6 + 10 <= length packet)%nat -> nth_error packet 83 = Some ev -> 4 <= ev ->
  parse_announce v6 o src packet = Reject errMalformedEvent.
Proof. exact udp_event_rejected. Qed.
Print Assumptions C07_udp_event_rejected.

(* shorter than 98 (action 1) / 110 (action 4) bytes: rejected, nothing interpreted *)
Theorem C07_udp_short_rejected : forall v6 o src packet,
  (length packet < ip_end v6 + 10)%nat -> parse_announce v6 o src packet = Reject errMalformedPacket.
Proof. exact udp_short_rejected. Qed.
Print Assumptions C07_udp_short_rejected.

Theorem C07_udp_options_concat : forall os,
  handle_optional (render_options os) =
  match parse_url_data (concat (chunks_before_end os)) with inl e => Reject e | inr q => Accept q end.
Proof. exact udp_options_concat. Qed.
Print Assumptions C07_udp_options_concat.

Theorem C07_udp_options_truncated_rejected : forall os len data,
  no_end os -> (Z.of_nat (length data) < len) ->
  handle_optional (render_options os ++ 2 :: len :: data) = Reject errMalformedPacket /\
  handle_optional (render_options os ++ [2]) = Reject errMalformedPacket.
Proof. exact udp_options_truncated_rejected. Qed.
Print Assumptions C07_udp_options_truncated_rejected.

Theorem C07_udp_options_unknown_rejected : forall os t tail,
  no_end os -> t <> opt_end -> t <> opt_nop -> t <> opt_urldata ->
  handle_optional (render_options os ++ t :: tail) = Reject errUnknownOptionType.
Proof. exact udp_options_unknown_rejected. Qed.
Print Assumptions C07_udp_options_unknown_rejected.

Theorem C07_udp_scrape_roundtrip : forall o hdr (ihs : list bytes),
  length hdr = 16%nat -> ihs <> [] -> Forall (fun ih => length ih = 20%nat) ihs ->
  parse_scrape o (hdr ++ concat ihs) = Accept (sanitize_scrape ihs (o_max_scrape o)).
Proof. exact udp_scrape_roundtrip. Qed.
Print Assumptions C07_udp_scrape_roundtrip.

Theorem C07_udp_scrape_bad_length_rejected : forall o packet,
  (length packet < 36)%nat \/ Nat.modulo (length packet - 16) 20 <> 0%nat ->
  parse_scrape o packet = Reject errMalformedPacket.
Proof. exact udp_scrape_bad_length_rejected. Qed.
Print Assumptions C07_udp_scrape_bad_length_rejected.

Theorem C07_udp_scrape_limit : forall o packet l,
  0 <= o_max_scrape o -> parse_scrape o packet = Accept l -> Z.of_nat (length l) <= o_max_scrape o.
Proof. exact udp_scrape_limit. Qed.
Print Assumptions C07_udp_scrape_limit.

Theorem C07_udp_short_header_silent : forall mac k skew now o ip packet,
  (length packet < 16)%nat -> handle_udp mac k skew now o ip packet = USilent.
Proof. exact udp_short_header_silent. Qed.
Print Assumptions C07_udp_short_header_silent.

Theorem C07_udp_connect_without_magic_silent : forall mac k skew now o ip packet,
  (16 <= length packet)%nat -> be_dec (sub 8 12 packet) = act_connect ->
  sub 0 8 packet <> initial_connection_id ->
  handle_udp mac k skew now o ip packet = USilent.
Proof. exact udp_connect_without_magic_silent. Qed.
Print Assumptions C07_udp_connect_without_magic_silent.

Theorem C07_udp_unknown_action_error : forall mac k skew now o ip packet,
  (16 <= length packet)%nat ->
  let a := be_dec (sub 8 12 packet) in
  a <> act_connect -> a <> act_announce -> a <> act_scrape -> a <> act_announce_v6 ->
  exists msg, handle_udp mac k skew now o ip packet = UReply (write_error_msg (sub 12 16 packet) msg).
Proof. exact udp_unknown_action_error. Qed.
Print Assumptions C07_udp_unknown_action_error.

(* never partially interpreted: the logic only ever sees a request the parser accepted as a whole *)
Theorem C07_udp_logic_only_after_parse : forall mac k skew now o ip packet txid v6 r q,
  handle_udp mac k skew now o ip packet = UAnnounce txid v6 r q ->
  parse_announce v6 o (Some ip) packet = Accept (r, q).
Proof. exact udp_logic_only_after_parse. Qed.
Print Assumptions C07_udp_logic_only_after_parse.
