(* Lemmas about Model/Query.v (ParseURLData, QueryUnescape, splitting). *)
From Chihaya Require Import Model.Query.
From Coq Require Import ZifyBool ZifyNat Permutation.
Open Scope Z_scope.

Definition is_client_err (e : err) : Prop := exists msg, e = ClientErr msg.

(* ---- errors of ParseURLData are the two fixed client errors *)
Lemma parse_segment_err seg acc e :
  parse_segment seg acc = inl e -> e = ErrInvalidQueryEscape \/ e = ErrInvalidInfohash.
Proof.
  unfold parse_segment. destruct seg as [|c s]; [discriminate|].
  destruct (cut_at 61 (c :: s)) as [k v].
  destruct (unescape k) as [k'|]; [|intros H; injection H as <-; auto].
  destruct (unescape _) as [v'|]; [|intros H; injection H as <-; auto].
  destruct (bytes_eqb k' info_hash_key); [|discriminate].
  destruct (Nat.eqb _ 20); [discriminate|]. intros H; injection H as <-; auto.
Qed.

Lemma parse_segments_err segs : forall acc e,
  parse_segments segs acc = inl e -> e = ErrInvalidQueryEscape \/ e = ErrInvalidInfohash.
Proof.
  induction segs as [|s r IH]; intros acc e; cbn [parse_segments]; [discriminate|].
  destruct (parse_segment s acc) as [e'|acc'] eqn:E.
  - intros H; injection H as <-. eapply parse_segment_err; eauto.
  - apply IH.
Qed.

Lemma parse_url_data_err u e :
  parse_url_data u = inl e -> e = ErrInvalidQueryEscape \/ e = ErrInvalidInfohash.
Proof.
  unfold parse_url_data. destruct (cut_at 63 u) as [p q].
  unfold parse_query. destruct (parse_segments _ _) as [e'|[ps ihs]] eqn:E; [|discriminate].
  intros H; injection H as <-. eapply parse_segments_err; eauto.
Qed.

Lemma parse_url_data_client_err u e : parse_url_data u = inl e -> is_client_err e.
Proof. intros H. apply parse_url_data_err in H as [->| ->]; eexists; reflexivity. Qed.
