NOTES = ("Every check: (1) rebuilds the .vo files of its property and re-runs Print Assumptions for every theorem in coq/theories/Properties/Cxx.v; "
         "(2) builds the Go driver from /repo's current working tree with -tags verif -overlay; (3) executes the implementation on generated cases; "
         "(4) evaluates the Gallina model on the same cases inside coqc (vm_compute); reason codes < 100 are property-clause violations on a concrete input, "
         ">= 100 are model/implementation divergences reported as 'no-failing-input-found' when no clause violation was found. "
         "Known findings: /verif/known_findings.jsonl. Design and trusted base: /verif/DESIGN.md.")
NOT_CLAIMED = {}
CLAIMS = {}
CLAIMS["C18"] = {
    "text": "Machine-checked proof (Coq) over an executable model of xorshift128+/Intn/entropy/hook that for EVERY infohash, peer ID and valid configuration the delta is 0 or within 1..max_increase_delta, only interval/min interval change, delta depends only on the ids, and selection is a threshold on a 24-bit residue; the pre-fix Intn is refuted by a kernel-checked witness. The model is tied to the Go code on every run by differential execution of NewHook/HandleAnnounce on crafted (state sums 0, 2^63, 2^64-1, second draw forced to 2^63) and random inputs.",
    "design_ref": "DESIGN.md section 8, C18",
    "note": "Trusted: Coq kernel + vm_compute; Glue/G18.v; Go driver; float32 facts (integers < 2^24 and their quotient by 2^24 are exact); Go int = 64 bit; visible no-int64-overflow hypothesis on interval + max_delta s. 'The configured fraction of responses' is proved only in its deterministic threshold form; uniformity of real infohashes is not a theorem.",
    "technique": "Coq proof over executable Gallina model + differential correspondence check (vm_compute)",
}
