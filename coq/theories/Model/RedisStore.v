(* Model of storage/redis/peer_store.go, sequential form: the Redis keyspace as
   hashes + integer counters, the commands the store uses, and every store
   operation as the sequence of commands it issues.  All state lives in Redis,
   so the model has no per-instance component.  Definitions only. *)
From Chihaya Require Export Model.Swarm.
Open Scope Z_scope.

(* hash values are the decimal clock values the store writes; kept as Z *)
Record rstate := { hs : gmap (list Z) (gmap (list Z) Z); cs : gmap (list Z) Z }.
Definition redis_init : rstate := {| hs := ∅; cs := ∅ |}.

(* ---- commands *)
Definition r_hash (k : list Z) (st : rstate) : gmap (list Z) Z := default ∅ (hs st !! k).
(* HSET: 1 if the field is new *)
Definition r_hset (k f : list Z) (v : Z) (st : rstate) : rstate * Z :=
  let h := r_hash k st in
  ({| hs := <[k := <[f := v]> h]> (hs st); cs := cs st |}, if h !! f then 0 else 1).
(* HDEL: 1 if the field existed; a hash without fields disappears *)
Definition r_hdel (k f : list Z) (st : rstate) : rstate * Z :=
  let h := r_hash k st in
  match h !! f with
  | None => (st, 0)
  | Some _ =>
    let h' := delete f h in
    ({| hs := if Nat.eqb (size h') 0 then delete k (hs st) else <[k := h']> (hs st); cs := cs st |}, 1)
  end.
Definition r_hlen (k : list Z) (st : rstate) : Z := Z.of_nat (size (r_hash k st)).
Definition r_incrby (k : list Z) (d : Z) (st : rstate) : rstate :=
  {| hs := hs st; cs := <[k := default 0 (cs st !! k) + d]> (cs st) |}.
Definition r_get (k : list Z) (st : rstate) : Z := default 0 (cs st !! k).

(* ---- key names *)
Definition hex_digit (d : Z) : Z := if d <? 10 then 48 + d else 87 + d.
Definition hex (b : list Z) : list Z := flat_map (λ x, [hex_digit (x / 16); hex_digit (x mod 16)]) b.
Definition k_group (v6 : bool) : list Z := if v6 then s2b "IPv6" else s2b "IPv4".
Definition k_swarm (v6 seeder : bool) (ih : list Z) : list Z :=
  k_group v6 ++ (if seeder then s2b "_S_" else s2b "_L_") ++ hex ih.
Definition k_ihcount (v6 : bool) : list Z := k_group v6 ++ s2b "_infohash_count".
Definition k_scount (v6 : bool) : list Z := k_group v6 ++ s2b "_S_count".
Definition k_lcount (v6 : bool) : list Z := k_group v6 ++ s2b "_L_count".
(* collectGarbage's test: len(ihStr) > 5 && ihStr[5:6] == "S" *)
Definition key_is_seeder (k : list Z) : bool :=
  match k !! 5%nat with Some c => c =? 83 | None => false end.

(* ---- store operations *)
Definition red_put_seeder (ih : list Z) (v6 : bool) (pk : list Z) (t : Z) (st : rstate) : rstate :=
  let '(st, r0) := r_hset (k_swarm v6 true ih) pk t st in
  let '(st, r1) := r_hset (k_group v6) (k_swarm v6 true ih) t st in
  let st := if r0 =? 1 then r_incrby (k_scount v6) 1 st else st in
  if r1 =? 1 then r_incrby (k_ihcount v6) 1 st else st.
Definition red_put_leecher (ih : list Z) (v6 : bool) (pk : list Z) (t : Z) (st : rstate) : rstate :=
  let '(st, r0) := r_hset (k_swarm v6 false ih) pk t st in
  let '(st, _) := r_hset (k_group v6) (k_swarm v6 false ih) t st in
  if r0 =? 1 then r_incrby (k_lcount v6) 1 st else st.
Definition red_del_seeder (ih : list Z) (v6 : bool) (pk : list Z) (st : rstate) : rstate * bool :=
  let '(st', r) := r_hdel (k_swarm v6 true ih) pk st in
  if r =? 0 then (st, false) else (r_incrby (k_scount v6) (-1) st', true).
Definition red_del_leecher (ih : list Z) (v6 : bool) (pk : list Z) (st : rstate) : rstate * bool :=
  let '(st', r) := r_hdel (k_swarm v6 false ih) pk st in
  if r =? 0 then (st, false) else (r_incrby (k_lcount v6) (-1) st', true).
Definition red_graduate (ih : list Z) (v6 : bool) (pk : list Z) (t : Z) (st : rstate) : rstate :=
  let '(st, r0) := r_hdel (k_swarm v6 false ih) pk st in
  let '(st, r1) := r_hset (k_swarm v6 true ih) pk t st in
  let '(st, r2) := r_hset (k_group v6) (k_swarm v6 true ih) t st in
  let st := if r0 =? 1 then r_incrby (k_lcount v6) (-1) st else st in
  let st := if r1 =? 1 then r_incrby (k_scount v6) 1 st else st in
  if r2 =? 1 then r_incrby (k_ihcount v6) 1 st else st.

(* ScrapeSwarm: uint32(HLEN) *)
Definition red_scrape (ih : list Z) (v6 : bool) (st : rstate) : Z * Z :=
  (wrap32 (r_hlen (k_swarm v6 true ih) st), wrap32 (r_hlen (k_swarm v6 false ih) st)).
(* the swarm AnnouncePeers selects from; None: both HKEYS empty *)
Definition red_members (ih : list Z) (v6 : bool) (st : rstate) : option swarm :=
  let s := r_hash (k_swarm v6 true ih) st in
  let l := r_hash (k_swarm v6 false ih) st in
  if (Nat.eqb (size s) 0) && (Nat.eqb (size l) 0) then None else Some {| seeders := s; leechers := l |}.

(* collectGarbage, one swarm key of one group *)
Definition red_gc_key (T : Z) (v6 : bool) (k : list Z) (st : rstate) : rstate :=
  let stale := filter (λ kv, kv.2 ≤ T) (r_hash k st) in
  let '(st, removed) :=
    foldr (λ f '(st, c), let '(st, r) := r_hdel k f st in (st, c + r)) (st, 0) (map fst (map_to_list stale)) in
  let st := if 0 <? removed
            then r_incrby (if key_is_seeder k then k_scount v6 else k_lcount v6) (- removed) st else st in
  if r_hlen k st =? 0 then
    let '(st, _) := r_hdel (k_group v6) k st in
    if key_is_seeder k then r_incrby (k_ihcount v6) (-1) st else st
  else st.
Definition red_gc_group (T : Z) (v6 : bool) (st : rstate) : rstate :=
  foldr (red_gc_key T v6) st (map fst (map_to_list (r_hash (k_group v6) st))).
Definition red_gc (T : Z) (st : rstate) : rstate := red_gc_group T true (red_gc_group T false st).

(* populateProm: GET of the three counters of both groups *)
Definition red_prom (st : rstate) : Z * Z * Z :=
  (r_get (k_ihcount false) st + r_get (k_ihcount true) st,
   r_get (k_scount false) st + r_get (k_scount true) st,
   r_get (k_lcount false) st + r_get (k_lcount true) st).
