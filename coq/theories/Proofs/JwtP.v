(* JWT hook (C15): the accept decision is exactly the conjunction the property
   states; every single-aspect change of an accepted token to a non-matching
   value rejects; refreshes take effect for later validations; a validation
   racing with a refresh decides on one published key set, never a mixture. *)
From Chihaya Require Import Model.Jwt.
From Coq Require Import ZifyBool ZifyNat.
Open Scope Z_scope.

(* ------------------------------------------------------------ small facts *)

Lemma opt_is_true o x : opt_is o x = true <-> o = Some x.
Proof.
  unfold opt_is. destruct o as [y|]; [|split; discriminate].
  rewrite bytes_eqb_eq. split; [intros ->; reflexivity|intros H; injection H as ->; reflexivity].
Qed.

Lemma str_in_true x l : str_in x l = true <-> In x l.
Proof.
  unfold str_in. rewrite existsb_exists. split.
  - intros [y [Hy E]]. apply bytes_eqb_eq in E. now subst.
  - intros H. exists x. split; [exact H|apply bytes_eqb_refl].
Qed.

Lemma bytes_eqb_false a b : bytes_eqb a b = false <-> a <> b.
Proof.
  split.
  - intros H E. subst. rewrite bytes_eqb_refl in H. discriminate.
  - intros H. destruct (bytes_eqb a b) eqn:E; [|reflexivity]. apply bytes_eqb_eq in E. contradiction.
Qed.

Lemma bytes_eqb_sym a b : bytes_eqb a b = bytes_eqb b a.
Proof.
  destruct (bytes_eqb a b) eqn:E.
  - apply bytes_eqb_eq in E. subst. now rewrite bytes_eqb_refl.
  - symmetry. apply bytes_eqb_false. apply bytes_eqb_false in E. congruence.
Qed.

(* ---- hex: lower-case encoding is injective on byte strings *)
Lemma hexd_inj a b : 0 <= a < 16 -> 0 <= b < 16 -> hexd a = hexd b -> a = b.
Proof.
  unfold hexd. intros Ha Hb.
  destruct (Z.ltb_spec a 10); destruct (Z.ltb_spec b 10); lia.
Qed.

Lemma hex_lower_inj a b :
  wf_bytes a = true -> wf_bytes b = true -> hex_lower a = hex_lower b -> a = b.
Proof.
  revert b. induction a as [|x a IH]; intros [|y b] Wa Wb H; cbn in H; try discriminate; [reflexivity|].
  cbn [wf_bytes forallb] in Wa, Wb.
  apply andb_true_iff in Wa as [Wx Wa]. apply andb_true_iff in Wb as [Wy Wb].
  apply is_byte_iff in Wx. apply is_byte_iff in Wy.
  injection H as H1 H2 H3.
  apply hexd_inj in H1; [|split; [apply Z.div_pos; lia|apply Z.div_lt_upper_bound; lia]..].
  apply hexd_inj in H2; [|apply Z.mod_pos_bound; lia..].
  f_equal.
  - rewrite (Z.div_mod x 16), (Z.div_mod y 16) by lia. rewrite H1, H2. reflexivity.
  - apply IH; assumption.
Qed.

Lemma hex_lower_length b : length (hex_lower b) = (2 * length b)%nat.
Proof. unfold hex_lower. induction b as [|x b IH]; cbn [flat_map length app]; [reflexivity|]. rewrite IH. lia. Qed.

(* every character hex.EncodeToString produces is a digit or a lower-case letter *)
Lemma hex_lower_chars b c :
  wf_bytes b = true -> In c (hex_lower b) -> (48 <= c <= 57) \/ (97 <= c <= 102).
Proof.
  induction b as [|x b IH]; intros W H; cbn in H; [contradiction|].
  cbn [wf_bytes forallb] in W. apply andb_true_iff in W as [Wx W]. apply is_byte_iff in Wx.
  assert (D : forall v, 0 <= v < 16 -> (48 <= hexd v <= 57) \/ (97 <= hexd v <= 102)).
  { intros v Hv. unfold hexd. destruct (Z.ltb_spec v 10); lia. }
  destruct H as [<-|[<-|H]].
  - apply D. split; [apply Z.div_pos; lia|apply Z.div_lt_upper_bound; lia].
  - apply D. apply Z.mod_pos_bound. lia.
  - apply IH; assumption.
Qed.

(* ---- the register *)
Lemma kfind_filter_ne k k' m :
  k <> k' -> kfind k (filter (fun p => negb (bytes_eqb k' (fst p))) m) = kfind k m.
Proof.
  intros N. induction m as [|[a v] m IH]; cbn; [reflexivity|].
  destruct (bytes_eqb k' a) eqn:E; cbn.
  - apply bytes_eqb_eq in E. subst a.
    assert (F : bytes_eqb k k' = false) by now apply bytes_eqb_false. rewrite F. exact IH.
  - destruct (bytes_eqb k a); [reflexivity|exact IH].
Qed.

Lemma kfind_kset k k' v m :
  kfind k (kset k' v m) = if bytes_eqb k k' then Some v else kfind k m.
Proof.
  unfold kset. cbn [kfind]. destruct (bytes_eqb k k') eqn:E; [reflexivity|].
  apply kfind_filter_ne. now apply bytes_eqb_false.
Qed.

Lemma kfind_fold k jwks acc :
  kfind k (fold_left (fun m p => kset (fst p) (snd p) m) jwks acc) =
  match kfind k (rev jwks) with Some v => Some v | None => kfind k acc end.
Proof.
  revert acc. induction jwks as [|[a v] jwks IH]; intros acc; cbn [fold_left rev]; [reflexivity|].
  rewrite IH. cbn [fst snd].
  assert (A : forall l, kfind k (l ++ [(a, v)]) =
                        match kfind k l with Some w => Some w | None => if bytes_eqb k a then Some v else None end).
  { induction l as [|[b w] l IHl]; cbn; [reflexivity|]. destruct (bytes_eqb k b); [reflexivity|exact IHl]. }
  rewrite A. destruct (kfind k (rev jwks)); [reflexivity|].
  rewrite kfind_kset. destruct (bytes_eqb k a); reflexivity.
Qed.

(* what "currently published under kid k" means for a JWK set in document order:
   the LAST entry carrying that kid *)
Lemma kfind_publish k jwks : kfind k (publish jwks) = kfind k (rev jwks).
Proof. unfold publish. rewrite kfind_fold. cbn. destruct (kfind k (rev jwks)); reflexivity. Qed.

Lemma kfind_none_not_in k m : kfind k m = None <-> ~ In k (map fst m).
Proof.
  induction m as [|[a v] m IH]; cbn; [tauto|].
  destruct (bytes_eqb k a) eqn:E.
  - apply bytes_eqb_eq in E. subst. split; [discriminate|]. intros H. exfalso. apply H. now left.
  - apply bytes_eqb_false in E. rewrite IH. split; [intros H [X|X]; [congruence|tauto]|tauto].
Qed.

Lemma published_iff k key jwks :
  kfind k (publish jwks) = Some key <->
  exists pre post, jwks = pre ++ (k, key) :: post /\ ~ In k (map fst post).
Proof.
  rewrite kfind_publish. split.
  - induction jwks as [|[a v] jwks IH] using rev_ind; [discriminate|].
    rewrite rev_app_distr. cbn. destruct (bytes_eqb k a) eqn:E.
    + intros H. injection H as ->. apply bytes_eqb_eq in E. subst a.
      exists jwks, []. split; [reflexivity|tauto].
    + intros H. apply IH in H as [pre [post [-> Hn]]]. exists pre, (post ++ [(a, v)]).
      split; [now rewrite <- app_assoc|]. rewrite map_app, in_app_iff. cbn.
      apply bytes_eqb_false in E. intros [X|[X|[]]]; [tauto|congruence].
  - intros [pre [post [-> Hn]]]. rewrite rev_app_distr. cbn [rev]. rewrite <- app_assoc.
    apply kfind_none_not_in in Hn.
    assert (A : forall l r, kfind k l = None -> kfind k (l ++ r) = kfind k r).
    { induction l as [|[b w] l IHl]; intros r; cbn; [reflexivity|]. destruct (bytes_eqb k b); [discriminate|apply IHl]. }
    rewrite A.
    + cbn. now rewrite bytes_eqb_refl.
    + apply kfind_none_not_in. rewrite map_rev. intros X. apply in_rev in X.
      apply kfind_none_not_in in Hn. contradiction.
Qed.

(* ------------------------------------------------------------ jwt_accept_iff *)

(* the property's conditions, one conjunct each *)
Definition signed_by_published_key (keys : list (bytes * Z)) (t : token) : Prop :=
  exists k key, kid t = Some k /\ kfind k keys = Some key /\ alg t = RS256 /\ sig_ok_under t key = true.
Definition issuer_matches (cfg : config) (t : token) : Prop := iss t = Some (cfg_iss cfg).
Definition audience_matches (cfg : config) (t : token) : Prop := exists l, aud t = Some l /\ In (cfg_aud cfg) l.
Definition infohash_matches (ih : bytes) (t : token) : Prop := ih_claim t = Some (hex_lower ih).
Definition within_validity (now : Z) (t : token) : Prop :=
  (forall e, exp t = Some e -> now <= e * 10 ^ 9) /\ (forall n, nbf t = Some n -> n * 10 ^ 9 < now).

Lemma legacy_none_iff cfg keys ih t :
  validate_legacy cfg keys ih t = None <->
  structure_ok t = true /\ signed_by_published_key keys t /\ issuer_matches cfg t /\
  audience_matches cfg t /\ infohash_matches ih t.
Proof.
  unfold validate_legacy, signed_by_published_key, issuer_matches, audience_matches, infohash_matches.
  destruct (structure_ok t); cbn [negb]; [|split; [discriminate|intros [H _]; discriminate]].
  destruct (opt_is (iss t) (cfg_iss cfg)) eqn:Ei; cbn [negb].
  2:{ split; [discriminate|]. intros (_ & _ & H & _). apply opt_is_true in H. congruence. }
  apply opt_is_true in Ei.
  destruct (aud t) as [l|] eqn:Ea.
  2:{ cbn. split; [discriminate|]. intros (_ & _ & _ & [l [H _]] & _). discriminate. }
  destruct (str_in (cfg_aud cfg) l) eqn:Es; cbn [negb].
  2:{ split; [discriminate|]. intros (_ & _ & _ & [l' [H1 H2]] & _). injection H1 as <-.
      apply str_in_true in H2. congruence. }
  apply str_in_true in Es.
  destruct (opt_is (ih_claim t) (hex_lower ih)) eqn:Eh; cbn [negb].
  2:{ split; [discriminate|]. intros (_ & _ & _ & _ & H). apply opt_is_true in H. congruence. }
  apply opt_is_true in Eh.
  destruct (kid t) as [k|] eqn:Ek.
  2:{ split; [discriminate|]. intros (_ & (k & key & H & _) & _). discriminate. }
  destruct (kfind k keys) as [key|] eqn:Ef.
  2:{ split; [discriminate|]. intros (_ & (k' & key & H1 & H2 & _) & _). injection H1 as <-. congruence. }
  destruct (bytes_eqb (alg t) RS256) eqn:Eal; cbn [negb].
  2:{ split; [discriminate|]. intros (_ & (k' & key' & _ & _ & H & _) & _). apply bytes_eqb_false in Eal. contradiction. }
  apply bytes_eqb_eq in Eal.
  destruct (sig_ok_under t key) eqn:Esg; cbn [negb].
  2:{ split; [discriminate|]. intros (_ & (k' & key' & H1 & H2 & _ & H3) & _). injection H1 as <-.
      rewrite Ef in H2. injection H2 as <-. congruence. }
  split; [intros _|reflexivity].
  split; [reflexivity|]. split; [exists k, key; auto|]. split; [exact Ei|]. split; [exists l; auto|exact Eh].
Qed.

Lemma validity_iff now t : exp_ok now t = true /\ nbf_ok now t = true <-> within_validity now t.
Proof.
  unfold exp_ok, nbf_ok, within_validity. destruct (exp t) as [e|]; destruct (nbf t) as [n|].
  - split.
    + intros [H1 H2]. split; intros x Hx; injection Hx as <-; lia.
    + intros [H1 H2]. specialize (H1 e eq_refl). specialize (H2 n eq_refl). lia.
  - split.
    + intros [H1 _]. split; intros x Hx; [injection Hx as <-; lia|discriminate].
    + intros [H1 _]. specialize (H1 e eq_refl). lia.
  - split.
    + intros [_ H2]. split; intros x Hx; [discriminate|injection Hx as <-; lia].
    + intros [_ H2]. specialize (H2 n eq_refl). lia.
  - split; [intros _; split; intros x Hx; discriminate|auto].
Qed.

(* C15, first sentence *)
Theorem jwt_accept_iff cfg keys now ih t :
  jwt_accept cfg keys now ih t = true <->
  structure_ok t = true /\ signed_by_published_key keys t /\ issuer_matches cfg t /\
  audience_matches cfg t /\ infohash_matches ih t /\ within_validity now t.
Proof.
  unfold jwt_accept, validate_jwt.
  destruct (validate_legacy cfg keys ih t) as [r|] eqn:E.
  - cbn. split; [discriminate|]. intros (H1 & H2 & H3 & H4 & H5 & _).
    assert (X : validate_legacy cfg keys ih t = None) by (apply legacy_none_iff; auto). congruence.
  - apply legacy_none_iff in E. destruct E as (H1 & H2 & H3 & H4 & H5).
    rewrite <- validity_iff.
    destruct (exp_ok now t); cbn; [destruct (nbf_ok now t); cbn|]; split; try discriminate; try tauto.
Qed.

Theorem jwt_accept_legacy_iff cfg keys ih t :
  jwt_accept_legacy cfg keys ih t = true <->
  structure_ok t = true /\ signed_by_published_key keys t /\ issuer_matches cfg t /\
  audience_matches cfg t /\ infohash_matches ih t.
Proof.
  unfold jwt_accept_legacy. rewrite <- legacy_none_iff.
  destruct (validate_legacy cfg keys ih t); cbn; split; congruence.
Qed.

(* the key the property means: the one the LAST entry of the served JWK set with the token's kid carries *)
Theorem accept_selects_published_key cfg jwks now ih t :
  jwt_accept cfg (publish jwks) now ih t = true ->
  exists k key pre post, kid t = Some k /\ jwks = pre ++ (k, key) :: post /\ ~ In k (map fst post) /\
                         alg t = RS256 /\ sig_ok_under t key = true.
Proof.
  intros H. apply jwt_accept_iff in H as (_ & (k & key & Hk & Hf & Ha & Hs) & _).
  apply published_iff in Hf as (pre & post & -> & Hn). exists k, key, pre, post. auto.
Qed.

(* non-vacuity: an accepted token exists *)
Definition ex_cfg := {| cfg_iss := s2b "https://issuer.example"; cfg_aud := s2b "chihaya" |}.
Definition ex_ih : bytes := [0; 17; 34; 51; 68; 85; 102; 119; 136; 153; 170; 187; 204; 221; 238; 255; 1; 2; 3; 4].
Definition ex_tok := {|
  structure_ok := true; alg := RS256; kid := Some (s2b "k1"); iss := Some (s2b "https://issuer.example");
  aud := Some [s2b "other"; s2b "chihaya"]; ih_claim := Some (s2b "00112233445566778899aabbccddeeff01020304");
  exp := Some 2000; nbf := Some 1000; sig_ok_under := fun k => k =? 7 |}.
Definition ex_keys := publish [(s2b "k0", 3); (s2b "k1", 7)].
Example accepted_token_exists : jwt_accept ex_cfg ex_keys (1500 * 10 ^ 9) ex_ih ex_tok = true.
Proof. vm_compute. reflexivity. Qed.

(* ------------------------------------------------------------ single changes *)

(* Each lemma: whatever the rest of the token looks like, a non-matching value in this
   one aspect rejects.  (Stronger than needed: the other aspects need not be valid.) *)
Ltac rejects H := destruct H as (? & ? & ? & ? & ? & ?).

Lemma not_accept_false cfg keys now ih t :
  ~ (jwt_accept cfg keys now ih t = true) -> jwt_accept cfg keys now ih t = false.
Proof. destruct (jwt_accept cfg keys now ih t); [intros H; exfalso; now apply H|reflexivity]. Qed.

Lemma bad_structure_rejects cfg keys now ih t :
  structure_ok t = false -> jwt_accept cfg keys now ih t = false.
Proof. intros B. apply not_accept_false. intros H. apply jwt_accept_iff in H as (H & _). congruence. Qed.

Lemma bad_alg_rejects cfg keys now ih t :
  alg t <> RS256 -> jwt_accept cfg keys now ih t = false.
Proof.
  intros B. apply not_accept_false. intros H.
  apply jwt_accept_iff in H as (_ & (k & key & _ & _ & Ha & _) & _). contradiction.
Qed.

Lemma missing_kid_rejects cfg keys now ih t :
  kid t = None -> jwt_accept cfg keys now ih t = false.
Proof.
  intros B. apply not_accept_false. intros H.
  apply jwt_accept_iff in H as (_ & (k & key & Hk & _) & _). congruence.
Qed.

Lemma unknown_kid_rejects cfg keys now ih t k :
  kid t = Some k -> kfind k keys = None -> jwt_accept cfg keys now ih t = false.
Proof.
  intros B1 B2. apply not_accept_false. intros H.
  apply jwt_accept_iff in H as (_ & (k' & key & Hk & Hf & _) & _). congruence.
Qed.

(* bad signature: flipped signature bits, header or payload bytes altered after signing, signed
   by another key (incl. a kid that selects a different published key) *)
Lemma bad_signature_rejects cfg keys now ih t k key :
  kid t = Some k -> kfind k keys = Some key -> sig_ok_under t key = false ->
  jwt_accept cfg keys now ih t = false.
Proof.
  intros B1 B2 B3. apply not_accept_false. intros H.
  apply jwt_accept_iff in H as (_ & (k' & key' & Hk & Hf & _ & Hs) & _). congruence.
Qed.

Lemma bad_issuer_rejects cfg keys now ih t :
  iss t <> Some (cfg_iss cfg) -> jwt_accept cfg keys now ih t = false.
Proof.
  intros B. apply not_accept_false. intros H. apply jwt_accept_iff in H as (_ & _ & Hi & _). contradiction.
Qed.

Lemma bad_audience_rejects cfg keys now ih t :
  (forall l, aud t = Some l -> ~ In (cfg_aud cfg) l) -> jwt_accept cfg keys now ih t = false.
Proof.
  intros B. apply not_accept_false. intros H.
  apply jwt_accept_iff in H as (_ & _ & _ & (l & Hl & Hin) & _). exact (B l Hl Hin).
Qed.

Lemma bad_infohash_claim_rejects cfg keys now ih t :
  ih_claim t <> Some (hex_lower ih) -> jwt_accept cfg keys now ih t = false.
Proof.
  intros B. apply not_accept_false. intros H.
  apply jwt_accept_iff in H as (_ & _ & _ & _ & Hh & _). contradiction.
Qed.

(* a token accepted for one infohash is rejected for every other one *)
Lemma other_infohash_rejects cfg keys now ih ih' t :
  wf_bytes ih = true -> wf_bytes ih' = true -> ih' <> ih ->
  jwt_accept cfg keys now ih t = true -> jwt_accept cfg keys now ih' t = false.
Proof.
  intros W W' N A. apply bad_infohash_claim_rejects.
  apply jwt_accept_iff in A as (_ & _ & _ & _ & Hh & _). unfold infohash_matches in Hh. rewrite Hh.
  intros E. injection E as E. apply N. symmetry. now apply hex_lower_inj.
Qed.

(* the claim must be the LOWER-case hex text: any claim containing an upper-case letter is rejected *)
Lemma uppercase_claim_rejects cfg keys now ih t c x :
  wf_bytes ih = true -> ih_claim t = Some c -> In x c -> 65 <= x <= 70 ->
  jwt_accept cfg keys now ih t = false.
Proof.
  intros W Hc Hx Hu. apply bad_infohash_claim_rejects. rewrite Hc. intros E. injection E as ->.
  apply hex_lower_chars in Hx; [lia|exact W].
Qed.

Lemma expired_rejects cfg keys now ih t e :
  exp t = Some e -> e * 10 ^ 9 < now -> jwt_accept cfg keys now ih t = false.
Proof.
  intros B1 B2. apply not_accept_false. intros H.
  apply jwt_accept_iff in H as (_ & _ & _ & _ & _ & (He & _)). specialize (He e B1). lia.
Qed.

Lemma not_yet_valid_rejects cfg keys now ih t n :
  nbf t = Some n -> now <= n * 10 ^ 9 -> jwt_accept cfg keys now ih t = false.
Proof.
  intros B1 B2. apply not_accept_false. intros H.
  apply jwt_accept_iff in H as (_ & _ & _ & _ & _ & (_ & Hn)). specialize (Hn n B1). lia.
Qed.

(* the changes of ONE aspect of a token t to a non-matching value *)
Inductive bad_change (cfg : config) (keys : list (bytes * Z)) (now : Z) (ih : bytes) (t : token) : token -> Prop :=
| ChStructure : bad_change cfg keys now ih t (with_structure false t)
| ChAlg a : a <> RS256 -> bad_change cfg keys now ih t (with_alg a t)
| ChKidMissing : bad_change cfg keys now ih t (with_kid None t)
| ChKidUnknown k : kfind k keys = None -> bad_change cfg keys now ih t (with_kid (Some k) t)
| ChKidOtherKey k key : kfind k keys = Some key -> sig_ok_under t key = false ->
                        bad_change cfg keys now ih t (with_kid (Some k) t)
| ChSignature f : (forall k key, kid t = Some k -> kfind k keys = Some key -> f key = false) ->
                  bad_change cfg keys now ih t (with_sig f t)
| ChIssuer i : i <> Some (cfg_iss cfg) -> bad_change cfg keys now ih t (with_iss i t)
| ChAudience a : (forall l, a = Some l -> ~ In (cfg_aud cfg) l) -> bad_change cfg keys now ih t (with_aud a t)
| ChInfohash c : c <> Some (hex_lower ih) -> bad_change cfg keys now ih t (with_ih_claim c t)
| ChExp e : e * 10 ^ 9 < now -> bad_change cfg keys now ih t (with_exp (Some e) t)
| ChNbf n : now <= n * 10 ^ 9 -> bad_change cfg keys now ih t (with_nbf (Some n) t).

Theorem single_change_rejects cfg keys now ih t t' :
  jwt_accept cfg keys now ih t = true -> bad_change cfg keys now ih t t' ->
  jwt_accept cfg keys now ih t' = false.
Proof.
  intros A C. apply jwt_accept_iff in A as (_ & (k0 & key0 & Hk0 & Hf0 & _ & _) & _).
  destruct C as [|a Ha| |k Hk|k key Hk Hs|f Hf|i Hi|a Ha|c Hc|e He|n Hn].
  - now apply bad_structure_rejects.
  - now apply bad_alg_rejects.
  - now apply missing_kid_rejects.
  - now apply unknown_kid_rejects with (k := k).
  - now apply bad_signature_rejects with (k := k) (key := key).
  - apply bad_signature_rejects with (k := k0) (key := key0); [exact Hk0|exact Hf0|]. cbn. now apply Hf with (k := k0).
  - now apply bad_issuer_rejects.
  - now apply bad_audience_rejects.
  - now apply bad_infohash_claim_rejects.
  - now apply expired_rejects with (e := e).
  - now apply not_yet_valid_rejects with (n := n).
Qed.

(* the hypotheses of single_change_rejects are satisfiable for every constructor's shape *)
Example single_change_example :
  jwt_accept ex_cfg ex_keys (1500 * 10 ^ 9) ex_ih (with_exp (Some 1499) ex_tok) = false /\
  jwt_accept ex_cfg ex_keys (1500 * 10 ^ 9) ex_ih (with_kid (Some (s2b "k0")) ex_tok) = false /\
  jwt_accept ex_cfg ex_keys (1500 * 10 ^ 9) ex_ih (with_aud (Some [s2b "other"]) ex_tok) = false /\
  jwt_accept ex_cfg ex_keys (1500 * 10 ^ 9) ex_ih
             (with_ih_claim (Some (s2b "00112233445566778899AABBCCDDEEFF01020304")) ex_tok) = false.
Proof. vm_compute. auto. Qed.

(* ------------------------------------------------------------ histories *)

Lemma run_app cfg st h1 h2 :
  run cfg st (h1 ++ h2) = run cfg st h1 ++ run cfg (fold_left (fun s o => op_refresh o s) h1 st) h2.
Proof.
  revert st. induction h1 as [|o h1 IH]; intros st; cbn [app run fold_left]; [reflexivity|].
  now rewrite IH.
Qed.

Lemma run_length cfg st h : length (run cfg st h) = length h.
Proof. revert st. induction h as [|o h IH]; intros st; cbn; [reflexivity|]. now rewrite IH. Qed.

Lemma fold_latest st0 h : fold_left (fun s o => op_refresh o s) h st0 = latest_keys st0 h.
Proof.
  unfold latest_keys. induction h as [|o h IH] using rev_ind; [reflexivity|].
  rewrite fold_left_app, rev_app_distr. cbn [fold_left rev app latest_rev].
  rewrite IH. destruct o; reflexivity.
Qed.

(* C15, second sentence, first half: for EVERY history, the verdict of each validation is
   jwt_accept under the key set of the latest successful refresh before it *)
Theorem refresh_effective cfg st0 pre now ih t post :
  nth_error (run cfg st0 (pre ++ Validate now ih t :: post)) (length pre) =
  Some (Some (jwt_accept cfg (latest_keys st0 pre) now ih t)).
Proof.
  rewrite run_app, nth_error_app2 by (rewrite run_length; lia).
  rewrite run_length, Nat.sub_diag. cbn. now rewrite fold_latest.
Qed.

(* latest_keys is what its name says *)
Theorem latest_keys_spec st0 h :
  (forall pre jwks post, h = pre ++ Refresh jwks :: post -> forallb (fun o => negb (is_refresh o)) post = true ->
                         latest_keys st0 h = publish jwks) /\
  (forallb (fun o => negb (is_refresh o)) h = true -> latest_keys st0 h = st0).
Proof.
  assert (A : forall l, forallb (fun o => negb (is_refresh o)) l = true -> forall tl, latest_rev st0 (rev l ++ tl) = latest_rev st0 tl).
  { induction l as [|o l IH]; intros F tl; [reflexivity|]. cbn [forallb] in F. apply andb_true_iff in F as [Fo F].
    cbn [rev]. rewrite <- app_assoc. rewrite IH by exact F. cbn. destruct o; [discriminate|reflexivity..]. }
  unfold latest_keys. split.
  - intros pre jwks post -> F. rewrite rev_app_distr. cbn [rev]. rewrite <- app_assoc. rewrite A by exact F. reflexivity.
  - intros F. specialize (A h F []). now rewrite app_nil_r in A.
Qed.

(* a failed refresh changes no later verdict *)
Corollary failed_refresh_invisible cfg st0 pre now ih t post :
  nth_error (run cfg st0 (pre ++ FailedRefresh :: Validate now ih t :: post)) (S (length pre)) =
  nth_error (run cfg st0 (pre ++ Validate now ih t :: post)) (length pre).
Proof.
  rewrite refresh_effective.
  replace (pre ++ FailedRefresh :: Validate now ih t :: post) with ((pre ++ [FailedRefresh]) ++ Validate now ih t :: post)
    by now rewrite <- app_assoc.
  replace (S (length pre)) with (length (pre ++ [FailedRefresh])) by (rewrite app_length; cbn; lia).
  rewrite refresh_effective. unfold latest_keys. rewrite rev_app_distr. reflexivity.
Qed.

(* ------------------------------------------------------------ refresh || validation *)

Section MachineP.
  Variables (cfg : config) (now : Z) (ih : bytes) (t : token).
  Notation attempts := (list (option (list (bytes * Z)))).

  (* invariant: `d` attempts of rs are complete; the register holds their result; a built but
     unpublished map is the result of one more; the validator's snapshot (or the snapshot its
     verdict was computed from) is the register after some k <= d attempts *)
  Definition inv (st0 : list (bytes * Z)) (rs : attempts) (m : mach) : Prop :=
    exists d, (d <= length rs)%nat /\
      match built m with
      | None => reg m = reg_after st0 (firstn d rs) /\ todo m = skipn d rs
      | Some s => (S d <= length rs)%nat /\ reg m = reg_after st0 (firstn d rs) /\
                  s = reg_after st0 (firstn (S d) rs) /\ todo m = skipn (S d) rs
      end /\
      match vp m with
      | VStart => True
      | VSnap s => exists k, (k <= d)%nat /\ s = reg_after st0 (firstn k rs)
      | VDone v => exists k, (k <= d)%nat /\ v = jwt_accept cfg (reg_after st0 (firstn k rs)) now ih t
      end.

  Lemma firstn_S_skipn {A} d (l : list A) x r : skipn d l = x :: r -> firstn (S d) l = firstn d l ++ [x] /\ skipn (S d) l = r.
  Proof.
    revert l. induction d as [|d IH]; intros [|y l] H; cbn in H; try discriminate.
    - injection H as -> ->. split; reflexivity.
    - apply IH in H as [H1 H2]. rewrite !firstn_cons, H1.
      change (skipn (S (S d)) (y :: l)) with (skipn (S d) l). split; [reflexivity|exact H2].
  Qed.

  Lemma skipn_cons_lt {A} d (l : list A) x r : skipn d l = x :: r -> (S d <= length l)%nat.
  Proof.
    revert l. induction d as [|d IH]; intros [|y l] H; cbn in H; try discriminate; cbn; [lia|].
    apply IH in H. lia.
  Qed.

  Lemma reg_after_snoc st0 (l : attempts) x : reg_after st0 (l ++ [x]) = refresh x (reg_after st0 l).
  Proof. unfold reg_after. now rewrite fold_left_app. Qed.

  Lemma inv_step_v st0 rs m : inv st0 rs m -> inv st0 rs (step_v cfg now ih t m).
  Proof.
    intros (d & Hd & Hb & Hv). unfold step_v. destruct (vp m) as [|s|v] eqn:E.
    - exists d. split; [exact Hd|]. cbn [built reg todo vp]. split; [exact Hb|].
      exists d. split; [lia|]. destruct (built m); tauto.
    - exists d. split; [exact Hd|]. cbn [built reg todo vp]. split; [exact Hb|].
      destruct Hv as (k & Hk & ->). exists k. auto.
    - exists d. rewrite E. auto.
  Qed.

  Lemma inv_step_r st0 rs m : inv st0 rs m -> inv st0 rs (step_r m).
  Proof.
    intros (d & Hd & Hb & Hv). unfold step_r. destruct (built m) as [s|] eqn:Eb.
    - destruct Hb as (Hd' & Hr & Hs & Ht). exists (S d). split; [exact Hd'|]. cbn [built reg todo vp].
      split; [split; [exact Hs|exact Ht]|].
      destruct (vp m) as [|s'|v]; [exact I|..]; destruct Hv as (k & Hk & Hx); exists k; split; try lia; exact Hx.
    - destruct Hb as (Hr & Ht). destruct (todo m) as [|[jwks|] r] eqn:Et.
      + exists d. rewrite Eb, Et. auto.
      + symmetry in Ht. pose proof (skipn_cons_lt _ _ _ _ Ht) as Hl. apply firstn_S_skipn in Ht as [H1 H2].
        exists d. split; [exact Hd|]. cbn [built reg todo vp]. split; [|exact Hv].
        split; [exact Hl|]. split; [exact Hr|]. split; [|now rewrite H2].
        rewrite H1, reg_after_snoc. reflexivity.
      + symmetry in Ht. pose proof (skipn_cons_lt _ _ _ _ Ht) as Hl. apply firstn_S_skipn in Ht as [H1 H2].
        exists (S d). split; [exact Hl|]. cbn [built reg todo vp]. split.
        * split; [|now rewrite H2]. rewrite H1, reg_after_snoc. cbn. exact Hr.
        * destruct (vp m) as [|s'|v]; [exact I|..]; destruct Hv as (k & Hk & Hx); exists k; split; try lia; exact Hx.
  Qed.

  Lemma inv_exec st0 rs sched m : inv st0 rs m -> inv st0 rs (exec cfg now ih t sched m).
  Proof.
    revert m. induction sched as [|b sched IH]; intros m H; cbn [exec]; [exact H|].
    apply IH. destruct b; [now apply inv_step_v|now apply inv_step_r].
  Qed.

  Lemma inv_init st0 rs : inv st0 rs (init_mach st0 rs).
  Proof. exists 0%nat. cbn. split; [lia|]. split; [split; reflexivity|exact I]. Qed.

  (* C15, second sentence, second half: under EVERY interleaving of the refresher's steps with the
     validator's, a verdict is the one jwt_accept gives under the register contents after some
     whole number k of completed refresh attempts - old or new key set, never a mixture *)
  Theorem refresh_snapshot_atomic_general st0 rs sched v :
    vp (exec cfg now ih t sched (init_mach st0 rs)) = VDone v ->
    exists k, (k <= length rs)%nat /\ v = jwt_accept cfg (reg_after st0 (firstn k rs)) now ih t.
  Proof.
    intros H. destruct (inv_exec st0 rs sched _ (inv_init st0 rs)) as (d & Hd & _ & Hv).
    rewrite H in Hv. destruct Hv as (k & Hk & ->). exists k. split; [lia|reflexivity].
  Qed.

  Theorem refresh_snapshot_atomic st0 jwks sched v :
    vp (exec cfg now ih t sched (init_mach st0 [Some jwks])) = VDone v ->
    v = jwt_accept cfg st0 now ih t \/ v = jwt_accept cfg (publish jwks) now ih t.
  Proof.
    intros H. apply refresh_snapshot_atomic_general in H as (k & Hk & ->). cbn in Hk.
    destruct k as [|[|k]]; [left; reflexivity|right; reflexivity|lia].
  Qed.

  (* when the refresher has finished, the register holds the result of all attempts in order *)
  Theorem refresher_done_register st0 rs sched :
    let m := exec cfg now ih t sched (init_mach st0 rs) in
    built m = None -> todo m = [] -> reg m = reg_after st0 rs.
  Proof.
    intros m Hb Ht. destruct (inv_exec st0 rs sched _ (inv_init st0 rs)) as (d & Hd & Hx & _).
    fold m in Hx. rewrite Hb in Hx. destruct Hx as (Hr & Hs). rewrite Ht in Hs.
    assert (L : length (skipn d rs) = 0%nat) by now rewrite <- Hs.
    rewrite skipn_length in L. rewrite firstn_all2 in Hr by lia. exact Hr.
  Qed.
End MachineP.

(* both outcomes of the race are reachable (the model is not degenerate): validator first sees the
   old set, refresher first sees the new one *)
Example race_both_outcomes :
  let m0 := init_mach ex_keys [Some [(s2b "k9", 1)]] in
  vp (exec ex_cfg (1500 * 10 ^ 9) ex_ih ex_tok [true; false; false; true] m0) = VDone true /\
  vp (exec ex_cfg (1500 * 10 ^ 9) ex_ih ex_tok [false; false; true; true] m0) = VDone false.
Proof. vm_compute. auto. Qed.

(* ------------------------------------------------------------ legacy (F4) *)

(* before the fix the hook called jws.Verify only: a token expired at `now` is accepted *)
Theorem jwt_legacy_ignores_exp_refuted :
  exists cfg keys now ih t e,
    exp t = Some e /\ e * 10 ^ 9 < now /\
    jwt_accept_legacy cfg keys ih t = true /\ jwt_accept cfg keys now ih t = false.
Proof.
  exists ex_cfg, ex_keys, (5600 * 10 ^ 9), ex_ih, ex_tok, 2000.
  split; [reflexivity|]. split; [lia|]. vm_compute. auto.
Qed.

Theorem jwt_legacy_ignores_nbf_refuted :
  exists cfg keys now ih t n,
    nbf t = Some n /\ now <= n * 10 ^ 9 /\
    jwt_accept_legacy cfg keys ih t = true /\ jwt_accept cfg keys now ih t = false.
Proof.
  exists ex_cfg, ex_keys, (10 * 10 ^ 9), ex_ih, ex_tok, 1000.
  split; [reflexivity|]. split; [lia|]. vm_compute. auto.
Qed.

(* apart from exp/nbf the two agree *)
Theorem legacy_differs_only_in_validity cfg keys now ih t :
  jwt_accept cfg keys now ih t = jwt_accept_legacy cfg keys ih t && exp_ok now t && nbf_ok now t.
Proof.
  unfold jwt_accept, jwt_accept_legacy, validate_jwt.
  destruct (validate_legacy cfg keys ih t); cbn; [reflexivity|].
  destruct (exp_ok now t); cbn; [|reflexivity]. destruct (nbf_ok now t); reflexivity.
Qed.

(* ------------------------------------------------------------ the hook *)

Theorem scrape_never_checked cfg keys param : hook_scrape cfg keys param = None.
Proof. reflexivity. Qed.

Theorem missing_param_rejected (view : bytes -> token) cfg keys now ih :
  hook_announce view cfg keys now ih None = Some ErrMissingJWT.
Proof. reflexivity. Qed.

Theorem hook_announce_decides (view : bytes -> token) cfg keys now ih s :
  (hook_announce view cfg keys now ih (Some s) = None <-> jwt_accept cfg keys now ih (view s) = true) /\
  (hook_announce view cfg keys now ih (Some s) = Some ErrInvalidJWT <-> jwt_accept cfg keys now ih (view s) = false).
Proof.
  unfold hook_announce. destruct (jwt_accept cfg keys now ih (view s)); split; split; congruence.
Qed.

(* ------------------------------------------------------------ fetches in flight *)

(* one fetcher: at most one fetch in flight; the register holds the version of the newest COMPLETED fetch
   (= f_ret), it never exceeds the newest version any fetch was served (f_srv), and a pending response
   carries a version at least the register's *)
Definition finv (s : fstate) : Prop :=
  f_ret s = f_reg s /\ (f_reg s <= f_srv s)%nat /\ (f_srv s <= f_cur s)%nat /\
  (f_pend s = [] \/ exists v, f_pend s = [(0%nat, v)] /\ (f_reg s <= v)%nat /\ (v <= f_srv s)%nat).

Lemma finv_init v : finv (finit v).
Proof. unfold finv, finit; cbn. repeat split; try lia. now left. Qed.

Lemma finv_step s e : only_fetcher 0 e = true -> finv s ->
  finv (fstep s e) /\ (f_reg s <= f_reg (fstep s e))%nat /\ (f_srv s <= f_srv (fstep s e))%nat /\
  (f_ret s <= f_ret (fstep s e))%nat.
Proof.
  intros O (Hr & Hrs & Hsc & Hp). destruct e as [w|w|]; cbn [only_fetcher] in O.
  - apply Nat.eqb_eq in O. subst w. cbn [fstep]. destruct Hp as [Hp|(v & Hp & Hv1 & Hv2)]; rewrite Hp; cbn [plook Nat.eqb].
    + unfold finv; cbn. repeat split; try lia. right. exists (f_cur s). repeat split; lia.
    + repeat split; try lia; try assumption. right. exists v. repeat split; assumption.
  - apply Nat.eqb_eq in O. subst w. cbn [fstep]. destruct Hp as [Hp|(v & Hp & Hv1 & Hv2)]; rewrite Hp; cbn [plook Nat.eqb].
    + repeat split; try lia; try assumption. now left.
    + unfold finv; cbn. repeat split; try lia. now left.
  - unfold finv; cbn. repeat split; try lia.
    destruct Hp as [Hp|(v & Hp & Hv1 & Hv2)]; [now left|right; exists v; repeat split; assumption].
Qed.

(* EVERY schedule of serve / install / rotate events with the one fetcher the code has: at every instant the
   register is the version of the newest completed fetch and at most the newest version served, and it never
   goes back: an announce that reads the register at any instant between its start and its end is decided
   under a version v with (f_ret at its start) <= v <= (f_srv at its end), and later reads see later versions *)
Theorem serial_fetch_register s evs :
  finv s -> forallb (only_fetcher 0) evs = true ->
  Forall (fun s' => f_ret s' = f_reg s' /\ (f_reg s' <= f_srv s')%nat) (ftrace s evs) /\
  nondecreasing (map f_reg (s :: ftrace s evs)) = true /\
  nondecreasing (map f_srv (s :: ftrace s evs)) = true /\
  nondecreasing (map f_ret (s :: ftrace s evs)) = true.
Proof.
  revert s. induction evs as [|e evs IH]; intros s I O; cbn [ftrace].
  - repeat split; constructor.
  - cbn [forallb] in O. apply andb_true_iff in O as [Oe O].
    destruct (finv_step s e Oe I) as (I' & M1 & M2 & M3).
    destruct (IH _ I' O) as (F & N1 & N2 & N3). split; [|split; [|split]].
    + constructor; [|exact F]. destruct I' as (A & B & _). split; assumption.
    + cbn [map nondecreasing] in *. rewrite N1. apply Nat.leb_le in M1. now rewrite M1.
    + cbn [map nondecreasing] in *. rewrite N2. apply Nat.leb_le in M2. now rewrite M2.
    + cbn [map nondecreasing] in *. rewrite N3. apply Nat.leb_le in M3. now rewrite M3.
Qed.

(* with a SECOND caller of updateKeys (e.g. a refresh on demand from HandleAnnounce) the register can go back:
   fetch 0 is served version 0 and is slow, the issuer rotates, fetch 1 is served and installs version 1,
   then the late response of fetch 0 overwrites it with version 0 - a withdrawn key is trusted again *)
Theorem two_fetchers_register_goes_back :
  exists evs, nondecreasing (map f_reg (finit 0 :: ftrace (finit 0) evs)) = false /\
              map f_reg (ftrace (finit 0) evs) = [0; 0; 0; 1; 0]%nat.
Proof. exists [FBegin 0; FRotate; FBegin 1; FEnd 1; FEnd 0]. split; reflexivity. Qed.
