(* Model of frontend/udp/parser.go (ParseAnnounce, handleOptionalParameters,
   ParseScrape) and of the rest of frontend/udp/frontend.go:handleRequest behind
   the dispatcher of Model/ConnID.v.   Definitions only.

   Every Go slice/index expression is a [slice]/[nth_error] whose failure is the
   explicit outcome Panic; that Panic is unreachable is a theorem
   (Proofs/UdpParseP.v), made true - as in the Go code - by the length checks. *)
From Chihaya Require Export Model.Query Model.ConnID.
Open Scope Z_scope.

Definition errMalformedPacket := ClientErr (s2b "malformed packet").
Definition errMalformedIP := ClientErr (s2b "malformed IP address").
Definition errMalformedEvent := ClientErr (s2b "malformed event ID").
Definition errUnknownAction := ClientErr unknown_action_id.
Definition errBadConnectionID := ClientErr bad_connection_id.
Definition errUnknownOptionType := ClientErr (s2b "unknown option type").

(* ParseOptions *)
Record popts := { o_spoof : bool; o_max_nw : Z; o_def_nw : Z; o_max_scrape : Z }.

Inductive outcome (A : Type) :=
| Accept (x : A)
| Reject (e : err)
| Panic.
Arguments Accept {A}. Arguments Reject {A}. Arguments Panic {A}.

(* eventIDs = []Event{None, Completed, Started, Stopped}; None = index out of range *)
Definition event_ids : list event := [EvNone; EvCompleted; EvStarted; EvStopped].

(* ---- BEP 41 options *)
Definition opt_end : Z := 0.
Definition opt_nop : Z := 1.
Definition opt_urldata : Z := 2.

(* The loop of handleOptionalParameters: Some (inr data) = the concatenated URL
   data, Some (inl e) = rejected, None = out of fuel (never with
   fuel >= length p, Proofs/UdpParseP.v). *)
Fixpoint options_loop (fuel : nat) (p acc : bytes) : option (err + bytes) :=
  match p with
  | [] => Some (inr acc)
  | o :: r =>
    match fuel with
    | O => None
    | S fuel' =>
      if o =? opt_end then Some (inr acc)
      else if o =? opt_nop then options_loop fuel' r acc
      else if o =? opt_urldata then
        match r with
        | [] => Some (inl errMalformedPacket)                 (* i+1 >= len(packet) *)
        | len :: r' =>
          if Z.of_nat (length r') <? len then Some (inl errMalformedPacket)   (* i+2+length > len(packet) *)
          else options_loop fuel' (skipn (Z.to_nat len) r') (acc ++ firstn (Z.to_nat len) r')
        end
      else Some (inl errUnknownOptionType)
    end
  end.

Definition handle_optional (p : bytes) : outcome qparams :=
  match options_loop (length p) p [] with
  | None => Panic
  | Some (inl e) => Reject e
  | Some (inr data) =>
    match parse_url_data data with
    | inl e => Reject e
    | inr q => Accept q
    end
  end.

(* Which address the request carries (after "fix: UDP spoofing ..."): with spoofing
   allowed a non-zero IP field of the packet is used verbatim (a fresh copy), an
   all-zero field means "use the source address" (BEP 15); without spoofing always
   the source address.  Second component: IPProvided. *)
Definition all_zero (b : bytes) : bool := forallb (fun x => x =? 0) b.
Definition choose_ip (o : popts) (src : option bytes) (ipb : bytes) : option bytes * bool :=
  if o_spoof o && negb (all_zero ipb) then (Some ipb, true) else (src, false).

(* the code before the fix: copy(ip, ipbytes) overwrote the first min(len) bytes of the
   source-address slice with the packet's IP field whenever spoofing was allowed *)
Definition copy_into (dst src : bytes) : bytes :=
  let n := Nat.min (length dst) (length src) in firstn n src ++ skipn n dst.
Definition choose_ip_legacy (o : popts) (src : option bytes) (ipb : bytes) : option bytes * bool :=
  if o_spoof o then (option_map (fun s => copy_into s ipb) src, true) else (src, false).

(* everything ParseAnnounce does once the fields are cut out of the packet *)
Definition announce_of_fields (o : popts) (src : option bytes)
           (ih pid dl lf ul : bytes) (ev : Z) (ipb nw port opts : bytes) : outcome (areq * qparams) :=
  if Z.of_nat (length event_ids) <=? ev then Reject errMalformedEvent else
  let '(ip, provided) := choose_ip o src ipb in
  if negb (o_spoof o) && (match src with None => true | Some _ => false end) then Reject errMalformedIP else
  match handle_optional opts with
  | Panic => Panic
  | Reject e => Reject e
  | Accept q =>
    match nth_error event_ids (Z.to_nat ev) with
    | None => Panic
    | Some e =>
      let req := {| r_event := e; r_ih := ih; r_compact := false;
                    r_event_provided := true; r_numwant_provided := true; r_ip_provided := provided;
                    r_numwant := be_dec nw; r_left := be_dec lf; r_downloaded := be_dec dl; r_uploaded := be_dec ul;
                    r_peer := {| p_id := pid; p_ip := match ip with Some i => i | None => [] end; p_port := be_dec port |};
                    r_af := V4 |} in
      match sanitize_announce req (o_max_nw o) (o_def_nw o) with
      | inl e => Reject e
      | inr r => Accept (r, q)
      end
    end
  end.

Definition ip_end (v6action : bool) : nat := if v6action then 100%nat else 88%nat.

(* ParseAnnounce; src = r.IP (None = nil) *)
Definition parse_announce (v6action : bool) (o : popts) (src : option bytes) (packet : bytes)
  : outcome (areq * qparams) :=
  let e := ip_end v6action in
  if Nat.ltb (length packet) (e + 10) then Reject errMalformedPacket else
  match slice 16 36 packet, slice 36 56 packet, slice 56 64 packet, slice 64 72 packet, slice 72 80 packet,
        nth_error packet 83, slice 84 e packet, slice (e + 4) (e + 8) packet, slice (e + 8) (e + 10) packet,
        slice (e + 10) (length packet) packet with
  | Some ih, Some pid, Some dl, Some lf, Some ul, Some ev, Some ipb, Some nw, Some port, Some opts =>
    announce_of_fields o src ih pid dl lf ul ev ipb nw port opts
  | _, _, _, _, _, _, _, _, _, _ => Panic
  end.

(* ---- scrape *)
(* the append loop: k chunks of 20 bytes *)
Fixpoint chunks20 (k : nat) (b : bytes) : list bytes :=
  match k with
  | O => []
  | S k' => firstn 20 b :: chunks20 k' (skipn 20 b)
  end.

Definition parse_scrape (o : popts) (packet : bytes) : outcome (list bytes) :=
  if Nat.ltb (length packet) 36 then Reject errMalformedPacket else
  match slice 16 (length packet) packet with
  | None => Panic
  | Some body =>
    if negb (Nat.eqb (Nat.modulo (length body) 20) 0) then Reject errMalformedPacket
    else Accept (sanitize_scrape (chunks20 (Nat.div (length body) 20) body) (o_max_scrape o))
  end.

(* ---- handleRequest up to the call into the tracker logic *)
Inductive udp_outcome :=
| USilent                                   (* no datagram, logic not invoked *)
| UReply (d : bytes)                        (* exactly this datagram, logic not invoked *)
| UPanic
| UAnnounce (txid : bytes) (v6action : bool) (r : areq) (q : qparams)   (* logic.HandleAnnounce(r) *)
| UScrape (txid : bytes) (af : family) (ihs : list bytes).               (* logic.HandleScrape *)

Section Handle.
  Variable mac : bytes -> bytes -> bytes.
  Definition handle_udp (k : bytes) (skew now : Z) (o : popts) (ip packet : bytes) : udp_outcome :=
    match dispatch_request mac k skew now ip packet with
    | DSilent => USilent
    | DReply d => UReply d
    | DPanic => UPanic
    | DBody a txid =>
      if a =? act_scrape then
        match parse_scrape o packet with
        | Panic => UPanic
        | Reject e => UReply (write_error txid (goerr_of e))
        | Accept ihs =>
          match ip_family ip with
          | None => UPanic
          | Some af => UScrape txid af ihs
          end
        end
      else
        match parse_announce (a =? act_announce_v6) o (Some ip) packet with
        | Panic => UPanic
        | Reject e => UReply (write_error txid (goerr_of e))
        | Accept (r, q) => UAnnounce txid (a =? act_announce_v6) r q
        end
    end.
End Handle.
