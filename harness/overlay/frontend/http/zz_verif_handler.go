//go:build verif && shim_http

package http

import (
	nethttp "net/http"

	"github.com/chihaya/chihaya/frontend"
)

// VerifHandler builds a Frontend through the REAL NewFrontend (bound to an ephemeral loopback port)
// and returns the request handler its HTTP server actually serves with, plus a function that stops
// the frontend.  Whatever NewFrontend does with the provided configuration is thereby exercised.
func VerifHandler(logic frontend.TrackerLogic, provided Config) (nethttp.Handler, func()) {
	provided.Addr = "127.0.0.1:0"
	f, err := NewFrontend(logic, provided)
	if err != nil {
		panic("verif shim: NewFrontend failed: " + err.Error())
	}
	return f.srv.Handler, func() { <-f.Stop() }
}
