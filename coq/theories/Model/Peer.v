(* Model of bittorrent/bittorrent.go (Peer, IP, AddressFamily, ClientError),
   bittorrent/sanitize.go, bittorrent/client_id.go, bittorrent/event.go and of the
   peer-key (de)serialisation shared by both stores.  Definitions only. *)
From Coq Require Import String Ascii.
From Chihaya Require Export Base.Bytes.
Export Coq.Strings.String.StringSyntax.
Open Scope Z_scope.

(* ---- strings as byte lists *)
Definition s2b (s : string) : bytes :=
  List.map (fun a => Z.of_N (N_of_ascii a)) (list_ascii_of_string s).

(* ---- errors.  A ClientError carries the text shown to the client; every other
   error is internal and its text must never reach the wire. *)
Inductive err :=
| ClientErr (msg : bytes)
| InternalErr.

Definition err_eqb (a b : err) : bool :=
  match a, b with
  | ClientErr x, ClientErr y => bytes_eqb x y
  | InternalErr, InternalErr => true
  | _, _ => false
  end.

Definition ErrInvalidIP := ClientErr (s2b "invalid IP").
Definition ErrInvalidPort := ClientErr (s2b "invalid port").
Definition ErrResourceDoesNotExist := ClientErr (s2b "resource does not exist").

(* ---- address families *)
Inductive family := V4 | V6.
Definition family_eqb (a b : family) : bool :=
  match a, b with V4, V4 | V6, V6 => true | _, _ => false end.

(* net.IP.To4: a 4-byte slice is itself; a 16-byte slice with the
   ::ffff:0:0/96 prefix yields its last four bytes; anything else is nil *)
Definition v4_in_v6_prefix : bytes := [0;0;0;0;0;0;0;0;0;0;255;255].
Definition to4 (ip : bytes) : option bytes :=
  if Nat.eqb (length ip) 4 then Some ip
  else if Nat.eqb (length ip) 16 && bytes_eqb (firstn 12 ip) v4_in_v6_prefix
       then Some (skipn 12 ip) else None.
(* net.IP.To16 *)
Definition to16 (ip : bytes) : option bytes :=
  if Nat.eqb (length ip) 4 then Some (v4_in_v6_prefix ++ ip)
  else if Nat.eqb (length ip) 16 then Some ip else None.

(* ---- events *)
Inductive event := EvNone | EvStarted | EvStopped | EvCompleted.
Definition event_eqb (a b : event) : bool :=
  match a, b with
  | EvNone, EvNone | EvStarted, EvStarted | EvStopped, EvStopped | EvCompleted, EvCompleted => true
  | _, _ => false
  end.
Definition event_code (e : event) : Z :=
  match e with EvNone => 0 | EvStarted => 1 | EvStopped => 2 | EvCompleted => 3 end.

(* ---- peers *)
Record peer := { p_id : bytes; p_ip : bytes; p_port : Z }.
Definition peer_eqb (a b : peer) : bool :=
  bytes_eqb (p_id a) (p_id b) && bytes_eqb (p_ip a) (p_ip b) && (p_port a =? p_port b).

(* newPeerKey: 20 bytes of ID, big-endian port, then the IP bytes *)
Definition peer_key (p : peer) : bytes := p_id p ++ be_enc 2 (p_port p) ++ p_ip p.

(* decodePeerKey; None models the explicit panic("IP is neither v4 nor v6")
   (and the slice-bounds panic for keys shorter than 22 bytes) *)
Definition decode_key (k : bytes) : option (peer * family) :=
  if Nat.ltb (length k) 22 then None else
  let id := firstn 20 k in
  let port := be_dec (sub 20 22 k) in
  let ip := skipn 22 k in
  match to4 ip with
  | Some ip4 => Some ({| p_id := id; p_ip := ip4; p_port := port |}, V4)
  | None => if Nat.eqb (length ip) 16 then Some ({| p_id := id; p_ip := ip; p_port := port |}, V6) else None
  end.

(* ---- requests *)
Record areq := {
  r_event : event; r_ih : bytes; r_compact : bool;
  r_event_provided : bool; r_numwant_provided : bool; r_ip_provided : bool;
  r_numwant : Z; r_left : Z; r_downloaded : Z; r_uploaded : Z;
  r_peer : peer; r_af : family
}.

Definition set_numwant_ip (r : areq) (nw : Z) (ip : bytes) (af : family) : areq :=
  {| r_event := r_event r; r_ih := r_ih r; r_compact := r_compact r;
     r_event_provided := r_event_provided r; r_numwant_provided := r_numwant_provided r;
     r_ip_provided := r_ip_provided r; r_numwant := nw; r_left := r_left r;
     r_downloaded := r_downloaded r; r_uploaded := r_uploaded r;
     r_peer := {| p_id := p_id (r_peer r); p_ip := ip; p_port := p_port (r_peer r) |};
     r_af := af |}.

(* SanitizeAnnounce *)
Definition sanitize_announce (r : areq) (max_nw default_nw : Z) : err + areq :=
  if p_port (r_peer r) =? 0 then inl ErrInvalidPort else
  let nw := if negb (r_numwant_provided r) then default_nw
            else if r_numwant r >? max_nw then max_nw else r_numwant r in
  match to4 (p_ip (r_peer r)) with
  | Some ip4 => inr (set_numwant_ip r nw ip4 V4)
  | None => if Nat.eqb (length (p_ip (r_peer r))) 16
            then inr (set_numwant_ip r nw (p_ip (r_peer r)) V6)
            else inl ErrInvalidIP
  end.

Record sreq := { s_af : family; s_ihs : list bytes }.
(* SanitizeScrape: truncate to the configured maximum *)
Definition sanitize_scrape (ihs : list bytes) (max_ihs : Z) : list bytes :=
  if Z.of_nat (length ihs) >? max_ihs then firstn (Z.to_nat max_ihs) ihs else ihs.

(* NewClientID *)
Definition client_id (pid : bytes) : bytes :=
  if Nat.leb 6 (length pid) then
    if (nth 0 pid 0 =? 45 (* '-' *)) then
      if Nat.leb 7 (length pid) then sub 1 7 pid else [0;0;0;0;0;0]
    else sub 0 6 pid
  else [0;0;0;0;0;0].
