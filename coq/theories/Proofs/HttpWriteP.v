(* Lemmas about Model/HttpWrite.v (C08). *)
From Chihaya Require Import Model.HttpWrite Proofs.BencodeP.
From Coq Require Import ZifyBool ZifyNat.
Open Scope Z_scope.

(* every failure that is not the client's fault produces the same body: no
   detail, nothing echoed *)
Definition is_client (e : err) : bool := match e with ClientErr _ => true | InternalErr => false end.

Lemma error_body_internal_constant e e' :
  is_client e = false -> is_client e' = false -> http_error_body e = http_error_body e'.
Proof. destruct e, e'; cbn; intros; try discriminate; reflexivity. Qed.
