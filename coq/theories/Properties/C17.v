(* C17 - Reported seeder, leecher and swarm totals equal the stored reality. *)
From Chihaya Require Import Model.History Proofs.SwarmP Proofs.MemP.
Open Scope Z_scope.

(* memory store: in every reachable state, every shard's counters equal a
   recount of that shard (modulo 2^64: the counters are uint64; the recount of a
   history of fewer than 2^64 operations is below 2^64, so nothing ever wraps) *)
Theorem C17_mem_totals_exact : forall n ops sh, (0 < n)%nat -> sh ∈ run_mem n ops ->
  numS sh = wrap64 (sm_total_seeders (swarms sh)) /\ numL sh = wrap64 (sm_total_leechers (swarms sh)).
Proof. exact mem_totals_exact. Qed.
Print Assumptions C17_mem_totals_exact.
