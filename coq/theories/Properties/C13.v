(* C13 - No request can crash or wedge the tracker.  Statements only; proofs in Proofs/TrackerP.v.
   The end-to-end model is Model/Tracker.v: datagram / request line -> parse -> logic -> store -> writer;
   None / HPanic model a panic of the request handler.  mac, parse_ip, header_get, split_host are
   oracles (HMAC-SHA256, net.ParseIP, http.Header.Get, net.SplitHostPort): every theorem holds for
   every behaviour of them (parse_ip is only assumed to return 4- or 16-byte addresses). *)
From Chihaya Require Import Model.Tracker Proofs.TrackerP.
Open Scope Z_scope.

(* one arbitrary datagram from any source against any reachable store: no panic, at most one response,
   and the store invariant (every stored key is a serialised peer of the swarm's family) is kept *)
Theorem C13_udp_step_no_panic :
  forall mac t u (sp : spec) clock ip packet,
    keys_ok sp -> wf_bytes packet = true -> wf_bytes ip = true -> (length ip = 4%nat \/ length ip = 16%nat) ->
    exists sp' out, udp_step spec_if mac t u sp clock ip packet = Some (sp', out) /\ keys_ok sp' /\ (length out <= 1)%nat.
Proof. exact udp_step_no_panic. Qed.
Print Assumptions C13_udp_step_no_panic.

(* every history of arbitrary datagrams from the initial state: never a panic, one outcome per datagram *)
Theorem C13_udp_history_no_panic :
  forall mac t u (reqs : list (Z * list Z * list Z)),
    Forall udp_req_wf reqs ->
    exists sp outs, udp_run mac t u spec_init reqs = Some (sp, outs) /\ keys_ok sp /\
                    length outs = length reqs /\ Forall (fun out => (length out <= 1)%nat) outs.
Proof. exact udp_history_no_panic. Qed.
Print Assumptions C13_udp_history_no_panic.

(* ... the same for the memory store and for the Redis store (sequential model), whose datagrams are
   exactly the specification's: after any garbage the tracker keeps answering as C01/C02/C09 say *)
Theorem C13_udp_history_mem_no_panic :
  forall n mac t u (reqs : list (Z * list Z * list Z)), (0 < n)%nat -> Forall udp_req_wf reqs ->
    exists st sp outs ops,
      udp_run_on (mem_if n) mac t u (mem_init n) reqs = Some (st, outs) /\
      udp_run mac t u spec_init reqs = Some (sp, outs) /\ st = run_mem n ops /\ sp = run_spec ops /\ keys_ok sp /\
      length outs = length reqs /\ Forall (fun out => (length out <= 1)%nat) outs.
Proof. exact udp_history_mem_no_panic. Qed.
Print Assumptions C13_udp_history_mem_no_panic.

Theorem C13_udp_history_redis_no_panic :
  forall mac t u (reqs : list (Z * list Z * list Z)), Forall udp_req_wf reqs ->
    exists st sp outs ops,
      udp_run_on red_if mac t u redis_init reqs = Some (st, outs) /\
      udp_run mac t u spec_init reqs = Some (sp, outs) /\ st = run_redis ops /\ sp = run_spec ops /\ keys_ok sp /\
      length outs = length reqs /\ Forall (fun out => (length out <= 1)%nat) outs.
Proof. exact udp_history_redis_no_panic. Qed.
Print Assumptions C13_udp_history_redis_no_panic.

(* every well-formed request (valid connection ID, parseable) receives exactly one response *)
Theorem C13_udp_wellformed_one_response :
  forall mac t u (sp : spec) clock ip packet,
    keys_ok sp -> wf_bytes packet = true -> wf_bytes ip = true -> (length ip = 4%nat \/ length ip = 16%nat) ->
    (exists txid v6a r q, UdpParse.handle_udp mac (uc_key u) (uc_skew u) clock (uc_opts u) ip packet = UdpParse.UAnnounce txid v6a r q) \/
    (exists txid af ihs, UdpParse.handle_udp mac (uc_key u) (uc_skew u) clock (uc_opts u) ip packet = UdpParse.UScrape txid af ihs) ->
    exists sp' d, udp_step spec_if mac t u sp clock ip packet = Some (sp', [d]) /\ keys_ok sp'.
Proof. exact udp_wellformed_one_response. Qed.
Print Assumptions C13_udp_wellformed_one_response.

(* HTTP: any request URI, headers and remote address: always exactly one body, never a panic *)
Theorem C13_http_announce_no_panic :
  forall parse_ip header_get split_host t o (sp : spec) clock uri remote,
    (forall s ip, parse_ip s = Some ip -> wf_bytes ip = true /\ (length ip = 4%nat \/ length ip = 16%nat)) ->
    keys_ok sp -> wf_bytes uri = true ->
    exists sp' v, http_announce_step spec_if parse_ip header_get split_host t o sp clock uri remote = (sp', HBody v) /\ keys_ok sp'.
Proof. exact http_announce_no_panic. Qed.
Print Assumptions C13_http_announce_no_panic.

Theorem C13_http_scrape_no_panic :
  forall parse_ip split_host split_ok o (sp : spec) uri remote,
    http_scrape_step spec_if parse_ip split_host split_ok o sp uri remote <> HPanic.
Proof. exact http_scrape_no_panic. Qed.
Print Assumptions C13_http_scrape_no_panic.

Theorem C13_http_announce_mem_no_panic :
  forall n ops parse_ip header_get split_host t o clock uri remote,
    (0 < n)%nat -> Forall sop_sane ops ->
    (forall s ip, parse_ip s = Some ip -> wf_bytes ip = true /\ (length ip = 4%nat \/ length ip = 16%nat)) ->
    wf_bytes uri = true ->
    exists v, (http_announce_step (mem_if n) parse_ip header_get split_host t o (run_mem n ops) clock uri remote).2 = HBody v /\
              (http_announce_step spec_if parse_ip header_get split_host t o (run_spec ops) clock uri remote).2 = HBody v.
Proof. exact http_announce_mem_no_panic. Qed.
Print Assumptions C13_http_announce_mem_no_panic.

(* the response hook never panics on a store reached by sane operations: every selected key decodes, to a
   peer of the announcer's own family (so compact4/compact6 and the family switch cannot panic either) *)
Theorem C13_respond_no_panic :
  forall a (sp : spec), keys_ok sp -> sane_peer (a_v6 a) (a_peer a) ->
    exists c i ps, respond spec_if a sp = Some (c, i, ps) /\ ps <> [] /\ Forall (sane_peer (a_v6 a)) ps.
Proof. exact respond_no_panic. Qed.
Print Assumptions C13_respond_no_panic.

Theorem C13_reachable_stores_keys_ok : forall ops, Forall sop_sane ops -> keys_ok (run_spec ops).
Proof. exact run_spec_keys_ok. Qed.
Print Assumptions C13_reachable_stores_keys_ok.

(* the parsers only ever hand sane peers to the logic *)
Theorem C13_udp_request_peer_sane :
  forall v6a o ip packet r q,
    UdpParse.parse_announce v6a o (Some ip) packet = UdpParse.Accept (r, q) ->
    wf_bytes packet = true -> wf_bytes ip = true -> (length ip = 4%nat \/ length ip = 16%nat) ->
    sane_peer (match r_af r with V4 => false | V6 => true end) (r_peer r).
Proof. exact udp_request_peer_sane. Qed.
Print Assumptions C13_udp_request_peer_sane.

Theorem C13_http_request_peer_sane :
  forall parse_ip header_get split_host o uri remote r q,
    (forall s ip, parse_ip s = Some ip -> wf_bytes ip = true /\ (length ip = 4%nat \/ length ip = 16%nat)) ->
    HttpParse.parse_announce parse_ip header_get split_host o uri remote = HttpParse.Accept (r, q) ->
    wf_bytes uri = true ->
    sane_peer (match r_af r with V4 => false | V6 => true end) (r_peer r).
Proof. exact http_request_peer_sane. Qed.
Print Assumptions C13_http_request_peer_sane.

(* ---- the error texts a client can provoke are FIXED constants: whatever the request bytes (URL data of BEP 41
   options and query strings included), a rejection by the HTTP or UDP parser carries one of the listed texts,
   each 7-bit printable ASCII.  Nothing of the request is echoed; and the text - which the frontends also hand
   to Prometheus as a label value, where invalid UTF-8 panics - is always a valid label. *)
From Chihaya Require Import Model.HttpParse Model.UdpParse Proofs.HttpParseP Proofs.UdpParseP.
Theorem C13_http_announce_reject_texts_fixed : forall parse_ip header_get split_host o uri remote,
  fixed_outcome (HttpParse.parse_announce parse_ip header_get split_host o uri remote).
Proof. exact http_announce_reject_texts_fixed. Qed.
Print Assumptions C13_http_announce_reject_texts_fixed.

Theorem C13_http_scrape_reject_texts_fixed : forall o uri, fixed_outcome (HttpParse.parse_scrape o uri).
Proof. exact http_scrape_reject_texts_fixed. Qed.
Print Assumptions C13_http_scrape_reject_texts_fixed.

Theorem C13_http_client_errors_ascii :
  Forall (fun e => exists m, e = ClientErr m /\ ascii_text m = true) http_client_errors.
Proof. exact http_client_errors_ascii. Qed.
Print Assumptions C13_http_client_errors_ascii.

Theorem C13_udp_announce_reject_texts_fixed : forall v6 o src packet e,
  UdpParse.parse_announce v6 o src packet = UdpParse.Reject e -> In e udp_client_errors.
Proof. exact udp_announce_reject_texts_fixed. Qed.
Print Assumptions C13_udp_announce_reject_texts_fixed.

Theorem C13_udp_scrape_reject_texts_fixed : forall o packet e,
  UdpParse.parse_scrape o packet = UdpParse.Reject e -> In e udp_client_errors.
Proof. exact udp_scrape_reject_texts_fixed. Qed.
Print Assumptions C13_udp_scrape_reject_texts_fixed.

Theorem C13_udp_client_errors_ascii :
  Forall (fun e => exists m, e = ClientErr m /\ ascii_text_u m = true) udp_client_errors.
Proof. exact udp_client_errors_ascii. Qed.
Print Assumptions C13_udp_client_errors_ascii.
