"""C14 - client / torrent approval."""
PROP = {
    "glue": "G14", "chk": "chk14", "explain": "explain14",
    "n": {"quick": 450, "thorough": 18000},
    "rule": "one case = one approval configuration (client or torrent; built by NewHook(Config) or, for every 4th probe, by middleware.New(name, yaml)) and one 20-byte probe; "
            "configurations: no list (nil / empty), singleton, many, duplicates (torrent: same hash in another letter case), large, malformed entries "
            "(client: 0/5/7/20 bytes, multi-byte runes; torrent: 38/39/41/42/80 characters, odd length, non-hex character, 0x prefix, raw bytes, blanks), both lists; "
            "probes near a listed entry: id at bytes 0-5, '-' + id, id at 1-6 without the dash, '--' + id, NUL / ',' / '.' in place of the dash, shifted left by one, "
            "last byte changed, one bit or letter case flipped; torrent: listed hash, one bit flipped, first/last byte +-1, rotated by one byte, nibble-swapped, the hex text taken as bytes, zero, random; "
            "a case is non-trivial unless it is the no-list branch; distinct = distinct input JSON",
    "tags": {"0": "client: refused, both lists", "1": "client: refused, bad entry", "2": "client: no list, passes", "3": "client: whitelist, listed", "4": "client: whitelist, not listed",
             "5": "client: blacklist, not listed", "6": "client: blacklist, listed",
             "10": "torrent: refused, both lists", "11": "torrent: refused, bad entry", "12": "torrent: no list, passes", "13": "torrent: whitelist, listed", "14": "torrent: whitelist, not listed",
             "15": "torrent: blacklist, not listed", "16": "torrent: blacklist, listed"},
    "trivial_tags": [2, 12],
    "min_tags": 14,
    "reasons": {"1": "a configuration naming both lists or containing an entry of the wrong length/encoding was accepted at start-up",
                "2": "a well-formed configuration was refused",
                "3": "whitelist: announce accepted although not listed, or rejected although listed",
                "4": "blacklist: announce rejected although not listed, or accepted although listed",
                "5": "no list configured but the announce was rejected",
                "6": "a scrape was blocked (wholly: an error or a crash of the hook; or in part: infohashes removed from the scrape request)",
                "7": "NewHook crashed instead of returning an error",
                "100": "announce verdict differs from model",
                "102": "rejection is not the package's Err...Unapproved client error", "103": "hook modified the context, request or response"},
    "assumptions": ["a Go map used as a set is modelled by the list of inserted keys (membership and len>0 only)",
                    "yaml.v2 decoding of whitelist/blacklist is outside the model: the driver only uses yaml documents that it has checked to decode to exactly the shipped lists"],
    "explanation": "Theorems over Model/Approval.v (NewHook validation incl. encoding/hex, the announce decision, client_id) proved for all peer IDs, infohashes and lists; "
                   "the model is tied to middleware/clientapproval, middleware/torrentapproval and bittorrent.NewClientID by executing NewHook / middleware.New and "
                   "HandleAnnounce / HandleScrape on the generated cases and evaluating the model on the same cases with vm_compute.",
}

CLAIM = {
    "text": "Machine-checked proof (Coq) over an executable model of both approval hooks that for EVERY peer ID / infohash and EVERY list (duplicates included) a whitelist accepts iff the client ID (bytes 1-6 after '-', else 0-5) / infohash is listed, a blacklist iff it is not, no list accepts all, scrapes always pass, and that both-lists, a client entry not 6 bytes long, or a torrent entry that is not exactly 40 hex digits (either case) is refused by NewHook while every well-formed configuration builds. The model is tied to the Go code on every run by differential execution on near-miss probes and malformed configurations, through NewHook and through the yaml driver.",
    "design_ref": "DESIGN.md section 8, C14",
    "note": "Trusted: Coq kernel + vm_compute; Glue/G14.v; Go driver; Go map-as-set modelled as a list; yaml decoding outside the model (round-trip checked per case). A 6-byte whitelist entry that itself starts with '-' can never match a dash-prefixed peer ID; the property does not forbid such entries.",
    "technique": "Coq proof over executable Gallina model + differential correspondence check (vm_compute)",
}
