(* Histories of store-level operations, run against any store (memory, Redis,
   or the specification itself).  Definitions only. *)
From Chihaya Require Export Model.Hooks.
Open Scope Z_scope.

Inductive sop :=
| SClock (ns : Z)                                  (* the cached clock advances *)
| SAnnounce (a : ann)                              (* AfterAnnounce: the swarm-interaction hook *)
| SPutSeeder (ih : list Z) (v6 : bool) (pk : list Z)
| SDelSeeder (ih : list Z) (v6 : bool) (pk : list Z)
| SPutLeecher (ih : list Z) (v6 : bool) (pk : list Z)
| SDelLeecher (ih : list Z) (v6 : bool) (pk : list Z)
| SGraduate (ih : list Z) (v6 : bool) (pk : list Z)
| SExpire (cutoff : Z).                            (* one complete expiry pass *)

Section Run.
  Context {S : Type} (I : store_if S).
  (* state = store x cached clock *)
  Definition sapply (x : S * Z) (o : sop) : S * Z :=
    let '(st, clock) := x in
    match o with
    | SClock ns => (st, ns)
    | SAnnounce a => (swarm_interaction I a clock st, clock)
    | SPutSeeder ih v6 pk => (st_put_seeder I ih v6 pk clock st, clock)
    | SDelSeeder ih v6 pk => ((st_del_seeder I ih v6 pk st).1, clock)
    | SPutLeecher ih v6 pk => (st_put_leecher I ih v6 pk clock st, clock)
    | SDelLeecher ih v6 pk => ((st_del_leecher I ih v6 pk st).1, clock)
    | SGraduate ih v6 pk => (st_graduate I ih v6 pk clock st, clock)
    | SExpire T => (st_gc I T st, clock)
    end.
  Definition srun (init : S) (ops : list sop) : S * Z := fold_left sapply ops (init, 0).
End Run.

(* the three runs the theorems relate *)
Definition run_spec (ops : list sop) : spec := (srun spec_if spec_init ops).1.
Definition run_mem (n : nat) (ops : list sop) : mstore := (srun (mem_if n) (mem_init n) ops).1.
Definition run_redis (ops : list sop) : rstate := (srun red_if redis_init ops).1.

(* what a client can observe of a store: counts and membership of every swarm *)
Definition observe {S} (I : store_if S) (st : S) (ih : list Z) (v6 : bool) : (Z * Z) * option swarm :=
  (st_scrape I ih v6 st, st_members I ih v6 st).

(* well-formed histories: infohashes are 20 bytes (the frontends guarantee it:
   InfoHash is a [20]byte array in Go) *)
Definition ih_wf (ih : list Z) : Prop := length ih = 20%nat ∧ wf_bytes ih = true.
Definition sop_wf (o : sop) : Prop :=
  match o with
  | SClock _ | SExpire _ => True
  | SAnnounce a => ih_wf (a_ih a)
  | SPutSeeder ih _ _ | SDelSeeder ih _ _ | SPutLeecher ih _ _ | SDelLeecher ih _ _
  | SGraduate ih _ _ => ih_wf ih
  end.
