//go:build verif && shim_udp

package udp

import (
	"bytes"
	"fmt"
	"net"
	"sync"
	"time"

	"github.com/chihaya/chihaya/bittorrent"
	"github.com/chihaya/chihaya/frontend"
)

// Add-only shim (never part of a normal build): reaches handleRequest without
// the serve loop.  A Frontend is built exactly like NewFrontend does, minus
// listen()/serve(); responses are written through a real ResponseWriter onto a
// loopback socket pair owned by the shim and read back synchronously.

var (
	verifMu    sync.Mutex
	verifSrv   *net.UDPConn // the socket responses are written from
	verifSink  *net.UDPConn // the socket standing for the client
	verifSeq   uint64
	verifMagic = []byte("verif-end-of-responses")
)

func verifSockets() error {
	if verifSrv != nil {
		return nil
	}
	lo := &net.UDPAddr{IP: net.IPv4(127, 0, 0, 1)}
	srv, err := net.ListenUDP("udp4", lo)
	if err != nil {
		return err
	}
	sink, err := net.ListenUDP("udp4", lo)
	if err != nil {
		srv.Close()
		return err
	}
	_ = sink.SetReadBuffer(4 << 20)
	verifSrv, verifSink = srv, sink
	return nil
}

// VerifNewOffline builds a Frontend through the REAL NewFrontend (bound to an ephemeral loopback
// port, serve goroutine running but never receiving anything), so that whatever NewFrontend does
// with the provided configuration - validation, the connection-ID generator pool and its key - is
// what the driver then exercises through VerifHandle.  Call Stop() on it when done.
func VerifNewOffline(logic frontend.TrackerLogic, provided Config) *Frontend {
	provided.Addr = "127.0.0.1:0"
	f, err := NewFrontend(logic, provided)
	if err != nil {
		panic("verif shim: NewFrontend failed: " + err.Error())
	}
	return f
}

// VerifHandle runs handleRequest on one datagram from srcIP and returns the
// datagrams the frontend sent back, the error handleRequest reported and the
// recovered panic value (nil if it returned normally).
func VerifHandle(f *Frontend, packet []byte, srcIP net.IP) (datagrams [][]byte, herr error, panicVal interface{}, err error) {
	verifMu.Lock()
	defer verifMu.Unlock()
	if err = verifSockets(); err != nil {
		return
	}
	w := ResponseWriter{verifSrv, verifSink.LocalAddr().(*net.UDPAddr)}
	func() {
		defer func() { panicVal = recover() }()
		// the body of the goroutine serve() starts per datagram: handleRequest, then the metrics bookkeeping
		var action string
		var af *bittorrent.AddressFamily
		action, af, herr = f.handleRequest(Request{Packet: packet, IP: srcIP}, w)
		if f.EnableRequestTiming {
			recordResponseDuration(action, af, herr, time.Millisecond)
		} else {
			recordResponseDuration(action, af, herr, time.Duration(0))
		}
	}()
	// an end marker sent over the same socket pair: loopback delivery keeps the
	// order, so everything read before it was sent by handleRequest
	verifSeq++
	marker := append(append([]byte{}, verifMagic...), []byte(fmt.Sprintf("%020d", verifSeq))...)
	if _, err = verifSrv.WriteToUDP(marker, verifSink.LocalAddr().(*net.UDPAddr)); err != nil {
		return
	}
	buf := make([]byte, 65536)
	for {
		_ = verifSink.SetReadDeadline(time.Now().Add(5 * time.Second))
		n, _, rerr := verifSink.ReadFromUDP(buf)
		if rerr != nil {
			err = fmt.Errorf("verif shim: reading responses: %w", rerr)
			return
		}
		if bytes.Equal(buf[:n], marker) {
			return
		}
		if bytes.HasPrefix(buf[:n], verifMagic) {
			continue // stale marker of an earlier, failed call
		}
		datagrams = append(datagrams, append([]byte{}, buf[:n]...))
	}
}
