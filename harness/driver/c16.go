//go:build verif && verif_c16

package main

// C16 - Stop completes, leaves nothing running, and reload keeps the swarm data.
//
// Every case is a deterministic scenario on the real code.  Scheduling is forced
// with GATES (hooks blocking on channels), never with sleeps; the only waits are
// (1) c16Quiet: how long a stop.Result has to stay undelivered to be recorded as
// "not delivered while the gate was closed" and (2) c16Long: generous timeouts
// that only matter when something is broken.

import (
	"bufio"
	"bytes"
	"context"
	"crypto/ecdsa"
	"crypto/elliptic"
	"crypto/tls"
	crand "crypto/rand"
	"crypto/x509"
	"crypto/x509/pkix"
	"encoding/pem"
	"math/big"
	"encoding/binary"
	"encoding/json"
	"errors"
	"fmt"
	"io"
	"math/rand"
	"net"
	nethttp "net/http"
	"net/http/httptest"
	"net/url"
	"os"
	"os/exec"
	"path/filepath"
	"runtime"
	"strconv"
	"strings"
	"sync"
	"sync/atomic"
	"time"

	"github.com/alicebob/miniredis"
	yaml "gopkg.in/yaml.v2"

	"github.com/chihaya/chihaya/bittorrent"
	"github.com/chihaya/chihaya/frontend"
	httpfe "github.com/chihaya/chihaya/frontend/http"
	cbencode "github.com/chihaya/chihaya/frontend/http/bencode"
	"github.com/chihaya/chihaya/frontend/udp"
	"github.com/chihaya/chihaya/middleware"
	cjwt "github.com/chihaya/chihaya/middleware/jwt" // also registers the "jwt" middleware driver
	"github.com/chihaya/chihaya/pkg/metrics"
	"github.com/chihaya/chihaya/pkg/stop"
	"github.com/chihaya/chihaya/storage"
	"github.com/chihaya/chihaya/storage/memory"
	redisstore "github.com/chihaya/chihaya/storage/redis"
)

func init() {
	props["C16"] = &propDef{glue: "G16", ctype: "case16", chk: "chk16", stream: c16Stream, replay: c16Replay, shard: 250}
}

const (
	c16Quiet = 300 * time.Millisecond
	c16Long  = 20 * time.Second
	c16Key   = "verif-c16-private-key"
)

// ---------------------------------------------------------------- small tools

// c16Res remembers the one delivery of a stop.Result.
type c16Res struct {
	ch   stop.Result
	got  bool
	errs []error
}

func (r *c16Res) wait(d time.Duration) bool {
	if r.got {
		return true
	}
	t := time.NewTimer(d)
	defer t.Stop()
	select {
	case e := <-r.ch:
		r.got, r.errs = true, e
		return true
	case <-t.C:
		return false
	}
}

func c16Sig(ch <-chan struct{}, d time.Duration) bool {
	t := time.NewTimer(d)
	defer t.Stop()
	select {
	case <-ch:
		return true
	case <-t.C:
		return false
	}
}

// c16Gate is a middleware hook that blocks until opened.
type c16Gate struct {
	entered chan struct{}
	gate    chan struct{}
	once    sync.Once
}

func newC16Gate(open bool) *c16Gate {
	g := &c16Gate{entered: make(chan struct{}, 64), gate: make(chan struct{})}
	if open {
		g.open()
	}
	return g
}
func (g *c16Gate) open() { g.once.Do(func() { close(g.gate) }) }
func (g *c16Gate) pass() {
	select {
	case g.entered <- struct{}{}:
	default:
	}
	<-g.gate
}
func (g *c16Gate) HandleAnnounce(ctx context.Context, _ *bittorrent.AnnounceRequest, _ *bittorrent.AnnounceResponse) (context.Context, error) {
	g.pass()
	return ctx, nil
}
func (g *c16Gate) HandleScrape(ctx context.Context, _ *bittorrent.ScrapeRequest, _ *bittorrent.ScrapeResponse) (context.Context, error) {
	g.pass()
	return ctx, nil
}

// c16Logic is what the frontends call: the real middleware.Logic, with the
// post-response entry points wrapped so that a panic inside them (the stopped
// store) is recorded instead of killing the driver.
type c16Logic struct {
	*middleware.Logic
	afterDone int32
	mu        sync.Mutex
	panicMsg  string
	panicked  bool
	done      chan struct{}
}

func newC16Logic(ps storage.PeerStore, pre, post []middleware.Hook) *c16Logic {
	return &c16Logic{
		Logic: middleware.NewLogic(middleware.ResponseConfig{AnnounceInterval: 30 * time.Minute, MinAnnounceInterval: 15 * time.Minute}, ps, pre, post),
		done:  make(chan struct{}, 1024),
	}
}
func (l *c16Logic) after(f func()) {
	defer func() {
		if p := recover(); p != nil {
			l.mu.Lock()
			l.panicked, l.panicMsg = true, fmt.Sprint(p)
			l.mu.Unlock()
		}
		atomic.AddInt32(&l.afterDone, 1)
		l.done <- struct{}{}
	}()
	f()
}
func (l *c16Logic) AfterAnnounce(ctx context.Context, r *bittorrent.AnnounceRequest, resp *bittorrent.AnnounceResponse) {
	l.after(func() { l.Logic.AfterAnnounce(ctx, r, resp) })
}
func (l *c16Logic) AfterScrape(ctx context.Context, r *bittorrent.ScrapeRequest, resp *bittorrent.ScrapeResponse) {
	l.after(func() { l.Logic.AfterScrape(ctx, r, resp) })
}

var _ frontend.TrackerLogic = &c16Logic{}

func c16Mem() storage.PeerStore {
	huge := 1000 * time.Hour
	ps, err := memory.New(memory.Config{ShardCount: 4, GarbageCollectionInterval: huge, PrometheusReportingInterval: huge, PeerLifetime: huge})
	if err != nil {
		panic(err)
	}
	return ps
}

func c16FreePort(udpNet bool) int {
	if udpNet {
		c, err := net.ListenUDP("udp4", &net.UDPAddr{IP: net.IPv4(127, 0, 0, 1)})
		if err != nil {
			panic(err)
		}
		defer c.Close()
		return c.LocalAddr().(*net.UDPAddr).Port
	}
	l, err := net.Listen("tcp4", "127.0.0.1:0")
	if err != nil {
		panic(err)
	}
	defer l.Close()
	return l.Addr().(*net.TCPAddr).Port
}

// ---------------------------------------------------------------- frontends and clients

type c16FE struct {
	kind int // 0 UDP, 1 HTTP
	addr string
	s    stop.Stopper
}

// the HTTP frontends' write_timeout; the "slow" gated scenarios shorten it so that a request outlives it
var c16WriteTimeout = 2 * time.Minute

func c16Start(kind int, logic frontend.TrackerLogic) *c16FE {
	var last error
	for attempt := 0; attempt < 30; attempt++ {
		addr := fmt.Sprintf("127.0.0.1:%d", c16FreePort(kind == 0))
		if kind == 0 {
			f, err := udp.NewFrontend(logic, udp.Config{Addr: addr, PrivateKey: c16Key, MaxClockSkew: time.Minute,
				ParseOptions: udp.ParseOptions{MaxNumWant: 100, DefaultNumWant: 50, MaxScrapeInfoHashes: 50}})
			if err == nil {
				return &c16FE{kind, addr, f}
			}
			last = err
		} else {
			f, err := httpfe.NewFrontend(logic, httpfe.Config{Addr: addr, ReadTimeout: 2 * time.Minute, WriteTimeout: c16WriteTimeout,
				AnnounceRoutes: []string{"/announce"}, ScrapeRoutes: []string{"/scrape"},
				ParseOptions: httpfe.ParseOptions{MaxNumWant: 100, DefaultNumWant: 50, MaxScrapeInfoHashes: 50}})
			if err == nil {
				return &c16FE{kind, addr, f}
			}
			last = err
		}
	}
	panic(fmt.Sprintf("c16: cannot start frontend: %v", last))
}

type c16Req struct {
	scrape  bool
	ih, pid [20]byte
	left    uint64
	stopped bool
}

func c16IH(n int) (h [20]byte)  { copy(h[:], fmt.Sprintf("c16-infohash-%07d", n)); return }
func c16PID(n int) (h [20]byte) { copy(h[:], fmt.Sprintf("c16-peer-%011d", n)); return }

// c16Do performs one request over a real socket.  ok: a non-error answer came
// back; (complete, incomplete) are meaningful for scrapes.
func c16Do(kind int, addr string, r c16Req, timeout time.Duration) (ok bool, complete, incomplete int64) {
	if kind == 1 {
		return c16HTTP(addr, r, timeout)
	}
	return c16UDP(addr, r, timeout)
}

func c16HTTP(addr string, r c16Req, timeout time.Duration) (bool, int64, int64) {
	uri := "/scrape?info_hash=" + url.QueryEscape(string(r.ih[:]))
	if !r.scrape {
		uri = fmt.Sprintf("/announce?info_hash=%s&peer_id=%s&port=6881&left=%d&downloaded=0&uploaded=0&compact=1&numwant=5",
			url.QueryEscape(string(r.ih[:])), url.QueryEscape(string(r.pid[:])), r.left)
		if r.stopped {
			uri += "&event=stopped"
		}
	}
	raw := c16RawGet(addr, uri, timeout)
	i := bytes.Index(raw, []byte("\r\n\r\n"))
	if i < 0 || !bytes.HasPrefix(raw, []byte("HTTP/1.1 200")) {
		return false, 0, 0
	}
	dv, err := cbencode.Unmarshal(raw[i+4:])
	d, isDict := dv.(cbencode.Dict)
	if err != nil || !isDict {
		return false, 0, 0
	}
	if _, bad := d["failure reason"]; bad {
		return false, 0, 0
	}
	if !r.scrape {
		return true, 0, 0
	}
	files, _ := d["files"].(cbencode.Dict)
	f, _ := files[string(r.ih[:])].(cbencode.Dict)
	c, _ := f["complete"].(int64)
	ic, _ := f["incomplete"].(int64)
	return true, c, ic
}

func c16RawGet(addr, uri string, timeout time.Duration) []byte {
	c, err := net.DialTimeout("tcp4", addr, timeout)
	if err != nil {
		return nil
	}
	defer c.Close()
	_ = c.SetDeadline(time.Now().Add(timeout))
	fmt.Fprintf(c, "GET %s HTTP/1.1\r\nHost: verif\r\nConnection: close\r\n\r\n", uri)
	b, _ := io.ReadAll(c)
	return b
}

func c16UDP(addr string, r c16Req, timeout time.Duration) (bool, int64, int64) {
	ua, err := net.ResolveUDPAddr("udp4", addr)
	if err != nil {
		return false, 0, 0
	}
	c, err := net.DialUDP("udp4", &net.UDPAddr{IP: net.IPv4(127, 0, 0, 1)}, ua)
	if err != nil {
		return false, 0, 0
	}
	defer c.Close()
	rt := func(pkt []byte, d time.Duration) []byte {
		if _, err := c.Write(pkt); err != nil {
			return nil
		}
		_ = c.SetReadDeadline(time.Now().Add(d))
		buf := make([]byte, 2048)
		n, err := c.Read(buf)
		if err != nil {
			return nil
		}
		return buf[:n]
	}
	// connect (no hooks involved, answered by the frontend alone)
	conn := make([]byte, 16)
	binary.BigEndian.PutUint64(conn[0:], 0x41727101980)
	copy(conn[12:], "c16c")
	cr := rt(conn, timeout)
	if len(cr) != 16 || binary.BigEndian.Uint32(cr[0:4]) != 0 {
		return false, 0, 0
	}
	cid := cr[8:16]
	var p bytes.Buffer
	p.Write(cid)
	if r.scrape {
		binary.Write(&p, binary.BigEndian, uint32(2))
		p.WriteString("c16s")
		p.Write(r.ih[:])
		resp := rt(p.Bytes(), timeout)
		if len(resp) != 20 || binary.BigEndian.Uint32(resp[0:4]) != 2 {
			return false, 0, 0
		}
		return true, int64(binary.BigEndian.Uint32(resp[8:12])), int64(binary.BigEndian.Uint32(resp[16:20]))
	}
	binary.Write(&p, binary.BigEndian, uint32(1))
	p.WriteString("c16a")
	p.Write(r.ih[:])
	p.Write(r.pid[:])
	binary.Write(&p, binary.BigEndian, uint64(0))
	binary.Write(&p, binary.BigEndian, r.left)
	binary.Write(&p, binary.BigEndian, uint64(0))
	ev := uint32(0)
	if r.stopped {
		ev = 3
	}
	binary.Write(&p, binary.BigEndian, ev)
	p.Write([]byte{0, 0, 0, 0})
	binary.Write(&p, binary.BigEndian, uint32(7))
	binary.Write(&p, binary.BigEndian, uint32(5))
	binary.Write(&p, binary.BigEndian, uint16(6881))
	resp := rt(p.Bytes(), timeout)
	if len(resp) < 20 || binary.BigEndian.Uint32(resp[0:4]) != 1 {
		return false, 0, 0
	}
	return true, 0, 0
}

// c16Goroutines counts the goroutines that belong to a frontend or to a net/http server.
func c16Goroutines() int {
	buf := make([]byte, 1<<20)
	for {
		n := runtime.Stack(buf, true)
		if n < len(buf) {
			buf = buf[:n]
			break
		}
		buf = make([]byte, 2*len(buf))
	}
	cnt := 0
	for _, g := range strings.Split(string(buf), "\n\n") {
		if strings.Contains(g, "chihaya/frontend/") || strings.Contains(g, "net/http.(*Server)") || strings.Contains(g, "net/http.(*conn)") {
			cnt++
		}
	}
	return cnt
}

// ---------------------------------------------------------------- (c) stop groups

type c16Mem_ struct {
	Leaf  []*int64   `json:"leaf,omitempty"`
	Inner [][]*int64 `json:"inner,omitempty"`
	IsIn  bool       `json:"is_inner,omitempty"`
}

func c16Errs(codes []*int64) []error {
	var es []error
	for _, c := range codes {
		if c == nil {
			es = append(es, nil)
		} else {
			es = append(es, fmt.Errorf("e%d", *c))
		}
	}
	return es
}

func c16RawCoq(codes []*int64) string {
	var it []string
	for _, c := range codes {
		it = append(it, cOpt(c != nil, func() string {
			if c == nil {
				return ""
			}
			return cZ(*c)
		}()))
	}
	return cList(it)
}

func c16Group(o *Out, kind string, ms []c16Mem_, order []int) {
	trig := make([]chan struct{}, len(ms))
	started := make(chan int, 256)
	leafFunc := func(i int, codes []*int64) stop.Func {
		errs := c16Errs(codes)
		return func() stop.Result {
			c := make(stop.Channel)
			go func() {
				<-trig[i]
				started <- i
				c.Done(errs...)
			}()
			return c.Result()
		}
	}
	g := stop.NewGroup()
	leaves := make([]int, len(ms))
	for i, m := range ms {
		trig[i] = make(chan struct{})
		if m.IsIn {
			in := stop.NewGroup()
			for _, codes := range m.Inner {
				in.AddFunc(leafFunc(i, codes))
			}
			leaves[i] = len(m.Inner)
			g.Add(in) // a Group is itself a Stopper
		} else {
			g.AddFunc(leafFunc(i, m.Leaf))
			leaves[i] = 1
		}
	}
	res := &c16Res{ch: g.Stop()}
	all := map[int]bool{}
	for _, i := range order {
		if all[i] {
			continue
		}
		all[i] = true
		close(trig[i])
		for k := 0; k < leaves[i]; k++ {
			<-started
		}
	}
	var done bool
	if len(all) == len(ms) {
		done = res.wait(c16Long)
	} else {
		done = res.wait(c16Quiet / 2)
	}
	var obs []*int64
	for _, e := range res.errs {
		if e == nil {
			obs = append(obs, nil)
			continue
		}
		v := int64(-1)
		if n, err := strconv.ParseInt(strings.TrimPrefix(e.Error(), "e"), 10, 64); err == nil {
			v = n
		}
		obs = append(obs, &v)
	}
	// let the remaining goroutines go
	for i := range ms {
		if !all[i] {
			close(trig[i])
		}
	}
	if !done {
		res.wait(c16Long)
	}
	var cm []string
	for _, m := range ms {
		if m.IsIn {
			var in []string
			for _, codes := range m.Inner {
				in = append(in, c16RawCoq(codes))
			}
			cm = append(cm, "(GInner "+cList(in)+")")
		} else {
			cm = append(cm, "(GLeaf "+c16RawCoq(m.Leaf)+")")
		}
	}
	var co []string
	for _, i := range order {
		co = append(co, fmt.Sprint(i))
	}
	o.add(Case{Kind: kind,
		Coq: fmt.Sprintf("CGroup %s %s %s %s", cList(cm), cList(co), cBool(done), c16RawCoq(obs)),
		In:  map[string]interface{}{"t": "group", "ms": ms, "order": order},
		Obs: map[string]interface{}{"done": done, "res": obs}})
}

// ---------------------------------------------------------------- (g) middleware.Logic.Stop

// c16StopHook is a hook that is also a stop.Stopper reporting the given errors.
type c16StopHook struct {
	c16Gate
	codes []*int64
}

func (h *c16StopHook) Stop() stop.Result {
	c := make(stop.Channel)
	go func() { c.Done(c16Errs(h.codes)...) }()
	return c.Result()
}

// c16Mw: stopping the middleware.  The members of Logic.Stop's group are the hooks that are Stoppers: test hooks
// reporting errors, hooks that are no Stoppers (skipped), and the real JWT hook, whose refresh goroutine is idle
// (state 1) or inside a fetch the JWK endpoint never answers (state 2).  Stop must deliver the members' errors
// whatever the hook's own goroutine is doing.
// drivers for building the same hooks the way the tracker does: from the configuration file (middleware.HooksFromHookConfigs)
type c16PlainDriver struct{}

func (c16PlainDriver) NewHook([]byte) (middleware.Hook, error) { return newC16Gate(true), nil }

type c16StopDriver struct{}

func (c16StopDriver) NewHook(opt []byte) (middleware.Hook, error) {
	var cfg struct {
		Codes []int64 `yaml:"codes"`
	}
	if err := yaml.Unmarshal(opt, &cfg); err != nil {
		return nil, err
	}
	var cs []*int64
	for i := range cfg.Codes {
		cs = append(cs, &cfg.Codes[i])
	}
	return &c16StopHook{c16Gate: *newC16Gate(true), codes: cs}, nil
}

var c16DriversOnce sync.Once

func c16Mw(o *Out, kind string, state int, layout []int, codes [][]*int64) {
	c16MwX(o, kind, state, layout, codes, false)
}

// c16MwX: with viaConfig the hooks are not constructed directly but built from hook configurations, as cmd/chihaya does
// (names + options through the middleware driver registry); whatever that path wraps around a hook, Stop must reach it.
func c16MwX(o *Out, kind string, state int, layout []int, codes [][]*int64, viaConfig bool) {
	c16DriversOnce.Do(func() {
		middleware.RegisterDriver("verif-plain", c16PlainDriver{})
		middleware.RegisterDriver("verif-stop", c16StopDriver{})
	})
	// layout: per hook 0 = plain hook (no Stopper), 1 = stoppable test hook (next entry of codes), 2 = the JWT hook;
	// the first half are pre-hooks, the rest post-hooks
	var jwks = `{"keys":[]}`
	arrived := make(chan struct{}, 16)
	gate := make(chan struct{})
	var hits int32
	ts := httptest.NewServer(nethttp.HandlerFunc(func(w nethttp.ResponseWriter, r *nethttp.Request) {
		if atomic.AddInt32(&hits, 1) > 1 && state == 2 {
			select {
			case arrived <- struct{}{}:
			default:
			}
			<-gate // never answered while the scenario runs
		}
		w.Write([]byte(jwks))
	}))
	defer ts.Close()
	defer close(gate)
	var hooks []middleware.Hook
	var members []string
	var hcfgs []middleware.HookConfig
	ci := 0
	for _, l := range layout {
		switch l {
		case 0:
			hooks = append(hooks, newC16Gate(true))
			hcfgs = append(hcfgs, middleware.HookConfig{Name: "verif-plain"})
		case 1:
			var cs []*int64
			if ci < len(codes) {
				cs = codes[ci]
			}
			ci++
			hooks = append(hooks, &c16StopHook{c16Gate: *newC16Gate(true), codes: cs})
			members = append(members, c16RawCoq(cs))
			var ints []interface{}
			for _, c := range cs {
				if c != nil {
					ints = append(ints, *c)
				}
			}
			hcfgs = append(hcfgs, middleware.HookConfig{Name: "verif-stop", Options: map[string]interface{}{"codes": ints}})
		case 2:
			iv := 24 * time.Hour
			if state == 2 {
				iv = 2 * time.Millisecond
			}
			if viaConfig {
				hooks = append(hooks, nil) // built below
			} else {
				h, err := cjwt.NewHook(cjwt.Config{Issuer: "i", Audience: "a", JWKSetURL: ts.URL, JWKUpdateInterval: iv})
				if err != nil {
					panic("c16: jwt.NewHook: " + err.Error())
				}
				hooks = append(hooks, h)
			}
			members = append(members, "[]")
			hcfgs = append(hcfgs, middleware.HookConfig{Name: "jwt", Options: map[string]interface{}{"issuer": "i", "audience": "a", "jwk_set_url": ts.URL, "jwk_set_update_interval": iv.String()}})
		}
	}
	if viaConfig {
		built, err := middleware.HooksFromHookConfigs(hcfgs)
		if err != nil || len(built) != len(hcfgs) {
			panic(fmt.Sprint("c16: HooksFromHookConfigs: ", err))
		}
		hooks = built
	}
	if state == 2 && !c16Sig(arrived, c16Long) {
		panic("c16: the JWT hook never refreshed")
	}
	half := len(hooks) / 2
	ps := c16Mem()
	// two slices of their own: NewLogic appends to the pre-hook slice it is given
	pre := append([]middleware.Hook{}, hooks[:half]...)
	post := append([]middleware.Hook{}, hooks[half:]...)
	lg := middleware.NewLogic(middleware.ResponseConfig{AnnounceInterval: time.Minute, MinAnnounceInterval: time.Second}, ps, pre, post)
	res := &c16Res{ch: lg.Stop()}
	done := res.wait(c16Long / 4)
	var obs []*int64
	for _, e := range res.errs {
		if e == nil {
			obs = append(obs, nil)
			continue
		}
		v := int64(-1)
		if n, err := strconv.ParseInt(strings.TrimPrefix(e.Error(), "e"), 10, 64); err == nil {
			v = n
		}
		obs = append(obs, &v)
	}
	<-ps.Stop()
	o.add(Case{Kind: kind,
		Coq: fmt.Sprintf("CMwStop %d %s %s %s", state, cList(members), cBool(done), c16RawCoq(obs)),
		In:  map[string]interface{}{"t": "mwstop", "state": state, "layout": layout, "codes": codes, "via_config": viaConfig},
		Obs: map[string]interface{}{"done": done, "res": obs}})
}

// ---------------------------------------------------------------- (h) HTTP Frontend.Stop reports every server's error

var c16CertOnce sync.Once
var c16CertPath, c16KeyPath, c16CertDir string

// c16CertCleanup removes the scratch directory of the self-signed certificate (deferred by the stream and the replay).
func c16CertCleanup() {
	if c16CertDir != "" {
		_ = os.RemoveAll(c16CertDir)
	}
}

// a self-signed certificate for the HTTPS server (generated once per run, in a temporary directory)
func c16Cert() (string, string) {
	c16CertOnce.Do(func() {
		key, err := ecdsa.GenerateKey(elliptic.P256(), crand.Reader)
		if err != nil {
			panic(err)
		}
		tmpl := &x509.Certificate{SerialNumber: big.NewInt(16), Subject: pkix.Name{CommonName: "verif-c16"}, NotBefore: time.Now().Add(-time.Hour),
			NotAfter: time.Now().Add(24 * time.Hour), IPAddresses: []net.IP{{127, 0, 0, 1}}, KeyUsage: x509.KeyUsageDigitalSignature, ExtKeyUsage: []x509.ExtKeyUsage{x509.ExtKeyUsageServerAuth}}
		der, err := x509.CreateCertificate(crand.Reader, tmpl, tmpl, &key.PublicKey, key)
		if err != nil {
			panic(err)
		}
		kb, err := x509.MarshalECPrivateKey(key)
		if err != nil {
			panic(err)
		}
		dir, _ := os.MkdirTemp("", "c16cert")
		c16CertDir = dir
		c16CertPath, c16KeyPath = filepath.Join(dir, "cert.pem"), filepath.Join(dir, "key.pem")
		_ = os.WriteFile(c16CertPath, pem.EncodeToMemory(&pem.Block{Type: "CERTIFICATE", Bytes: der}), 0o600)
		_ = os.WriteFile(c16KeyPath, pem.EncodeToMemory(&pem.Block{Type: "EC PRIVATE KEY", Bytes: kb}), 0o600)
	})
	return c16CertPath, c16KeyPath
}

// c16FeStop: the HTTP frontend with its plain and/or its TLS server (servers: 0 both, 1 http only, 2 https only); the Close of
// the listeners named by fail (bit 1: http, bit 2: https) reports an error - the one fault Shutdown(context.Background())
// can report.  Stop must terminate and report exactly the failing servers' errors, in server order.
func c16FeStop(o *Out, kind string, servers, fail int) {
	store := c16Mem()
	logic := newC16Logic(store, nil, nil)
	cfg := httpfe.Config{ReadTimeout: time.Minute, WriteTimeout: time.Minute, AnnounceRoutes: []string{"/announce"}, ScrapeRoutes: []string{"/scrape"}}
	var addrH, addrS string
	if servers != 2 {
		addrH = fmt.Sprintf("127.0.0.1:%d", c16FreePort(false))
		cfg.Addr = addrH
	}
	if servers != 1 {
		addrS = fmt.Sprintf("127.0.0.1:%d", c16FreePort(false))
		cfg.HTTPSAddr = addrS
		cfg.TLSCertPath, cfg.TLSKeyPath = c16Cert()
	}
	before := httpfe.VerifListenCalls
	httpfe.VerifListenerCloseErr = func(addr string) error {
		if addr == addrH && fail&1 != 0 {
			return errors.New("e1")
		}
		if addr == addrS && fail&2 != 0 {
			return errors.New("e2")
		}
		return nil
	}
	defer func() { httpfe.VerifListenerCloseErr = nil }()
	f, err := httpfe.NewFrontend(logic, cfg)
	if err != nil {
		panic("c16: NewFrontend: " + err.Error())
	}
	if httpfe.VerifListenCalls == before {
		// the source no longer creates its listeners where the rewrite expects: nothing was injected, nothing to judge
		<-f.Stop()
		<-store.Stop()
		o.notes["fe_stop_injection"] = "skipped: frontend/http/frontend.go does not call net.Listen( any more"
		return
	}
	// one answered request per server first: the serving goroutines have registered their listeners with the servers (Stop
	// racing with start-up is scenario (b); there a listener may be closed by Serve itself, whose error nobody can report)
	q := "/scrape?info_hash=" + url.QueryEscape(string(bytes.Repeat([]byte{'x'}, 20)))
	if servers != 2 {
		if len(c16RawGet(addrH, q, 5*time.Second)) == 0 {
			panic("c16: the HTTP server did not answer")
		}
	}
	if servers != 1 {
		cl := &nethttp.Client{Timeout: 5 * time.Second, Transport: &nethttp.Transport{TLSClientConfig: &tls.Config{InsecureSkipVerify: true}, DisableKeepAlives: true}}
		resp, gerr := cl.Get("https://" + addrS + q)
		if gerr != nil {
			panic("c16: the HTTPS server did not answer: " + gerr.Error())
		}
		_, _ = io.ReadAll(resp.Body)
		resp.Body.Close()
		cl.CloseIdleConnections()
	}
	res := &c16Res{ch: f.Stop()}
	done := res.wait(c16Long / 4)
	var obs []*int64
	for _, e := range res.errs {
		if e == nil {
			obs = append(obs, nil)
			continue
		}
		v := int64(-1)
		if n, perr := strconv.ParseInt(strings.TrimPrefix(e.Error(), "e"), 10, 64); perr == nil {
			v = n
		}
		obs = append(obs, &v)
	}
	<-store.Stop()
	var members []string
	one, two := int64(1), int64(2)
	if servers != 2 {
		if fail&1 != 0 {
			members = append(members, c16RawCoq([]*int64{&one}))
		} else {
			members = append(members, "[]")
		}
	}
	if servers != 1 {
		if fail&2 != 0 {
			members = append(members, c16RawCoq([]*int64{&two}))
		} else {
			members = append(members, "[]")
		}
	}
	o.add(Case{Kind: kind,
		Coq: fmt.Sprintf("CMwStop %d %s %s %s", 10+servers, cList(members), cBool(done), c16RawCoq(obs)),
		In:  map[string]interface{}{"t": "festop", "servers": servers, "fail": fail},
		Obs: map[string]interface{}{"done": done, "res": obs}})
}

// ---------------------------------------------------------------- (a) gated hooks + Stop

func c16Gated(o *Out, fe int, scrape bool, mode int, slow bool) {
	ps := c16Mem()
	pre, post := newC16Gate(mode != 0), newC16Gate(false)
	lg := newC16Logic(ps, []middleware.Hook{pre}, []middleware.Hook{post})
	if slow {
		// the request stays in its (gated) hook for three times the frontend's write timeout before Stop is
		// called: it is still an accepted request in flight, whatever the frontend did to its connection
		c16WriteTimeout = 250 * time.Millisecond
	}
	f := c16Start(fe, lg)
	c16WriteTimeout = 2 * time.Minute
	resp := make(chan bool, 1)
	go func() {
		ok, _, _ := c16Do(fe, f.addr, c16Req{scrape: scrape, ih: c16IH(1), pid: c16PID(1), left: 5}, c16Long)
		resp <- ok
	}()
	b0, b1, after, hookdone, healthy := false, false, false, false, true
	if mode == 0 {
		healthy = c16Sig(pre.entered, c16Long)
	} else {
		healthy = c16Sig(post.entered, c16Long)
	}
	if slow {
		time.Sleep(750 * time.Millisecond)
	}
	res := &c16Res{ch: f.s.Stop()}
	if healthy && mode == 0 {
		b0 = res.wait(c16Quiet) // a request handler is running
		pre.open()
		healthy = c16Sig(post.entered, c16Long)
	}
	if healthy {
		b1 = res.wait(c16Quiet) // the post-response hook is in flight
	}
	pre.open()
	post.open()
	if healthy {
		after = res.wait(c16Long)
		hookdone = !b1 && !b0 && atomic.LoadInt32(&lg.afterDone) > 0
		c16Sig(lg.done, c16Long)
	}
	gotResp := false
	select {
	case gotResp = <-resp:
	case <-time.After(c16Long):
	}
	res.wait(c16Long)
	<-ps.Stop()
	o.add(Case{Kind: fmt.Sprintf("gated-fe%d-mode%d", fe, mode),
		Coq: fmt.Sprintf("CGated %d %s %d %s %s %s %s", fe, cBool(scrape), mode, cBool(b0), cBool(b1), cBool(after), cBool(hookdone)),
		In:  map[string]interface{}{"t": "gated", "fe": fe, "scrape": scrape, "mode": mode, "slow": slow},
		Obs: map[string]interface{}{"delivered_while_handler_blocked": b0, "delivered_while_hook_blocked": b1, "delivered_after_gates": after,
			"hook_finished_at_delivery": hookdone, "client_answered": gotResp, "scenario_reached_gates": healthy}})
}

// ---------------------------------------------------------------- (b) NewFrontend; Stop

// c16RaceMetrics: metrics.NewServer immediately followed by Stop, on ONE processor (the goroutine NewServer starts has
// not run when Stop's goroutine does).  The port is probed by binding it, before the processors are given back.  Repeated
// five times on fresh ports; "still open" is reported only if it was in every round (the library's own ListenAndServe has
// a window of a few instructions between binding and registering the listener; one preemption there is not the component's).
func c16RaceMetrics(o *Out) {
	old := runtime.GOMAXPROCS(1)
	const rounds = 5
	done, nopen, nerrs := true, 0, 0
	var addrs []string
	for i := 0; i < rounds; i++ {
		addr := fmt.Sprintf("127.0.0.1:%d", c16FreePort(false))
		addrs = append(addrs, addr)
		s := metrics.NewServer(addr)
		res := &c16Res{ch: s.Stop()}
		if !res.wait(c16Long) {
			done = false
			break
		}
		nerrs += len(res.errs)
		if l, err := net.Listen("tcp4", addr); err != nil {
			nopen++
		} else {
			l.Close()
		}
	}
	runtime.GOMAXPROCS(old)
	// let whatever was left behind notice the shutdown
	for _, a := range addrs {
		for dl := time.Now().Add(2 * time.Second); time.Now().Before(dl); time.Sleep(2 * time.Millisecond) {
			if l, err := net.Listen("tcp4", a); err == nil {
				l.Close()
				break
			}
		}
	}
	open := done && nopen == rounds
	o.add(Case{Kind: "race-metrics",
		Coq: fmt.Sprintf("CRace 2 1 %s %d %s false", cBool(done), nerrs, cBool(open)),
		In:  map[string]interface{}{"t": "race", "fe": 2, "procs": 1},
		Obs: map[string]interface{}{"delivered": done, "errors": nerrs, "rounds": rounds, "rounds_port_open_after_stop": nopen, "port_open_after_stop": open}})
}

func c16Race(o *Out, fe, procs int) {
	if fe == 2 {
		c16RaceMetrics(o)
		return
	}
	old := runtime.GOMAXPROCS(procs)
	ps := c16Mem()
	lg := newC16Logic(ps, nil, nil)
	f := c16Start(fe, lg)
	res := &c16Res{ch: f.s.Stop()}
	done := res.wait(c16Long)
	runtime.GOMAXPROCS(old)
	open, answered := false, false
	if fe == 1 {
		c, err := net.DialTimeout("tcp4", f.addr, 2*time.Second)
		if err == nil {
			open = true
			_ = c.SetDeadline(time.Now().Add(2 * time.Second))
			ih := c16IH(1)
			fmt.Fprintf(c, "GET /scrape?info_hash=%s HTTP/1.1\r\nHost: verif\r\nConnection: close\r\n\r\n", url.QueryEscape(string(ih[:])))
			b, _ := io.ReadAll(c)
			answered = bytes.HasPrefix(b, []byte("HTTP/"))
			c.Close()
		}
	} else {
		ua, _ := net.ResolveUDPAddr("udp4", f.addr)
		c, err := net.ListenUDP("udp4", ua)
		if err != nil {
			open = true // the frontend's socket still holds the port
		} else {
			c.Close()
		}
	}
	if !open {
		<-ps.Stop()
	} // else: a server that Stop missed keeps using the store; leave it alone
	o.add(Case{Kind: fmt.Sprintf("race-fe%d", fe),
		Coq: fmt.Sprintf("CRace %d %d %s %d %s %s", fe, procs, cBool(done), len(res.errs), cBool(open), cBool(answered)),
		In:  map[string]interface{}{"t": "race", "fe": fe, "procs": procs},
		Obs: map[string]interface{}{"delivered": done, "errors": len(res.errs), "port_open_after_stop": open, "request_answered_after_stop": answered}})
}

// ---------------------------------------------------------------- (d) goroutines after Stop

func c16Leak(o *Out, fe, nreq int) {
	base := c16Goroutines()
	ps := c16Mem()
	lg := newC16Logic(ps, nil, nil)
	f := c16Start(fe, lg)
	served := 0
	for i := 0; i < nreq; i++ {
		ok, _, _ := c16Do(fe, f.addr, c16Req{scrape: i%3 == 2, ih: c16IH(i % 2), pid: c16PID(i), left: uint64(i % 2)}, c16Long)
		if ok {
			served++
			c16Sig(lg.done, c16Long)
		}
	}
	res := &c16Res{ch: f.s.Stop()}
	done := res.wait(c16Long)
	left := c16Goroutines() - base
	// grace period of DESIGN 9.B-10: goroutines that only have to notice the shutdown and return
	for dl := time.Now().Add(3 * time.Second); left > 0 && time.Now().Before(dl); left = c16Goroutines() - base {
		time.Sleep(2 * time.Millisecond)
	}
	if left < 0 {
		left = 0
	}
	<-ps.Stop()
	o.add(Case{Kind: fmt.Sprintf("leak-fe%d", fe),
		Coq: fmt.Sprintf("CLeak %d %d %s %d", fe, nreq, cBool(done && served == nreq), left),
		In:  map[string]interface{}{"t": "leak", "fe": fe, "nreq": nreq},
		Obs: map[string]interface{}{"delivered": done, "served": served, "goroutines_left": left}})
}

// ---------------------------------------------------------------- (f) store use after Stop(all)

func c16AfterStop(o *Out, fe, storeKind int) {
	var ps storage.PeerStore
	var mr *miniredis.Miniredis
	if storeKind == 1 {
		var err error
		if mr, err = miniredis.Run(); err != nil {
			panic(err)
		}
		huge := 1000 * time.Hour
		ps, err = redisstore.New(redisstore.Config{RedisBroker: "redis://@" + mr.Addr() + "/0", GarbageCollectionInterval: huge,
			PrometheusReportingInterval: huge, PeerLifetime: huge, RedisReadTimeout: 10 * time.Second, RedisWriteTimeout: 10 * time.Second, RedisConnectTimeout: 10 * time.Second})
		if err != nil {
			panic(err)
		}
	} else {
		ps = c16Mem()
	}
	post := newC16Gate(false)
	lg := newC16Logic(ps, nil, []middleware.Hook{post})
	f := c16Start(fe, lg)
	ok, _, _ := c16Do(fe, f.addr, c16Req{ih: c16IH(1), pid: c16PID(1), left: 5}, c16Long)
	healthy := ok && c16Sig(post.entered, c16Long)
	// Run.Stop(false) of cmd/chihaya/main.go: frontends' group, then the logic, then the store
	stopped := make(chan struct{})
	go func() {
		sg := stop.NewGroup()
		sg.Add(f.s)
		sg.Stop().Wait()
		lg.Logic.Stop().Wait()
		ps.Stop().Wait()
		close(stopped)
	}()
	early := c16Sig(stopped, c16Quiet)
	post.open()
	if healthy {
		c16Sig(lg.done, c16Long)
	}
	done := c16Sig(stopped, c16Long)
	lg.mu.Lock()
	pan, msg := lg.panicked, lg.panicMsg
	lg.mu.Unlock()
	if mr != nil {
		mr.Close()
	}
	storeMsg := strings.Contains(msg, "attempted to interact with stopped")
	o.add(Case{Kind: fmt.Sprintf("afterstop-fe%d-store%d", fe, storeKind),
		Coq: fmt.Sprintf("CAfterStop %d %d %s %s %s", fe, storeKind, cBool(done && healthy), cBool(pan), cBool(storeMsg)),
		In:  map[string]interface{}{"t": "afterstop", "fe": fe, "store": storeKind},
		Obs: map[string]interface{}{"stop_all_delivered": done, "stop_all_delivered_while_hook_blocked": early, "hook_panicked": pan, "panic": msg, "scenario_reached_gate": healthy}})
}

// ---------------------------------------------------------------- (e) reload through cmd/chihaya's Run

type c16ROp struct {
	T       string `json:"t"` // ann scr reload
	Via     int    `json:"via,omitempty"`
	IH      int    `json:"ih,omitempty"`
	Peer    int    `json:"peer,omitempty"`
	Seeder  bool   `json:"seeder,omitempty"`
	Stopped bool   `json:"stopped,omitempty"`
	// reload: the operator EDITED the configuration file before asking for the reload (1: storage gc_interval,
	// 2: announce_interval, 3: gc_interval and prometheus_reporting_interval): the swarm contents are still the same afterwards
	Edit int `json:"edit,omitempty"`
}

var (
	c16MainOnce sync.Once
	c16MainBin  string
	c16MainErr  error
)

// c16BuildMain builds the real chihaya command with the add-only shim
// cmd/chihaya/zz_verif.go (stdin-driven Run.Start/Stop), using the overlay and
// the private go.mod copy ./check placed in the output directory.
func c16BuildMain(dir string) (string, error) {
	c16MainOnce.Do(func() {
		repo := os.Getenv("VERIF_REPO")
		if repo == "" {
			repo = "/repo"
		}
		root := dir
		for i := 0; i < 3; i++ { // parts and replays may run in a sub-directory of the run directory
			if _, err := os.Stat(filepath.Join(root, "overlay.json")); err == nil {
				break
			}
			root = filepath.Dir(root)
		}
		bin := filepath.Join(dir, "chihaya-verif")
		cmd := exec.Command("go", "build", "-modfile", filepath.Join(root, "go.mod"), "-tags", "verif,shim_main,shim_httplisten",
			"-overlay", filepath.Join(root, "overlay.json"), "-o", bin, "github.com/chihaya/chihaya/cmd/chihaya")
		cmd.Dir = repo
		out, err := cmd.CombinedOutput()
		if err != nil {
			c16MainErr = fmt.Errorf("building cmd/chihaya with the shim_main overlay: %v\n%s", err, out)
			return
		}
		c16MainBin = bin
	})
	return c16MainBin, c16MainErr
}

type c16Proc struct {
	cmd   *exec.Cmd
	in    io.WriteCloser
	lines chan string
}

func (p *c16Proc) say(s string) bool {
	if _, err := fmt.Fprintln(p.in, s); err != nil {
		return false
	}
	select {
	case l, ok := <-p.lines:
		return ok && l == "ok"
	case <-time.After(c16Long):
		return false
	}
}

func c16Reload(o *Out, kind string, ops []c16ROp) {
	bin, err := c16BuildMain(o.dir)
	if err != nil {
		panic(err)
	}
	var p *c16Proc
	var httpAddr, udpAddr string
	var cfgText, cfgFile string
	edits := 0
	for attempt := 0; attempt < 10 && p == nil; attempt++ {
		httpAddr = fmt.Sprintf("127.0.0.1:%d", c16FreePort(false))
		udpAddr = fmt.Sprintf("127.0.0.1:%d", c16FreePort(true))
		cfg := fmt.Sprintf(`chihaya:
  announce_interval: 30m
  min_announce_interval: 15m
  metrics_addr: "127.0.0.1:%d"
  http:
    addr: "%s"
    read_timeout: 30s
    write_timeout: 30s
    announce_routes: ["/announce"]
    scrape_routes: ["/scrape"]
    max_numwant: 100
    default_numwant: 50
    max_scrape_infohashes: 50
  udp:
    addr: "%s"
    private_key: "%s"
    max_clock_skew: 1m
    max_numwant: 100
    default_numwant: 50
    max_scrape_infohashes: 50
  storage:
    name: memory
    config:
      gc_interval: 3h
      peer_lifetime: 3h
      shard_count: 4
      prometheus_reporting_interval: 3h
  prehooks: []
  posthooks: []
`, c16FreePort(false), httpAddr, udpAddr, c16Key)
		cfgPath := filepath.Join(o.dir, fmt.Sprintf("c16-config-%d.yaml", attempt))
		if err := os.WriteFile(cfgPath, []byte(cfg), 0o644); err != nil {
			panic(err)
		}
		cfgText, cfgFile = cfg, cfgPath
		cmd := exec.Command(bin)
		cmd.Env = append(os.Environ(), "VERIF_C16_CONFIG="+cfgPath)
		in, _ := cmd.StdinPipe()
		outp, _ := cmd.StdoutPipe()
		cmd.Stderr = io.Discard
		if err := cmd.Start(); err != nil {
			panic(err)
		}
		q := &c16Proc{cmd: cmd, in: in, lines: make(chan string, 16)}
		go func() {
			sc := bufio.NewScanner(outp)
			for sc.Scan() {
				q.lines <- sc.Text()
			}
			close(q.lines)
		}()
		if q.say("start") {
			p = q
		} else {
			_ = cmd.Process.Kill()
			_ = cmd.Wait()
		}
	}
	if p == nil {
		panic("c16: the chihaya process did not start")
	}
	defer func() {
		_ = p.say("quit")
		_ = p.cmd.Process.Kill()
		_ = p.cmd.Wait()
	}()
	addr := func(via int) string {
		if via == 1 {
			return httpAddr
		}
		return udpAddr
	}
	// the driver's own bookkeeping is used ONLY to know when the asynchronous
	// post-response hook of an announce has landed; the verdict is the model's
	type key struct{ ih, peer int; seeder bool }
	have := map[key]bool{}
	count := func(ih int) (c, i int64) {
		for k := range have {
			if k.ih == ih {
				if k.seeder {
					c++
				} else {
					i++
				}
			}
		}
		return
	}
	var items []string
	var obs []map[string]interface{}
	for _, op := range ops {
		switch op.T {
		case "ann":
			left := uint64(7)
			if op.Seeder {
				left = 0
			}
			ok, _, _ := c16Do(op.Via, addr(op.Via), c16Req{ih: c16IH(op.IH), pid: c16PID(op.Peer), left: left, stopped: op.Stopped}, 5*time.Second)
			if ok {
				if op.Stopped {
					delete(have, key{op.IH, op.Peer, true})
					delete(have, key{op.IH, op.Peer, false})
				} else {
					have[key{op.IH, op.Peer, op.Seeder}] = true
				}
				wc, wi := count(op.IH)
				for dl := time.Now().Add(3 * time.Second); time.Now().Before(dl); time.Sleep(time.Millisecond) {
					if sok, c, i := c16Do(op.Via, addr(op.Via), c16Req{scrape: true, ih: c16IH(op.IH)}, 5*time.Second); sok && c == wc && i == wi {
						break
					}
				}
			}
			items = append(items, fmt.Sprintf("RAnn %d %d %d %s %s %s", op.Via, op.IH, op.Peer, cBool(op.Seeder), cBool(op.Stopped), cBool(ok)))
			obs = append(obs, map[string]interface{}{"ok": ok})
		case "scr":
			ok, c, i := c16Do(op.Via, addr(op.Via), c16Req{scrape: true, ih: c16IH(op.IH)}, 5*time.Second)
			items = append(items, fmt.Sprintf("RScr %d %d %s %d %d", op.Via, op.IH, cBool(ok), c, i))
			obs = append(obs, map[string]interface{}{"ok": ok, "complete": c, "incomplete": i})
		case "reload":
			if op.Edit != 0 {
				edits++
				t := cfgText
				if op.Edit&1 != 0 {
					t = strings.Replace(t, "gc_interval: 3h", fmt.Sprintf("gc_interval: %dh", 3+edits), 1)
				}
				if op.Edit&2 != 0 {
					t = strings.Replace(t, "announce_interval: 30m", fmt.Sprintf("announce_interval: %dm", 30+edits), 1)
				}
				if op.Edit == 3 {
					t = strings.Replace(t, "prometheus_reporting_interval: 3h", fmt.Sprintf("prometheus_reporting_interval: %dh", 3+edits), 1)
				}
				_ = os.WriteFile(cfgFile, []byte(t), 0o644)
			}
			ok := p.say("reload")
			items = append(items, "RReload "+cBool(ok))
			obs = append(obs, map[string]interface{}{"ok": ok})
		}
	}
	o.add(Case{Kind: kind, Coq: "CReload " + cList(items),
		In:  map[string]interface{}{"t": "reload", "ops": ops},
		Obs: map[string]interface{}{"steps": obs}})
}

func c16GenReload(rng *rand.Rand, nops int) []c16ROp {
	var ops []c16ROp
	reloads := 0
	for len(ops) < nops {
		switch r := rng.Intn(10); {
		case r < 5:
			peer := rng.Intn(6)
			ops = append(ops, c16ROp{T: "ann", Via: rng.Intn(2), IH: rng.Intn(2), Peer: peer, Seeder: peer%2 == 0, Stopped: rng.Intn(6) == 0})
		case r < 8:
			ops = append(ops, c16ROp{T: "scr", Via: rng.Intn(2), IH: rng.Intn(2)})
		default:
			if len(ops) > 0 && reloads < 3 {
				reloads++
				ops = append(ops, c16ROp{T: "reload", Edit: rng.Intn(4)})
				// what the property talks about: the same contents right after the reload
				ops = append(ops, c16ROp{T: "scr", Via: rng.Intn(2), IH: 0}, c16ROp{T: "scr", Via: rng.Intn(2), IH: 1})
			}
		}
	}
	return ops
}

// ---------------------------------------------------------------- streams

func c16Replay(o *Out, in map[string]interface{}) error {
	defer c16CertCleanup()
	switch jStr(in["t"]) {
	case "group":
		var ms []c16Mem_
		var order []int
		if err := reJSON(in["ms"], &ms); err != nil {
			return err
		}
		if err := reJSON(in["order"], &order); err != nil {
			return err
		}
		c16Group(o, "replay", ms, order)
	case "gated":
		c16Gated(o, int(jInt(in["fe"])), jBool(in["scrape"]), int(jInt(in["mode"])), jBool(in["slow"]))
	case "race":
		// the schedule is not under the driver's control here: repeat
		for i := 0; i < 50; i++ {
			c16Race(o, int(jInt(in["fe"])), int(jInt(in["procs"])))
		}
	case "leak":
		c16Leak(o, int(jInt(in["fe"])), int(jInt(in["nreq"])))
	case "afterstop":
		c16AfterStop(o, int(jInt(in["fe"])), int(jInt(in["store"])))
	case "festop":
		c16FeStop(o, "replay", int(jInt(in["servers"])), int(jInt(in["fail"])))
	case "mwstop":
		var layout []int
		var codes [][]*int64
		if err := reJSON(in["layout"], &layout); err != nil {
			return err
		}
		if err := reJSON(in["codes"], &codes); err != nil {
			return err
		}
		c16MwX(o, "replay", int(jInt(in["state"])), layout, codes, jBool(in["via_config"]))
	case "reload":
		var ops []c16ROp
		if err := reJSON(in["ops"], &ops); err != nil {
			return err
		}
		c16Reload(o, "replay", ops)
	default:
		return errors.New("unknown scenario")
	}
	return nil
}

func c16Perms(n int) [][]int {
	if n == 0 {
		return [][]int{{}}
	}
	var out [][]int
	for _, p := range c16Perms(n - 1) {
		for i := 0; i <= len(p); i++ {
			q := append(append(append([]int{}, p[:i]...), n-1), p[i:]...)
			out = append(out, q)
		}
	}
	return out
}

func c16Stream(o *Out, rng *rand.Rand, n int) {
	defer c16CertCleanup()
	thorough := os.Getenv("VERIF_TIER") == "thorough"
	reps := 1
	if thorough {
		reps = 4
	}
	iv := func(v int64) *int64 { return &v }

	// (d) goroutines first, while the process is still clean
	// (at least one request, so that Stop does not race with start-up here: that is scenario (b))
	for _, nreq := range []int{1, 2, 4, 9} {
		for fe := 0; fe < 2; fe++ {
			c16Leak(o, fe, nreq)
		}
	}
	if thorough {
		for fe := 0; fe < 2; fe++ {
			c16Leak(o, fe, 40)
		}
	}

	// (c) stop groups: every subset of {0..3} failing, members completing in every order
	perms := c16Perms(4)
	for sub := 0; sub < 16; sub++ {
		var ms []c16Mem_
		for i := 0; i < 4; i++ {
			m := c16Mem_{}
			if sub&(1<<i) != 0 {
				m.Leaf = []*int64{iv(int64(10 * (i + 1)))}
				if (sub+i)%3 == 0 {
					m.Leaf = append(m.Leaf, iv(int64(10*(i+1)+1)))
				}
			}
			ms = append(ms, m)
		}
		for pi, p := range perms {
			if !thorough && (pi+sub)%4 != 0 {
				continue
			}
			c16Group(o, "group-subsets", ms, p)
		}
	}
	// sizes 0..3, nested groups, a member that never completes, nil-first Done arguments
	c16Group(o, "group-corner", nil, nil)
	c16Group(o, "group-corner", []c16Mem_{{Leaf: []*int64{iv(1), iv(2), iv(3)}}}, []int{0})
	c16Group(o, "group-corner", []c16Mem_{{}, {}}, []int{1, 0})
	c16Group(o, "group-nested", []c16Mem_{{Leaf: []*int64{iv(1)}}, {IsIn: true, Inner: [][]*int64{{iv(2)}, {}, {iv(3), iv(4)}}}, {Leaf: []*int64{iv(5)}}}, []int{2, 1, 0})
	c16Group(o, "group-nested", []c16Mem_{{IsIn: true, Inner: [][]*int64{{}, {}}}, {IsIn: true, Inner: [][]*int64{}}, {Leaf: []*int64{iv(9)}}}, []int{0, 2, 1})
	c16Group(o, "group-nilfirst", []c16Mem_{{Leaf: []*int64{nil, iv(7)}}, {Leaf: []*int64{iv(8)}}}, []int{0, 1})
	c16Group(o, "group-nilfirst", []c16Mem_{{Leaf: []*int64{iv(7), nil}}, {Leaf: []*int64{nil}}}, []int{1, 0})
	for k := 0; k < 4*reps; k++ {
		nm := 1 + rng.Intn(4)
		var ms []c16Mem_
		for i := 0; i < nm; i++ {
			m := c16Mem_{}
			for j := rng.Intn(3); j > 0; j-- {
				m.Leaf = append(m.Leaf, iv(int64(100*i+j)))
			}
			ms = append(ms, m)
		}
		p := rng.Perm(nm)
		c16Group(o, "group-blocked", ms, p[:rng.Intn(nm)]) // some member never completes
	}

	// (g) stopping the middleware: stoppable hooks with errors, plain hooks, the JWT hook idle / inside a fetch that hangs
	c16Mw(o, "mw-stop", 0, []int{1, 0, 1, 1}, [][]*int64{{iv(1)}, {}, {iv(2), iv(3)}})
	c16Mw(o, "mw-stop", 0, []int{0, 0}, nil)
	c16Mw(o, "mw-stop", 1, []int{2, 0}, nil)
	c16Mw(o, "mw-stop", 1, []int{1, 2, 0, 1}, [][]*int64{{iv(4)}, {iv(5)}})
	c16Mw(o, "mw-stop", 2, []int{2, 0}, nil)
	c16Mw(o, "mw-stop", 2, []int{0, 1, 1, 2}, [][]*int64{{}, {iv(6), iv(7)}})
	// ... the same with the hooks built from hook configurations (names + options), as cmd/chihaya builds them
	c16MwX(o, "mw-stop-config", 0, []int{1, 0, 1, 1}, [][]*int64{{iv(1)}, {}, {iv(2), iv(3)}}, true)
	c16MwX(o, "mw-stop-config", 1, []int{1, 2, 0, 1}, [][]*int64{{iv(4)}, {iv(5)}}, true)
	c16MwX(o, "mw-stop-config", 2, []int{2, 1}, [][]*int64{{iv(8)}}, true)
	for k := 0; k < 2*reps; k++ {
		var layout []int
		var codes [][]*int64
		st := rng.Intn(3)
		for i := 2 + rng.Intn(4); i > 0; i-- {
			l := rng.Intn(2)
			if l == 1 {
				var cs []*int64
				for j := rng.Intn(3); j > 0; j-- {
					cs = append(cs, iv(int64(100+10*i+j)))
				}
				codes = append(codes, cs)
			}
			layout = append(layout, l)
		}
		if st > 0 {
			layout[rng.Intn(len(layout))] = 2
			codes = nil
			for i, l := range layout {
				if l == 1 {
					codes = append(codes, []*int64{iv(int64(200 + i))})
				}
			}
		}
		c16Mw(o, "mw-stop", st, layout, codes)
	}

	// (h) the HTTP frontend's Stop with failing listeners: every subset of its servers failing
	for servers := 0; servers < 3; servers++ {
		for fail := 0; fail < 4; fail++ {
			if servers == 1 && fail&2 != 0 || servers == 2 && fail&1 != 0 {
				continue
			}
			c16FeStop(o, "fe-stop-errors", servers, fail)
		}
	}

	// (a) gated hooks
	for r := 0; r < reps; r++ {
		for fe := 0; fe < 2; fe++ {
			for mode := 0; mode < 2; mode++ {
				for _, scrape := range []bool{false, true} {
					c16Gated(o, fe, scrape, mode, false)
					if fe == 1 {
						c16Gated(o, fe, scrape, mode, true)
					}
				}
			}
		}
	}

	// (f) the stopped store
	for r := 0; r < reps; r++ {
		for fe := 0; fe < 2; fe++ {
			for st := 0; st < 2; st++ {
				c16AfterStop(o, fe, st)
			}
		}
	}

	// (e) reload through the real Run
	nh := 4
	if thorough {
		nh = 30
	}
	c16Reload(o, "reload-fixed", []c16ROp{
		{T: "ann", Via: 1, IH: 0, Peer: 0, Seeder: true}, {T: "ann", Via: 0, IH: 0, Peer: 1}, {T: "ann", Via: 0, IH: 1, Peer: 2, Seeder: true},
		{T: "scr", Via: 1, IH: 0}, {T: "reload"}, {T: "scr", Via: 1, IH: 0}, {T: "scr", Via: 0, IH: 0}, {T: "scr", Via: 0, IH: 1},
		{T: "ann", Via: 1, IH: 0, Peer: 1, Stopped: true}, {T: "reload"}, {T: "reload"}, {T: "scr", Via: 0, IH: 0}, {T: "scr", Via: 1, IH: 1}})
	for k := 0; k < nh; k++ {
		c16Reload(o, "reload-random", c16GenReload(rng, 8+rng.Intn(12)))
	}

	// (b) NewFrontend immediately followed by Stop (last: a server that Stop misses stays behind)
	many := runtime.NumCPU()
	if many < 2 {
		many = 2
	}
	for i := 0; i < n; i++ {
		for fe := 0; fe < 2; fe++ {
			c16Race(o, fe, 1)
			c16Race(o, fe, many)
		}
		if i < 3 {
			c16Race(o, 2, 1)
		}
	}
	o.notes["c16_quiet_ms"] = c16Quiet / time.Millisecond
	o.notes["gomaxprocs_many"] = many
	_ = json.Marshal
}
