//go:build verif && verif_c15 && !race

package main

const c15RaceEnabled = false
