(* C04 - Concurrent requests behave as if processed one at a time. *)
From Chihaya Require Import Model.History Model.Conc Model.Locks Model.MemLocks Proofs.MemP Proofs.RedisP Proofs.ConcP Proofs.LocksP Proofs.MemLocksP Proofs.SearchP Proofs.SpecP.
From Chihaya Require Glue.G04.
Open Scope Z_scope.

(* ---- memory store *)
(* the per-swarm steps of an expiry pass compose, in any order, to the whole pass (the pass is not atomic across swarms by design) *)
Theorem C04_mem_pass_is_per_swarm_steps : forall T sh, swarms (shard_gc T sh) = sm_gc T (swarms sh).
Proof. exact shard_gc_swarms. Qed.
Print Assumptions C04_mem_pass_is_per_swarm_steps.

(* ---- memory store, the lock protocol (Model/Locks.v: threads of acquire / read / commit / release actions
   over shards guarded by one RWMutex each; an acquire is disabled while an incompatible holder exists).
   "well-locked" (held_after None p = Some None): every access to a shard lies between an acquire and the
   matching release of that shard's lock, the shard is read before it is used, writes need the write lock. *)

(* mutual exclusion: in EVERY state of EVERY schedule, two different threads hold the same shard's lock
   only if both hold it for reading (both semantics; generic in the shard and result types) *)
Theorem C04_mem_mutual_exclusion : forall (S R : Type) atomic (ss : list S) (progs : list (list (mact S R))) sched,
  Forall (fun p => held_after None p = Some None) progs ->
  let m := run (msem atomic) sched (msh_init ss, map mthread_of progs) in
  forall i k t tk j w w', i <> k -> m.2 !! i = Some t -> m.2 !! k = Some tk ->
    holds j w t = true -> holds j w' tk = true -> w = false /\ w' = false.
Proof. exact @mem_mutual_exclusion. Qed.
Print Assumptions C04_mem_mutual_exclusion.

(* atomicity of the lock-delimited step: reading the shard, computing on the snapshot and writing it back
   inside the critical section (msem false) produces, under EVERY schedule, exactly the run - final shards,
   lock table, thread states with their results, event trace - of the reference semantics in which the
   whole step happens at the instant of the commit (msem true) *)
Theorem C04_mem_fine_refines_atomic : forall (S R : Type) (ss : list S) (progs : list (list (mact S R))) sched,
  Forall (fun p => held_after None p = Some None) progs ->
  let m0 := (msh_init ss, map mthread_of progs) in
  run (msem false) sched m0 = run (msem true) sched m0 /\ trace (msem false) sched m0 = trace (msem true) sched m0.
Proof. exact @fine_refines_atomic. Qed.
Print Assumptions C04_mem_fine_refines_atomic.

(* linearizability of the steps: the shards reached are those of applying the committed steps ONE AT A TIME
   in commit order, and every thread's results are the results of its own steps in that sequential
   execution.  A commit lies between its thread's acquire and release, so the order is consistent with the
   real-time order of the steps. *)
Theorem C04_mem_steps_linearizable : forall (S R : Type) (ss : list S) (progs : list (list (mact S R))) sched,
  Forall (fun p => held_after None p = Some None) progs ->
  let m0 := (msh_init ss, map mthread_of progs) in
  let final := run (msem false) sched m0 in
  let x := seq_apply (commits (trace (msem false) sched m0)) ss in
  shards final.1 = x.1 /\ forall i t, final.2 !! i = Some t -> results (loc t) = results_of i x.2.
Proof. exact @fine_linearizable. Qed.
Print Assumptions C04_mem_steps_linearizable.

(* the linearization point lies INSIDE the critical section: whenever a commit on shard j executes - after any
   prefix of any schedule - the committing thread holds shard j's lock at that instant (the write lock if it
   writes) and the lock table shows it.  A step released before another step was acquired is therefore
   committed before it: the commit order is consistent with the real-time order of the steps. *)
Theorem C04_mem_commit_inside_section : forall (S R : Type) atomic (ss : list S) (progs : list (list (mact S R))) s1 i',
  Forall (fun p => held_after None p = Some None) progs ->
  let m := run (msem atomic) s1 (msh_init ss, map mthread_of progs) in
  forall i j w f sh, (mstep (msem atomic) i' m).2 = Some (i, MCommit j w f, sh) ->
    exists t w' l, m.2 !! i = Some t /\ held (loc t) = Some (j, w', true) /\ (w = true -> w' = true) /\
              locks m.1 !! j = Some l /\ (if w' then lwriter l = true else (1 <= lreaders l)%nat).
Proof. exact @commit_inside_section. Qed.
Print Assumptions C04_mem_commit_inside_section.

(* the store's own programs (request threads = lists of store steps: an announce is count read, selection,
   update; expiry passes = per shard a read section that snapshots the infohashes, then one write step per
   infohash) are well-locked, so all of the above applies to them: *)
Theorem C04_mem_store_mutual_exclusion : forall n (st : mstore) (ps : list mprog) sched,
  let m := run (msem false) sched (msh_init st, map mthread_of (map (mprog_acts n) ps)) in
  forall i k t tk j w w', i <> k -> m.2 !! i = Some t -> m.2 !! k = Some tk ->
    holds j w t = true -> holds j w' tk = true -> w = false /\ w' = false.
Proof. exact mem_store_mutual_exclusion. Qed.
Print Assumptions C04_mem_store_mutual_exclusion.

Theorem C04_mem_store_linearizable : forall n (st : mstore) (ps : list mprog) sched,
  let m0 := (msh_init st, map mthread_of (map (mprog_acts n) ps)) in
  let final := run (msem false) sched m0 in
  let x := seq_apply (commits (trace (msem false) sched m0)) st in
  shards final.1 = x.1 /\ forall i t, final.2 !! i = Some t -> results (loc t) = results_of i x.2.
Proof. exact mem_store_linearizable. Qed.
Print Assumptions C04_mem_store_linearizable.

(* request threads: the one-at-a-time execution is literally the sequential model of Model/MemStore.v
   (the model the histories of C01 / C02 / C17 are checked against) *)
Theorem C04_mem_requests_linearizable : forall n (st : mstore) (oss : list (list cop)) sched,
  (0 < n)%nat -> length st = (2 * n)%nat ->
  let m0 := (msh_init st, map mthread_of (map (cops_prog n) oss)) in
  let final := run (msem false) sched m0 in
  exists los : list (nat * cop),
    shards final.1 = (cops_run n los st).1 /\
    forall i t, final.2 !! i = Some t -> results (loc t) = results_of i (cops_run n los st).2.
Proof. exact mem_requests_linearizable. Qed.
Print Assumptions C04_mem_requests_linearizable.

(* "consistent with program order": under EVERY schedule the steps a (non-planning) thread has committed are
   exactly the FIRST steps of its program, in program order - all of them once the thread has finished.
   Generic form, then for request threads of the store (steps as shard / mode / step-function triples). *)
Theorem C04_mem_commits_in_program_order : forall (S R : Type) atomic (ss : list S) (progs : list (list (mact S R))) sched i p,
  progs !! i = Some p -> Forall no_plan p ->
  let m0 := (msh_init ss, map mthread_of progs) in
  exists t, (run (msem atomic) sched m0).2 !! i = Some t /\
       thread_commits i (trace (msem atomic) sched m0) ++ prog_commits (todo t) = prog_commits p /\
       (todo t = [] -> thread_commits i (trace (msem atomic) sched m0) = prog_commits p).
Proof. exact @commits_in_program_order. Qed.
Print Assumptions C04_mem_commits_in_program_order.

Theorem C04_mem_requests_program_order : forall n (st : mstore) (oss : list (list cop)) sched i os,
  oss !! i = Some os ->
  let m0 := (msh_init st, map mthread_of (map (cops_prog n) oss)) in
  exists t k, (run (msem false) sched m0).2 !! i = Some t /\
    thread_commits i (trace (msem false) sched m0) =
      map (fun o => (op_shard (cop_mop n o), op_write (cop_mop n o), op_fun (cop_mop n o))) (firstn k os) /\
    (todo t = [] -> k = length os).
Proof. exact mem_requests_program_order. Qed.
Print Assumptions C04_mem_requests_program_order.

(* the machine runs (non-vacuity): an announce, an expiry pass and a delete interleaved on one swarm; the
   pass's step blocks on the lock, then finds the swarm changed since its snapshot *)
Theorem C04_mem_conc_example :
  let m0 := (msh_init ml_st0, map mthread_of (map (mprog_acts 1) ml_progs)) in
  let final := run (msem false) ml_sched m0 in
  finishedb final = true /\
  map (fun t => results (loc t)) final.2 = [[RCounts 1 0; RMembers None; RUnit]; [RUnit]; [RBool true]] /\
  map (fun sh => (map (fun kv : list Z * swarm => (kv.1, map_to_list (seeders kv.2), map_to_list (leechers kv.2))) (map_to_list (swarms sh)),
              numS sh, numL sh)) (shards final.1) =
    [([(ml_ih, [], [([2], 100)])], 0, 1); ([], 0, 0)] /\
  locks final.1 = [lock_free; lock_free].
Proof. exact mem_conc_example. Qed.
Print Assumptions C04_mem_conc_example.

(* ---- Redis store, round-trip granularity.  EVERY schedule of announce-type threads (possibly in the
   middle of their scripts): the hashes are those of the sequential run of the operations in the order
   of their membership round-trips, and every counter differs from the sequential one exactly by the
   counter round-trips still pending *)
Theorem C04_redis_hashes_equiv_sequential : forall (ts : list rthread) sh sched,
  Forall rthread_announce ts ->
  let final := rrun sched (sh, ts) in
  let seq := red_apply_all (rstarted sched (sh, ts)) (rst sh) in
  hs (rst final.1) = hs seq /\
  forall c, r_get c (rst final.1) + rpending c final.2 = r_get c seq + rpending c ts.
Proof. exact redis_hashes_equiv_sequential. Qed.
Print Assumptions C04_redis_hashes_equiv_sequential.

(* once all announce operations have finished: membership AND counters are those of a sequential ordering *)
Theorem C04_redis_quiescent_equiv_sequential : forall (oss : list (list rop)) sh sched,
  let m0 := (sh, map rop_thread oss) in
  complete rsem sched m0 ->
  let final := rrun sched m0 in
  let seq := red_apply_all (rstarted sched m0) (rst sh) in
  hs (rst final.1) = hs seq /\ forall c, r_get c (rst final.1) = r_get c seq.
Proof. exact redis_quiescent_equiv_sequential. Qed.
Print Assumptions C04_redis_quiescent_equiv_sequential.

(* that ordering is a genuine sequential ordering of the issued operations: a permutation of all of
   them which keeps every thread's program order *)
Theorem C04_redis_first_roundtrip_order : forall (oss : list (list rop)) sh sched,
  let m0 := (sh, map rop_thread oss) in
  complete rsem sched m0 ->
  rstarted sched m0 ≡ₚ concat oss /\ forall j os, oss !! j = Some os -> rstarted_by j sched m0 = os.
Proof. exact redis_first_roundtrip_order. Qed.
Print Assumptions C04_redis_first_roundtrip_order.

(* the machine runs (non-vacuity): a complete 12-choice schedule of two threads on one swarm *)
Theorem C04_redis_quiescent_example :
  let m0 := (rshared_of redis_init, map rop_thread conc_ex_oss) in
  let final := rrun conc_ex_sched m0 in
  finishedb final = true /\
  rstarted conc_ex_sched m0 =
    [RPutSeeder conc_ex_ih false conc_ex_pk 100; RPutLeecher conc_ex_ih false conc_ex_pk2 101;
     RGraduate conc_ex_ih false conc_ex_pk2 102; RDelSeeder conc_ex_ih false conc_ex_pk2] /\
  map_to_list (r_hash (k_swarm false true conc_ex_ih) (rst final.1)) = [(conc_ex_pk, 100)] /\
  r_hash (k_swarm false false conc_ex_ih) (rst final.1) = ∅ /\
  red_prom (rst final.1) = (1, 1, 0) /\
  map (fun t => outs (loc t)) final.2 = [[[1; 1]; [1]]; [[1; 1]; [1; 1; 0]]].
Proof. exact redis_quiescent_example. Qed.
Print Assumptions C04_redis_quiescent_example.

(* with an expiry pass among the threads the statement is FALSE of the faithful model (finding F10):
   a kernel-checked schedule on which the pass removes a member re-announced after the cutoff,
   although both sequential orderings keep it *)
Theorem C04_redis_gc_removes_fresh_refuted :
  exists (h0 : list sop) (ih : list Z) (v6 : bool) (pk : list Z) (T t : Z) (sched : list nat),
    Forall sop_wf h0 /\ ih_wf ih /\ T < t /\
    let st0 := run_redis h0 in
    let final := rrun sched (rshared_of st0, [rgc_thread T; rop_thread [RPutSeeder ih v6 pk t]]) in
    (exists t0, r_hash (k_swarm v6 true ih) st0 !! pk = Some t0 /\ t0 <= T) /\
    finishedb final = true /\
    r_hash (k_swarm v6 true ih) (rst final.1) !! pk = None /\
    r_hash (k_swarm v6 true ih) (red_gc T (red_put_seeder ih v6 pk t st0)) !! pk = Some t /\
    r_hash (k_swarm v6 true ih) (red_put_seeder ih v6 pk t (red_gc T st0)) !! pk = Some t.
Proof. exact redis_gc_removes_fresh_refuted. Qed.
Print Assumptions C04_redis_gc_removes_fresh_refuted.

(* ---- the clause "as if processed one at a time" as it is DECIDED on every schedule-forced run of the real stores.
   Lin: an interleaving of the threads' observed steps exists - program order kept inside every thread, an expiry step
   for a swarm created after the pass began performed or skipped - along which every step's observation is the one the
   sequential specification yields and which ends in the observed final state (and, after the late expiry pass, in the
   second one).  The search in Glue/G04.v answers true exactly then; the driver's hint only steers its order. *)
Theorem C04_checker_decides_linearizability :
  forall c : G04.ccase,
    G04.linearizable c = true <->
    Lin (G04.c_clock c) (G04.case_keys c) (G04.c_final c) (G04.c_post c) (G04.c_final2 c)
        (run_spec (G04.c_setup c)) (map (fun t => (t, None)) (G04.c_threads c)).
Proof. exact linearizable_iff. Qed.
Print Assumptions C04_checker_decides_linearizability.

Theorem C04_search_hint_irrelevant :
  forall clock keys entries post entries2 fuel hint hint' st ths,
    G04.search fuel clock keys entries post entries2 hint st ths = G04.search fuel clock keys entries post entries2 hint' st ths.
Proof. exact search_hint_irrelevant. Qed.
Print Assumptions C04_search_hint_irrelevant.

(* ---- the membership updates of two announces of different peers (or on different swarms) commute: whatever order their
   post-response processing runs in (each frontend starts it in a goroutine of its own), every swarm ends up the same *)
Theorem C04_announce_updates_commute :
  forall (a1 a2 : ann) clock (sp : spec) ih v6,
    (a_ih a1, a_v6 a1, a_key a1) <> (a_ih a2, a_v6 a2, a_key a2) ->
    swarm_of (swarm_interaction spec_if a1 clock (swarm_interaction spec_if a2 clock sp)) ih v6 =
    swarm_of (swarm_interaction spec_if a2 clock (swarm_interaction spec_if a1 clock sp)) ih v6.
Proof. exact announce_updates_commute. Qed.
Print Assumptions C04_announce_updates_commute.
