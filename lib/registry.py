"""Per-property registry used by ./check: which glue module evaluates the cases,
how many cases each tier generates, reason/tag legends, evidence texts."""

TRUSTED_BASE = [
    "Coq 8.16.1 kernel incl. the vm_compute virtual machine (no native_compute)",
    "no axioms: every theorem in Properties/*.v is 'Closed under the global context' (re-checked by Print Assumptions on every run)",
    "Glue/*.v (case unpacking from primitive Uint63 literals, checkers' comparison code) - unproved, small",
    "the Go driver /verif/harness/driver (generators, executors, canonicalisation, oracle answers from the Go standard library)",
    "go build -overlay (harness compiled into /repo's module without touching it); overlay shims under /verif/harness/overlay",
    "the hand-written Gallina model is tied to /repo only by the correspondence check that runs on every invocation",
]

PROPS = {}


import importlib.util, os, glob
CLAIMS = {}
for _f in sorted(glob.glob(os.path.join(os.path.dirname(os.path.abspath(__file__)), "props", "C*.py"))):
    _n = os.path.basename(_f)[:-3]
    _s = importlib.util.spec_from_file_location("prop_" + _n, _f)
    _m = importlib.util.module_from_spec(_s); _s.loader.exec_module(_m)
    PROPS[_n] = _m.PROP
    if hasattr(_m, "CLAIM"):
        CLAIMS[_n] = _m.CLAIM


def extra_overlay(repo, wd, prop=None):
    """Overlay entries computed from the CURRENT source at build time.  For properties that set
    "mutex_rewrite": a copy of storage/memory/peer_store.go in which the type token sync.RWMutex
    (or sync.Mutex) is replaced by verifRWMutex (defined by the shim zz_verif_sched.go), so that the
    driver's cooperative scheduler controls the interleaving of the lock-delimited steps."""
    import os, re
    rep = {}
    pdef = PROPS.get(prop or "", {})
    if pdef.get("mutex_rewrite"):
        src = os.path.join(repo, "storage", "memory", "peer_store.go")
        text = open(src).read()
        text2 = re.sub(r"\bsync\.(RW)?Mutex\b", "verifRWMutex", text)
        out = os.path.join(wd, "peer_store_sched.go")
        open(out, "w").write(text2)
        rep[src] = out
    if pdef.get("listen_rewrite"):
        # frontend/http/frontend.go with the call token net.Listen( replaced by verifListen( (shim zz_verif_listen.go):
        # the driver can then make a listener's Close report an error (fault injection for Stop)
        src = os.path.join(repo, "frontend", "http", "frontend.go")
        text = open(src).read()
        text2 = re.sub(r"\bnet\.Listen\(", "verifListen(", text)
        out = os.path.join(wd, "http_frontend_listen.go")
        open(out, "w").write(text2)
        rep[src] = out
    return rep
