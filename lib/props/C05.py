"""C05 - swarm membership and counts follow the announce history."""
from hist_common import HIST_REASONS, HIST_TAGS, HIST_ASSUMPTIONS, HIST_RULE

from conc_common import conc_part
PROP = {
    "parts": [conc_part("chk05c", 100, 4000)],
    "mutex_rewrite": True,
    "glue": "GH", "chk": "chk05", "explain": "explainH",
    "gotags": ["shim_memory", "shim_redis", "shim_timecache"],
    "n": {"quick": 120, "thorough": 1500},
    "rule": HIST_RULE + " Emphasis C05: expiry heavy: cutoffs on both sides of (never equal to) recorded clock values, dumps and AnnouncePeers right after a pass.",
    "tags": HIST_TAGS, "reasons": HIST_REASONS, "assumptions": HIST_ASSUMPTIONS,
    "trivial_tags": [], "min_tags": 4,
    "explanation": "periodic_passes_exact (the stores' own loop: any number of passes with cutoff now - lifetime leave exactly what was announced after the latest pass time minus the lifetime; exercised by LIVE histories in which the stores' own goroutines do the expiry and the reporting). Coq theorems: expiry with cutoff T keeps exactly the memberships announced after T (expiry_exact), emptied swarms disappear, a re-announce stores the current clock, the memory store's pass equals its per-swarm steps in any order and refines the specification's expiry inside any history; Redis sequential expiry refines it too (Proofs/RedisP.v). Tied to collectGarbage of both stores through overlay shims on generated histories with membership dumps (incl. times) after passes.",
}

CLAIM = {
    "text": "Coq theorems: expiry with cutoff T keeps exactly the memberships announced after T (expiry_exact), emptied swarms disappear, a re-announce stores the current clock, the memory store's pass equals its per-swarm steps in any order and refines the specification's expiry inside any history; Redis sequential expiry refines it too (Proofs/RedisP.v). Tied to collectGarbage of both stores through overlay shims on generated histories with membership dumps (incl. times) after passes.",
    "design_ref": "DESIGN.md section 8, C05",
    "note": "PARTIAL: the interleaving of a pass with concurrent announces is exercised by C04's schedule exploration, not proved here; for Redis a re-announce between a pass's HGETALL and HDEL can be lost (DESIGN 9.A F10, known finding). Trusted: as C01; entries exactly at the cutoff are not generated.",
    "technique": "Coq refinement/invariant proofs over executable Gallina store models + differential history correspondence (vm_compute)",
}
