(* C17, memory store: the totals exported for monitoring (populateProm: swarms, seeders, leechers summed over all shards)
   equal the stored reality after ANY history.  Three ingredients: (1) generic facts about sums over maps - two maps in
   bijection have the same sums; a map cut into classes by an index function; (2) the HOME invariant - every swarm lives in
   the shard its infohash and family select, and nowhere else (mem_inv only looks at the home shard of a key); (3) hence shard
   j holds exactly the swarms of the specification that select j, and the sums over the shards are the sums over the
   specification. *)
From Chihaya Require Import Model.History Proofs.SwarmP Proofs.MemP.
From Coq Require Import ZifyBool ZifyNat Lia.
Open Scope Z_scope.

Section Sums.
  Context {K : Type} `{Countable K} (f : swarm → Z).
  Definition msum (m : gmap K swarm) : Z := map_fold (λ _ sw acc, acc + f sw) 0 m.
  Lemma msum_empty : msum ∅ = 0.
  Proof. unfold msum. by rewrite map_fold_empty. Qed.
  Lemma msum_insert k x m : m !! k = None → msum (<[k:=x]> m) = msum m + f x.
  Proof.
    intros Hk. unfold msum. rewrite map_fold_insert_L; [done| |done].
    intros j1 j2 z1 z2 y _ _ _. lia.
  Qed.
End Sums.

Lemma size_as_msum {K} `{Countable K} (m : gmap K swarm) : Z.of_nat (size m) = msum (λ _, 1) m.
Proof.
  induction m as [|k x m Hk IH] using map_ind.
  - by rewrite map_size_empty, msum_empty.
  - rewrite map_size_insert_None by done. rewrite msum_insert by done. lia.
Qed.

(* two maps in bijection (through an injective renaming of keys) have the same sums *)
Lemma msum_bij {K1 K2} `{Countable K1} `{Countable K2} (f : swarm → Z) (g : K1 → K2) :
  (∀ a b, g a = g b → a = b) →
  ∀ (m1 : gmap K1 swarm) (m2 : gmap K2 swarm),
    (∀ k, m2 !! g k = m1 !! k) → (∀ k2 x, m2 !! k2 = Some x → ∃ k1, k2 = g k1) →
    msum f m1 = msum f m2.
Proof.
  intros Hinj m1. induction m1 as [|k x m Hk IH] using map_ind; intros m2 Hl Hs.
  - assert (m2 = ∅) as ->.
    { apply map_empty. intros k2. destruct (m2 !! k2) as [y|] eqn:E; [|done].
      destruct (Hs k2 y E) as [k1 ->]. rewrite Hl, lookup_empty in E. done. }
    by rewrite !msum_empty.
  - assert (E : m2 !! g k = Some x) by (rewrite Hl; apply lookup_insert).
    rewrite <- (insert_delete m2 (g k) x E).
    rewrite !msum_insert; [|apply lookup_delete|done].
    f_equal. apply IH.
    + intros k'. destruct (decide (k' = k)) as [->|Hne].
      * by rewrite lookup_delete, Hk.
      * rewrite lookup_delete_ne by (intros E'; apply Hne; symmetry; by apply Hinj).
        rewrite Hl. by rewrite lookup_insert_ne.
    + intros k2 y E2. destruct (decide (k2 = g k)) as [->|Hne]; [by rewrite lookup_delete in E2|].
      rewrite lookup_delete_ne in E2 by done. by apply (Hs k2 y).
Qed.

(* a map cut into classes by an index function: the sums of the classes add up *)
Definition sumZ (l : list Z) : Z := foldr Z.add 0 l.
Lemma sumZ_indicator (a : nat → Z) c i N : (i < N)%nat →
  sumZ (map (λ j, a j + (if decide (i = j) then c else 0)) (seq 0 N)) = sumZ (map a (seq 0 N)) + c.
Proof.
  intros Hi. assert (G : ∀ s len, sumZ (map (λ j, a j + (if decide (i = j) then c else 0)) (seq s len)) =
                                  sumZ (map a (seq s len)) + (if decide (s ≤ i < s + len)%nat then c else 0)).
  { intros s len. revert s. induction len as [|len IH]; intros s.
    - cbn. rewrite decide_False by lia. lia.
    - cbn [seq map]. change (sumZ (?x :: ?l)) with (x + sumZ l). rewrite IH.
      destruct (decide (i = s)) as [->|Hne].
      + rewrite (decide_False (P := (S s ≤ s < S s + len)%nat)) by lia. rewrite decide_True by lia. lia.
      + destruct (decide (S s ≤ i < S s + len)%nat) as [Hin|Hout].
        * rewrite decide_True by lia. lia.
        * rewrite decide_False by lia. lia. }
  rewrite G. rewrite decide_True by lia. done.
Qed.

Lemma msum_partition {K} `{Countable K} (f : swarm → Z) (idx : K → nat) N (m : gmap K swarm) :
  (∀ k x, m !! k = Some x → (idx k < N)%nat) →
  msum f m = sumZ (map (λ j, msum f (filter (λ kv, idx kv.1 = j) m)) (seq 0 N)).
Proof.
  induction m as [|k x m Hk IH] using map_ind; intros Hb.
  - rewrite msum_empty. assert (G : ∀ l, sumZ (map (λ j, msum f (filter (λ kv : K * swarm, idx kv.1 = j) ∅)) l) = 0).
    { induction l as [|j l IHl]; [done|]. cbn [map]. change (sumZ (?x :: ?l)) with (x + sumZ l).
      rewrite IHl, map_filter_empty, msum_empty. done. }
    by rewrite G.
  - rewrite msum_insert by done.
    assert (Hi : (idx k < N)%nat) by (apply (Hb k x); apply lookup_insert).
    rewrite IH by (intros k' y E; apply (Hb k' y); rewrite lookup_insert_ne; [done|intros ->; congruence]).
    rewrite <- (sumZ_indicator _ (f x) (idx k) N Hi). f_equal. apply map_ext. intros j.
    case_decide as E.
    + rewrite map_filter_insert_True by done. rewrite msum_insert; [done|].
      apply map_filter_lookup_None. by left.
    + rewrite map_filter_insert_not by (intros y; cbn; done). lia.
Qed.


(* every swarm lives in the shard its infohash and family select, and nowhere else *)
Definition mem_home (n : nat) (st : mstore) : Prop :=
  ∀ j sh ih, st !! j = Some sh → is_Some (swarms sh !! ih) → shard_index n ih (bool_decide (n ≤ j)%nat) = j.

Lemma shard_index_self n ih v6 : (0 < n)%nat → bool_decide (n ≤ shard_index n ih v6)%nat = v6.
Proof.
  intros Hn. pose proof (shard_index_halves n ih Hn) as [H1 H2].
  destruct v6; [apply bool_decide_eq_true; lia|apply bool_decide_eq_false; lia].
Qed.

Lemma home_init n : mem_home n (mem_init n).
Proof.
  intros j sh ih Hj [sw Hs]. unfold mem_init in Hj. apply lookup_replicate in Hj as [-> _].
  cbn in Hs. by rewrite lookup_empty in Hs.
Qed.

Lemma home_alter n st ih v6 (f : shard → shard) : (0 < n)%nat → mem_home n st →
  (∀ sh, st !! shard_index n ih v6 = Some sh → ∀ k, is_Some (swarms (f sh) !! k) → k = ih ∨ is_Some (swarms sh !! k)) →
  mem_home n (alter f (shard_index n ih v6) st).
Proof.
  intros Hn Hh Hf j sh' k Hj Hk.
  destruct (decide (j = shard_index n ih v6)) as [->|Hne].
  - rewrite list_lookup_alter in Hj. destruct (st !! shard_index n ih v6) as [sh|] eqn:E; [|done].
    cbn in Hj. injection Hj as <-. destruct (Hf sh eq_refl k Hk) as [->|Hold].
    + by rewrite shard_index_self.
    + by apply (Hh _ sh).
  - rewrite list_lookup_alter_ne in Hj by done. by apply (Hh _ sh').
Qed.

Lemma the_shard_at n ih v6 st sh : st !! shard_index n ih v6 = Some sh → the_shard n ih v6 st = sh.
Proof. intros E. unfold the_shard. by rewrite E. Qed.

Section Ops.
  Variable n : nat.
  Hypothesis Hn : (0 < n)%nat.

  Lemma home_put_seeder st ih v6 pk t : mem_home n st → mem_home n (mem_put_seeder n ih v6 pk t st).
  Proof.
    intros Hh. unfold mem_put_seeder, at_shard. apply home_alter; [done..|].
    intros sh _ k. destruct (sm_put_seeder ih pk t (swarms sh)) as [m d] eqn:E. cbn.
    replace m with (sm_put_seeder ih pk t (swarms sh)).1 by (by rewrite E).
    rewrite sm_put_seeder_lookup. case_decide; [by left|by right].
  Qed.
  Lemma home_put_leecher st ih v6 pk t : mem_home n st → mem_home n (mem_put_leecher n ih v6 pk t st).
  Proof.
    intros Hh. unfold mem_put_leecher, at_shard. apply home_alter; [done..|].
    intros sh _ k. destruct (sm_put_leecher ih pk t (swarms sh)) as [m d] eqn:E. cbn.
    replace m with (sm_put_leecher ih pk t (swarms sh)).1 by (by rewrite E).
    rewrite sm_put_leecher_lookup. case_decide; [by left|by right].
  Qed.
  Lemma home_graduate st ih v6 pk t : mem_home n st → mem_home n (mem_graduate n ih v6 pk t st).
  Proof.
    intros Hh. unfold mem_graduate, at_shard. apply home_alter; [done..|].
    intros sh _ k. destruct (sm_graduate ih pk t (swarms sh)) as [[m d] d'] eqn:E. cbn.
    replace m with (sm_graduate ih pk t (swarms sh)).1.1 by (by rewrite E).
    rewrite sm_graduate_lookup. case_decide; [by left|by right].
  Qed.
  Lemma home_del_seeder st ih v6 pk : mem_home n st → mem_home n (mem_del_seeder n ih v6 pk st).1.
  Proof.
    intros Hh. unfold mem_del_seeder.
    destruct (sm_del_seeder ih pk (swarms (the_shard n ih v6 st))) as [m|] eqn:E; [|done]. cbn [fst].
    unfold at_shard. apply home_alter; [done..|]. intros sh Hsh k. cbn.
    rewrite (the_shard_at _ _ _ _ _ Hsh) in E.
    pose proof (sm_del_seeder_lookup ih k pk (swarms sh)) as L. rewrite E in L. cbn in L. rewrite L.
    case_decide; [by left|by right].
  Qed.
  Lemma home_del_leecher st ih v6 pk : mem_home n st → mem_home n (mem_del_leecher n ih v6 pk st).1.
  Proof.
    intros Hh. unfold mem_del_leecher.
    destruct (sm_del_leecher ih pk (swarms (the_shard n ih v6 st))) as [m|] eqn:E; [|done]. cbn [fst].
    unfold at_shard. apply home_alter; [done..|]. intros sh Hsh k. cbn.
    rewrite (the_shard_at _ _ _ _ _ Hsh) in E.
    pose proof (sm_del_leecher_lookup ih k pk (swarms sh)) as L. rewrite E in L. cbn in L. rewrite L.
    case_decide; [by left|by right].
  Qed.
  Lemma home_gc st T : mem_home n st → mem_home n (mem_gc T st).
  Proof.
    intros Hh j sh' k Hj Hk. unfold mem_gc in Hj. rewrite list_lookup_fmap in Hj.
    destruct (st !! j) as [sh|] eqn:E; [|done]. cbn in Hj. injection Hj as <-.
    rewrite shard_gc_swarms, sm_gc_lookup in Hk. apply (Hh j sh k E).
    destruct (swarms sh !! k); [done|]. by destruct Hk.
  Qed.
End Ops.


Lemma home_swarm_interaction n st a clock : (0 < n)%nat → mem_home n st →
  mem_home n (swarm_interaction (mem_if n) a clock st).
Proof.
  intros Hn Hh. unfold swarm_interaction. destruct (a_event a).
  - destruct (a_left a =? 0); cbn [st_put_seeder st_put_leecher mem_if]; [by apply home_put_seeder|by apply home_put_leecher].
  - destruct (a_left a =? 0); cbn [st_put_seeder st_put_leecher mem_if]; [by apply home_put_seeder|by apply home_put_leecher].
  - cbn [st_del_seeder st_del_leecher mem_if]. apply home_del_leecher; [done|]. by apply home_del_seeder.
  - cbn [st_graduate mem_if]. by apply home_graduate.
Qed.

Lemma home_sapply n x o : (0 < n)%nat → mem_home n x.1 → mem_home n (sapply (mem_if n) x o).1.
Proof.
  intros Hn Hh. destruct x as [st c]. cbn [fst] in Hh.
  destruct o; cbn [sapply fst snd mem_if st_put_seeder st_put_leecher st_del_seeder st_del_leecher st_graduate st_gc].
  - done.
  - by apply home_swarm_interaction.
  - by apply home_put_seeder.
  - by apply home_del_seeder.
  - by apply home_put_leecher.
  - by apply home_del_leecher.
  - by apply home_graduate.
  - by apply home_gc.
Qed.

Lemma home_run n ops : (0 < n)%nat → mem_home n (run_mem n ops).
Proof.
  intros Hn. unfold run_mem, srun.
  assert (G : ∀ ops x, mem_home n x.1 → mem_home n (fold_left (sapply (mem_if n)) ops x).1).
  { clear ops. induction ops as [|o ops IH]; intros x Hx; [done|]. cbn [fold_left]. apply IH. by apply home_sapply. }
  apply G. apply home_init.
Qed.

(* shard j holds exactly the swarms of the specification whose (infohash, family) select shard j *)
Lemma class_sum (f : swarm → Z) n st sp j sh : (0 < n)%nat → mem_inv n st sp → mem_home n st → st !! j = Some sh →
  msum f (swarms sh) = msum f (filter (λ kv : (list Z * bool) * swarm, shard_index n kv.1.1 kv.1.2 = j) sp).
Proof.
  intros Hn Hi Hh Hj. set (b := bool_decide (n ≤ j)%nat).
  apply (msum_bij f (λ ih : list Z, (ih, b))).
  - intros x y [= ->]. done.
  - intros ih. destruct (swarms sh !! ih) as [sw|] eqn:E.
    + assert (Hidx : shard_index n ih b = j) by (apply (Hh j sh ih Hj); by rewrite E).
      apply map_filter_lookup_Some. split; [|done].
      rewrite <- (inv_view _ _ _ Hi ih b). unfold mem_members, the_shard. by rewrite Hidx, Hj.
    + apply map_filter_lookup_None. destruct (sp !! (ih, b)) as [sw|] eqn:Es; [|by left]. right.
      intros sw' [= <-] Hidx. cbn in Hidx.
      pose proof (inv_view _ _ _ Hi ih b) as Hv. unfold mem_members, the_shard in Hv. rewrite Hidx, Hj in Hv. cbn in Hv. congruence.
  - intros [ih v6] x Hx. apply map_filter_lookup_Some in Hx as [_ Hidx]. cbn in Hidx. exists ih. f_equal.
    subst b. rewrite <- Hidx. symmetry. by apply shard_index_self.
Qed.

Lemma map_seq_shards {A} (a : nat → A) (b : shard → A) (st : mstore) s :
  (∀ j sh, st !! j = Some sh → a (s + j)%nat = b sh) → map a (seq s (length st)) = map b st.
Proof.
  revert s. induction st as [|sh st IH]; intros s Hab; [done|]. cbn [length seq map]. f_equal.
  - rewrite <- (Hab 0%nat sh eq_refl). f_equal. lia.
  - apply IH. intros j sh' Hj. rewrite <- (Hab (S j) sh' Hj). f_equal. lia.
Qed.

(* the sums over all shards are the sums over the specification *)
Theorem shards_sum (f : swarm → Z) n st sp : (0 < n)%nat → mem_inv n st sp → mem_home n st →
  sumZ (map (λ sh, msum f (swarms sh)) st) = msum f sp.
Proof.
  intros Hn Hi Hh.
  rewrite (msum_partition f (λ k : list Z * bool, shard_index n k.1 k.2) (2 * n) sp)
    by (intros [ih v6] x _; by apply shard_index_lt).
  rewrite <- (inv_len n st sp Hi). f_equal. symmetry. apply map_seq_shards.
  intros j sh Hj. cbn. symmetry. exact (class_sum f n st sp j sh Hn Hi Hh Hj).
Qed.

(* populateProm: running sums in uint64 *)
Lemma mem_prom_fold st : ∀ a b c,
  foldl (λ '(a, b, c) sh, (wrap64 (a + Z.of_nat (size (swarms sh))), wrap64 (b + numS sh), wrap64 (c + numL sh)))
        (wrap64 a, wrap64 b, wrap64 c) st =
  (wrap64 (a + sumZ (map (λ sh, Z.of_nat (size (swarms sh))) st)),
   wrap64 (b + sumZ (map numS st)), wrap64 (c + sumZ (map numL st))).
Proof.
  induction st as [|sh st IH]; intros a b c; cbn [foldl map].
  - unfold sumZ; cbn. by rewrite !Z.add_0_r.
  - rewrite !wrap_add_l. rewrite IH. repeat (change (sumZ (?x :: ?l)) with (x + sumZ l)).
    by rewrite !Z.add_assoc.
Qed.

Lemma wrap_sum_wrap (g : shard → Z) st : wrap64 (sumZ (map (λ sh, wrap64 (g sh)) st)) = wrap64 (sumZ (map g st)).
Proof.
  induction st as [|sh st IH]; [done|]. cbn [map].
  repeat (change (sumZ (?x :: ?l)) with (x + sumZ l)).
  rewrite wrap_add_l. unfold wrap in *.
  rewrite (Zplus_mod (g sh) (sumZ (map (λ sh0, g sh0 mod 2 ^ 64) st))), IH, <- Zplus_mod. done.
Qed.

(* C17, memory store, the exported totals: after ANY history they are (number of tracked swarms, seeder memberships
   stored, leecher memberships stored) of the specification, as uint64 *)
Theorem mem_prom_exact n ops : (0 < n)%nat →
  mem_prom (run_mem n ops) =
  (wrap64 (Z.of_nat (size (run_spec ops))), wrap64 (sm_total_seeders (run_spec ops)), wrap64 (sm_total_leechers (run_spec ops))).
Proof.
  intros Hn. pose proof (run_mem_inv n ops Hn) as Hi. pose proof (home_run n ops Hn) as Hh.
  set (st := run_mem n ops) in *. set (sp := run_spec ops) in *.
  unfold mem_prom. change (0, 0, 0) with (wrap64 0, wrap64 0, wrap64 0). rewrite mem_prom_fold. rewrite !Z.add_0_l.
  f_equal; [f_equal|].
  - f_equal. rewrite size_as_msum. rewrite <- (shards_sum (λ _, 1) n st sp Hn Hi Hh). f_equal. apply map_ext. intros sh.
    apply size_as_msum.
  - assert (E : map numS st = map (λ sh, wrap64 (sm_total_seeders (swarms sh))) st).
    { apply map_ext_in. intros sh Hin. apply (inv_counts _ _ _ Hi sh). by apply elem_of_list_In. }
    rewrite E, wrap_sum_wrap. f_equal. apply (shards_sum (λ sw, Z.of_nat (size (seeders sw))) n st sp Hn Hi Hh).
  - assert (E : map numL st = map (λ sh, wrap64 (sm_total_leechers (swarms sh))) st).
    { apply map_ext_in. intros sh Hin. apply (inv_counts _ _ _ Hi sh). by apply elem_of_list_In. }
    rewrite E, wrap_sum_wrap. f_equal. apply (shards_sum (λ sw, Z.of_nat (size (leechers sw))) n st sp Hn Hi Hh).
Qed.
