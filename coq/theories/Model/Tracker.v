(* End-to-end model: one request through a frontend (UDP datagram or HTTP
   request line), the tracker logic with its two built-in hooks, the store,
   and the response writer.  Composes the models of frontend/udp, frontend/http,
   middleware/hooks.go and the stores.  The store is any store_if (memory, Redis
   or the specification).  None = the request handler panics.
   AfterAnnounce runs in its own goroutine in the code; the model applies it
   at once (the state reached once the request has been fully processed).
   Definitions only. *)
From Chihaya Require Export Model.History.
From Chihaya Require Model.UdpParse Model.UdpWrite Model.HttpParse Model.HttpWrite.
Open Scope Z_scope.

Definition ann_of_areq (r : areq) : ann :=
  {| a_ih := r_ih r; a_v6 := match r_af r with V6 => true | V4 => false end; a_peer := r_peer r;
     a_left := r_left r; a_event := r_event r; a_numwant := r_numwant r |}.

(* decodePeerKey of every selected key; None = one of them panics *)
Fixpoint decode_all (ks : list (list Z)) : option (list peer) :=
  match ks with
  | [] => Some []
  | k :: r => match decode_key k, decode_all r with
              | Some (p, _), Some ps => Some (p :: ps)
              | _, _ => None
              end
  end.

Section Respond.
  Context {S : Type} (I : store_if S).

  (* responseHook.HandleAnnounce with the reference selection (the code's, for the
     iteration order map_to_list happens to give): (complete, incomplete, peers) *)
  Definition respond (a : ann) (st : S) : option (Z * Z * list peer) :=
    let '(c, i) := st_scrape I (a_ih a) (a_v6 a) st in
    let '(Sk, Lk) := key_lists I st (a_ih a) (a_v6 a) in
    let seeding := a_left a =? 0 in
    match decode_all (select_ref Sk Lk (a_key a) seeding (a_numwant a)) with
    | None => None
    | Some [] => Some (wrap32 (c + (if seeding then 1 else 0)), wrap32 (i + (if seeding then 0 else 1)), [a_peer a])
    | Some ps => Some (c, i, ps)
    end.

  Record tcfg := { t_interval : Z; t_min_interval : Z }.

  (* ---- UDP *)
  Record ucfg := { uc_key : list Z; uc_skew : Z; uc_opts : UdpParse.popts }.

  Definition udp_announce_datagram (t : tcfg) (txid : list Z) (v6action : bool) (a : ann) (c i : Z) (ps : list peer) : list Z :=
    UdpWrite.write_announce txid
      {| UdpWrite.a_interval := t_interval t; UdpWrite.a_min_interval := t_min_interval t;
         UdpWrite.a_complete := c; UdpWrite.a_incomplete := i;
         UdpWrite.a_v4 := if a_v6 a then [] else ps; UdpWrite.a_v6 := if a_v6 a then ps else [] |}
      v6action (a_v6 a).
  Definition udp_scrape_datagram (txid : list Z) (v6 : bool) (ihs : list (list Z)) (st : S) : list Z :=
    UdpWrite.write_scrape txid
      (map (fun ih => let '(c, i) := st_scrape I ih v6 st in
                      {| UdpWrite.sc_complete := c; UdpWrite.sc_snatches := 0; UdpWrite.sc_incomplete := i |}) ihs).

  Definition udp_step (mac : list Z -> list Z -> list Z) (t : tcfg) (u : ucfg)
             (st : S) (clock : Z) (ip packet : list Z) : option (S * list (list Z)) :=
    match UdpParse.handle_udp mac (uc_key u) (uc_skew u) clock (uc_opts u) ip packet with
    | UdpParse.USilent => Some (st, [])
    | UdpParse.UReply d => Some (st, [d])
    | UdpParse.UPanic => None
    | UdpParse.UAnnounce txid v6action r q =>
      let a := ann_of_areq r in
      match respond a st with
      | None => None
      | Some (c, i, ps) => Some (swarm_interaction I a clock st, [udp_announce_datagram t txid v6action a c i ps])
      end
    | UdpParse.UScrape txid af ihs =>
      Some (st, [udp_scrape_datagram txid (match af with V6 => true | V4 => false end) ihs st])
    end.

  (* ---- HTTP: announce route and scrape route; the body is a bencoded value (the
     encoder's dictionary order is not fixed, so the model yields the value) *)
  Inductive http_out := HBody (v : Bencode.bval) | HPanic.

  Definition http_announce_value (t : tcfg) (compact : bool) (a : ann) (c i : Z) (ps : list peer) : option Bencode.bval :=
    HttpWrite.announce_value
      {| HttpWrite.a_compact := compact; HttpWrite.a_complete := c; HttpWrite.a_incomplete := i;
         HttpWrite.a_interval := t_interval t; HttpWrite.a_min_interval := t_min_interval t;
         HttpWrite.a_v4 := if a_v6 a then [] else ps; HttpWrite.a_v6 := if a_v6 a then ps else [] |}.

  Definition http_announce_step (parse_ip : list Z -> option (list Z)) (header_get split_host : list Z -> list Z)
             (t : tcfg) (o : HttpParse.popts) (st : S) (clock : Z) (uri remote : list Z) : S * http_out :=
    match HttpParse.parse_announce parse_ip header_get split_host o uri remote with
    | HttpParse.Panic => (st, HPanic)
    | HttpParse.Reject e => (st, HBody (HttpWrite.error_value e))
    | HttpParse.Accept (r, q) =>
      let a := ann_of_areq r in
      match respond a st with
      | None => (st, HPanic)
      | Some (c, i, ps) =>
        match http_announce_value t (r_compact r) a c i ps with
        | None => (st, HPanic)        (* compact4 / compact6 panic *)
        | Some v => (swarm_interaction I a clock st, HBody v)
        end
      end
    end.

  Definition http_scrape_step (parse_ip : list Z -> option (list Z)) (split_host : list Z -> list Z) (split_ok : bool)
             (o : HttpParse.popts) (st : S) (uri remote : list Z) : http_out :=
    match HttpParse.parse_scrape o uri with
    | HttpParse.Panic => HPanic
    | HttpParse.Reject e => HBody (HttpWrite.error_value e)
    | HttpParse.Accept (ihs, q) =>
      match HttpParse.scrape_route_af parse_ip split_host split_ok remote with
      | HttpParse.Panic => HPanic
      | HttpParse.Reject e => HBody (HttpWrite.error_value e)
      | HttpParse.Accept af =>
        let v6 := match af with V6 => true | V4 => false end in
        HBody (HttpWrite.scrape_value
                 (map (fun ih => let '(c, i) := st_scrape I ih v6 st in
                                 {| HttpWrite.f_ih := ih; HttpWrite.f_complete := c; HttpWrite.f_incomplete := i |}) ihs))
      end
    end.
End Respond.

(* ---- the store invariant request handling relies on: every stored key is the
   serialisation of a peer of the swarm's own family *)
Definition sane_peer (v6 : bool) (p : peer) : Prop :=
  length (p_id p) = 20%nat ∧ wf_bytes (p_id p) = true ∧ 0 <= p_port p < 65536 ∧ wf_bytes (p_ip p) = true ∧
  (if v6 then length (p_ip p) = 16%nat ∧ to4 (p_ip p) = None else length (p_ip p) = 4%nat).
Definition key_ok (v6 : bool) (pk : list Z) : Prop :=
  ∃ p, pk = peer_key p ∧ sane_peer v6 p.
Definition keys_ok (sp : spec) : Prop :=
  ∀ ih v6 sw pk, sp !! (ih, v6) = Some sw →
                 (is_Some (seeders sw !! pk) ∨ is_Some (leechers sw !! pk)) → key_ok v6 pk.
