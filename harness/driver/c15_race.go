//go:build verif && verif_c15 && race

package main

// the driver was built with -race: the refresh || validation stress can observe data races
const c15RaceEnabled = true
