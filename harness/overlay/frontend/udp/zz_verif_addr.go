//go:build verif && shim_udp

package udp

import "net"

// VerifLocalAddr returns the address the frontend's socket is bound to.
func VerifLocalAddr(f *Frontend) *net.UDPAddr { return f.socket.LocalAddr().(*net.UDPAddr) }
