//go:build verif && shim_main

package main

import (
	"bufio"
	"fmt"
	"os"
	"strings"
)

// Add-only shim (never part of a normal build).  When VERIF_C16_CONFIG is set,
// the chihaya binary does not parse its command line; it drives the real
// Run.Start / Run.Stop of main.go from commands read on stdin, exactly the way
// RootRunCmdFunc does for the reload and shutdown signals:
//
//	start    NewRun(config)
//	reload   ps, err := r.Stop(true); r.Start(ps)
//	stopall  r.Stop(false)
//	quit
//
// One answer line per command: "ok" or "err <text>".
func init() {
	cfg := os.Getenv("VERIF_C16_CONFIG")
	if cfg == "" {
		return
	}
	var r *Run
	in := bufio.NewScanner(os.Stdin)
	out := bufio.NewWriter(os.Stdout)
	say := func(err error) {
		if err != nil {
			fmt.Fprintf(out, "err %s\n", strings.ReplaceAll(err.Error(), "\n", " "))
		} else {
			fmt.Fprintln(out, "ok")
		}
		out.Flush()
	}
	for in.Scan() {
		switch strings.TrimSpace(in.Text()) {
		case "start":
			var err error
			r, err = NewRun(cfg)
			say(err)
		case "reload":
			ps, err := r.Stop(true)
			if err == nil {
				err = r.Start(ps)
			}
			say(err)
		case "stopall":
			_, err := r.Stop(false)
			say(err)
		case "quit":
			say(nil)
			os.Exit(0)
		default:
			say(fmt.Errorf("unknown command %q", in.Text()))
		}
	}
	os.Exit(0)
}
