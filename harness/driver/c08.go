//go:build verif && verif_c08

package main

import (
	"errors"
	"fmt"
	"io"
	"math"
	"math/rand"
	"net"
	"net/http/httptest"
	"sort"
	"strconv"
	"strings"
	"time"

	abencode "github.com/anacrolix/torrent/bencode"

	"github.com/chihaya/chihaya/bittorrent"
	chttp "github.com/chihaya/chihaya/frontend/http"
	"github.com/chihaya/chihaya/pkg/log"
)

func init() {
	props["C08"] = &propDef{glue: "G08", ctype: "case08", chk: "chk08", stream: c08Stream, replay: c08Replay, shard: 120}
}

// ---------------------------------------------------------------- second, independent decoder

// The second decoder reads the body the way a BitTorrent client does: with
// anacrolix/torrent/bencode into typed structures (the library's decoding into
// interface{} additionally insists on sorted dictionary keys, which chihaya does
// not provide - DESIGN 9.B-5; that is only counted in the evidence notes).
type c08APeer struct {
	ID   string `bencode:"peer id"`
	IP   string `bencode:"ip"`
	Port int64  `bencode:"port"`
}
type c08ACompact struct {
	Complete    int64  `bencode:"complete"`
	Incomplete  int64  `bencode:"incomplete"`
	Interval    int64  `bencode:"interval"`
	MinInterval int64  `bencode:"min interval"`
	Peers       string `bencode:"peers"`
	Peers6      string `bencode:"peers6"`
}
type c08ADict struct {
	Complete    int64      `bencode:"complete"`
	Incomplete  int64      `bencode:"incomplete"`
	Interval    int64      `bencode:"interval"`
	MinInterval int64      `bencode:"min interval"`
	Peers       []c08APeer `bencode:"peers"`
}
type c08AFile struct {
	Complete   int64 `bencode:"complete"`
	Incomplete int64 `bencode:"incomplete"`
}
type c08AScrape struct {
	Files map[string]c08AFile `bencode:"files"`
}
type c08AErr struct {
	FailureReason string `bencode:"failure reason"`
}

func c08kv(k string, v string) string { return "(" + cB([]byte(k)) + ", " + v + ")" }
func c08i(v int64) string             { return "(BInt " + cZ(v) + ")" }
func c08s(v string) string            { return "(BStr " + cB([]byte(v)) + ")" }

// c08Second returns the second decoder's reading as a Coq (option bval) in the
// shape of the response dictionary; shape: "compact", "dict", "scr", "err".
func c08Second(o *Out, shape string, body []byte) (string, string) {
	var msg string
	var out string
	func() {
		defer func() {
			if r := recover(); r != nil {
				msg = fmt.Sprint("panic: ", r)
			}
		}()
		var g interface{}
		if err := abencode.Unmarshal(body, &g); err != nil && strings.Contains(err.Error(), "unsorted") {
			n, _ := o.notes["bodies_whose_keys_are_not_sorted (refused by anacrolix's generic decoding, accepted by its typed decoding)"].(int)
			o.notes["bodies_whose_keys_are_not_sorted (refused by anacrolix's generic decoding, accepted by its typed decoding)"] = n + 1
		}
		switch shape {
		case "compact":
			var x c08ACompact
			if err := abencode.Unmarshal(body, &x); err != nil {
				msg = err.Error()
				return
			}
			it := []string{c08kv("complete", c08i(x.Complete)), c08kv("incomplete", c08i(x.Incomplete)), c08kv("interval", c08i(x.Interval)), c08kv("min interval", c08i(x.MinInterval))}
			if x.Peers != "" {
				it = append(it, c08kv("peers", c08s(x.Peers)))
			}
			if x.Peers6 != "" {
				it = append(it, c08kv("peers6", c08s(x.Peers6)))
			}
			out = "(BDict " + cList(it) + ")"
		case "dict":
			var x c08ADict
			if err := abencode.Unmarshal(body, &x); err != nil {
				msg = err.Error()
				return
			}
			ps := make([]string, len(x.Peers))
			for i, p := range x.Peers {
				ps[i] = "(BDict " + cList([]string{c08kv("peer id", c08s(p.ID)), c08kv("ip", c08s(p.IP)), c08kv("port", c08i(p.Port))}) + ")"
			}
			it := []string{c08kv("complete", c08i(x.Complete)), c08kv("incomplete", c08i(x.Incomplete)), c08kv("interval", c08i(x.Interval)), c08kv("min interval", c08i(x.MinInterval)),
				c08kv("peers", "(BList "+cList(ps)+")")}
			out = "(BDict " + cList(it) + ")"
		case "scr":
			var x c08AScrape
			if err := abencode.Unmarshal(body, &x); err != nil {
				msg = err.Error()
				return
			}
			keys := make([]string, 0, len(x.Files))
			for k := range x.Files {
				keys = append(keys, k)
			}
			sort.Strings(keys)
			fs := make([]string, len(keys))
			for i, k := range keys {
				fs[i] = c08kv(k, "(BDict "+cList([]string{c08kv("complete", c08i(x.Files[k].Complete)), c08kv("incomplete", c08i(x.Files[k].Incomplete))})+")")
			}
			out = "(BDict " + cList([]string{c08kv("files", "(BDict "+cList(fs)+")")}) + ")"
		default:
			var x c08AErr
			if err := abencode.Unmarshal(body, &x); err != nil {
				msg = err.Error()
				return
			}
			out = "(BDict " + cList([]string{c08kv("failure reason", c08s(x.FailureReason))}) + ")"
		}
	}()
	if msg != "" {
		return "None", msg
	}
	return "(Some " + out + ")", ""
}

// c08Write runs one writer against a ResponseRecorder.
func c08Write(f func(*httptest.ResponseRecorder) error) (body []byte, panicked bool, msg string) {
	rec := httptest.NewRecorder()
	func() {
		defer func() {
			if r := recover(); r != nil {
				panicked, msg = true, fmt.Sprint(r)
			}
		}()
		if err := f(rec); err != nil {
			msg = "error: " + err.Error()
		}
	}()
	return rec.Body.Bytes(), panicked, msg
}

func c08Finish(o *Out, kind, shape, head string, in map[string]interface{}, body []byte, panicked bool, msg string) {
	obs := map[string]interface{}{"panicked": panicked}
	if msg != "" {
		obs["msg"] = msg
	}
	if panicked {
		o.add(Case{Coq: head + " None None", In: in, Obs: obs, Kind: kind})
		return
	}
	if len(body) <= 600 {
		obs["body"] = hx(body)
	} else {
		obs["body_len"] = len(body)
		obs["body_head"] = hx(body[:200])
	}
	second, smsg := c08Second(o, shape, body)
	if smsg != "" {
		obs["second_decoder"] = smsg
	}
	o.add(Case{Coq: head + " (Some " + cB(body) + ") " + second, In: in, Obs: obs, Kind: kind})
}

// ---------------------------------------------------------------- announce

type c08Peer struct {
	ID   []byte
	IP   []byte
	Port uint16
}

func (p c08Peer) coq() string { return fmt.Sprintf("(%s, %s, %d)", cB(p.ID), cB(p.IP), p.Port) }
func (p c08Peer) js() interface{} {
	return []interface{}{hx(p.ID), hx(p.IP), int(p.Port)}
}
func c08PeerJS(x interface{}) c08Peer {
	a := x.([]interface{})
	return c08Peer{unhx(a[0]), unhx(a[1]), uint16(jInt(a[2]))}
}
func (p c08Peer) bt(af bittorrent.AddressFamily) bittorrent.Peer {
	var ip net.IP
	if p.IP != nil {
		ip = net.IP(append([]byte{}, p.IP...))
	}
	return bittorrent.Peer{ID: bittorrent.PeerIDFromBytes(p.ID), Port: p.Port, IP: bittorrent.IP{IP: ip, AddressFamily: af}}
}

type c08A struct {
	Compact              bool
	Complete, Incomplete uint32
	Interval, Min        int64
	V4, V6               []c08Peer
}

func c08Ann(o *Out, kind string, a c08A) {
	v4j, v6j := []interface{}{}, []interface{}{}
	v4c, v6c := []string{}, []string{}
	resp := &bittorrent.AnnounceResponse{Compact: a.Compact, Complete: a.Complete, Incomplete: a.Incomplete,
		Interval: time.Duration(a.Interval), MinInterval: time.Duration(a.Min)}
	for _, p := range a.V4 {
		v4j, v4c = append(v4j, p.js()), append(v4c, p.coq())
		resp.IPv4Peers = append(resp.IPv4Peers, p.bt(bittorrent.IPv4))
	}
	for _, p := range a.V6 {
		v6j, v6c = append(v6j, p.js()), append(v6c, p.coq())
		resp.IPv6Peers = append(resp.IPv6Peers, p.bt(bittorrent.IPv6))
	}
	in := map[string]interface{}{"t": "ann", "compact": a.Compact, "complete": a.Complete, "incomplete": a.Incomplete,
		"interval": fmt.Sprint(a.Interval), "min": fmt.Sprint(a.Min), "v4": v4j, "v6": v6j}
	body, panicked, msg := c08Write(func(w *httptest.ResponseRecorder) error { return chttp.WriteAnnounceResponse(w, resp) })
	head := fmt.Sprintf("CAnn %s %d %d %s %s %s %s", cBool(a.Compact), a.Complete, a.Incomplete, cZ(a.Interval), cZ(a.Min), cList(v4c), cList(v6c))
	c08Finish(o, kind, map[bool]string{true: "compact", false: "dict"}[a.Compact], head, in, body, panicked, msg)
}

// ---------------------------------------------------------------- scrape

type c08F struct {
	IH                   []byte
	Complete, Incomplete uint32
}

func c08Scr(o *Out, kind string, fs []c08F) {
	fj := []interface{}{}
	fc := []string{}
	resp := &bittorrent.ScrapeResponse{}
	for _, f := range fs {
		fj = append(fj, []interface{}{hx(f.IH), f.Complete, f.Incomplete})
		fc = append(fc, fmt.Sprintf("(%s, %d, %d)", cB(f.IH), f.Complete, f.Incomplete))
		resp.Files = append(resp.Files, bittorrent.Scrape{InfoHash: bittorrent.InfoHashFromBytes(f.IH), Snatches: 77, Complete: f.Complete, Incomplete: f.Incomplete})
	}
	in := map[string]interface{}{"t": "scr", "files": fj}
	body, panicked, msg := c08Write(func(w *httptest.ResponseRecorder) error { return chttp.WriteScrapeResponse(w, resp) })
	c08Finish(o, kind, "scr", "CScr "+cList(fc), in, body, panicked, msg)
}

// ---------------------------------------------------------------- errors

type c08Lookalike string

func (e c08Lookalike) Error() string { return string(e) }

// c08MkErr builds an error of the given shape; client reports the text a client
// must see (nil: the generic internal error).
func c08MkErr(shape string, msg, ctx []byte) (err error, client []byte) {
	ce := bittorrent.ClientError(msg)
	switch shape {
	case "client":
		return ce, msg
	case "wrap":
		return fmt.Errorf("%s: %w", ctx, ce), msg
	case "wrap2":
		return fmt.Errorf("outer %s: %w", ctx, fmt.Errorf("inner: %w", ce)), msg
	case "join":
		return errors.Join(errors.New(string(ctx)), ce), msg
	case "plain":
		return errors.New(string(ctx)), nil
	case "wrapplain":
		return fmt.Errorf("storage failure for %s: %w", msg, errors.New(string(ctx))), nil
	case "lookalike": // same text as a client error, but not a ClientError
		return c08Lookalike(msg), nil
	case "ptr": // *ClientError is an error but not a ClientError
		return &ce, nil
	case "eof":
		return io.ErrUnexpectedEOF, nil
	}
	panic("shape")
}

func c08Err(o *Out, kind, shape string, msg, ctx []byte) {
	c08ErrD(o, kind, shape, msg, ctx, false)
	// ... and with debug logging switched on (chihaya --debug): what the operator sees may grow, what the client is told may not
	c08ErrD(o, kind+"-debug", shape, msg, ctx, true)
}

func c08ErrD(o *Out, kind, shape string, msg, ctx []byte, debug bool) {
	err, client := c08MkErr(shape, msg, ctx)
	in := map[string]interface{}{"t": "err", "shape": shape, "msg": hx(msg), "ctx": hx(ctx), "debug": debug}
	if debug {
		log.SetDebug(true)
		defer log.SetDebug(false)
	}
	body, panicked, pmsg := c08Write(func(w *httptest.ResponseRecorder) error { return chttp.WriteError(w, err) })
	c08Finish(o, kind, "err", "CErr "+cOpt(client != nil, cB(client)), in, body, panicked, pmsg)
}

func c08Replay(o *Out, in map[string]interface{}) error {
	log.SetOutput(io.Discard)
	switch jStr(in["t"]) {
	case "ann":
		a := c08A{Compact: jBool(in["compact"]), Complete: uint32(jU64(in["complete"])), Incomplete: uint32(jU64(in["incomplete"])),
			Interval: jInt(in["interval"]), Min: jInt(in["min"])}
		for _, p := range in["v4"].([]interface{}) {
			a.V4 = append(a.V4, c08PeerJS(p))
		}
		for _, p := range in["v6"].([]interface{}) {
			a.V6 = append(a.V6, c08PeerJS(p))
		}
		c08Ann(o, "replay", a)
	case "scr":
		var fs []c08F
		for _, f := range in["files"].([]interface{}) {
			x := f.([]interface{})
			fs = append(fs, c08F{unhx(x[0]), uint32(jU64(x[1])), uint32(jU64(x[2]))})
		}
		c08Scr(o, "replay", fs)
	case "err":
		c08ErrD(o, "replay", jStr(in["shape"]), unhx(in["msg"]), unhx(in["ctx"]), jBool(in["debug"]))
	default:
		return fmt.Errorf("unknown case type")
	}
	return nil
}

// ---------------------------------------------------------------- generators

var c08Counts = []uint32{0, 1, 2, 9, 10, 255, 65535, 65536, 1 << 31, 1<<31 - 1, math.MaxUint32, math.MaxUint32 - 1}
var c08Durs = []int64{0, 1, -1, 999999999, 1000000000, 1000000001, 1500000000, 1999999999, -999999999, -1000000000, -1500000000, -1999999999,
	int64(30 * time.Minute), int64(15 * time.Minute), (1 << 31) * 1000000000, (1<<31 - 1) * 1000000000, (1<<31)*1000000000 + 999999999, (1 << 32) * 1000000000,
	math.MaxInt64, math.MinInt64, math.MaxInt64 - 807, -(1 << 31) * 1000000000}

func c08Count(rng *rand.Rand) uint32 {
	if rng.Intn(3) == 0 {
		return c08Counts[rng.Intn(len(c08Counts))]
	}
	if rng.Intn(2) == 0 {
		return uint32(rng.Intn(5000))
	}
	return rng.Uint32()
}
func c08Dur(rng *rand.Rand) int64 {
	switch rng.Intn(4) {
	case 0:
		return c08Durs[rng.Intn(len(c08Durs))]
	case 1:
		return int64(rng.Uint64())
	case 2:
		return int64(rng.Intn(7200))*1000000000 + int64(rng.Intn(3))*int64(rng.Intn(1000000000))
	default:
		return (rng.Int63n(1<<33) - 1<<31) * 1000000000
	}
}
func c08ID(rng *rand.Rand) []byte {
	id := make([]byte, 20)
	switch rng.Intn(4) {
	case 0:
		copy(id, "-TR2940-k8hj0wgej6ch")
	case 1: // bytes that look like bencode
		const al = "0123456789:ilde"
		for i := range id {
			id[i] = al[rng.Intn(len(al))]
		}
	default:
		rng.Read(id)
	}
	return id
}
func c08Port(rng *rand.Rand) uint16 {
	if rng.Intn(3) == 0 {
		return []uint16{0, 1, 80, 255, 256, 6881, 32767, 32768, 65535, 0x1234, 0xff00, 0x00ff}[rng.Intn(12)]
	}
	return uint16(rng.Intn(65536))
}
func c08IP4(rng *rand.Rand) []byte {
	ip := make([]byte, 4)
	rng.Read(ip)
	switch rng.Intn(6) {
	case 0:
		ip = []byte{0, 0, 0, 0}
	case 1:
		ip = []byte{255, 255, 255, 255}
	case 2:
		ip = []byte{10, 0, 100, 9}
	}
	if rng.Intn(3) == 0 { // 16-byte IPv4-mapped form
		return append([]byte{0, 0, 0, 0, 0, 0, 0, 0, 0, 0, 0xff, 0xff}, ip...)
	}
	return ip
}
func c08IP6(rng *rand.Rand) []byte {
	ip := make([]byte, 16)
	rng.Read(ip)
	switch rng.Intn(8) {
	case 0: // zero runs of assorted lengths and positions
		for g := 0; g < 8; g++ {
			if rng.Intn(2) == 0 {
				ip[2*g], ip[2*g+1] = 0, 0
			}
		}
	case 1:
		for g := 0; g < 8; g++ {
			if rng.Intn(4) != 0 {
				ip[2*g], ip[2*g+1] = 0, 0
			} else if rng.Intn(2) == 0 {
				ip[2*g] = 0
			}
		}
	case 2:
		ip = make([]byte, 16)
		ip[15] = 1
	case 3:
		ip = make([]byte, 16)
	case 4: // two runs of equal length
		ip = []byte{0x20, 1, 0, 0, 0, 0, 0, 1, 0, 0, 0, 0, 0, 7, 0, 8}
		if rng.Intn(2) == 0 {
			ip = []byte{0x20, 1, 0, 0, 0, 0, 0, 1, 0, 0, 0, 0, 0, 0, 0, 8}
		}
	case 5: // small groups: leading zeros dropped
		for g := 0; g < 8; g++ {
			ip[2*g] = 0
			if rng.Intn(2) == 0 {
				ip[2*g+1] &= 0x0f
			}
		}
	case 6: // IPv4-mapped address listed among the IPv6 peers
		ip = append([]byte{0, 0, 0, 0, 0, 0, 0, 0, 0, 0, 0xff, 0xff}, byte(rng.Intn(256)), byte(rng.Intn(256)), byte(rng.Intn(256)), byte(rng.Intn(256)))
	}
	return ip
}

func c08RandAnn(rng *rand.Rand, maxPeers int) c08A {
	a := c08A{Compact: rng.Intn(3) != 0, Complete: c08Count(rng), Incomplete: c08Count(rng), Interval: c08Dur(rng), Min: c08Dur(rng)}
	n4, n6 := 0, 0
	switch rng.Intn(5) {
	case 0:
	case 1:
		n4 = 1 + rng.Intn(maxPeers)
	case 2:
		n6 = 1 + rng.Intn(maxPeers)
	default:
		n4, n6 = rng.Intn(maxPeers+1), rng.Intn(maxPeers+1)
	}
	if rng.Intn(4) != 0 { // mostly small
		n4, n6 = n4%8, n6%8
	}
	for i := 0; i < n4; i++ {
		a.V4 = append(a.V4, c08Peer{c08ID(rng), c08IP4(rng), c08Port(rng)})
	}
	for i := 0; i < n6; i++ {
		a.V6 = append(a.V6, c08Peer{c08ID(rng), c08IP6(rng), c08Port(rng)})
	}
	return a
}

func c08Stream(o *Out, rng *rand.Rand, n int) {
	log.SetOutput(io.Discard)
	id := func(s string) []byte { return []byte((s + "--------------------")[:20]) }
	// ---- concurrent writers (each response depends only on its own request)
	c08Concurrent(o, rng, n/200+3, 32)
	// ---- corpus
	for _, c := range []bool{true, false} {
		c08Ann(o, "corpus-announce", c08A{Compact: c})
		c08Ann(o, "corpus-announce", c08A{Compact: c, Complete: math.MaxUint32, Incomplete: 1 << 31, Interval: int64(30 * time.Minute), Min: 1500000000,
			V4: []c08Peer{{id("a"), []byte{1, 2, 3, 4}, 0x1234}}})
		c08Ann(o, "corpus-announce", c08A{Compact: c, Interval: -1500000000, Min: math.MinInt64,
			V6: []c08Peer{{id("b"), net.ParseIP("2001:db8::1"), 6881}}})
		c08Ann(o, "corpus-announce", c08A{Compact: c, Interval: math.MaxInt64, Min: (1 << 31) * 1000000000,
			V4: []c08Peer{{id("c"), net.ParseIP("9.8.7.6"), 1}, {id("d"), []byte{0, 0, 0, 0}, 65535}},
			V6: []c08Peer{{id("e"), net.ParseIP("::"), 80}, {id("f"), net.ParseIP("::ffff:1.2.3.4"), 81}, {id("g"), net.ParseIP("1::"), 82},
				{id("h"), net.ParseIP("1:0:0:2:0:0:0:3"), 83}, {id("i"), net.ParseIP("1:0:0:2:3:0:0:4"), 84}, {id("j"), net.ParseIP("1:0:2:3:4:5:6:7"), 85},
				{id("k"), net.ParseIP("fe80::a:b:c:d"), 86}, {id("l"), net.ParseIP("0:0:1::"), 87}}})
		for _, d := range c08Durs {
			c08Ann(o, "corpus-duration", c08A{Compact: c, Complete: 1, Incomplete: 2, Interval: d, Min: -d})
		}
		// values the tracker logic never produces: wrong-family / malformed addresses
		c08Ann(o, "corpus-bad-address", c08A{Compact: c, V4: []c08Peer{{id("x"), net.ParseIP("2001:db8::1"), 1}}})
		c08Ann(o, "corpus-bad-address", c08A{Compact: c, V4: []c08Peer{{id("x"), nil, 1}}})
		c08Ann(o, "corpus-bad-address", c08A{Compact: c, V6: []c08Peer{{id("x"), []byte{1, 2, 3, 4, 5}, 1}}})
		c08Ann(o, "corpus-bad-address", c08A{Compact: c, V6: []c08Peer{{id("x"), []byte{1, 2, 3, 4}, 1}}})
	}
	ih := func(b byte) []byte { return append(make([]byte, 19), b) }
	c08Scr(o, "corpus-scrape", nil)
	c08Scr(o, "corpus-scrape", []c08F{{ih(1), 0, 0}})
	c08Scr(o, "corpus-scrape", []c08F{{ih(1), 1, 2}, {ih(2), math.MaxUint32, 1 << 31}, {ih(1), 3, 4}})
	c08Scr(o, "corpus-scrape", []c08F{{[]byte("d8:completei1e10:inc"), 5, 6}, {[]byte("0123456789:ilde-+ele"), 7, 8}})
	for _, m := range []string{"invalid IP", "invalid port", "resource does not exist", "", "failed to parse parameter: left", "caf\xc3\xa9 \xff\x00 binary", "d14:failure reason3:abce",
		"internal server error", strings.Repeat("x", 5000)} {
		for _, sh := range []string{"client", "wrap", "wrap2", "join", "lookalike", "ptr", "wrapplain"} {
			c08Err(o, "corpus-error", sh, []byte(m), []byte("redis: dial tcp 10.1.2.3:6379: connection refused; infohash=%AB%CD"))
		}
	}
	c08Err(o, "corpus-error", "eof", nil, nil)
	c08Err(o, "corpus-error", "plain", nil, []byte{})
	// ---- structured
	for i := 0; i < n; i++ {
		maxp := 50
		if i%25 == 0 {
			maxp = 400
		}
		c08Ann(o, "random-announce", c08RandAnn(rng, maxp))
	}
	for i := 0; i < n/3; i++ {
		k := rng.Intn(6)
		if rng.Intn(5) == 0 {
			k = rng.Intn(120)
		}
		var fs []c08F
		for j := 0; j < k; j++ {
			h := make([]byte, 20)
			rng.Read(h)
			if j > 0 && rng.Intn(5) == 0 {
				h = fs[rng.Intn(len(fs))].IH
			} else if rng.Intn(8) == 0 {
				h = c08ID(rng)
			}
			fs = append(fs, c08F{h, c08Count(rng), c08Count(rng)})
		}
		c08Scr(o, "random-scrape", fs)
	}
	shapes := []string{"client", "wrap", "wrap2", "join", "plain", "wrapplain", "lookalike", "ptr", "eof"}
	for i := 0; i < n/3; i++ {
		msg := make([]byte, rng.Intn(40))
		switch rng.Intn(3) {
		case 0:
			rng.Read(msg)
		case 1:
			msg = []byte("invalid " + strconv.Itoa(rng.Intn(1000)) + ": parameter")
		default:
			for j := range msg {
				msg[j] = "0123456789:ilde %"[rng.Intn(17)]
			}
		}
		ctx := make([]byte, 1+rng.Intn(60))
		rng.Read(ctx)
		c08Err(o, "random-error", shapes[rng.Intn(len(shapes))], msg, ctx)
	}
	// ---- malformed response values (not producible by the tracker logic)
	for i := 0; i < n/20+4; i++ {
		a := c08RandAnn(rng, 6)
		bad := c08Peer{c08ID(rng), make([]byte, []int{0, 1, 3, 5, 15, 16, 17, 32}[rng.Intn(8)]), c08Port(rng)}
		rng.Read(bad.IP)
		if rng.Intn(2) == 0 {
			a.V4 = append(a.V4, bad)
		} else {
			a.V6 = append(a.V6, bad)
		}
		c08Ann(o, "malformed-address", a)
	}
}
