(* Correspondence glue for C07 (UDP parsing, handleRequest up to the logic call). *)
From Chihaya Require Export Glue.G10 Model.UdpParse.
Open Scope Z_scope.

(* what ParseAnnounce returned *)
Inductive aobs :=
| AErr (msg : bytes)
| APanic
| AOk (ev : Z) (ih pid : bytes) (port dl lf ul nw : Z) (ip : bytes) (af : Z)
      (evp nwp ipp : bool) (rawquery rawpath : bytes) (lookups : list (bytes * option bytes)).
(* what ParseScrape returned *)
Inductive sobs := SErr (msg : bytes) | SPanic | SOk (ihs : list bytes).
(* the call that reached the spy logic behind handleRequest *)
Inductive hobs :=
| HNone
| HAnn (ev : Z) (ih pid : bytes) (port dl lf ul nw : Z) (ip : bytes) (af : Z)
| HScr (af : Z) (ihs : list bytes).

Inductive case07 :=
| CAnnP (v6action spoof : bool) (maxnw defnw : Z) (src : option bytes) (packet : bytes) (obs : aobs)
| CScrP (maxscrape : Z) (packet : bytes) (obs : sobs)
| CHand (key : bytes) (skew now : Z) (maxnw defnw maxscrape : Z) (ip packet : bytes) (macs : mactbl)
        (dgrams : list bytes) (panicked : bool) (call : hobs).

Definition af_code (f : family) : Z := match f with V4 => 0 | V6 => 1 end.
Definition err_text (e : err) : bytes := match e with ClientErr m => m | InternalErr => [] end.

Fixpoint lists_eqb (a b : list bytes) : bool :=
  match a, b with
  | [], [] => true
  | x :: a', y :: b' => bytes_eqb x y && lists_eqb a' b'
  | _, _ => false
  end.
Definition opt_bytes_eqb (a b : option bytes) : bool :=
  match a, b with
  | Some x, Some y => bytes_eqb x y
  | None, None => true
  | _, _ => false
  end.

(* clause-level comparison of the request fields the packet determines *)
Definition fields_reason (spoof : bool) (r : areq) (ev : Z) (ih pid : bytes) (port dl lf ul nw : Z) (ip : bytes) (af : Z) : Z :=
  if negb (event_code (r_event r) =? ev) then 2
  else if negb (bytes_eqb (r_ih r) ih) then 3
  else if negb (bytes_eqb (p_id (r_peer r)) pid) then 4
  else if negb (p_port (r_peer r) =? port) then 5
  else if negb ((r_downloaded r =? dl) && (r_left r =? lf) && (r_uploaded r =? ul)) then 6
  else if negb (r_numwant r =? nw) then 7
  else if negb (bytes_eqb (p_ip (r_peer r)) ip && (af_code (r_af r) =? af)) then (if spoof then 120 else 8)
  else 0.

Definition ann_tag (v6action : bool) (m : outcome (areq * qparams)) (packet : bytes) : Z :=
  (if v6action then 10 else 0) +
  match m with
  | Panic => 9
  | Accept (_, q) => match q_query q, q_path q with [], [] => 0 | _, _ => 1 end
  | Reject e =>
    if err_eqb e errMalformedPacket then (if Nat.ltb (length packet) (ip_end v6action + 10) then 2 else 3)
    else if err_eqb e errMalformedEvent then 4
    else if err_eqb e errUnknownOptionType then 5
    else if err_eqb e ErrInvalidPort then 6
    else if err_eqb e errMalformedIP || err_eqb e ErrInvalidIP then 7
    else 8 (* URL data errors *)
  end.

Definition chk07 (c : case07) : verdict :=
  match c with
  | CAnnP v6action spoof maxnw defnw src packet obs =>
    let o := {| o_spoof := spoof; o_max_nw := maxnw; o_def_nw := defnw; o_max_scrape := 50 |} in
    let m := parse_announce v6action o src packet in
    (ann_tag v6action m packet,
     match obs, m with
     | APanic, _ => 9
     | _, Panic => 1
     | AErr msg, Reject e => if bytes_eqb msg (err_text e) then 0 else 110
     | AErr _, Accept _ => 1
     | AOk _ _ _ _ _ _ _ _ _ _ _ _ _ _ _ _, Reject _ => 1
     | AOk ev ih pid port dl lf ul nw ip af evp nwp ipp rq rp lookups, Accept (r, q) =>
       let fr := fields_reason spoof r ev ih pid port dl lf ul nw ip af in
       if negb (fr =? 0) then fr
       else if negb (Bool.eqb (r_event_provided r) evp && Bool.eqb (r_numwant_provided r) nwp && Bool.eqb (r_ip_provided r) ipp) then 111
       else if negb (bytes_eqb (q_query q) rq && bytes_eqb (q_path q) rp) then 112
       else if negb (forallb (fun kv => opt_bytes_eqb (q_string q (fst kv)) (snd kv)) lookups) then 113
       else 0
     end)
  | CScrP maxscrape packet obs =>
    let o := {| o_spoof := false; o_max_nw := 100; o_def_nw := 50; o_max_scrape := maxscrape |} in
    let m := parse_scrape o packet in
    (match m with
     | Panic => 29
     | Reject _ => if Nat.ltb (length packet) 36 then 21 else 22
     | Accept l => if Z.of_nat (Nat.div (length packet - 16) 20) >? maxscrape then 24 else 23
     end,
     match obs, m with
     | SPanic, _ => 9
     | _, Panic => 21
     | SErr msg, Reject e => if bytes_eqb msg (err_text e) then 0 else 110
     | SErr _, Accept _ => 21
     | SOk _, Reject _ => 21
     | SOk l, Accept l' => if lists_eqb l l' then 0 else 22
     end)
  | CHand key skew now maxnw defnw maxscrape ip packet macs dgrams panicked call =>
    let mac := mac_of macs in
    let o := {| o_spoof := false; o_max_nw := maxnw; o_def_nw := defnw; o_max_scrape := maxscrape |} in
    let m := handle_udp mac key skew now o ip packet in
    let txid := sub 12 16 packet in
    let nd := Z.of_nat (length dgrams) in
    let no_call := match call with HNone => true | _ => false end in
    (match m with
     | USilent => if Nat.ltb (length packet) 16 then 40 else 41
     | UReply d => if be_dec (sub 8 12 packet) =? 0 then 42
                   else if validate mac key (sub 0 8 packet) ip now skew then
                     (if bytes_eqb d (write_error_msg txid unknown_action_id) then 43 else 44)
                   else 45
     | UPanic => 49
     | UAnnounce _ v6 _ _ => if v6 then 47 else 46
     | UScrape _ _ _ => 48
     end,
     if negb (mac_has macs key (sub 0 4 packet ++ ip) || Nat.ltb (length packet) 16) then 199
     else if negb (mac_has macs key (ts4 now ++ ip)) then 199
     else match m with
     | UPanic => if panicked then 0 else 130
     | _ =>
       if panicked then 9 else
       match m with
       | USilent => if negb no_call then 34 else if negb (nd =? 0) then 31 else 0
       | UReply d =>
         if negb no_call then 34
         else match dgrams with
              | [r] =>
                if be_dec (sub 8 12 packet) =? 0 then (if bytes_eqb r d then 0 else 131)
                else if negb (is_error_for txid r) then 32
                else if bytes_eqb r d then 0 else 132
              | _ => 32
              end
       | UAnnounce _ v6 r q =>
         match call with
         | HAnn ev ih pid port dl lf ul nw ip' af =>
           let fr := fields_reason false r ev ih pid port dl lf ul nw ip' af in
           if negb (fr =? 0) then fr
           else match dgrams with
                | [d] => if bytes_eqb (firstn 8 d) (be32 (if v6 then 4 else 1) ++ txid) then 0 else 35
                | _ => 35
                end
         | _ => 33
         end
       | UScrape _ af ihs =>
         match call with
         | HScr af' ihs' =>
           if negb (lists_eqb ihs ihs') then 22
           else if negb (af_code af =? af') then 36
           else match dgrams with
                | [d] => if bytes_eqb (firstn 8 d) (be32 2 ++ txid) then 0 else 35
                | _ => 35
                end
         | _ => 33
         end
       | UPanic => 0
       end
     end)
  end.

(* what the model expected, for replay files *)
Inductive expl07 :=
| EAnn (m : outcome (areq * qparams))
| EScr (m : outcome (list bytes))
| EHand (m : udp_outcome).
Definition explain07 (c : case07) : expl07 :=
  match c with
  | CAnnP v6action spoof maxnw defnw src packet _ =>
    EAnn (parse_announce v6action {| o_spoof := spoof; o_max_nw := maxnw; o_def_nw := defnw; o_max_scrape := 50 |} src packet)
  | CScrP maxscrape packet _ =>
    EScr (parse_scrape {| o_spoof := false; o_max_nw := 100; o_def_nw := 50; o_max_scrape := maxscrape |} packet)
  | CHand key skew now maxnw defnw maxscrape ip packet macs _ _ _ =>
    EHand (handle_udp (mac_of macs) key skew now
             {| o_spoof := false; o_max_nw := maxnw; o_def_nw := defnw; o_max_scrape := maxscrape |} ip packet)
  end.
