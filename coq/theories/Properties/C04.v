(* C04 - Concurrent requests behave as if processed one at a time. *)
From Chihaya Require Import Model.History Model.Conc Proofs.MemP Proofs.RedisP Proofs.ConcP.
Open Scope Z_scope.

(* ---- memory store *)
(* the per-swarm steps of an expiry pass compose, in any order, to the whole pass (the pass is not atomic across swarms by design) *)
Theorem C04_mem_pass_is_per_swarm_steps : forall T sh, swarms (shard_gc T sh) = sm_gc T (swarms sh).
Proof. exact shard_gc_swarms. Qed.
Print Assumptions C04_mem_pass_is_per_swarm_steps.

(* ---- Redis store, round-trip granularity.  EVERY schedule of announce-type threads (possibly in the
   middle of their scripts): the hashes are those of the sequential run of the operations in the order
   of their membership round-trips, and every counter differs from the sequential one exactly by the
   counter round-trips still pending *)
Theorem C04_redis_hashes_equiv_sequential : forall (ts : list rthread) sh sched,
  Forall rthread_announce ts ->
  let final := rrun sched (sh, ts) in
  let seq := red_apply_all (rstarted sched (sh, ts)) (rst sh) in
  hs (rst final.1) = hs seq /\
  forall c, r_get c (rst final.1) + rpending c final.2 = r_get c seq + rpending c ts.
Proof. exact redis_hashes_equiv_sequential. Qed.
Print Assumptions C04_redis_hashes_equiv_sequential.

(* once all announce operations have finished: membership AND counters are those of a sequential ordering *)
Theorem C04_redis_quiescent_equiv_sequential : forall (oss : list (list rop)) sh sched,
  let m0 := (sh, map rop_thread oss) in
  complete rsem sched m0 ->
  let final := rrun sched m0 in
  let seq := red_apply_all (rstarted sched m0) (rst sh) in
  hs (rst final.1) = hs seq /\ forall c, r_get c (rst final.1) = r_get c seq.
Proof. exact redis_quiescent_equiv_sequential. Qed.
Print Assumptions C04_redis_quiescent_equiv_sequential.

(* that ordering is a genuine sequential ordering of the issued operations: a permutation of all of
   them which keeps every thread's program order *)
Theorem C04_redis_first_roundtrip_order : forall (oss : list (list rop)) sh sched,
  let m0 := (sh, map rop_thread oss) in
  complete rsem sched m0 ->
  rstarted sched m0 ≡ₚ concat oss /\ forall j os, oss !! j = Some os -> rstarted_by j sched m0 = os.
Proof. exact redis_first_roundtrip_order. Qed.
Print Assumptions C04_redis_first_roundtrip_order.

(* the machine runs (non-vacuity): a complete 12-choice schedule of two threads on one swarm *)
Theorem C04_redis_quiescent_example :
  let m0 := (rshared_of redis_init, map rop_thread conc_ex_oss) in
  let final := rrun conc_ex_sched m0 in
  finishedb final = true /\
  rstarted conc_ex_sched m0 =
    [RPutSeeder conc_ex_ih false conc_ex_pk 100; RPutLeecher conc_ex_ih false conc_ex_pk2 101;
     RGraduate conc_ex_ih false conc_ex_pk2 102; RDelSeeder conc_ex_ih false conc_ex_pk2] /\
  map_to_list (r_hash (k_swarm false true conc_ex_ih) (rst final.1)) = [(conc_ex_pk, 100)] /\
  r_hash (k_swarm false false conc_ex_ih) (rst final.1) = ∅ /\
  red_prom (rst final.1) = (1, 1, 0) /\
  map (fun t => outs (loc t)) final.2 = [[[1; 1]; [1]]; [[1; 1]; [1; 1; 0]]].
Proof. exact redis_quiescent_example. Qed.
Print Assumptions C04_redis_quiescent_example.

(* with an expiry pass among the threads the statement is FALSE of the faithful model (finding F10):
   a kernel-checked schedule on which the pass removes a member re-announced after the cutoff,
   although both sequential orderings keep it *)
Theorem C04_redis_gc_removes_fresh_refuted :
  exists (h0 : list sop) (ih : list Z) (v6 : bool) (pk : list Z) (T t : Z) (sched : list nat),
    Forall sop_wf h0 /\ ih_wf ih /\ T < t /\
    let st0 := run_redis h0 in
    let final := rrun sched (rshared_of st0, [rgc_thread T; rop_thread [RPutSeeder ih v6 pk t]]) in
    (exists t0, r_hash (k_swarm v6 true ih) st0 !! pk = Some t0 /\ t0 <= T) /\
    finishedb final = true /\
    r_hash (k_swarm v6 true ih) (rst final.1) !! pk = None /\
    r_hash (k_swarm v6 true ih) (red_gc T (red_put_seeder ih v6 pk t st0)) !! pk = Some t /\
    r_hash (k_swarm v6 true ih) (red_put_seeder ih v6 pk t (red_gc T st0)) !! pk = Some t.
Proof. exact redis_gc_removes_fresh_refuted. Qed.
Print Assumptions C04_redis_gc_removes_fresh_refuted.
