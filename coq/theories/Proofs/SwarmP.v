(* Lemmas about swarm maps (Model/Swarm.v). *)
From Chihaya Require Import Model.Swarm.
Open Scope Z_scope.

Section SwarmMap.
  Context {K : Type} `{Countable K}.
  Implicit Types (m : gmap K swarm) (k : K) (pk : list Z).

  Lemma swarm_empty_iff sw : swarm_empty sw = true ↔ seeders sw = ∅ ∧ leechers sw = ∅.
  Proof.
    unfold swarm_empty. rewrite andb_true_iff, !Nat.eqb_eq, !map_size_empty_iff. done.
  Qed.

  Lemma sm_get_set k sw m : sm_get k (sm_set k sw m) = if swarm_empty sw then empty_swarm else sw.
  Proof.
    unfold sm_get, sm_set. destruct (swarm_empty sw).
    - by rewrite lookup_delete.
    - by rewrite lookup_insert.
  Qed.

  Lemma sm_set_ne k k' sw m : k ≠ k' → sm_set k sw m !! k' = m !! k'.
  Proof.
    intros Hne. unfold sm_set. destruct (swarm_empty sw).
    - by rewrite lookup_delete_ne.
    - by rewrite lookup_insert_ne.
  Qed.

  (* announcing with nothing left lists the peer as a seeder, with the current clock *)
  Lemma put_seeder_listed k pk t m :
    seeders (sm_get k (sm_put_seeder k pk t m).1) !! pk = Some t.
  Proof. unfold sm_put_seeder, sm_get. cbn. rewrite lookup_insert. cbn. by rewrite lookup_insert. Qed.

  Lemma put_leecher_listed k pk t m :
    leechers (sm_get k (sm_put_leecher k pk t m).1) !! pk = Some t.
  Proof. unfold sm_put_leecher, sm_get. cbn. rewrite lookup_insert. cbn. by rewrite lookup_insert. Qed.
End SwarmMap.
