//go:build verif

// Command verifharness drives chihaya's implementation for the correspondence
// checks of /verif.  It is compiled into the chihaya module through
// `go build -overlay` (it does not exist inside /repo) and writes Coq case
// files that the model evaluates.
package main

import (
	"flag"
	"fmt"
	"math/rand"
	"os"
	"sort"
)

type streamFn func(o *Out, rng *rand.Rand, n int)
type replayFn func(o *Out, in map[string]interface{}) error

type propDef struct {
	glue    string // Coq glue module (Glue.<glue>)
	ctype   string // Coq case type
	chk     string // Coq checker
	stream  streamFn
	replay  replayFn
	shard   int
	prelude string // extra Coq vernacular placed before the case list
}

var props = map[string]*propDef{}

func main() {
	prop := flag.String("prop", "", "property id")
	seed := flag.Int64("seed", 1, "PRNG seed")
	n := flag.Int("n", 100, "number of generated cases (stream specific scale)")
	out := flag.String("out", "", "output directory")
	replay := flag.String("replay", "", "replay file (JSON with an \"in\" object)")
	chk := flag.String("chk", "", "Coq checker to apply (default: the property's own)")
	flag.Parse()
	p, ok := props[*prop]
	if !ok {
		var names []string
		for k := range props {
			names = append(names, k)
		}
		sort.Strings(names)
		fmt.Fprintf(os.Stderr, "unknown property %q; known: %v\n", *prop, names)
		os.Exit(2)
	}
	if err := os.MkdirAll(*out, 0o755); err != nil {
		panic(err)
	}
	if *chk != "" && *chk != p.chk {
		cp := *p
		cp.chk = *chk
		p = &cp
	}
	o := newOut(*out, p)
	if *replay != "" {
		in, err := readReplayInput(*replay)
		if err != nil {
			fmt.Fprintln(os.Stderr, "replay:", err)
			os.Exit(2)
		}
		if err := p.replay(o, in); err != nil {
			fmt.Fprintln(os.Stderr, "replay:", err)
			os.Exit(2)
		}
	} else {
		rng := rand.New(rand.NewSource(*seed))
		p.stream(o, rng, *n)
	}
	if err := o.flush(); err != nil {
		fmt.Fprintln(os.Stderr, "flush:", err)
		os.Exit(2)
	}
}
