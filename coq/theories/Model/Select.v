(* AnnouncePeers of both stores: a reference selection function (what the code
   does for a given iteration order of the two sets) and an order-insensitive
   checker that accepts exactly the selections property C02 allows.
   Lists of serialised peer keys; stdlib only.  Definitions only. *)
From Chihaya Require Export Model.Peer.
Open Scope Z_scope.

Definition kmem (k : bytes) (l : list bytes) : bool := existsb (bytes_eqb k) l.
Definition kcount (k : bytes) (l : list bytes) : Z := Z.of_nat (length (List.filter (bytes_eqb k) l)).
Definition kremove (k : bytes) (l : list bytes) : list bytes := List.filter (fun x => negb (bytes_eqb k x)) l.
Fixpoint kdedup (l : list bytes) : list bytes :=
  match l with
  | [] => []
  | x :: r => if kmem x r then kdedup r else x :: kdedup r
  end.
Definition b2z (b : bool) : Z := if b then 1 else 0.
Definition ztake {A} (n : Z) (l : list A) : list A := firstn (Z.to_nat n) l.
Definition zlen {A} (l : list A) : Z := Z.of_nat (length l).

(* what the code returns when its map / HKEYS iteration yields S and L in this order *)
Definition select_ref (S L : list bytes) (ann : bytes) (seeder : bool) (nw : Z) : list bytes :=
  if seeder then ztake nw L
  else let rs := ztake nw S in rs ++ ztake (nw - zlen rs) (kremove ann L).

(* the two candidate pools and the two quotas *)
Definition pool_s (S : list bytes) (seeder : bool) : list bytes := if seeder then [] else S.
Definition pool_l (L : list bytes) (ann : bytes) (seeder : bool) : list bytes :=
  if seeder then L else kremove ann L.
Definition quota_s (S : list bytes) (seeder : bool) (nw : Z) : Z := Z.min nw (zlen (pool_s S seeder)).
Definition quota_l (S L : list bytes) (ann : bytes) (seeder : bool) (nw : Z) : Z :=
  Z.min (nw - quota_s S seeder nw) (zlen (pool_l L ann seeder)).

(* clause: at most numwant peers *)
Definition sel_size_ok (nw : Z) (res : list bytes) : bool := zlen res <=? nw.
(* clause: every returned peer is a current member, returned at most once per listing *)
Definition sel_members_ok (S L : list bytes) (seeder : bool) (res : list bytes) : bool :=
  forallb (fun k => kcount k res <=? b2z (kmem k (pool_s S seeder)) + b2z (kmem k L)) res.
(* clause: a leecher never receives its own leecher entry *)
Definition sel_no_self (S : list bytes) (ann : bytes) (seeder : bool) (res : list bytes) : bool :=
  seeder || (kcount ann res <=? b2z (kmem ann S)).
(* clause: as many as the swarm can offer, seeders before leechers: the result
   splits into quota_s keys from the seeder pool and quota_l from the leecher pool *)
Definition sel_split_ok (S L : list bytes) (ann : bytes) (seeder : bool) (nw : Z) (res : list bytes) : bool :=
  let ps := pool_s S seeder in
  let pl := pool_l L ann seeder in
  let d := kdedup res in
  let twice := zlen (List.filter (fun k => kcount k res =? 2) d) in
  let once := List.filter (fun k => kcount k res =? 1) d in
  let only_s := zlen (List.filter (fun k => kmem k ps && negb (kmem k pl)) once) in
  let only_l := zlen (List.filter (fun k => negb (kmem k ps) && kmem k pl) once) in
  let flex := zlen (List.filter (fun k => kmem k ps && kmem k pl) once) in
  let a := quota_s S seeder nw in
  let b := quota_l S L ann seeder nw in
  (twice + only_s <=? a) && (a <=? twice + only_s + flex) &&
  (twice + only_s + twice + only_l + flex =? a + b) &&
  forallb (fun k => kcount k res <=? b2z (kmem k ps) + b2z (kmem k pl)) res.

Definition ok_selection (S L : list bytes) (ann : bytes) (seeder : bool) (nw : Z) (res : list bytes) : bool :=
  sel_size_ok nw res && sel_members_ok S L seeder res && sel_no_self S ann seeder res &&
  sel_split_ok S L ann seeder nw res.
