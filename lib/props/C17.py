"""C17 - swarm membership and counts follow the announce history."""
from hist_common import HIST_REASONS, HIST_TAGS, HIST_ASSUMPTIONS, HIST_RULE

from conc_common import conc_part
PROP = {
    "parts": [conc_part("chk17c", 100, 4000)],
    "mutex_rewrite": True,
    "glue": "GH", "chk": "chk17", "explain": "explainH",
    "gotags": ["shim_memory", "shim_redis", "shim_timecache"],
    "n": {"quick": 120, "thorough": 1500},
    "rule": HIST_RULE + " Emphasis C17: totals after many operations incl. repeated puts, deletes of absent peers, expiry of whole swarms.",
    "tags": HIST_TAGS, "reasons": HIST_REASONS, "assumptions": HIST_ASSUMPTIONS,
    "trivial_tags": [], "min_tags": 4,
    "explanation": "mem_prom_exact (memory store: the EXPORTED totals - swarms, seeders, leechers summed over all shards by populateProm - equal, after ANY history, the number of tracked swarms and the memberships stored in the specification, as uint64; rests on mem_swarms_at_home: every swarm lives in the shard its infohash and family select and nowhere else, and on generic lemmas about sums over maps in bijection / cut into classes). Coq theorems: in every reachable state of the memory store each shard's uint64 counters equal a recount of that shard modulo 2^64 (no decrement ever happens on a zero counter), proved by invariant over all histories; Redis counters equal the specification's totals after every sequential history (Proofs/RedisP.v). Tied to the code by reading, after generated histories, the per-shard counters, a recount through an overlay shim (memory) or directly from miniredis (Redis), and the Prometheus gauges after populateProm.",
}

CLAIM = {
    "text": "Coq theorems: in every reachable state of the memory store each shard's uint64 counters equal a recount of that shard modulo 2^64 (no decrement ever happens on a zero counter), proved by invariant over all histories; Redis counters equal the specification's totals after every sequential history (Proofs/RedisP.v). Tied to the code by reading, after generated histories, the per-shard counters, a recount through an overlay shim (memory) or directly from miniredis (Redis), and the Prometheus gauges after populateProm.",
    "design_ref": "DESIGN.md section 8, C17",
    "note": 'PARTIAL for concurrent Redis expiry passes (DESIGN 9.A F11, known finding). Trusted: as C01.',
    "technique": "Coq refinement/invariant proofs over executable Gallina store models + differential history correspondence (vm_compute)",
}
