(* Model of frontend/udp/connection_id.go (Generate, Validate) and of the part of
   frontend/udp/frontend.go:handleRequest that decides whether a datagram is
   handed to the parsers and the tracker logic.   Definitions only.

   Times are Z nanoseconds since the Unix epoch (time.Unix(0, ns)); durations
   are Z nanoseconds.  time.Time arithmetic is exact for the values that occur
   (|now|, |skew| < 2^62 ns: no saturation in Time.Add), so After/Add are the
   integer comparisons and sums below. *)
From Chihaya Require Export Model.UdpWrite.
Open Scope Z_scope.

Definition ns_per_s : Z := 1000000000.
(* const ttl = 2 * time.Minute *)
Definition ttl_ns : Z := 120 * ns_per_s.
(* Time.Unix(): whole seconds, rounded toward minus infinity *)
Definition unix_seconds (now : Z) : Z := now / ns_per_s.
(* the four timestamp bytes: PutUint32(uint32(now.Unix())) *)
Definition ts4 (now : Z) : bytes := be32 (wrap32 (unix_seconds now)).

(* initialConnectionID = 0x41727101980 *)
Definition initial_connection_id : bytes := [0; 0; 4; 23; 39; 16; 25; 128].

Definition bad_connection_id : bytes := s2b "bad connection ID".
Definition unknown_action_id : bytes := s2b "unknown action ID".

(* what handleRequest does with a datagram before any body parsing *)
Inductive dispatch :=
| DSilent                          (* nothing is sent, nothing is invoked *)
| DReply (datagram : bytes)        (* exactly this datagram is sent, nothing is invoked *)
| DPanic                           (* the explicit panic for a source IP that is neither v4 nor v6 *)
| DBody (action : Z) (txid : bytes). (* on to ParseAnnounce/ParseScrape and, if that succeeds, the logic *)

(* r.IP.To4() != nil -> IPv4; len == 16 -> IPv6; otherwise the code panics *)
Definition ip_family (ip : bytes) : option family :=
  match to4 ip with
  | Some _ => Some V4
  | None => if Nat.eqb (length ip) 16 then Some V6 else None
  end.

Section ConnID.
  (* HMAC-SHA256 oracle: key, message -> 32 bytes *)
  Variable mac : bytes -> bytes -> bytes.

  (* mac.Write(ts); mac.Write(ip); Sum; first four bytes *)
  Definition tag (k ts ip : bytes) : bytes := firstn 4 (mac k (ts ++ ip)).

  Definition generate (k ip : bytes) (now : Z) : bytes :=
    ts4 now ++ tag k (ts4 now) ip.

  (* seconds field of an ID as nanoseconds: time.Unix(int64(Uint32(id[:4])), 0) *)
  Definition id_time (id : bytes) : Z := be_dec (sub 0 4 id) * ns_per_s.

  Definition validate (k id ip : bytes) (now skew : Z) : bool :=
    if (now >? id_time id + ttl_ns) || (id_time id >? now + skew) then false
    else bytes_eqb (tag k (sub 0 4 id) ip) (skipn 4 id).

  (* connectionID[:4] panics on a slice shorter than four bytes (only reachable
     through the exported ValidConnectionID; handleRequest always passes 8) *)
  Definition validate_checked (k id ip : bytes) (now skew : Z) : option bool :=
    if Nat.ltb (length id) 4 then None else Some (validate k id ip now skew).

  Definition dispatch_request (k : bytes) (skew now : Z) (ip packet : bytes) : dispatch :=
    if Nat.ltb (length packet) 16 then DSilent else
    let connid := sub 0 8 packet in
    let action := be_dec (sub 8 12 packet) in
    let txid := sub 12 16 packet in
    if negb (action =? act_connect) && negb (validate k connid ip now skew)
    then DReply (write_error_msg txid bad_connection_id)
    else if action =? act_connect then
      if negb (bytes_eqb connid initial_connection_id) then DSilent
      else match ip_family ip with
           | None => DPanic
           | Some _ => DReply (write_connection_id txid (generate k ip now))
           end
    else if (action =? act_announce) || (action =? act_announce_v6) || (action =? act_scrape)
    then DBody action txid
    else DReply (write_error_msg txid unknown_action_id).

  (* The whole handler over an abstract tracker state: [body] stands for
     everything behind the dispatcher (parsers, logic, hooks, store, writers)
     and returns the new state, the datagrams sent and the calls made to the
     logic.  None = panic. *)
  Section Handle.
    Variable St : Type.
    Variable Call : Type.
    Variable body : St -> Z -> bytes -> bytes -> St * list bytes * list Call.
    Definition handle (st : St) (k : bytes) (skew now : Z) (ip packet : bytes)
      : option (St * list bytes * list Call) :=
      match dispatch_request k skew now ip packet with
      | DSilent => Some (st, [], [])
      | DReply d => Some (st, [d], [])
      | DPanic => None
      | DBody a _ => Some (body st a packet ip)
      end.
  End Handle.
End ConnID.
