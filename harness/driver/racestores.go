//go:build verif && verif_conc

package main

import (
	"fmt"
	"math/rand"
	"net"
	"sync"
	"time"

	"github.com/alicebob/miniredis"

	"github.com/chihaya/chihaya/bittorrent"
	"github.com/chihaya/chihaya/storage"
	"github.com/chihaya/chihaya/storage/memory"
	redisstore "github.com/chihaya/chihaya/storage/redis"
)

// raceStores hammers both store implementations from many goroutines (puts, deletes, graduations,
// selections, scrapes, expiry passes, gauge updates) - only meaningful under the race detector.
func raceStores(rng *rand.Rand, n int) {
	huge := 1000 * time.Hour
	mem, err := memory.New(memory.Config{ShardCount: 2, GarbageCollectionInterval: huge, PrometheusReportingInterval: huge, PeerLifetime: huge})
	if err != nil {
		panic(err)
	}
	mr, err := miniredis.Run()
	if err != nil {
		panic(err)
	}
	red, err := redisstore.New(redisstore.Config{RedisBroker: "redis://@" + mr.Addr() + "/0", GarbageCollectionInterval: huge, PrometheusReportingInterval: huge, PeerLifetime: huge,
		RedisReadTimeout: 30 * time.Second, RedisWriteTimeout: 30 * time.Second, RedisConnectTimeout: 30 * time.Second})
	if err != nil {
		panic(err)
	}
	for si, ps := range []storage.PeerStore{mem, red} {
		var wg sync.WaitGroup
		ops := n/2 + 20
		if si == 1 {
			ops = n/8 + 10
		}
		for g := 0; g < 8; g++ {
			seed := rng.Int63()
			wg.Add(1)
			go func(g int) {
				defer wg.Done()
				lr := rand.New(rand.NewSource(seed))
				for i := 0; i < ops; i++ {
					var ih bittorrent.InfoHash
					ih[0] = byte(lr.Intn(3))
					p := bittorrent.Peer{Port: uint16(1 + lr.Intn(3)), IP: bittorrent.IP{IP: net.IP{10, 0, 0, byte(1 + lr.Intn(3))}, AddressFamily: bittorrent.IPv4}}
					p.ID[0] = byte(lr.Intn(3))
					switch lr.Intn(9) {
					case 0, 1:
						_ = ps.PutSeeder(ih, p)
					case 2, 3:
						_ = ps.PutLeecher(ih, p)
					case 4:
						_ = ps.DeleteSeeder(ih, p)
					case 5:
						_ = ps.GraduateLeecher(ih, p)
					case 6:
						_, _ = ps.AnnouncePeers(ih, lr.Intn(2) == 0, 5, p)
					case 7:
						_ = ps.ScrapeSwarm(ih, bittorrent.IPv4)
					default:
						if g == 0 {
							if si == 0 {
								_ = memory.VerifGC(ps, time.Now().UnixNano())
								memory.VerifPopulateProm(ps)
							} else {
								_ = redisstore.VerifGC(ps, time.Now().UnixNano())
								redisstore.VerifPopulateProm(ps)
							}
						}
					}
				}
			}(g)
		}
		wg.Wait()
	}
	<-mem.Stop()
	<-red.Stop()
	mr.Close()
}

// RACE: the same real-concurrency workloads, meant to be run from a driver built with -race:
// concurrent datagrams through the real UDP frontend, and concurrent operations on both stores.
func init() {
	props["RACE"] = &propDef{glue: "GE", ctype: "ecase", chk: "chkE04", stream: raceStream, replay: func(*Out, map[string]interface{}) error {
		return fmt.Errorf("not replayable case by case; re-run the check")
	}, shard: 4, prelude: "From Chihaya Require Import Glue.G06 Glue.G10."}
}

func raceStream(o *Out, rng *rand.Rand, n int) {
	for r := 0; r < n/40+1; r++ {
		stressRound(o, rng, 24, 5)
		stressAnnRound(o, rng, 24, 4)
	}
	raceStores(rng, n)
}

